(* C11 — proofs about Model/C11AuthZ.v *)
From Coq Require Import ZArith List Bool Lia Arith.
From V Require Import Bytes StrGo BytesLemmas CanonProofs C16PathMatch C16PathMatchProofs C11AuthZ.
Import ListNotations.
Open Scope Z_scope.

(* ------------------------------------------------------------------ *)
(* A. the implementation's permission check is the reference monitor's *)

Lemma user_validate_spec u right path :
  user_validate u right path = permits (u_admin u, u_push u, u_pull u) right path.
Proof.
  unfold user_validate, permits, access_of. rewrite matcher_refines_spec.
  destruct (right =? PUSH); reflexivity.
Qed.

Lemma perm_go_spec t name right path :
  perm_go t name right path =
  match rights_now t name with Some r => permits r right path | None => false end.
Proof.
  unfold perm_go, rights_now. destruct (find_user t name) as [u|]; [|reflexivity].
  apply user_validate_spec.
Qed.

Lemma perm_go_pull t name path : perm_go t name PULL path = spec_allows t name APull path.
Proof. rewrite perm_go_spec. unfold spec_allows. destruct (rights_now t name); reflexivity. Qed.

Lemma perm_go_push t name path : perm_go t name PUSH path = spec_allows t name APush path.
Proof. rewrite perm_go_spec. unfold spec_allows. destruct (rights_now t name); reflexivity. Qed.

(* ------------------------------------------------------------------ *)
(* B. the token map against the history of issues                       *)

Lemma tokv_eqb_refl t : tokv_eqb t t = true.
Proof. destruct t; simpl; auto using Nat.eqb_refl, bytes_eqb_refl. Qed.

Lemma tokv_eqb_eq a b : tokv_eqb a b = true <-> a = b.
Proof.
  split; [|intros ->; apply tokv_eqb_refl].
  destruct a, b; simpl; try discriminate; auto.
  - intros H. apply Nat.eqb_eq in H. congruence.
  - intros H. apply Nat.eqb_eq in H. congruence.
  - intros H. apply bytes_eqb_eq in H. congruence.
Qed.

Lemma tokv_eqb_neq a b : a <> b -> tokv_eqb a b = false.
Proof. intros H. destruct (tokv_eqb a b) eqn:E; [apply tokv_eqb_eq in E; contradiction|reflexivity]. Qed.

Lemma tokv_eqb_sym a b : tokv_eqb a b = tokv_eqb b a.
Proof.
  destruct (tokv_eqb a b) eqn:E.
  - apply tokv_eqb_eq in E. subst. symmetry. apply tokv_eqb_refl.
  - destruct (tokv_eqb b a) eqn:E2; [|reflexivity]. apply tokv_eqb_eq in E2. subst.
    rewrite tokv_eqb_refl in E. discriminate.
Qed.

Lemma tm_load_delete m key key' :
  tm_load (tm_delete m key) key' = if tokv_eqb key key' then None else tm_load m key'.
Proof.
  induction m as [|[k r] m IH]; simpl.
  - destruct (tokv_eqb key key'); reflexivity.
  - destruct (tokv_eqb k key) eqn:E; simpl.
    + apply tokv_eqb_eq in E. subst k. rewrite IH. destruct (tokv_eqb key key'); reflexivity.
    + rewrite IH. destruct (tokv_eqb k key') eqn:E2; [|reflexivity].
      apply tokv_eqb_eq in E2. subst k. rewrite tokv_eqb_sym, E. reflexivity.
Qed.

Lemma tm_load_store m key r key' :
  tm_load (tm_store m key r) key' = if tokv_eqb key key' then Some r else tm_load m key'.
Proof.
  unfold tm_store. simpl. destruct (tokv_eqb key key') eqn:E; [reflexivity|].
  rewrite tm_load_delete, E. reflexivity.
Qed.

Definition rec_of (k : nat) (g : grant) : tokrec :=
  {| tr_user := g_user g; tr_k := k; tr_aexp := g_t0 g + A_LIFE; tr_rexp := g_t0 g + R_LIFE |}.

Definition expected (gs : list grant) (key : tokv) : option tokrec :=
  match key with
  | TA k | TR k =>
      match nth_error gs k with
      | Some g => if g_dead g then None else Some (rec_of k g)
      | None => None
      end
  | _ => None
  end.

Definition tok_inv (s : state) : Prop := forall key, tm_load (toks s) key = expected (grants s) key.

Lemma nth_error_snoc {A} (l : list A) x k :
  nth_error (l ++ [x]) k = if (k <? length l)%nat then nth_error l k
                           else if (k =? length l)%nat then Some x else None.
Proof.
  destruct (k <? length l)%nat eqn:E.
  - apply Nat.ltb_lt in E. apply nth_error_app1. exact E.
  - apply Nat.ltb_ge in E. rewrite nth_error_app2 by exact E.
    destruct (k =? length l)%nat eqn:E2.
    + apply Nat.eqb_eq in E2. subst. rewrite Nat.sub_diag. reflexivity.
    + apply Nat.eqb_neq in E2. destruct (k - length l)%nat eqn:E3; [lia|]. simpl. destruct n; reflexivity.
Qed.

Lemma nth_error_kill gs k j :
  nth_error (kill gs k) j =
  if (j =? k)%nat then match nth_error gs k with
                       | Some g => Some {| g_user := g_user g; g_t0 := g_t0 g; g_dead := true |}
                       | None => None end
  else nth_error gs j.
Proof.
  unfold kill. revert k j. induction gs as [|g gs IH]; intros k j.
  - destruct k; simpl; destruct j; simpl; try reflexivity;
      destruct (_ =? _)%nat; reflexivity.
  - destruct k.
    + simpl. destruct j; simpl; reflexivity.
    + destruct j; simpl; [reflexivity|]. apply IH.
Qed.

Lemma kill_length gs k : length (kill gs k) = length gs.
Proof.
  unfold kill. revert k. induction gs as [|g gs IH]; intros k.
  - destruct k; reflexivity.
  - destruct k; simpl; [reflexivity|]. f_equal. apply IH.
Qed.

Lemma tok_inv_new s uname : tok_inv s -> tok_inv (new_token s uname).
Proof.
  intros H key. unfold new_token. cbn [toks grants set_toks].
  rewrite !tm_load_store.
  set (k := length (grants s)).
  assert (Hk : expected (grants s) (TA k) = None /\ expected (grants s) (TR k) = None).
  { simpl. assert (E : nth_error (grants s) k = None) by (apply nth_error_None; subst k; lia).
    rewrite E. auto. }
  destruct key as [|j|j|b]; simpl.
  - rewrite H. reflexivity.
  - rewrite nth_error_snoc. fold k.
    destruct (Nat.eqb k j) eqn:E.
    + apply Nat.eqb_eq in E. subst j. rewrite Nat.ltb_irrefl, Nat.eqb_refl. simpl. reflexivity.
    + rewrite H. simpl. destruct (j <? k)%nat eqn:E2; [reflexivity|].
      rewrite Nat.eqb_sym, E. apply Nat.ltb_ge in E2.
      assert (E3 : nth_error (grants s) j = None) by (apply nth_error_None; subst k; lia).
      rewrite E3. reflexivity.
  - rewrite nth_error_snoc. fold k.
    destruct (Nat.eqb k j) eqn:E.
    + apply Nat.eqb_eq in E. subst j. rewrite Nat.ltb_irrefl, Nat.eqb_refl. simpl. reflexivity.
    + rewrite H. simpl. destruct (j <? k)%nat eqn:E2; [reflexivity|].
      rewrite Nat.eqb_sym, E. apply Nat.ltb_ge in E2.
      assert (E3 : nth_error (grants s) j = None) by (apply nth_error_None; subst k; lia).
      rewrite E3. reflexivity.
  - rewrite H. reflexivity.
Qed.

Lemma tok_inv_kill s k :
  tok_inv s ->
  tok_inv (set_toks s (tm_delete (tm_delete (toks s) (TA k)) (TR k)) (kill (grants s) k)).
Proof.
  intros H key. cbn [toks grants set_toks]. rewrite !tm_load_delete.
  destruct key as [|j|j|b]; simpl.
  - rewrite H. reflexivity.
  - rewrite nth_error_kill. rewrite (Nat.eqb_sym j k).
    destruct (Nat.eqb k j) eqn:E.
    + destruct (nth_error (grants s) k); reflexivity.
    + rewrite H. reflexivity.
  - rewrite nth_error_kill. rewrite (Nat.eqb_sym j k).
    destruct (Nat.eqb k j) eqn:E.
    + destruct (nth_error (grants s) k); reflexivity.
    + rewrite H. reflexivity.
  - rewrite H. reflexivity.
Qed.

Lemma tok_inv_refresh s t : tok_inv s -> tok_inv (fst (refresh s t)).
Proof.
  intros H. unfold refresh. destruct (tm_load (toks s) t) as [r|]; [|exact H].
  destruct (tokv_eqb (TR (tr_k r)) t); [|exact H].
  destruct (_ <? _); simpl.
  - apply tok_inv_new. apply tok_inv_kill. exact H.
  - apply tok_inv_kill. exact H.
Qed.

(* AccessCheck is the reference validity: issued as an access token, not superseded, not expired *)
Lemma access_check_spec s t : tok_inv s -> access_check s t = spec_access (grants s) (now s) t.
Proof.
  intros H. unfold access_check. rewrite H.
  destruct t as [|k|k|b]; simpl; try reflexivity.
  - destruct (nth_error (grants s) k) as [g|]; [|reflexivity].
    destruct (g_dead g); [reflexivity|]. simpl. rewrite Nat.eqb_refl. simpl. reflexivity.
  - destruct (nth_error (grants s) k) as [g|]; [|reflexivity].
    destruct (g_dead g); reflexivity.
Qed.

(* ------------------------------------------------------------------ *)
(* C. reachable states keep the token invariant                          *)

Ltac break_step :=
  repeat match goal with
         | |- context [let '(_, _) := ?x in _] => destruct x
         | |- context [match ?x with _ => _ end] =>
             match type of x with
             | sumbool _ _ => fail 1
             | _ => destruct x
             end
         end.

Lemma tok_inv_ext s s' : toks s' = toks s -> grants s' = grants s -> tok_inv s -> tok_inv s'.
Proof. intros Ht Hg H key. rewrite Ht, Hg. apply H. Qed.

Lemma step_rtsp_auth fx w s k m p cr :
  toks (fst (step_rtsp fx w s k m p cr)) = toks s /\ grants (fst (step_rtsp fx w s k m p cr)) = grants s.
Proof. unfold step_rtsp. break_step; simpl; auto. Qed.

Lemma step_wsopen_auth fx s kind p t ch h :
  toks (fst (step_wsopen fx s kind p t ch h)) = toks s /\ grants (fst (step_wsopen fx s kind p t ch h)) = grants s.
Proof. unfold step_wsopen, step_wsopen_in. break_step; simpl; auto. Qed.

Lemma step_wsrtsp_auth fx w s k m p :
  toks (fst (step_wsrtsp fx w s k m p)) = toks s /\ grants (fst (step_wsrtsp fx w s k m p)) = grants s.
Proof. unfold step_wsrtsp. break_step; simpl; auto. Qed.

Lemma step_wsp_auth fx w s k m :
  toks (fst (step_wsp fx w s k m)) = toks s /\ grants (fst (step_wsp fx w s k m)) = grants s.
Proof. unfold step_wsp. break_step; simpl; auto. Qed.

Lemma step_http_auth fx w s kind p t q h :
  fst (step_http fx w s kind p t q h) = s.
Proof. unfold step_http, step_http_in. break_step; simpl; auto. Qed.

Lemma step_url_auth lw fx w s u t h : fst (step_url_gen lw fx w s u t h) = s.
Proof. unfold step_url_gen. break_step; simpl; auto. Qed.

Lemma step_api_auth s ep t u b n h :
  toks (fst (step_api s ep t u b n h)) = toks s /\ grants (fst (step_api s ep t u b n h)) = grants s.
Proof. unfold step_api. break_step; simpl; auto. Qed.

Lemma step_tok_inv fx w s ev : tok_inv s -> tok_inv (fst (step_gen fx w s ev)).
Proof.
  intros H. destruct ev; cbn [step_gen].
  - exact H.
  - exact H.
  - exact H.
  - unfold step_login. break_step; simpl; auto using tok_inv_new.
  - unfold step_refresh. destruct (is_none t); [exact H|].
    pose proof (tok_inv_refresh s t H) as H2. destruct (refresh s t). exact H2.
  - exact H.
  - destruct (step_rtsp_auth fx w s k m path cr). eapply tok_inv_ext; eauto.
  - destruct (step_wsopen_auth fx s kind path t chan hdrs). eapply tok_inv_ext; eauto.
  - destruct (step_wsrtsp_auth fx w s k m path). eapply tok_inv_ext; eauto.
  - destruct (step_wsp_auth fx w s k m). eapply tok_inv_ext; eauto.
  - rewrite step_http_auth. exact H.
  - destruct (step_api_auth s ep t u upd_pw name hdrs). eapply tok_inv_ext; eauto.
  - unfold step_url. rewrite step_url_auth. exact H.
Qed.

Inductive reachable (w : list bytes) : state -> Prop :=
| reach_init : forall users0 ext, reachable w (state0 users0 ext)
| reach_step : forall s ev, reachable w s -> reachable w (fst (step w s ev)).

Lemma tok_inv_init users0 ext : tok_inv (state0 users0 ext).
Proof. intros key. simpl. destruct key as [|[|k]|[|k]|b]; reflexivity. Qed.

Lemma reachable_tok_inv w s : reachable w s -> tok_inv s.
Proof. induction 1; [apply tok_inv_init|apply step_tok_inv; assumption]. Qed.

(* ------------------------------------------------------------------ *)
(* D. the handlers against the monitor                                   *)

Definition right_of (act : action) : Z := match act with APush => PUSH | _ => PULL end.

Ltac unfold_m := unfold M_DESCRIBE, M_ANNOUNCE, M_SETUP_PLAY, M_SETUP_RECORD, M_PLAY, M_RECORD, is_setup,
                 hands_out_method, PULL, PUSH in *.

Ltac split_m m :=
  destruct (Z.eq_dec m 1) as [->|?];
  [|destruct (Z.eq_dec m 2) as [->|?];
    [|destruct (Z.eq_dec m 3) as [->|?];
      [|destruct (Z.eq_dec m 4) as [->|?];
        [|destruct (Z.eq_dec m 5) as [->|?];
          [|destruct (Z.eq_dec m 6) as [->|?];
            [|assert (m =? 1 = false) by (apply Z.eqb_neq; assumption);
              assert (m =? 2 = false) by (apply Z.eqb_neq; assumption);
              assert (m =? 3 = false) by (apply Z.eqb_neq; assumption);
              assert (m =? 4 = false) by (apply Z.eqb_neq; assumption);
              assert (m =? 5 = false) by (apply Z.eqb_neq; assumption);
              assert (m =? 6 = false) by (apply Z.eqb_neq; assumption)]]]]]].

Ltac break_hyp H :=
  repeat match type of H with
         | context [if ?b then _ else _] => let E := fresh "E" in destruct b eqn:E
         | context [match ?x with _ => _ end] => let E := fresh "E" in destruct x eqn:E
         end.

Lemma rtsp_handle_safe ws pm r self c m path c2 code pub :
  rtsp_handle ws pm r self c m path = (c2, code, pub) ->
  hands_out_method m = true -> code = 200 ->
  pm (right_of (fst (rtsp_target ws c m path))) (snd (rtsp_target ws c m path)) = true \/
  ((m =? M_PLAY) && (c_status c =? 2) || (m =? M_RECORD) && (c_status c =? 3)) = true.
Proof.
  intros H Hh Hc. unfold rtsp_handle, rtsp_target in *. unfold_m.
  split_m m; cbn in *; try discriminate;
    try (repeat match goal with H : _ =? _ = false |- _ => rewrite H in * end; cbn in *);
    break_hyp H; inversion H; subst; try discriminate; auto;
    unfold_m; repeat match goal with H : (_ =? _) = false |- _ => rewrite H in * end; cbn in *; try discriminate; auto.
Qed.

Lemma rtsp_handle_live ws pm r self c m path c2 code pub :
  rtsp_handle ws pm r self c m path = (c2, code, pub) ->
  pm (right_of (fst (rtsp_target ws c m path))) (snd (rtsp_target ws c m path)) = true ->
  (let '(_, code', _) := rtsp_handle ws (fun _ _ => true) r 0 c m path in code' =? 200) = true ->
  code = 200.
Proof.
  intros H Hp Hf. unfold rtsp_handle, rtsp_target in *. unfold_m.
  split_m m; cbn in *; try discriminate;
    break_hyp H; inversion H; subst; try discriminate; auto;
    unfold_m; repeat match goal with H : (_ =? _) = false |- _ => rewrite H in * end; cbn in *; unfold_m;
    try discriminate; try congruence; auto;
    repeat match goal with H : context [if ?b then _ else _] |- _ => destruct b end; cbn in *; unfold_m; congruence.
Qed.

Lemma rtsp_handle_play ws pm r self c m path c2 code pub :
  rtsp_handle ws pm r self c m path = (c2, code, pub) ->
  (m =? M_PLAY) = true -> (c_status c2 =? 2) = true -> code = 200.
Proof.
  intros H Hm Hs. apply Z.eqb_eq in Hm. subst m. unfold rtsp_handle in H. unfold_m. cbn in H.
  break_hyp H; inversion H; subst; cbn in *; try congruence.
Qed.

Lemma rtsp_handle_pub ws pm r self c m path c2 code p' :
  rtsp_handle ws pm r self c m path = (c2, code, Some p') ->
  (m =? M_RECORD) = true /\ code = 200 /\
  pm (right_of (fst (rtsp_target ws c m path))) (snd (rtsp_target ws c m path)) = true.
Proof.
  intros H. unfold rtsp_handle, rtsp_target in *. unfold_m.
  split_m m; cbn in *; try discriminate;
    break_hyp H; inversion H; subst; try discriminate; auto;
    unfold_m; repeat match goal with H : (_ =? _) = false |- _ => rewrite H in * end; cbn in *; unfold_m;
    try discriminate; try congruence; auto.
Qed.

Lemma digest_check_identity t c cr :
  fst (digest_check true t c cr) = digest_identity t c cr.
Proof.
  unfold digest_check, digest_identity, nonce_ok. destruct cr as [|u sec nm bm]; [reflexivity|].
  destruct u as [|x u]; [reflexivity|]. destruct (find_user t (x :: u)); [|reflexivity].
  destruct (_ && _ && _); reflexivity.
Qed.

Lemma zlist_eqb_refl l : zlist_eqb l l = true.
Proof. induction l; simpl; [reflexivity|]. rewrite Z.eqb_refl. exact IHl. Qed.

Lemma spec_allows_right t u act p :
  match act with APull | APush => true | _ => false end = true ->
  perm_go t u (right_of act) p = spec_allows t u act p.
Proof. destruct act; try discriminate; intros _; [apply perm_go_pull|apply perm_go_push]. Qed.

Lemma rtsp_target_act ws c m path :
  match fst (rtsp_target ws c m path) with APull | APush => true | _ => false end = true.
Proof.
  unfold rtsp_target.
  repeat match goal with |- context [if ?b then (_, _) else _] => destruct b; cbn [fst]; try reflexivity end;
  try (destruct (_ =? _); reflexivity).
Qed.

Lemma allowed_rtsp s k m path cr :
  allowed_chk s (ERtsp k m path cr) =
  match fst (digest_check true (users s) (get_conn s k) cr) with
  | Some u => spec_allows (users s) u (fst (rtsp_target false (get_conn s k) m path))
                          (snd (rtsp_target false (get_conn s k) m path))
  | None => false
  end.
Proof.
  unfold allowed_chk. cbn [identity target]. rewrite digest_check_identity.
  destruct (digest_identity _ _ _); [|reflexivity]. destruct (rtsp_target _ _ _ _); reflexivity.
Qed.

Lemma judge_rtsp w s k m path cr :
  let o := snd (step_rtsp true w s k m path cr) in
  judge_chk w s (ERtsp k m path cr) o = true /\ judge_reg_chk w s (ERtsp k m path cr) o = true.
Proof.
  unfold judge_chk, judge_reg_chk, step_rtsp. rewrite allowed_rtsp.
  cbn [is_request identity granted accepted keepalive feasible unauth_code judge_join_chk].
  set (c := get_conn s k).
  destruct (c_kind c =? K_RTSP) eqn:Ek; cbn [negb].
  2:{ cbn. rewrite zlist_eqb_refl. rewrite !andb_false_r. cbn. destruct (digest_identity _ _ _); auto. }
  destruct (legal (c_status c) m) eqn:El; cbn [negb].
  2:{ cbn. rewrite zlist_eqb_refl. rewrite !andb_false_r. cbn. destruct (digest_identity _ _ _); auto. }
  rewrite <- digest_check_identity.
  destruct (digest_check true (users s) c cr) as [[uname|] rot] eqn:Ed; cbn [fst].
  - destruct (rtsp_handle false (perm_go (users s) uname) (reg s) (2 + Z.of_nat k) c m path) as [[c2 code] pub] eqn:Eh.
    pose proof (rtsp_handle_safe _ _ _ _ _ _ _ _ _ _ Eh) as Hsafe.
    pose proof (rtsp_handle_live _ _ _ _ _ _ _ _ _ _ Eh) as Hlive.
    pose proof (rtsp_handle_play _ _ _ _ _ _ _ _ _ _ Eh) as Hplay.
    pose proof (rtsp_target_act false c m path) as Hact.
    destruct (rtsp_target false c m path) as [act p] eqn:Et. cbn [fst snd] in *.
    rewrite (spec_allows_right _ _ _ _ Hact) in Hsafe, Hlive.
    cbn [snd with_reg o_code o_media o_reg ob].
    split.
    + rewrite andb_true_r. rewrite !andb_true_iff. repeat split.
      * apply implb_true_iff. intros Hg. apply andb_true_iff in Hg as [Hh Hg].
        assert (Hc : code = 200).
        { apply orb_true_iff in Hg as [Hg|Hg]; [apply Z.eqb_eq; exact Hg|].
          apply andb_true_iff in Hg as [Hg _]. apply andb_true_iff in Hg as [Hg1 Hg2]. auto. }
        destruct (Hsafe Hh Hc) as [Hs|Hs]; rewrite Hs; auto using orb_true_r.
      * apply implb_true_iff. intros Ha. apply andb_true_iff in Ha as [Ha Hf].
        cbn [andb] in Hf. rewrite (Hlive Ha Hf). reflexivity.
    + destruct pub as [p'|].
      * destruct (rtsp_handle_pub _ _ _ _ _ _ _ _ _ _ Eh) as (Hm & Hc & Hp).
        rewrite Et in Hp. cbn [fst snd] in Hp. rewrite (spec_allows_right _ _ _ _ Hact) in Hp.
        rewrite Hm, Hc, Hp. cbn. destruct (zlist_eqb _ _); reflexivity.
      * unfold reg_view. rewrite zlist_eqb_refl. reflexivity.
  - cbn [snd with_reg o_code o_media o_reg ob]. split.
    + cbn. rewrite !andb_true_r. apply implb_true_iff. intros Hg.
      apply andb_true_iff in Hg as [_ Hg]. apply andb_true_iff in Hg as [Hg _]. rewrite Hg. reflexivity.
    + unfold reg_view. rewrite zlist_eqb_refl. reflexivity.
Qed.

(* ws-rtsp: the same handlers, the user the upgrade verified *)
Lemma allowed_wsrtsp s k m path :
  allowed_chk s (EWsRtsp k m path) =
  spec_allows (users s) (c_user (get_conn s k)) (fst (rtsp_target true (get_conn s k) m path))
              (snd (rtsp_target true (get_conn s k) m path)).
Proof. unfold allowed_chk. cbn [identity target]. destruct (rtsp_target _ _ _ _); reflexivity. Qed.

Lemma judge_wsrtsp w s k m path :
  let o := snd (step_wsrtsp true w s k m path) in
  judge_chk w s (EWsRtsp k m path) o = true /\ judge_reg_chk w s (EWsRtsp k m path) o = true.
Proof.
  unfold judge_chk, judge_reg_chk, step_wsrtsp. rewrite allowed_wsrtsp.
  cbn [is_request identity granted accepted keepalive feasible unauth_code judge_join_chk].
  set (c := get_conn s k).
  destruct (c_kind c =? K_WSRTSP) eqn:Ek; cbn [negb].
  2:{ cbn. rewrite zlist_eqb_refl. rewrite !andb_false_r. cbn. auto. }
  destruct (legal (c_status c) m) eqn:El; cbn [negb].
  2:{ cbn. rewrite zlist_eqb_refl. rewrite !andb_false_r. cbn. auto. }
  destruct (rtsp_handle true (perm_go (users s) (c_user c)) (reg s) (2 + Z.of_nat k) c m path) as [[c2 code] pub] eqn:Eh.
  pose proof (rtsp_handle_safe _ _ _ _ _ _ _ _ _ _ Eh) as Hsafe.
  pose proof (rtsp_handle_live _ _ _ _ _ _ _ _ _ _ Eh) as Hlive.
  pose proof (rtsp_handle_play _ _ _ _ _ _ _ _ _ _ Eh) as Hplay.
  pose proof (rtsp_target_act true c m path) as Hact.
  destruct (rtsp_target true c m path) as [act p] eqn:Et. cbn [fst snd] in *.
  rewrite (spec_allows_right _ _ _ _ Hact) in Hsafe, Hlive.
  cbn [snd with_reg o_code o_media o_reg ob].
  split.
  + rewrite !andb_true_r. rewrite !andb_true_iff. repeat split.
    * apply implb_true_iff. intros Hg. apply andb_true_iff in Hg as [Hh Hg].
      assert (Hc : code = 200).
      { apply orb_true_iff in Hg as [Hg|Hg]; [apply Z.eqb_eq; exact Hg|].
        apply andb_true_iff in Hg as [Hg _]. apply andb_true_iff in Hg as [Hg1 Hg2]. auto. }
      destruct (Hsafe Hh Hc) as [Hs|Hs]; rewrite Hs; auto using orb_true_r.
    * apply implb_true_iff. intros Ha. apply andb_true_iff in Ha as [Ha Hf].
      cbn [andb] in Hf. rewrite (Hlive Ha Hf). reflexivity.
  + destruct pub as [p'|].
    * destruct (rtsp_handle_pub _ _ _ _ _ _ _ _ _ _ Eh) as (Hm & Hc & Hp).
      rewrite Et in Hp. cbn [fst snd] in Hp. rewrite (spec_allows_right _ _ _ _ Hact) in Hp.
      rewrite Hm, Hc, Hp. cbn. destruct (zlist_eqb _ _); reflexivity.
    * unfold reg_view. rewrite zlist_eqb_refl. reflexivity.
Qed.

(* WSP control channel *)
Definition wsp_target_path (c : conn) (m : Z) : bytes := if m =? M_DESCRIBE then c_wspath c else c_path c.

Lemma wsp_handle_safe pm r c m c2 code :
  wsp_handle true pm r c m = (c2, code) ->
  hands_out_method m = true -> code = 200 ->
  pm PULL (wsp_target_path c m) = true \/ ((m =? M_PLAY) && (c_status c =? 2)) = true.
Proof.
  intros H Hh Hc. unfold wsp_handle, wsp_target_path in *. unfold_m.
  split_m m; cbn in *; try discriminate;
    break_hyp H; inversion H; subst; try discriminate; auto;
    unfold_m; repeat match goal with H : (_ =? _) = false |- _ => rewrite H in * end; cbn in *; unfold_m;
    try discriminate; try congruence; auto.
Qed.

Lemma wsp_handle_live pm r c m c2 code :
  wsp_handle true pm r c m = (c2, code) ->
  pm PULL (wsp_target_path c m) = true ->
  (let '(_, code') := wsp_handle true (fun _ _ => true) r c m in code' =? 200) = true ->
  code = 200.
Proof.
  intros H Hp Hf. unfold wsp_handle, wsp_target_path in *. unfold_m.
  split_m m; cbn in *; try discriminate;
    break_hyp H; inversion H; subst; try discriminate; auto;
    unfold_m; repeat match goal with H : (_ =? _) = false |- _ => rewrite H in * end; cbn in *; unfold_m;
    try discriminate; try congruence; auto;
    repeat match goal with H : context [if ?b then _ else _] |- _ => destruct b end; cbn in *; unfold_m; congruence.
Qed.

Lemma wsp_handle_play pm r c m c2 code :
  wsp_handle true pm r c m = (c2, code) ->
  (m =? M_PLAY) = true -> (c_status c2 =? 2) = true -> code = 200.
Proof.
  intros H Hm Hs. apply Z.eqb_eq in Hm. subst m. unfold wsp_handle in H. unfold_m. cbn in H.
  break_hyp H; inversion H; subst; cbn in *; try congruence;
  rewrite Hs in *; repeat match goal with H : context [if ?b then _ else _] |- _ => destruct b end; cbn in *; congruence.
Qed.

Lemma wsp_handle_frame fx pm r c m c2 code :
  wsp_handle fx pm r c m = (c2, code) ->
  c_kind c2 = c_kind c /\ c_wspath c2 = c_wspath c /\ c_user c2 = c_user c /\
  (c_path c2 = c_path c \/ c_path c2 = c_wspath c).
Proof.
  intros H. unfold wsp_handle in H. break_hyp H; inversion H; subst; cbn; auto.
Qed.

Lemma judge_wsp w s k m path :
  judge_chk w s (EWsp k m path) (snd (step_wsp true w s k m)) = true.
Proof.
  unfold judge_chk, step_wsp, allowed_chk.
  cbn [is_request identity target granted accepted keepalive feasible unauth_code judge_join_chk].
  set (c := get_conn s k).
  destruct (c_kind c =? K_WSP) eqn:Ek; cbn [negb].
  2:{ cbn. rewrite !andb_false_r. cbn. auto. }
  destruct (wsp_handle true (perm_go (users s) (c_user c)) (reg s) c m) as [c2 code] eqn:Eh.
  pose proof (wsp_handle_safe _ _ _ _ _ _ Eh) as Hsafe.
  pose proof (wsp_handle_live _ _ _ _ _ _ Eh) as Hlive.
  pose proof (wsp_handle_play _ _ _ _ _ _ Eh) as Hplay.
  unfold wsp_target_path in *. rewrite perm_go_pull in Hsafe, Hlive.
  cbn [snd o_code o_media ob].
  rewrite !andb_true_r. rewrite !andb_true_iff. repeat split.
  - apply implb_true_iff. intros Hg. apply andb_true_iff in Hg as [Hh Hg].
    assert (Hc : code = 200).
    { apply orb_true_iff in Hg as [Hg|Hg]; [apply Z.eqb_eq; exact Hg|].
      apply andb_true_iff in Hg as [Hg _]. apply andb_true_iff in Hg as [Hg _].
      apply andb_true_iff in Hg as [Hg1 Hg2]. auto. }
    destruct (Hsafe Hh Hc) as [Hs|Hs]; rewrite Hs; auto using orb_true_r.
  - apply implb_true_iff. intros Ha. apply andb_true_iff in Ha as [Ha Hf].
    cbn [andb] in Hf. rewrite (Hlive Ha Hf). reflexivity.
Qed.

(* token-guarded entry points *)
Lemma auth_gate_spec s t : tok_inv s -> auth_gate s t = token_identity s t.
Proof.
  intros H. unfold auth_gate, token_identity. rewrite access_check_spec by exact H.
  destruct t as [| | |[|x b]]; reflexivity.
Qed.

(* the request header through which the interceptors pass the verified name: Set makes the client's copies irrelevant *)
Lemma hdr_get_set hs k v : hdr_get (hdr_set hs k v) k = v.
Proof.
  unfold hdr_set. induction hs as [|[k' v'] hs IH]; simpl.
  - rewrite bytes_eqb_refl. reflexivity.
  - destruct (bytes_eqb k' k) eqn:E; simpl; [exact IH|]. rewrite E. exact IH.
Qed.

Lemma ident_hdr_set hdrs u : ident_hdr false hdrs u = u.
Proof. unfold ident_hdr. apply hdr_get_set. Qed.

Lemma stream_gate_hdrs fx s t path seg hdrs :
  stream_gate fx s t path seg hdrs = stream_gate fx s t path seg [].
Proof.
  unfold stream_gate, stream_gate_h. destruct (auth_gate s t); [|reflexivity].
  rewrite !ident_hdr_set. reflexivity.
Qed.

Lemma api_gate_hdrs s ep t hdrs : api_gate s ep t hdrs = api_gate s ep t [].
Proof.
  unfold api_gate, api_gate_h. destruct (ep_open ep); [reflexivity|]. destruct (auth_gate s t); [|reflexivity].
  rewrite !ident_hdr_set. reflexivity.
Qed.

Lemma stream_gate_spec s t path seg hdrs :
  tok_inv s ->
  stream_gate true s t path seg hdrs =
  match token_identity s t with
  | None => (401, [])
  | Some u => if spec_allows (users s) u APull path then (200, u) else (403, u)
  end.
Proof.
  intros H. unfold stream_gate, stream_gate_h. rewrite auth_gate_spec by exact H.
  destruct (token_identity s t) as [u|]; [|reflexivity].
  rewrite ident_hdr_set. rewrite <- perm_go_pull. destruct seg; reflexivity.
Qed.

Lemma judge_http w s kind path t q h :
  tok_inv s -> judge_chk w s (EHttp kind path t q h) (snd (step_http true w s kind path t q h)) = true.
Proof.
  intros H. unfold judge_chk, step_http, step_http_in, allowed_chk, url_path.
  cbn [is_request identity target granted accepted keepalive feasible unauth_code judge_join_chk].
  set (cp := canonical_path path).
  destruct (mux_ok (http_url kind path q)); cbn [negb andb].
  2:{ cbn. rewrite !andb_false_r. destruct (token_identity s t); reflexivity. }
  rewrite stream_gate_spec by exact H.
  destruct (token_identity s t) as [u|]; [|reflexivity].
  destruct (spec_allows (users s) u APull cp) eqn:Ea; cbn [negb Z.eqb]; [|reflexivity].
  cbn. destruct (live (reg s) cp) as [o|]; [|reflexivity].
  destruct (kind =? 1) eqn:E1; destruct (kind =? 2) eqn:E2; destruct (kind =? 0) eqn:E0; destruct (o =? 1);
    destruct (seg_listed q); try reflexivity;
    try (apply Z.eqb_eq in E1); try (apply Z.eqb_eq in E2); try (apply Z.eqb_eq in E0); subst; discriminate.
Qed.

Lemma judge_api w s ep t u b n h :
  tok_inv s -> judge_chk w s (EApi ep t u b n h) (snd (step_api s ep t u b n h)) = true.
Proof.
  intros H. unfold judge_chk, step_api, allowed_chk, api_gate, api_gate_h.
  cbn [is_request identity target granted accepted keepalive feasible unauth_code judge_join_chk snd o_code ob].
  destruct (ep_open ep) eqn:Eo; [reflexivity|]. cbn [negb].
  rewrite auth_gate_spec by exact H.
  destruct (token_identity s t) as [v|]; [|reflexivity].
  destruct (ep_read ep) eqn:Er; [reflexivity|]. rewrite ident_hdr_set.
  unfold spec_allows, rights_now. destruct (find_user (users s) v) as [x|]; [|reflexivity].
  destruct (u_admin x); reflexivity.
Qed.

(* ------------------------------------------------------------------ *)
(* E. a WSP session's path is the path of its upgrade URL               *)

Definition wsp_ok (c : conn) : Prop := c_kind c = K_WSP -> c_path c = c_wspath c.
Definition conns_ok (s : state) : Prop := Forall wsp_ok (conns s).

Lemma Forall_set_nth {A} (P : A -> Prop) l k x : Forall P l -> P x -> Forall P (set_nth l k x).
Proof.
  intros Hl Hx. revert k. induction Hl; intros k; simpl; [constructor|].
  destruct k; constructor; auto.
Qed.

Lemma get_conn_ok s k : conns_ok s -> wsp_ok (get_conn s k).
Proof.
  intros H. unfold get_conn. destruct (nth_in_or_default k (conns s) dead_conn) as [Hin|Hd].
  - eapply Forall_forall in H; eauto.
  - rewrite Hd. intros Hk. discriminate.
Qed.

Lemma rtsp_handle_kind ws pm r self c m path c2 code pub :
  rtsp_handle ws pm r self c m path = (c2, code, pub) -> c_kind c2 = c_kind c.
Proof. intros H. unfold rtsp_handle in H. break_hyp H; inversion H; subst; reflexivity. Qed.

Lemma not_wsp_ok c : c_kind c <> K_WSP -> wsp_ok c.
Proof. intros H Hk. contradiction. Qed.

Lemma step_conns_ok fx w s ev : conns_ok s -> conns_ok (fst (step_gen fx w s ev)).
Proof.
  intros H. destruct ev; cbn [step_gen]; try exact H.
  - unfold step_login. break_step; simpl; exact H.
  - unfold step_refresh. destruct (is_none t); [exact H|].
    assert (Hc : conns (fst (refresh s t)) = conns s) by (unfold refresh; break_step; reflexivity).
    destruct (refresh s t) as [s1 ok]. simpl in *. unfold conns_ok. rewrite Hc. exact H.
  - unfold conns_ok. simpl. apply Forall_app. split; [exact H|]. constructor; [|constructor].
    intros Hk. discriminate.
  - unfold step_rtsp. set (c := get_conn s k).
    destruct (c_kind c =? K_RTSP) eqn:Ek; cbn [negb]; [|exact H].
    apply Z.eqb_eq in Ek.
    destruct (legal (c_status c) m); cbn [negb].
    + destruct (digest_check fx (users s) c cr) as [[uname|] rot].
      * destruct (rtsp_handle false _ _ _ c m path) as [[c2 code] pub] eqn:Eh.
        apply rtsp_handle_kind in Eh. unfold conns_ok. simpl. apply Forall_set_nth; [exact H|].
        apply not_wsp_ok. simpl. rewrite Eh, Ek. discriminate.
      * unfold conns_ok. simpl. apply Forall_set_nth; [exact H|].
        apply not_wsp_ok. destruct rot; simpl; rewrite Ek; discriminate.
    + unfold conns_ok. simpl. apply Forall_set_nth; [exact H|].
      apply not_wsp_ok. simpl. rewrite Ek. discriminate.
  - unfold step_wsopen. destruct (negb (mux_ok (ws_url kind path))).
    { destruct ((kind =? 0) || (kind =? 1)); [|exact H].
      unfold conns_ok. simpl. apply Forall_app. split; [exact H|]. constructor; [|constructor].
      intros Hk. discriminate. }
    unfold step_wsopen_in. generalize (url_path fx path). intros path'.
    destruct (stream_gate fx s t path' None hdrs) as [code uname].
    destruct (negb (code =? 200)).
    + destruct ((kind =? 0) || (kind =? 1)); [|exact H].
      unfold conns_ok. simpl. apply Forall_app. split; [exact H|]. constructor; [|constructor].
      intros Hk. discriminate.
    + destruct (kind =? 0).
      { unfold conns_ok. simpl. apply Forall_app. split; [exact H|]. constructor; [|constructor].
        intros Hk. discriminate. }
      destruct (kind =? 1).
      { unfold conns_ok. simpl. apply Forall_app. split; [exact H|]. constructor; [|constructor].
        intros Hk. reflexivity. }
      destruct (kind =? 2); [|exact H].
      destruct (_ && _); [|exact H].
      unfold conns_ok. simpl. apply Forall_set_nth; [exact H|].
      pose proof (get_conn_ok s chan H) as Hc. intros Hk. simpl in *. auto.
  - unfold step_wsrtsp. set (c := get_conn s k).
    destruct (c_kind c =? K_WSRTSP) eqn:Ek; cbn [negb]; [|exact H].
    apply Z.eqb_eq in Ek.
    destruct (legal (c_status c) m); cbn [negb]; [|exact H].
    destruct (rtsp_handle true _ _ _ c m path) as [[c2 code] pub] eqn:Eh.
    apply rtsp_handle_kind in Eh. unfold conns_ok. simpl. apply Forall_set_nth; [exact H|].
    apply not_wsp_ok. rewrite Eh, Ek. discriminate.
  - unfold step_wsp. set (c := get_conn s k).
    destruct (c_kind c =? K_WSP) eqn:Ek; cbn [negb]; [|exact H].
    apply Z.eqb_eq in Ek.
    destruct (wsp_handle fx _ _ c m) as [c2 code] eqn:Eh.
    apply wsp_handle_frame in Eh. destruct Eh as (E1 & E2 & E3 & E4).
    unfold conns_ok. simpl. apply Forall_set_nth; [exact H|].
    pose proof (get_conn_ok s k H Ek) as Hc. fold c in Hc.
    intros _. rewrite E2. destruct E4 as [E4|E4]; congruence.
  - rewrite step_http_auth. exact H.
  - unfold step_api. break_step; simpl; exact H.
  - unfold step_url. rewrite step_url_auth. exact H.
Qed.

Lemma conns_ok_init u e : conns_ok (state0 u e).
Proof. constructor. Qed.

Lemma reachable_conns_ok w s : reachable w s -> conns_ok s.
Proof. induction 1; [apply conns_ok_init|apply step_conns_ok; assumption]. Qed.

(* ------------------------------------------------------------------ *)
(* F. WebSocket upgrade and the data channel                            *)

Lemma judge_wsopen w s kind path t chan h :
  tok_inv s -> conns_ok s ->
  judge_chk w s (EWsOpen kind path t chan h) (snd (step_wsopen true s kind path t chan h)) = true.
Proof.
  intros H Hok. unfold judge_chk, step_wsopen, step_wsopen_in, allowed_chk, url_path.
  cbn [is_request identity target granted accepted keepalive feasible unauth_code judge_join_chk].
  set (cp := canonical_path path).
  destruct (mux_ok (ws_url kind path)); cbn [negb andb].
  2:{ assert (Hsnd : forall (a b : state) (x : bool), snd (if x then a else b, ob 301 0 false 0) = ob 301 0 false 0)
        by (intros; reflexivity).
      rewrite Hsnd. cbn. rewrite !andb_false_r. cbn.
      destruct (token_identity s t); cbn; destruct (kind =? 2); reflexivity. }
  rewrite stream_gate_spec by exact H.
  destruct (token_identity s t) as [u|].
  2:{ cbn. destruct (kind =? 2); reflexivity. }
  destruct (spec_allows (users s) u APull cp) eqn:Ea; cbn [negb Z.eqb].
  2:{ cbn. destruct (kind =? 2); [|reflexivity].
      destruct (c_kind _ =? _), (bytes_eqb u _), (bytes_eqb cp _); reflexivity. }
  cbn [negb]. destruct (kind =? 0) eqn:E0.
  { apply Z.eqb_eq in E0. subst kind. reflexivity. }
  destruct (kind =? 1) eqn:E1.
  { apply Z.eqb_eq in E1. subst kind. reflexivity. }
  destruct (kind =? 2) eqn:E2; [|reflexivity].
  set (c := get_conn s chan). cbn [negb orb].
  destruct (c_kind c =? K_WSP) eqn:Ek; cbn [andb].
  2:{ cbn. reflexivity. }
  destruct (bytes_eqb cp (c_wspath c)) eqn:Ep; destruct (bytes_eqb u (c_user c)) eqn:Eu; cbn; try reflexivity.
  apply bytes_eqb_eq in Ep.
  pose proof (get_conn_ok s chan Hok) as Hc. fold c in Hc. apply Z.eqb_eq in Ek.
  rewrite (Hc Ek), <- Ep. unfold spec_allows in Ea. rewrite Ea. rewrite orb_true_r. reflexivity.
Qed.

(* a raw /streams/ URL: the interceptor's and the handler's derivations *)
Lemma url_derivations_agree u kind p n :
  url_handler false true u = HServe kind p n -> url_icp true u = p.
Proof.
  unfold url_handler, url_icp. destruct (extract true u) as [sp ext].
  destruct (bytes_eqb ext EXT_FLV) eqn:E1.
  { apply bytes_eqb_eq in E1. subst ext. intros H. inversion H. reflexivity. }
  destruct (bytes_eqb ext EXT_M3U8) eqn:E2.
  { apply bytes_eqb_eq in E2. subst ext. intros H. inversion H. reflexivity. }
  destruct (bytes_eqb ext EXT_TS) eqn:E3; [|discriminate].
  unfold strip_last. destruct (split_last sp) as [[q r]|]; [|discriminate].
  destruct (atoi_go r); [|discriminate]. intros H. inversion H. reflexivity.
Qed.

Lemma judge_url w s u t h :
  tok_inv s -> judge_chk w s (EUrl u t h) (snd (step_url true w s u t h)) = true.
Proof.
  intros H. unfold judge_chk, step_url, step_url_gen, allowed_chk.
  cbn [is_request identity target granted accepted keepalive feasible unauth_code judge_join_chk].
  destruct (mux_ok u); cbn [negb andb].
  2:{ cbn. rewrite !andb_false_r. destruct (token_identity s t); reflexivity. }
  rewrite stream_gate_spec by exact H.
  destruct (token_identity s t) as [v|]; [|reflexivity].
  destruct (spec_allows (users s) v APull (url_icp true u)) eqn:Ea; cbn [negb Z.eqb]; [|reflexivity].
  cbn [Pos.eqb negb]. destruct (url_handler false true u) as [kind p n| |]; try reflexivity.
  destruct (live (reg s) p) as [o|]; [|reflexivity].
  destruct (kind =? 1) eqn:E1; destruct (kind =? 2) eqn:E2; destruct (kind =? 0) eqn:E0; destruct (o =? 1);
    destruct (url_seg_listed n); try reflexivity;
    try (apply Z.eqb_eq in E1); try (apply Z.eqb_eq in E2); try (apply Z.eqb_eq in E0); subst; discriminate.
Qed.

(* ------------------------------------------------------------------ *)
(* G. every event of every reachable state is judged right              *)

Theorem step_judged w s ev :
  tok_inv s -> conns_ok s ->
  judge_chk w s ev (snd (step w s ev)) = true /\ judge_reg_chk w s ev (snd (step w s ev)) = true.
Proof.
  intros H Hok. destruct ev; unfold step; cbn [step_gen]; try (split; reflexivity).
  - apply judge_rtsp.
  - split; [apply judge_wsopen; assumption|reflexivity].
  - apply judge_wsrtsp.
  - split; [apply judge_wsp|reflexivity].
  - split; [apply judge_http; assumption|reflexivity].
  - split; [apply judge_api; assumption|reflexivity].
  - split; [apply judge_url; assumption|reflexivity].
Qed.

Lemma run_ok_from w s evs : tok_inv s -> conns_ok s -> ok_run_chk w s evs (run w s evs) = true.
Proof.
  revert s. induction evs as [|e evs IH]; intros s H Hok; [reflexivity|].
  unfold run in *. cbn [run_gen ok_run_chk].
  destruct (step_judged w s e H Hok) as [J1 J2]. unfold step in *.
  destruct (step_gen true w s e) as [s1 o] eqn:Es. cbn [ok_run_chk fst snd] in *.
  rewrite J1, J2. cbn [andb].
  apply IH.
  - pose proof (step_tok_inv true w s e H) as H1. rewrite Es in H1. exact H1.
  - pose proof (step_conns_ok true w s e Hok) as H1. rewrite Es in H1. exact H1.
Qed.

(* the oracle applied to the implementation accepts the model on every history *)
Theorem model_passes w users0 ext evs :
  ok_run_chk w (state0 users0 ext) evs (run w (state0 users0 ext) evs) = true.
Proof. apply run_ok_from; [apply tok_inv_init|apply conns_ok_init]. Qed.

Lemma reachable_judged w s ev :
  reachable w s ->
  judge_chk w s ev (snd (step w s ev)) = true /\ judge_reg_chk w s ev (snd (step w s ev)) = true.
Proof. intros H. apply step_judged; [eapply reachable_tok_inv|eapply reachable_conns_ok]; eauto. Qed.

(* ---- the clauses of the property, read off the judgement ---- *)

Definition act_eqb (a b : action) : bool :=
  match a, b with
  | APull, APull | APush, APush | AAdmin, AAdmin | AApiRead, AApiRead => true
  | _, _ => false
  end.

Lemma allowed_inv s ev :
  allowed_chk s ev = true ->
  exists u, identity s ev = Some u /\ spec_allows (users s) u (fst (target s ev)) (snd (target s ev)) = true.
Proof.
  unfold allowed_chk. destruct (identity s ev) as [u|]; [|discriminate].
  destruct (target s ev) as [act p]. intros H. exists u. auto.
Qed.

Lemma spec_allows_pull t u p :
  spec_allows t u APull p = true -> exists r, rights_now t u = Some r /\ permits r PULL p = true.
Proof. unfold spec_allows. destruct (rights_now t u) as [r|]; [|discriminate]. eauto. Qed.

Lemma spec_allows_push t u p :
  spec_allows t u APush p = true -> exists r, rights_now t u = Some r /\ permits r PUSH p = true.
Proof. unfold spec_allows. destruct (rights_now t u) as [r|]; [|discriminate]. eauto. Qed.

Lemma judge_parts w s ev o :
  is_request ev = true -> judge_chk w s ev o = true ->
  (granted ev o = true -> allowed_chk s ev = true \/ keepalive s ev = true) /\
  (allowed_chk s ev = true -> feasible w s ev = true -> accepted ev o = true) /\
  (identity s ev = None -> unauth_code ev o = true) /\
  judge_join_chk s ev o = true.
Proof.
  intros Hr H. unfold judge_chk in H. rewrite Hr in H.
  apply andb_true_iff in H as [H H4]. apply andb_true_iff in H as [H H3].
  apply andb_true_iff in H as [H1 H2].
  repeat split; auto.
  - intros Hg. rewrite Hg in H1. cbn in H1. apply orb_true_iff in H1. exact H1.
  - intros Ha Hf. rewrite Ha, Hf in H2. exact H2.
  - intros Hi. rewrite Hi in H3. exact H3.
Qed.

(* media of a path (or its description, or the upgrade that leads to it) goes only to a caller
   authenticated as a user whose rights, as saved now, cover exactly that path for pulling *)
Theorem media_requires_pull w s ev :
  reachable w s ->
  let o := snd (step w s ev) in
  is_request ev = true -> fst (target s ev) = APull ->
  granted ev o = true -> keepalive s ev = false ->
  exists u r, identity s ev = Some u /\ rights_now (users s) u = Some r /\
              permits r PULL (snd (target s ev)) = true.
Proof.
  intros Hr o Hq Ht Hg Hk. destruct (reachable_judged w s ev Hr) as [J _].
  destruct (judge_parts _ _ _ _ Hq J) as (P1 & _). destruct (P1 Hg) as [Ha|Ha]; [|congruence].
  apply allowed_inv in Ha as (u & Hi & Hs). rewrite Ht in Hs.
  apply spec_allows_pull in Hs as (r & Hr1 & Hr2). eauto.
Qed.

(* the media a data channel receives is that of a control channel of the same verified user,
   who holds the pull right on the stream it plays *)
Theorem data_channel_requires_owner_and_pull w s path t chan h :
  reachable w s ->
  let o := snd (step w s (EWsOpen 2 path t chan h)) in
  (o_media o = true \/ o_aux o = 200) ->
  exists u r, token_identity s t = Some u /\ u = c_user (get_conn s chan) /\
              rights_now (users s) u = Some r /\ permits r PULL (c_path (get_conn s chan)) = true.
Proof.
  intros Hr o Hm. destruct (reachable_judged w s (EWsOpen 2 path t chan h) Hr) as [J _].
  assert (Hq : is_request (EWsOpen 2 path t chan h) = true) by reflexivity.
  destruct (judge_parts _ _ _ _ Hq J) as (_ & _ & _ & Pj). fold o in Pj.
  unfold judge_join_chk in Pj. cbn [Z.eqb identity] in Pj.
  assert (Hb : o_media o || (o_aux o =? 200) = true).
  { destruct Hm as [Hm|Hm]; rewrite Hm; [reflexivity|apply orb_true_r]. }
  destruct (token_identity s t) as [u|].
  - rewrite Hb in Pj. cbn [implb] in Pj. apply andb_true_iff in Pj as [Pj _].
    apply andb_true_iff in Pj as [Pj Ps]. apply andb_true_iff in Pj as [Pj _].
    apply andb_true_iff in Pj as [_ Pu]. apply bytes_eqb_eq in Pu.
    apply spec_allows_pull in Ps as (r & R1 & R2). exists u, r. auto.
  - apply andb_true_iff in Pj as [P1 P2]. destruct Hm as [Hm|Hm]; rewrite Hm in *; discriminate.
Qed.

(* a stream is published or replaced only by a granted RECORD of a caller whose rights, as saved
   now, cover the session's path for pushing *)
Theorem publish_requires_push w s ev :
  reachable w s ->
  let o := snd (step w s ev) in
  (match ev with ERtsp _ _ _ _ | EWsRtsp _ _ _ => True | _ => False end) ->
  zlist_eqb (o_reg o) (reg_view w (reg s)) = false ->
  exists u r, identity s ev = Some u /\ rights_now (users s) u = Some r /\
              fst (target s ev) = APush /\ permits r PUSH (snd (target s ev)) = true.
Proof.
  intros Hr o He Hd. destruct (reachable_judged w s ev Hr) as [_ J]. fold o in J.
  destruct ev; try contradiction; unfold judge_reg_chk in J; rewrite Hd in J;
    apply andb_true_iff in J as [J Ha]; apply andb_true_iff in J as [Jm _];
    apply allowed_inv in Ha as (u & Hi & Hs); apply Z.eqb_eq in Jm; subst m.
  - assert (Ht : fst (target s (ERtsp k M_RECORD path cr)) = APush).
    { cbn [target]. unfold rtsp_target. unfold_m. cbn. reflexivity. }
    rewrite Ht in Hs. apply spec_allows_push in Hs as (r & R1 & R2). exists u, r. auto.
  - assert (Ht : fst (target s (EWsRtsp k M_RECORD path)) = APush).
    { cbn [target]. unfold rtsp_target. unfold_m. cbn. reflexivity. }
    rewrite Ht in Hs. apply spec_allows_push in Hs as (r & R1 & R2). exists u, r. auto.
Qed.

(* nothing but RTSP / ws-rtsp requests touches the registry *)
Theorem registry_changes_only_by_sessions w s ev :
  (match ev with ERtsp _ _ _ _ | EWsRtsp _ _ _ => False | _ => True end) ->
  reg (fst (step w s ev)) = reg s.
Proof.
  intros He. destruct ev; try contradiction; unfold step; cbn [step_gen]; try reflexivity.
  - unfold step_login. break_step; reflexivity.
  - unfold step_refresh. destruct (is_none t); [reflexivity|].
    assert (Hc : reg (fst (refresh s t)) = reg s) by (unfold refresh; break_step; reflexivity).
    destruct (refresh s t). exact Hc.
  - unfold step_wsopen, step_wsopen_in. break_step; reflexivity.
  - unfold step_wsp. break_step; reflexivity.
  - rewrite step_http_auth. reflexivity.
  - unfold step_api. break_step; reflexivity.
  - unfold step_url. rewrite step_url_auth. reflexivity.
Qed.

(* management calls succeed only for administrators (stream queries: for any authenticated caller) *)
Theorem api_requires_admin w s ep t u b n h :
  reachable w s ->
  ep_open ep = false ->
  o_code (snd (step w s (EApi ep t u b n h))) = 2 ->
  exists v, token_identity s t = Some v /\
            (ep_read ep = false -> exists push pull, rights_now (users s) v = Some (true, push, pull)).
Proof.
  intros Hr Ho Hc. destruct (reachable_judged w s (EApi ep t u b n h) Hr) as [J _].
  assert (Hq : is_request (EApi ep t u b n h) = true) by (cbn; rewrite Ho; reflexivity).
  destruct (judge_parts _ _ _ _ Hq J) as (P1 & _).
  assert (Hg : granted (EApi ep t u b n h) (snd (step w s (EApi ep t u b n h))) = true).
  { cbn [granted]. rewrite Ho, Hc. reflexivity. }
  destruct (P1 Hg) as [Ha|Ha]; [|discriminate].
  apply allowed_inv in Ha as (v & Hi & Hs). exists v. split; [exact Hi|].
  intros Hre. cbn [target fst snd] in Hs. rewrite Hre in Hs. unfold spec_allows in Hs.
  destruct (rights_now (users s) v) as [[[a push] pull]|]; [|discriminate]. subst a. eauto.
Qed.

(* a request whose token is not a valid access token is refused with 401 on every token-guarded entry point;
   an RTSP request without a valid digest is never served *)
Theorem bad_tokens_refused w s ev :
  reachable w s -> is_request ev = true -> identity s ev = None ->
  unauth_code ev (snd (step w s ev)) = true /\ granted ev (snd (step w s ev)) = false \/
  keepalive s ev = true.
Proof.
  intros Hr Hq Hi. destruct (reachable_judged w s ev Hr) as [J _].
  destruct (judge_parts _ _ _ _ Hq J) as (P1 & _ & P3 & _).
  destruct (granted ev (snd (step w s ev))) eqn:Hg.
  - destruct (P1 eq_refl) as [Ha|Ha]; [|auto]. unfold allowed_chk in Ha. rewrite Hi in Ha. discriminate.
  - left. auto.
Qed.

(* which tokens have no identity: never issued, garbage, absent, a refresh token, an expired one, a superseded one *)
Theorem token_classes_without_identity gs now :
  spec_access gs now TNone = None /\
  (forall b, spec_access gs now (TRaw b) = None) /\
  (forall k, spec_access gs now (TR k) = None) /\
  (forall k, (length gs <= k)%nat -> spec_access gs now (TA k) = None) /\
  (forall k g, nth_error gs k = Some g -> g_t0 g + A_LIFE <= now -> spec_access gs now (TA k) = None) /\
  (forall k g, nth_error gs k = Some g -> g_dead g = true -> spec_access gs now (TA k) = None).
Proof.
  repeat split; intros; simpl; auto.
  - assert (E : nth_error gs k = None) by (apply nth_error_None; lia). rewrite E. reflexivity.
  - rewrite H. destruct (g_dead g); [reflexivity|]. destruct (now <? g_t0 g + A_LIFE) eqn:E; [|reflexivity].
    apply Z.ltb_lt in E. lia.
  - rewrite H, H0. reflexivity.
Qed.

(* using a refresh token supersedes the access token issued with it, whatever the clock says afterwards *)
Theorem refresh_supersedes s k g :
  tok_inv s -> nth_error (grants s) k = Some g -> g_dead g = false ->
  forall now', spec_access (grants (fst (refresh s (TR k)))) now' (TA k) = None.
Proof.
  intros H Hn Hd now'. unfold refresh. rewrite H. simpl. rewrite Hn, Hd. cbn [tr_k rec_of].
  rewrite Nat.eqb_refl.
  assert (Hk : forall gs', nth_error (kill (grants s) k ++ gs') k =
                           Some {| g_user := g_user g; g_t0 := g_t0 g; g_dead := true |}).
  { intros gs'. rewrite nth_error_app1.
    - rewrite nth_error_kill, Nat.eqb_refl, Hn. reflexivity.
    - rewrite kill_length. apply nth_error_Some. congruence. }
  destruct (_ <? _); cbn [fst].
  - unfold new_token. cbn [grants set_toks]. unfold spec_access. rewrite Hk. reflexivity.
  - cbn [grants set_toks]. unfold spec_access. rewrite nth_error_kill, Nat.eqb_refl, Hn. reflexivity.
Qed.

(* the holder of the right is not refused: authenticated, allowed_chk by the rights as saved now, request in order *)
Theorem holder_not_refused w s ev :
  reachable w s -> is_request ev = true ->
  allowed_chk s ev = true -> feasible w s ev = true ->
  accepted ev (snd (step w s ev)) = true.
Proof.
  intros Hr Hq Ha Hf. destruct (reachable_judged w s ev Hr) as [J _].
  destruct (judge_parts _ _ _ _ Hq J) as (_ & P2 & _). auto.
Qed.

(* ------------------------------------------------------------------ *)
(* H. the rights are those last saved                                    *)

Lemma lower_byte_idem b : lower_byte (lower_byte b) = lower_byte b.
Proof.
  unfold lower_byte. destruct ((65 <=? b) && (b <=? 90)) eqn:E; [|rewrite E; reflexivity].
  apply andb_true_iff in E as [E1 E2]. apply Z.leb_le in E1. apply Z.leb_le in E2.
  destruct ((65 <=? b + 32) && (b + 32 <=? 90)) eqn:E'; [|reflexivity].
  apply andb_true_iff in E' as [_ E4]. apply Z.leb_le in E4. lia.
Qed.

Lemma to_lower_idem s : to_lower (to_lower s) = to_lower s.
Proof. unfold to_lower. rewrite map_map. apply map_ext. apply lower_byte_idem. Qed.

Lemma bytes_eqb_true_eq a b : bytes_eqb a b = true -> a = b.
Proof. apply bytes_eqb_eq. Qed.

Lemma find_map_save key nu upd n' t :
  find (name_is n') (map (fun x => if name_is key x then copy_from x nu upd else x) t) =
  if bytes_eqb key n' then option_map (fun old => copy_from old nu upd) (find (name_is key) t)
  else find (name_is n') t.
Proof.
  induction t as [|x t IH]; simpl.
  - destruct (bytes_eqb key n'); reflexivity.
  - destruct (name_is key x) eqn:Ex.
    + assert (Hk : u_name x = key) by (apply bytes_eqb_eq; exact Ex).
      assert (Hn : name_is n' (copy_from x nu upd) = bytes_eqb key n') by (unfold name_is; cbn; congruence).
      assert (Hn2 : name_is n' x = bytes_eqb key n') by (unfold name_is; congruence).
      rewrite Hn, Hn2. destruct (bytes_eqb key n'); [reflexivity|]. exact IH.
    + destruct (name_is n' x) eqn:Ex2.
      * assert (Hk : u_name x = n') by (apply bytes_eqb_eq; exact Ex2).
        assert (Hf : bytes_eqb key n' = false).
        { rewrite bytes_eqb_sym. rewrite <- Hk. exact Ex. }
        rewrite Hf. reflexivity.
      * exact IH.
Qed.

Lemma existsb_find_none {A} (f : A -> bool) l : existsb f l = false -> find f l = None.
Proof. induction l as [|x l IH]; simpl; [reflexivity|]. destruct (f x); [discriminate|]. exact IH. Qed.

Lemma existsb_find_some {A} (f : A -> bool) l : existsb f l = true -> exists x, find f l = Some x.
Proof. induction l as [|x l IH]; simpl; [discriminate|]. destruct (f x); eauto. Qed.

Lemma find_app_one {A} (f : A -> bool) l x :
  find f (l ++ [x]) = match find f l with Some y => Some y | None => if f x then Some x else None end.
Proof. induction l as [|y l IH]; simpl; [reflexivity|]. destruct (f y); [reflexivity|exact IH]. Qed.

(* what Get returns after Save: the saved record (password kept on request), everybody else untouched *)
Theorem find_user_save t u upd n :
  find_user (save_user t u upd) n =
  if bytes_eqb (to_lower (u_name u)) (to_lower n)
  then Some (match find_user t (u_name u) with
             | Some old => copy_from old (norm_user u) upd
             | None => norm_user u
             end)
  else find_user t n.
Proof.
  unfold find_user, save_user. cbn [norm_user u_name].
  set (key := to_lower (u_name u)). set (n' := to_lower n).
  destruct (existsb (name_is key) t) eqn:Ee.
  - rewrite find_map_save. destruct (bytes_eqb key n'); [|reflexivity].
    destruct (existsb_find_some _ _ Ee) as [x Hx]. rewrite Hx. reflexivity.
  - rewrite find_app_one. rewrite (existsb_find_none _ _ Ee).
    unfold name_is at 2. cbn [norm_user u_name]. fold key.
    destruct (bytes_eqb key n') eqn:En.
    + apply bytes_eqb_true_eq in En. rewrite <- En. rewrite (existsb_find_none _ _ Ee). reflexivity.
    + destruct (find (name_is n') t); reflexivity.
Qed.

Theorem find_user_del t name n :
  find_user (del_user t name) n =
  if bytes_eqb (to_lower name) (to_lower n) then None else find_user t n.
Proof.
  unfold find_user, del_user. set (key := to_lower name). set (n' := to_lower n).
  induction t as [|x t IH]; simpl.
  - destruct (bytes_eqb key n'); reflexivity.
  - destruct (name_is key x) eqn:Ex; cbn [negb].
    + assert (Hk : u_name x = key) by (apply bytes_eqb_eq; exact Ex).
      assert (Hn2 : name_is n' x = bytes_eqb key n') by (unfold name_is; congruence).
      rewrite IH, Hn2. destruct (bytes_eqb key n'); reflexivity.
    + simpl. destruct (name_is n' x) eqn:Ex2.
      * assert (Hk : u_name x = n') by (apply bytes_eqb_eq; exact Ex2).
        assert (Hf : bytes_eqb key n' = false).
        { rewrite bytes_eqb_sym. rewrite <- Hk. exact Ex. }
        rewrite Hf. reflexivity.
      * exact IH.
Qed.

(* after a save the rights of that user are exactly the saved ones (an administrator's empty right being "*"),
   whatever was saved before; after a delete there are none *)
Lemma admin_default_idem a x : admin_default a (admin_default a x) = admin_default a x.
Proof. unfold admin_default. destruct a; [|reflexivity]. destruct x; reflexivity. Qed.

Theorem rights_now_after_save t u upd :
  rights_now (save_user t u upd) (u_name u) =
  Some (u_admin u, admin_default (u_admin u) (u_push u), admin_default (u_admin u) (u_pull u)).
Proof.
  unfold rights_now. rewrite find_user_save, bytes_eqb_refl.
  destruct (find_user t (u_name u)); cbn; rewrite ?admin_default_idem; reflexivity.
Qed.

Theorem rights_now_after_del t name : rights_now (del_user t name) name = None.
Proof. unfold rights_now. rewrite find_user_del, bytes_eqb_refl. reflexivity. Qed.

Theorem rights_now_others_kept t u upd n :
  bytes_eqb (to_lower (u_name u)) (to_lower n) = false ->
  rights_now (save_user t u upd) n = rights_now t n.
Proof. intros H. unfold rights_now. rewrite find_user_save, H. reflexivity. Qed.

(* decisions see the table only through Get: two tables that return the same record for every name
   (whatever histories of saves and deletes produced them) give the same answers and stay equivalent *)
Definition same_table (t1 t2 : utable) : Prop := forall n, find_user t1 n = find_user t2 n.

Lemma perm_go_same t1 t2 : same_table t1 t2 -> forall u r p, perm_go t1 u r p = perm_go t2 u r p.
Proof. intros H u r p. unfold perm_go. rewrite H. reflexivity. Qed.

Lemma rtsp_handle_ext ws pm1 pm2 r self c m path :
  (forall a p, pm1 a p = pm2 a p) ->
  rtsp_handle ws pm1 r self c m path = rtsp_handle ws pm2 r self c m path.
Proof. intros H. unfold rtsp_handle. rewrite !H. reflexivity. Qed.

Lemma wsp_handle_ext fx pm1 pm2 r c m :
  (forall a p, pm1 a p = pm2 a p) -> wsp_handle fx pm1 r c m = wsp_handle fx pm2 r c m.
Proof. intros H. unfold wsp_handle. rewrite !H. reflexivity. Qed.

Lemma save_same t1 t2 u upd : same_table t1 t2 -> same_table (save_user t1 u upd) (save_user t2 u upd).
Proof. intros H n. rewrite !find_user_save, !H. reflexivity. Qed.

Lemma del_same t1 t2 name : same_table t1 t2 -> same_table (del_user t1 name) (del_user t2 name).
Proof. intros H n. rewrite !find_user_del, !H. reflexivity. Qed.


Definition with_users (s : state) (t : utable) : state := set_users s t.

Ltac simp := cbn [fst snd users toks grants now conns reg ctr set_users set_now set_toks set_conns put_conn new_token
                  o_code o_aux o_media o_id o_reg ob with_reg Z.eqb Pos.eqb negb].
Theorem rights_are_current w s t2 ev :
  same_table (users s) t2 ->
  snd (step w (with_users s t2) ev) = snd (step w s ev) /\
  same_table (users (fst (step w s ev))) (users (fst (step w (with_users s t2) ev))) /\
  with_users (fst (step w s ev)) (users (fst (step w (with_users s t2) ev))) = fst (step w (with_users s t2) ev).
Proof.
  intros H. pose proof (perm_go_same _ _ H) as Hp.
  destruct ev; unfold step, with_users; cbn [step_gen].
  - simp. repeat split; auto using save_same.
  - simp. repeat split; auto using del_same.
  - simp. repeat split; auto.
  - unfold step_login. cbn [users set_users]. rewrite <- H.
    destruct name; [simp; auto|]. destruct pw; [simp; auto|].
    destruct (find_user (users s) (z :: name)); [|simp; auto].
    destruct (bytes_eqb _ _); simp; auto.
  - unfold step_refresh. destruct (is_none t); [simp; auto|].
    unfold refresh. cbn [toks set_users].
    destruct (tm_load (toks s) t); [|simp; auto].
    destruct (tokv_eqb _ _); [|simp; auto].
    cbn [now set_users]. destruct (_ <? _); simp; auto.
  - simp. auto.
  - unfold step_rtsp. cbn [users set_users]. unfold get_conn. cbn [conns set_users].
    destruct (negb _); [simp; auto|]. destruct (negb _); [simp; auto|].
    assert (Hd : digest_check true t2 (nth k (conns s) dead_conn) cr =
                 digest_check true (users s) (nth k (conns s) dead_conn) cr).
    { unfold digest_check. destruct cr as [|du ds dn db]; [reflexivity|]. destruct du; [reflexivity|]. rewrite H. reflexivity. }
    rewrite Hd. clear Hd. destruct (digest_check _ _ _ _) as [[uname|] rot]; [|simp; auto].
    cbn [reg set_users]. rewrite (rtsp_handle_ext _ _ _ _ _ _ _ _ (fun a p => eq_sym (Hp uname a p))).
    destruct (rtsp_handle _ _ _ _ _ _ _) as [[c2 code] pub]. simp. auto.
  - unfold step_wsopen. destruct (negb (mux_ok (ws_url kind path))); [simp; break_step; simp; auto|].
    unfold step_wsopen_in, stream_gate, stream_gate_h, auth_gate, access_check, get_conn. cbn [users toks now conns reg ctr set_users].
    destruct (if is_none t then None else _) as [uname|]; [|simp; break_step; simp; auto].
    rewrite <- Hp. destruct (perm_go _ _ _ _); cbn [negb Z.eqb Pos.eqb]; break_step; simp; auto.
  - unfold step_wsrtsp. unfold get_conn. cbn [conns users reg set_users].
    destruct (negb _); [simp; auto|]. destruct (negb _); [simp; auto|].
    rewrite (rtsp_handle_ext _ _ _ _ _ _ _ _ (fun a p => eq_sym (Hp _ a p))).
    destruct (rtsp_handle _ _ _ _ _ _ _) as [[c2 code] pub]. simp. auto.
  - unfold step_wsp. unfold get_conn. cbn [conns users reg set_users].
    destruct (negb _); [simp; auto|].
    rewrite (wsp_handle_ext _ _ _ _ _ _ (fun a p => eq_sym (Hp _ a p))).
    destruct (wsp_handle _ _ _ _ _) as [c2 code]. simp. auto.
  - unfold step_http. destruct (negb (mux_ok (http_url kind path seq))); [simp; auto|].
    unfold step_http_in, stream_gate, stream_gate_h, auth_gate, access_check. cbn [users toks now reg set_users].
    destruct (if is_none t then None else _) as [uname|]; [|simp; auto].
    rewrite <- Hp. destruct (perm_go _ _ _ _); cbn; break_step; simp; auto.
  - unfold step_api, api_gate, api_gate_h, auth_gate, access_check. cbn [users toks now set_users].
    destruct (ep_open ep); [simp|].
    + destruct (ep =? EP_SAVE_USER); [simp; auto using save_same|].
      destruct (ep =? EP_DEL_USER); simp; auto using del_same.
    + destruct (if is_none t then None else _) as [uname|]; [|simp; auto].
      destruct (ep_read ep).
      * simp. destruct (ep =? EP_SAVE_USER); [simp; auto using save_same|].
        destruct (ep =? EP_DEL_USER); simp; auto using del_same.
      * rewrite !ident_hdr_set. rewrite <- H. destruct (find_user (users s) uname) as [x|]; [|simp; auto].
        destruct (u_admin x); [|simp; auto].
        simp. destruct (ep =? EP_SAVE_USER); [simp; auto using save_same|].
        destruct (ep =? EP_DEL_USER); simp; auto using del_same.
  - unfold step_url, step_url_gen. destruct (negb (mux_ok url)); [simp; auto|].
    unfold stream_gate, stream_gate_h, auth_gate, access_check. cbn [users toks now reg set_users].
    destruct (if is_none t then None else _) as [uname|]; [|simp; auto].
    rewrite <- Hp. destruct (perm_go _ _ _ _); cbn [negb Z.eqb Pos.eqb]; break_step; simp; auto.
Qed.

(* ------------------------------------------------------------------ *)
(* I. tokens and what other clients are shown                            *)

(* what any client other than the holder is shown (status codes, media, session / channel ids — the
   ids drawn from the process-wide counter) is the same whatever the entropy oracle returns: the
   oracle's output reaches nobody but the caller of a successful login / refresh.  Hence no function
   of what the server discloses to other or unauthenticated clients computes a token. *)
Theorem token_not_computable rnd1 rnd2 w s evs :
  others_view (run_out rnd1 w s evs) = others_view (run_out rnd2 w s evs).
Proof.
  revert s. induction evs as [|e evs IH]; intros s; [reflexivity|].
  cbn [run_out]. destruct (step w s e) as [s1 o]. unfold others_view in *. cbn [map fst].
  f_equal. apply IH.
Qed.

Theorem others_view_is_run rnd w s evs : others_view (run_out rnd w s evs) = run w s evs.
Proof.
  revert s. induction evs as [|e evs IH]; intros s; [reflexivity|].
  unfold run in *. cbn [run_out run_gen]. unfold step. destruct (step_gen true w s e) as [s1 o].
  unfold others_view in *. cbn [map fst]. f_equal. apply IH.
Qed.

(* before the repair: both tokens were a public function of the counter whose values the session ids are.
   Whoever saw an id and knows (or tries) how many ids were drawn since computes the tokens of the next login. *)
Theorem token_predictable_refuted :
  forall (h : Z -> bytes) (disclosed_id ids_between : Z),
    predict h disclosed_id ids_between = tokens_orig h (disclosed_id + ids_between).
Proof. intros. unfold predict, tokens_orig. reflexivity. Qed.

(* ---- the behaviour before the repairs fails the oracle: one history per defect ---- *)
From Coq Require Import String Ascii.
Definition bs (s : string) : bytes := map (fun a => Z.of_nat (nat_of_ascii a)) (list_ascii_of_string s).

Definition w0 : list bytes := [bs "/a/b"; bs "/a/c"; bs "/x"; bs "/p/q"].
Definition mk (n pw : string) (admin : bool) (push pull : string) : user :=
  {| u_name := bs n; u_pw := bs pw; u_admin := admin; u_push := bs push; u_pull := bs pull |}.
Definition users0 : list user :=
  [mk "bob" "pb" false "" "/a/*"; mk "ann" "pa" false "/p/*" "/x"; mk "eve" "pe" false "" "/a/b"].
Definition s0 : state := state0 users0 [bs "/a/b"; bs "/x"].
Definition refutes (evs : list event) : bool := negb (ok_run w0 s0 evs (run_gen false w0 s0 evs)).

(* D20: the matchers of the previous rights were kept: right narrowed from /a/* to /c, /a/b still granted *)
Theorem narrowed_rights_still_grant_refuted :
  exists a1 a2 p,
    spec_permit false a2 p = false /\
    validate_matchers (matchers_after_saves [a1; a2]) p = true.
Proof. exists (bs "/a/*"), (bs "/c"), (bs "/a/b"). vm_compute. auto. Qed.

(* D21: ann (push /p/*, pull /x) opens ws-rtsp on /x and publishes /a/c *)
Theorem ws_publish_without_push_refuted :
  refutes [ELogin (bs "ann") (bs "pa"); EWsOpen 0 (bs "/x") (TA 0) 0 [];
           EWsRtsp 0 M_ANNOUNCE (bs "/a/c"); EWsRtsp 0 M_SETUP_RECORD (bs "/a/c"); EWsRtsp 0 M_RECORD (bs "/a/c")] = true.
Proof. vm_compute. reflexivity. Qed.

(* D22: bob plays /a/b over WSP; ann (pull /x) joins his channel from /x and receives his media *)
Theorem wsp_datachannel_hijack_refuted :
  refutes [ELogin (bs "bob") (bs "pb"); ELogin (bs "ann") (bs "pa");
           EWsOpen 1 (bs "/a/b") (TA 0) 0 []; EWsOpen 2 (bs "/a/b") (TA 0) 0 [];
           EWsp 0 M_DESCRIBE (bs "/a/b"); EWsp 0 M_SETUP_PLAY (bs "/a/b"); EWsp 0 M_PLAY (bs "/a/b");
           EWsOpen 2 (bs "/x") (TA 1) 0 []] = true.
Proof. vm_compute. reflexivity. Qed.

(* WSP: rights withdrawn after the upgrade, PLAY still served *)
Theorem wsp_rights_not_current_refuted :
  refutes [ELogin (bs "bob") (bs "pb"); EWsOpen 1 (bs "/a/b") (TA 0) 0 [];
           EWsp 0 M_DESCRIBE (bs "/a/b"); EWsp 0 M_SETUP_PLAY (bs "/a/b");
           ESave (mk "bob" "pb" false "" "/x") false; EWsp 0 M_PLAY (bs "/a/b")] = true.
Proof. vm_compute. reflexivity. Qed.

(* D23: eve holds exactly /a/b and is refused its segment 1 *)
Theorem hls_segment_path_refuted :
  refutes [ELogin (bs "eve") (bs "pe"); EHttp 2 (bs "/a/b") (TA 0) 1 []] = true.
Proof. vm_compute. reflexivity. Qed.

(* digest: after one wrong response the right one, computed from the challenge just received, is refused *)
Theorem stale_challenge_refuted :
  refutes [ERtspOpen; ERtsp 0 M_DESCRIBE (bs "/a/b") (CDigest (bs "bob") (bs "bad") 0 0);
           ERtsp 0 M_DESCRIBE (bs "/a/b") (CDigest (bs "bob") (bs "pb") 0 0)] = true.
Proof. vm_compute. reflexivity. Qed.

(* and the repaired model passes on the very same histories (instances of model_passes, by computation) *)
Example repaired_passes_on_witnesses :
  ok_run w0 s0 [ELogin (bs "eve") (bs "pe"); EHttp 2 (bs "/a/b") (TA 0) 1 []]
         (run w0 s0 [ELogin (bs "eve") (bs "pe"); EHttp 2 (bs "/a/b") (TA 0) 1 []]) = true.
Proof. vm_compute. reflexivity. Qed.

(* the history of the non-vacuity example in Properties/C11.v *)
Definition nv_login : event := ELogin (bs "bob") (bs "pb").
Definition nv_get (t : tokv) : event := EHttp 0 (bs "/a/b") t 0 [(bs "USER_NAME_IN_TOKEN", bs "root")].
Definition nv_evs : list event :=
  [nv_login; nv_get (TA 0); nv_get (TR 0); ESave (mk "bob" "pb" false "" "/c") false; nv_get (TA 0)].

(* ------------------------------------------------------------------ *)
(* J. the identity every decision uses is the token's user, whatever headers the client sends *)

Theorem identity_is_token_user w s ev : step w s ev = step w s (strip_hdrs ev).
Proof.
  destruct ev; try reflexivity; unfold step; cbn [step_gen strip_hdrs].
  - unfold step_wsopen, step_wsopen_in. rewrite stream_gate_hdrs. reflexivity.
  - unfold step_http, step_http_in. rewrite stream_gate_hdrs. reflexivity.
  - unfold step_api. rewrite api_gate_hdrs. reflexivity.
  - unfold step_url, step_url_gen. rewrite stream_gate_hdrs. reflexivity.
Qed.

Theorem run_ignores_client_headers w s evs : run w s evs = run w s (map strip_hdrs evs).
Proof.
  revert s. induction evs as [|e evs IH]; intros s; [reflexivity|].
  unfold run in *. cbn [run_gen map]. pose proof (identity_is_token_user w s e) as H. unfold step in H.
  rewrite <- H. destruct (step_gen true w s e) as [s1 o]. f_equal. apply IH.
Qed.

(* the name the later interceptors read is the token's, for every header list *)
Theorem header_identity_set hdrs tokuser : ident_hdr false hdrs tokuser = tokuser.
Proof. apply ident_hdr_set. Qed.

(* with Add instead of Set the client's own copy of the header comes first: bob (pull /a/+... only) names the
   administrator and is served /x, and passes the administrator check of the management API *)
Definition users1 : list user := users0 ++ [mk "root" "pr" true "" ""].
Definition s1 : state := fst (step w0 (state0 users1 [bs "/a/b"; bs "/x"]) (ELogin (bs "bob") (bs "pb"))).
Definition forged : list hdr := [(bs "user_name_in_token", bs "root")].
Definition n_bob : bytes := bs "bob".
Definition n_root : bytes := bs "root".
Definition p_x : bytes := bs "/x".

Theorem identity_header_add_refuted :
  ident_hdr true forged n_bob = n_root /\
  stream_gate_h true true s1 (TA 0) p_x None [] = (403, n_bob) /\
  stream_gate_h true true s1 (TA 0) p_x None forged = (200, n_root) /\
  api_gate_h true s1 EP_USERS (TA 0) [] = 403 /\
  api_gate_h true s1 EP_USERS (TA 0) forged = 2 /\
  stream_gate true s1 (TA 0) p_x None forged = (403, n_bob) /\
  api_gate s1 EP_USERS (TA 0) forged = 403.
Proof. vm_compute. repeat split; reflexivity. Qed.

(* ------------------------------------------------------------------ *)
(* K. the decision is on the resource actually served                    *)

Lemma blist_eqb_eq a b : blist_eqb a b = true -> a = b.
Proof.
  revert b. induction a as [|x a IH]; destruct b as [|y b]; simpl; try discriminate; auto.
  intros H. apply andb_true_iff in H as [H1 H2]. apply bytes_eqb_eq in H1. f_equal; auto.
Qed.

Lemma existsb_pointwise {A} (f g : A -> bool) l : (forall x, f x = g x) -> existsb f l = existsb g l.
Proof. intros H. induction l as [|x l IH]; simpl; [reflexivity|]. rewrite H, IH. reflexivity. Qed.

(* two spellings with the same segments (blanks around a segment and letter case aside) are the same path to the
   documented pattern language *)
Lemma spec_permit_same_segs admin r p q : same_segs p q = true -> spec_permit admin r p = spec_permit admin r q.
Proof.
  intros H. apply blist_eqb_eq in H. unfold spec_permit. apply existsb_pointwise. intros item.
  unfold spec_pattern. rewrite H. reflexivity.
Qed.

Lemma spec_allows_path_ok t u act p :
  path_ok p = true -> spec_allows t u act (served_key p) = spec_allows t u act p.
Proof.
  intros H. unfold path_ok in H. unfold spec_allows, permits.
  destruct act; try reflexivity; destruct (rights_now t u) as [[[a push] pull]|]; try reflexivity;
    cbn; symmetry; apply spec_permit_same_segs; exact H.
Qed.

Lemma ev_ok_target s ev : ev_ok s ev = true -> path_ok (snd (target s ev)) = true.
Proof. unfold ev_ok. intros H. apply andb_true_iff in H as [H _]. exact H. Qed.

Lemma allowed_ok s ev : ev_ok s ev = true -> allowed s ev = allowed_chk s ev.
Proof.
  intros H. apply ev_ok_target in H. unfold allowed, allowed_chk.
  destruct (identity s ev) as [u|]; [|reflexivity]. destruct (target s ev) as [act p]. cbn [snd] in H.
  apply spec_allows_path_ok. exact H.
Qed.

Lemma judge_join_ok s ev o : ev_ok s ev = true -> judge_join_strict s ev o = judge_join_chk s ev o.
Proof.
  intros H. destruct ev; try reflexivity. unfold judge_join_strict, judge_join_chk.
  destruct (kind =? 2) eqn:E2; [|reflexivity].
  unfold ev_ok in H. cbn [target snd] in H. rewrite E2 in H. apply andb_true_iff in H as [H1 H2].
  destruct (identity s (EWsOpen kind path t chan hdrs)) as [u|]; [|reflexivity].
  rewrite (spec_allows_path_ok _ _ _ _ H1), (spec_allows_path_ok _ _ _ _ H2). reflexivity.
Qed.

Lemma judge_ok w s ev o : ev_ok s ev = true -> judge_strict w s ev o = judge_chk w s ev o.
Proof.
  intros H. unfold judge_strict, judge_chk. rewrite (allowed_ok _ _ H), (judge_join_ok _ _ _ H). reflexivity.
Qed.

Lemma judge_reg_ok w s ev o : ev_ok s ev = true -> judge_reg_strict w s ev o = judge_reg_chk w s ev o.
Proof.
  intros H. unfold judge_reg_strict, judge_reg_chk. rewrite (allowed_ok _ _ H). reflexivity.
Qed.

(* what is served is the resource decided about *)
Lemma rtsp_handle_src watch ws pm r self c m path c2 code pub :
  rtsp_handle ws pm r self c m path = (c2, code, pub) ->
  let r2 := match pub with Some p => reg_put r p self | None => r end in
  src_aux watch m code c2 r2 = 0 \/
  ((m =? M_PLAY) && (c_status c =? 2) || (m =? M_RECORD) && (c_status c =? 3)) = true \/
  src_aux watch m code c2 r2 = served_index watch (canonical_path (snd (rtsp_target ws c m path))).
Proof.
  intros H. unfold rtsp_handle, rtsp_target, src_aux in *. unfold_m.
  split_m m; cbn in *; try discriminate;
    break_hyp H; inversion H; subst; cbn in *; unfold_m;
    repeat match goal with H : (_ =? _) = false |- _ => rewrite H in * end; cbn in *; auto;
    repeat match goal with
           | H : (?x =? 2) = true |- context [?x =? 2] => rewrite H
           | H : (?x =? 2) = false |- context [?x =? 2] => rewrite H
           end; cbn; auto;
    repeat match goal with |- context [match ?x with _ => _ end] => destruct x end; auto.
Qed.

Lemma wsp_handle_src watch pm r c m c2 code :
  wsp_handle true pm r c m = (c2, code) ->
  src_aux watch m code c2 r = 0 \/ ((m =? M_PLAY) && (c_status c =? 2)) = true \/
  src_aux watch m code c2 r = served_index watch (canonical_path (if m =? M_DESCRIBE then c_wspath c else c_path c)).
Proof.
  intros H. destruct (c_status c =? 1) eqn:S1; destruct (c_status c =? 2) eqn:S2;
  unfold wsp_handle, src_aux in *; rewrite ?S1, ?S2 in *; unfold_m;
  (split_m m; cbn in *; try discriminate;
    break_hyp H; inversion H; subst; cbn in *; unfold_m;
    repeat match goal with H : (_ =? _) = false |- _ => rewrite H in * end; cbn in *; auto;
    repeat match goal with
           | H : (?x =? 2) = true |- context [?x =? 2] => rewrite H
           | H : (?x =? 2) = false |- context [?x =? 2] => rewrite H
           end; cbn; auto;
    repeat match goal with |- context [match ?x with _ => _ end] => destruct x end; auto;
    try (destruct (c_status _ =? 1), (c_status _ =? 2); cbn in *; try discriminate; auto)).
Qed.

Lemma or3_b (a : Z) (k : bool) (x : Z) : a = 0 \/ k = true \/ a = x -> (a =? 0) || k || (a =? x) = true.
Proof.
  intros [H|[H|H]]; subst.
  - reflexivity.
  - rewrite orb_true_r. reflexivity.
  - rewrite Z.eqb_refl. apply orb_true_r.
Qed.

Theorem step_src w s ev : judge_src w s ev (snd (step w s ev)) = true.
Proof.
  destruct ev; try reflexivity; unfold step; cbn [step_gen judge_src keepalive target snd served_key].
  - unfold step_rtsp. set (c := get_conn s k).
    destruct (c_kind c =? K_RTSP); cbn [negb]; [|reflexivity].
    destruct (legal (c_status c) m); cbn [negb]; [|reflexivity].
    destruct (digest_check true (users s) c cr) as [[uname|] rot].
    + destruct (rtsp_handle false (perm_go (users s) uname) (reg s) (2 + Z.of_nat k) c m path) as [[c2 code] pub] eqn:Eh.
      cbn [snd with_reg o_aux ob]. apply or3_b. exact (rtsp_handle_src w _ _ _ _ _ _ _ _ _ _ Eh).
    + cbn [snd with_reg o_aux ob]. unfold src_aux.
      replace (401 =? 200) with false by reflexivity. rewrite andb_false_r.
      destruct (m =? M_PLAY); cbn [andb]; [|reflexivity].
      destruct (c_status c =? 2); cbn [andb orb]; [|reflexivity].
      rewrite orb_true_r. reflexivity.
  - unfold step_wsrtsp. set (c := get_conn s k).
    destruct (c_kind c =? K_WSRTSP); cbn [negb]; [|reflexivity].
    destruct (legal (c_status c) m); cbn [negb]; [|reflexivity].
    destruct (rtsp_handle true (perm_go (users s) (c_user c)) (reg s) (2 + Z.of_nat k) c m path) as [[c2 code] pub] eqn:Eh.
    cbn [snd with_reg o_aux ob]. apply or3_b. exact (rtsp_handle_src w _ _ _ _ _ _ _ _ _ _ Eh).
  - unfold step_wsp. set (c := get_conn s k).
    destruct (c_kind c =? K_WSP); cbn [negb]; [|reflexivity].
    destruct (wsp_handle true (perm_go (users s) (c_user c)) (reg s) c m) as [c2 code] eqn:Eh.
    cbn [snd o_aux ob]. destruct ((m =? M_PLAY) && negb (c_data c2)); [reflexivity|].
    apply or3_b. pose proof (wsp_handle_src w _ _ _ _ _ _ Eh) as Hs.
    destruct Hs as [Hs|[Hs|Hs]]; auto.
  - unfold step_http, step_http_in, url_path.
    destruct (negb (mux_ok (http_url kind path seq))); [reflexivity|].
    destruct (stream_gate true s t (canonical_path path) _ hdrs) as [code un].
    destruct (negb (code =? 200)); [reflexivity|].
    destruct (live (reg s) (canonical_path path)) as [o|]; [|reflexivity].
    destruct ((kind =? 1) && negb (o =? 1)); [reflexivity|].
    destruct ((kind =? 2) && _); [reflexivity|].
    cbn [snd o_aux ob]. rewrite Z.eqb_refl. apply orb_true_r.
  - unfold step_url, step_url_gen.
    destruct (negb (mux_ok url)); [reflexivity|].
    destruct (stream_gate true s t (url_icp true url) None hdrs) as [code un].
    destruct (negb (code =? 200)); [reflexivity|].
    destruct (url_handler false true url) as [kind p n| |] eqn:Eh; try reflexivity.
    apply url_derivations_agree in Eh.
    destruct (live (reg s) p) as [o|]; [|reflexivity].
    destruct ((kind =? 1) && negb (o =? 1)); [reflexivity|].
    destruct ((kind =? 2) && _); [reflexivity|].
    cbn [snd o_aux ob]. rewrite Eh, Z.eqb_refl. apply orb_true_r.
Qed.

Theorem step_judged_served w s ev :
  tok_inv s -> conns_ok s ->
  judge w s ev (snd (step w s ev)) = true /\ judge_reg w s ev (snd (step w s ev)) = true.
Proof.
  intros H Hok. destruct (step_judged w s ev H Hok) as [J1 J2]. unfold judge, judge_reg.
  destruct (ev_ok s ev) eqn:E; [|auto]. rewrite (judge_ok _ _ _ _ E), (judge_reg_ok _ _ _ _ E). auto.
Qed.

Lemma run_ok_served_from w s evs : tok_inv s -> conns_ok s -> ok_run w s evs (run w s evs) = true.
Proof.
  revert s. induction evs as [|e evs IH]; intros s H Hok; [reflexivity|].
  unfold run in *. cbn [run_gen ok_run].
  destruct (step_judged_served w s e H Hok) as [J1 J2]. pose proof (step_src w s e) as J3. unfold step in *.
  destruct (step_gen true w s e) as [s1 o] eqn:Es. cbn [ok_run fst snd] in *.
  rewrite J1, J2, J3. cbn [andb].
  apply IH.
  - pose proof (step_tok_inv true w s e H) as H1. rewrite Es in H1. exact H1.
  - pose proof (step_conns_ok true w s e Hok) as H1. rewrite Es in H1. exact H1.
Qed.

(* the oracle applied to the implementation (decision on the served resource) accepts the model on every history *)
Theorem model_passes_served w users0 ext evs :
  ok_run w (state0 users0 ext) evs (run w (state0 users0 ext) evs) = true.
Proof. apply run_ok_served_from; [apply tok_inv_init|apply conns_ok_init]. Qed.

(* served(resource) => permit(user, canonical resource): whatever is handed out on a pull-type request, on any
   entry point, is the stream registered under served_key p = canonical_path p (p the path given to the
   lookup), and the caller's rights as saved now cover that key *)
Theorem served_requires_permit w s ev :
  reachable w s ->
  let o := snd (step w s ev) in
  is_request ev = true -> fst (target s ev) = APull -> ev_ok s ev = true ->
  granted ev o = true -> keepalive s ev = false ->
  exists u r, identity s ev = Some u /\ rights_now (users s) u = Some r /\
              permits r PULL (served_key (snd (target s ev))) = true.
Proof.
  intros Hr o Hq Ht He Hg Hk.
  destruct (media_requires_pull w s ev Hr Hq Ht Hg Hk) as (u & r & Hi & Hn & Hp).
  exists u, r. repeat split; auto.
  apply ev_ok_target in He. unfold path_ok in He.
  destruct r as [[a push] pull]. cbn in *. rewrite <- (spec_permit_same_segs a pull _ _ He). exact Hp.
Qed.

Theorem published_requires_permit w s ev :
  reachable w s ->
  let o := snd (step w s ev) in
  (match ev with ERtsp _ _ _ _ | EWsRtsp _ _ _ => True | _ => False end) ->
  ev_ok s ev = true ->
  zlist_eqb (o_reg o) (reg_view w (reg s)) = false ->
  exists u r, identity s ev = Some u /\ rights_now (users s) u = Some r /\
              fst (target s ev) = APush /\ permits r PUSH (served_key (snd (target s ev))) = true.
Proof.
  intros Hr o Hev He Hd.
  destruct (publish_requires_push w s ev Hr Hev Hd) as (u & r & Hi & Hn & Ht & Hp).
  exists u, r. repeat split; auto.
  apply ev_ok_target in He. unfold path_ok in He.
  destruct r as [[a push] pull]. cbn in *. rewrite <- (spec_permit_same_segs a push _ _ He). exact Hp.
Qed.

Theorem holder_of_served_not_refused w s ev :
  reachable w s -> is_request ev = true -> ev_ok s ev = true ->
  allowed s ev = true -> feasible w s ev = true ->
  accepted ev (snd (step w s ev)) = true.
Proof.
  intros Hr Hq He Ha Hf. rewrite (allowed_ok _ _ He) in Ha. eapply holder_not_refused; eauto.
Qed.

(* the paths on which both readings agree include every path without blanks (C18: CanonicalPath is stable there) *)
Example path_ok_examples :
  path_ok (bs "/a/b") = true /\ path_ok (bs "/A/b ") = true /\ path_ok (bs "/a /b") = true /\
  path_ok (canonical_path (bs "/a//c/../B/.")) = true /\
  path_ok (bs "/a/b/..") = false /\ path_ok (bs "/a/. ") = false.
Proof. vm_compute. repeat split; reflexivity. Qed.

(* former known finding, fixed in /repo by "fix: CanonicalPath is idempotent": one pass of CanonicalPath is not
   idempotent on a blank-edged dot segment (CanonProofs.canonical_once_not_idem); the rtsp session checked the right
   on the one-pass result "/a/. " (segments a, .) and the registry served CanonicalPath of that = "/a": eve, whose
   pull right /a/+ does not cover /a, was given /a's description.  With the repaired CanonicalPath the session
   checks the right on "/a", the path served, and eve is refused (403); the strict oracle holds on the run. *)
Definition w2 : list bytes := [bs "/a"; bs "/a/b"].
Definition s2 : state := state0 [mk "eve" "pe" false "" "/a/+"] [bs "/a"].
Definition mk_eve : user := mk "eve" "pe" false "" "/a/+".
Definition w2_a : bytes := bs "/a".
Definition unsettled_evs : list event :=
  [ERtspOpen; ERtsp 0 M_DESCRIBE (bs "/a/. /x/..") (CDigest (bs "eve") (bs "pe") 0 0)].

Theorem unsettled_path_fixed :
  ok_run_strict w2 s2 unsettled_evs (run w2 s2 unsettled_evs) = true /\
  ok_run w2 s2 unsettled_evs (run w2 s2 unsettled_evs) = true /\
  map o_code (run w2 s2 unsettled_evs) = [0; 403] /\
  spec_allows (users s2) (u_name (mk_eve)) APull (w2_a) = false.
Proof. vm_compute. repeat split; reflexivity. Qed.

(* before the repair of extractStreamPathAndExt: /streams/a/b/...flv is the clean URL of the stream path /a/b/.. ;
   bob (pull /a/b/+... only below /a/b) was checked on that spelling and served /a *)
Definition s3 : state :=
  fst (step w2 (state0 [mk "bob" "pb" false "" "/a/b/*"] [bs "/a"]) (ELogin (bs "bob") (bs "pb"))).
Definition spelled_evs : list event := [EHttp 0 (bs "/a/b/..") (TA 0) 0 []; EWsOpen 3 (bs "/a/b/..") (TA 0) 0 []].

Theorem url_spelling_refuted :
  ok_run w2 s3 spelled_evs (run_gen false w2 s3 spelled_evs) = false /\
  map o_code (run_gen false w2 s3 spelled_evs) = [200; 101] /\
  map o_code (run w2 s3 spelled_evs) = [403; 403] /\
  ok_run w2 s3 spelled_evs (run w2 s3 spelled_evs) = true.
Proof. vm_compute. repeat split; reflexivity. Qed.

(* non-vacuity of the served-resource theorem: a non-canonical spelling that stays inside the subtree is served,
   one that leaves it is refused, on the plain RTSP entry point *)
Definition s4 : state := state0 [mk "bob" "pb" false "" "/a/*"] [bs "/a/b"; bs "/x"].
Definition cred_bob : cred := CDigest (bs "bob") (bs "pb") 0 0.
Definition inside_evs : list event :=
  [ERtspOpen; ERtsp 0 M_DESCRIBE (bs "/a/c/..//B/.") cred_bob; ERtsp 0 M_DESCRIBE (bs "/a/../x") cred_bob;
   ERtsp 0 M_DESCRIBE (bs "/a/%2e%2e/x") cred_bob].


(* ------------------------------------------------------------------ *)
(* L. CanonicalPath is idempotent (CanonProofs, /repo 1c2de2b): the guard ev_ok holds in every reachable state *)

Lemma blist_eqb_refl l : blist_eqb l l = true.
Proof. induction l as [|x l IH]; simpl; [reflexivity|]. rewrite bytes_eqb_refl. exact IH. Qed.

(* a canonical path is read the same way by the pattern language and by the registry *)
Lemma path_ok_canon x : path_ok (canonical_path x) = true.
Proof. unfold path_ok, served_key, same_segs. rewrite canonical_path_idem. apply blist_eqb_refl. Qed.

Lemma path_ok_nil : path_ok [] = true.
Proof. vm_compute. reflexivity. Qed.

Definition conn_settled (c : conn) : Prop := path_ok (c_path c) = true /\ path_ok (c_wspath c) = true.
Definition conns_settled (s : state) : Prop := Forall conn_settled (conns s).

Lemma get_conn_settled s k : conns_settled s -> conn_settled (get_conn s k).
Proof.
  intros H. unfold get_conn. destruct (nth_in_or_default k (conns s) dead_conn) as [Hin|Hd].
  - eapply Forall_forall in H; eauto.
  - rewrite Hd. split; exact path_ok_nil.
Qed.

Lemma rtsp_handle_paths ws pm r self c m path c2 code pub :
  rtsp_handle ws pm r self c m path = (c2, code, pub) ->
  c_wspath c2 = c_wspath c /\ (c_path c2 = c_path c \/ c_path c2 = canonical_path path).
Proof.
  intros H. unfold rtsp_handle in H. break_hyp H; inversion H; subst; cbn; auto.
Qed.

Lemma conn_settled_nonce c a b : conn_settled c -> conn_settled (set_nonce c a b).
Proof. intros H. exact H. Qed.

Lemma step_conns_settled w s ev : conns_settled s -> conns_settled (fst (step w s ev)).
Proof.
  intros H. destruct ev; unfold step; cbn [step_gen]; try exact H.
  - unfold step_login. break_step; simpl; exact H.
  - unfold step_refresh. destruct (is_none t); [exact H|].
    assert (Hc : conns (fst (refresh s t)) = conns s) by (unfold refresh; break_step; reflexivity).
    destruct (refresh s t) as [s1 ok]. simpl in *. unfold conns_settled. rewrite Hc. exact H.
  - unfold conns_settled. simpl. apply Forall_app. split; [exact H|]. constructor; [|constructor].
    split; exact path_ok_nil.
  - unfold step_rtsp. set (c := get_conn s k). pose proof (get_conn_settled s k H) as Hc. fold c in Hc.
    destruct (c_kind c =? K_RTSP); cbn [negb]; [|exact H].
    destruct (legal (c_status c) m); cbn [negb].
    + destruct (digest_check true (users s) c cr) as [[uname|] rot].
      * destruct (rtsp_handle false _ _ _ c m path) as [[c2 code] pub] eqn:Eh.
        apply rtsp_handle_paths in Eh. destruct Eh as (E1 & E2).
        unfold conns_settled. simpl. apply Forall_set_nth; [exact H|].
        destruct Hc as [Hp Hw]. split; cbn.
        -- destruct E2 as [E2|E2]; rewrite E2; [exact Hp|apply path_ok_canon].
        -- rewrite E1. exact Hw.
      * unfold conns_settled. simpl. apply Forall_set_nth; [exact H|]. destruct rot; exact Hc.
    + unfold conns_settled. simpl. apply Forall_set_nth; [exact H|]. exact Hc.
  - unfold step_wsopen. destruct (negb (mux_ok (ws_url kind path))).
    { destruct ((kind =? 0) || (kind =? 1)); [|exact H].
      unfold conns_settled. simpl. apply Forall_app. split; [exact H|]. constructor; [|constructor].
      split; exact path_ok_nil. }
    unfold step_wsopen_in, url_path.
    destruct (stream_gate true s t (canonical_path path) None hdrs) as [code uname].
    destruct (negb (code =? 200)).
    + destruct ((kind =? 0) || (kind =? 1)); [|exact H].
      unfold conns_settled. simpl. apply Forall_app. split; [exact H|]. constructor; [|constructor].
      split; exact path_ok_nil.
    + destruct (kind =? 0).
      { unfold conns_settled. simpl. apply Forall_app. split; [exact H|]. constructor; [|constructor].
        split; apply path_ok_canon. }
      destruct (kind =? 1).
      { unfold conns_settled. simpl. apply Forall_app. split; [exact H|]. constructor; [|constructor].
        split; apply path_ok_canon. }
      destruct (kind =? 2); [|exact H].
      destruct (_ && _); [|exact H].
      unfold conns_settled. simpl. apply Forall_set_nth; [exact H|]. exact (get_conn_settled s chan H).
  - unfold step_wsrtsp. set (c := get_conn s k). pose proof (get_conn_settled s k H) as Hc. fold c in Hc.
    destruct (c_kind c =? K_WSRTSP); cbn [negb]; [|exact H].
    destruct (legal (c_status c) m); cbn [negb]; [|exact H].
    destruct (rtsp_handle true _ _ _ c m path) as [[c2 code] pub] eqn:Eh.
    apply rtsp_handle_paths in Eh. destruct Eh as (E1 & E2).
    unfold conns_settled. simpl. apply Forall_set_nth; [exact H|].
    destruct Hc as [Hp Hw]. split.
    + destruct E2 as [E2|E2]; rewrite E2; [exact Hp|apply path_ok_canon].
    + rewrite E1. exact Hw.
  - unfold step_wsp. set (c := get_conn s k). pose proof (get_conn_settled s k H) as Hc. fold c in Hc.
    destruct (c_kind c =? K_WSP); cbn [negb]; [|exact H].
    destruct (wsp_handle true _ _ c m) as [c2 code] eqn:Eh.
    apply wsp_handle_frame in Eh. destruct Eh as (E1 & E2 & E3 & E4).
    unfold conns_settled. simpl. apply Forall_set_nth; [exact H|].
    destruct Hc as [Hp Hw]. split.
    + destruct E4 as [E4|E4]; rewrite E4; assumption.
    + rewrite E2. exact Hw.
  - rewrite step_http_auth. exact H.
  - unfold step_api. break_step; simpl; exact H.
  - unfold step_url. rewrite step_url_auth. exact H.
Qed.

Lemma reachable_conns_settled w s : reachable w s -> conns_settled s.
Proof. induction 1; [constructor|apply step_conns_settled; assumption]. Qed.

Lemma rtsp_target_settled ws c m path : conn_settled c -> path_ok (snd (rtsp_target ws c m path)) = true.
Proof.
  intros [Hp Hw]. unfold rtsp_target.
  repeat match goal with |- context [if ?b then (_, _) else _] => destruct b; cbn [snd] end;
    try apply path_ok_canon; try exact Hp; destruct ws; try apply path_ok_canon; exact Hp.
Qed.

(* the guard is no guard: in every reachable state every event is inside the class the oracle is strict on *)
Theorem ev_ok_reachable w s ev : reachable w s -> url_ok ev = true -> ev_ok s ev = true.
Proof.
  intros Hr Hu. apply reachable_conns_settled in Hr. unfold ev_ok.
  destruct ev; cbn [target snd]; try (rewrite path_ok_nil; reflexivity).
  - rewrite (rtsp_target_settled false _ m path (get_conn_settled s k Hr)). reflexivity.
  - rewrite path_ok_canon. cbn [andb]. destruct (kind =? 2); [|reflexivity].
    exact (proj1 (get_conn_settled s chan Hr)).
  - rewrite (rtsp_target_settled true _ m path (get_conn_settled s k Hr)). reflexivity.
  - destruct (get_conn_settled s k Hr) as [Hp Hw]. destruct (m =? M_DESCRIBE); [rewrite Hw|rewrite Hp]; reflexivity.
  - rewrite path_ok_canon. reflexivity.
  - cbn [url_ok] in Hu. rewrite Hu. reflexivity.
Qed.

(* a URL whose extension is not exactly ".ts" is checked on the canonical stream path itself *)
Lemma url_ok_not_ts u t h : bytes_eqb (path_ext u) EXT_TS = false -> url_ok (EUrl u t h) = true.
Proof.
  intros H. cbn [url_ok]. unfold url_icp, extract, url_path. rewrite H. apply path_ok_canon.
Qed.

(* hence the served-resource theorems hold without the guard *)
Theorem served_requires_permit_always w s ev :
  reachable w s ->
  let o := snd (step w s ev) in
  is_request ev = true -> fst (target s ev) = APull -> url_ok ev = true ->
  granted ev o = true -> keepalive s ev = false ->
  exists u r, identity s ev = Some u /\ rights_now (users s) u = Some r /\
              permits r PULL (served_key (snd (target s ev))) = true.
Proof. intros Hr o Hq Ht Hu Hg Hk. eapply served_requires_permit; eauto using ev_ok_reachable. Qed.

Theorem published_requires_permit_always w s ev :
  reachable w s ->
  let o := snd (step w s ev) in
  (match ev with ERtsp _ _ _ _ | EWsRtsp _ _ _ => True | _ => False end) ->
  zlist_eqb (o_reg o) (reg_view w (reg s)) = false ->
  exists u r, identity s ev = Some u /\ rights_now (users s) u = Some r /\
              fst (target s ev) = APush /\ permits r PUSH (served_key (snd (target s ev))) = true.
Proof.
  intros Hr o He Hd. eapply published_requires_permit; eauto.
  apply (ev_ok_reachable w); [exact Hr|]. destruct ev; try contradiction; reflexivity.
Qed.

Theorem holder_of_served_not_refused_always w s ev :
  reachable w s -> is_request ev = true -> url_ok ev = true ->
  allowed s ev = true -> feasible w s ev = true ->
  accepted ev (snd (step w s ev)) = true.
Proof. intros Hr Hq Hu Ha Hf. eapply holder_of_served_not_refused; eauto using ev_ok_reachable. Qed.

(* the strict oracle (no exclusion) accepts the model on every history *)
Lemma run_ok_strict_from w s evs :
  reachable w s -> forallb url_ok evs = true -> ok_run_strict w s evs (run w s evs) = true.
Proof.
  revert s. induction evs as [|e evs IH]; intros s Hr Hu; [reflexivity|].
  cbn [forallb] in Hu. apply andb_true_iff in Hu as [Hu1 Hu2].
  unfold run in *. cbn [run_gen ok_run_strict].
  pose proof (reachable_tok_inv _ _ Hr) as H. pose proof (reachable_conns_ok _ _ Hr) as Hok.
  destruct (step_judged_served w s e H Hok) as [J1 J2].
  unfold judge, judge_reg in J1, J2. rewrite (ev_ok_reachable w s e Hr Hu1) in J1, J2.
  pose proof (reach_step w s e Hr) as Hr1. unfold step in *.
  destruct (step_gen true w s e) as [s1 o] eqn:Es. cbn [ok_run_strict fst snd] in *.
  rewrite J1, J2. cbn [andb]. apply IH; assumption.
Qed.

Theorem model_passes_strict w users0 ext evs :
  forallb url_ok evs = true ->
  ok_run_strict w (state0 users0 ext) evs (run w (state0 users0 ext) evs) = true.
Proof. intros H. apply run_ok_strict_from; [apply reach_init|exact H]. Qed.

(* ------------------------------------------------------------------ *)
(* M. arbitrary /streams/ URLs: two derivations, one resource            *)

(* served HTTP resource (stream, kind) => permit on that stream's canonical path, for every URL *)
Theorem url_served_requires_permit w s u t h kind p n :
  reachable w s -> url_ok (EUrl u t h) = true ->
  o_code (snd (step w s (EUrl u t h))) = 200 ->
  url_handler false true u = HServe kind p n ->
  exists v r, token_identity s t = Some v /\ rights_now (users s) v = Some r /\
              permits r PULL (canonical_path p) = true.
Proof.
  intros Hr Hu Hc Hh. pose proof (url_derivations_agree _ _ _ _ Hh) as Ha.
  assert (Hg : granted (EUrl u t h) (snd (step w s (EUrl u t h))) = true) by (cbn [granted]; rewrite Hc; reflexivity).
  destruct (served_requires_permit_always w s (EUrl u t h) Hr eq_refl eq_refl Hu Hg eq_refl) as (v & r & Hi & Hn & Hp).
  exists v, r. cbn [identity target snd] in *. rewrite Ha in Hp. auto.
Qed.

(* how URLs are read *)
Example url_reading :
  extract true (bs "/streams/a/b/7.ts") = (bs "/a/b/7", bs ".ts") /\
  url_icp true (bs "/streams/a/b/7.ts") = bs "/a/b" /\
  url_handler false true (bs "/streams/a/b/7.ts") = HServe 2 (bs "/a/b") 7 /\
  url_handler false true (bs "/streams/a/b/+07.ts") = HServe 2 (bs "/a/b") 7 /\
  url_handler false true (bs "/streams/a/b/7.TS") = HNone /\
  url_handler false true (bs "/streams/a/b/7.ts.ts") = HBad /\
  url_handler false true (bs "/streams/a/b/.ts") = HBad /\
  url_handler false true (bs "/streams/A/b.flv") = HServe 0 (bs "/a/b") 0 /\
  url_handler false true (bs "/streams/a/b.flv/") = HNone /\
  url_handler false true (bs "/streams/a/b/...m3u8") = HServe 1 (bs "/a") 0.
Proof. vm_compute. repeat split; reflexivity. Qed.

(* dispatching on the lower-cased extension while the interceptor compares it case-sensitively: the segment of /a/b
   is served on a decision about /a/b/3; viewer (pull /a/b/+, nothing on /a/b) gets it *)
Definition s5 : state :=
  fst (step w2 (state0 [mk "viewer" "pv" false "" "/a/b/+"] [bs "/a/b"]) (ELogin (bs "viewer") (bs "pv"))).
Definition u_TS : bytes := bs "/streams/a/b/3.TS".
Definition p_ab : bytes := bs "/a/b".
Definition p_ab3 : bytes := bs "/a/b/3".
Definition u_ts_lower : bytes := bs "/streams/a/b/3.ts".

Theorem url_ext_case_refuted :
  url_handler true true u_TS = HServe 2 p_ab 3 /\ url_icp true u_TS = p_ab3 /\
  o_code (snd (step_url_gen true true w2 s5 u_TS (TA 0) [])) = 200 /\
  judge w2 s5 (EUrl u_TS (TA 0) []) (snd (step_url_gen true true w2 s5 u_TS (TA 0) [])) &&
  judge_src w2 s5 (EUrl u_TS (TA 0) []) (snd (step_url_gen true true w2 s5 u_TS (TA 0) [])) = false /\
  o_code (snd (step w2 s5 (EUrl u_TS (TA 0) []))) = 404 /\
  o_code (snd (step w2 s5 (EUrl u_ts_lower (TA 0) []))) = 403.
Proof. vm_compute. repeat split; reflexivity. Qed.
