(* C11 — proofs about Model/C11AuthZ.v *)
From Coq Require Import ZArith List Bool Lia Arith.
From V Require Import Bytes StrGo BytesLemmas C16PathMatch C16PathMatchProofs C11AuthZ.
Import ListNotations.
Open Scope Z_scope.

(* ------------------------------------------------------------------ *)
(* A. the implementation's permission check is the reference monitor's *)

Lemma user_validate_spec u right path :
  user_validate u right path = permits (u_admin u, u_push u, u_pull u) right path.
Proof.
  unfold user_validate, permits, access_of. rewrite matcher_refines_spec.
  destruct (right =? PUSH); reflexivity.
Qed.

Lemma perm_go_spec t name right path :
  perm_go t name right path =
  match rights_now t name with Some r => permits r right path | None => false end.
Proof.
  unfold perm_go, rights_now. destruct (find_user t name) as [u|]; [|reflexivity].
  apply user_validate_spec.
Qed.

Lemma perm_go_pull t name path : perm_go t name PULL path = spec_allows t name APull path.
Proof. rewrite perm_go_spec. unfold spec_allows. destruct (rights_now t name); reflexivity. Qed.

Lemma perm_go_push t name path : perm_go t name PUSH path = spec_allows t name APush path.
Proof. rewrite perm_go_spec. unfold spec_allows. destruct (rights_now t name); reflexivity. Qed.

(* ------------------------------------------------------------------ *)
(* B. the token map against the history of issues                       *)

Lemma tokv_eqb_refl t : tokv_eqb t t = true.
Proof. destruct t; simpl; auto using Nat.eqb_refl, bytes_eqb_refl. Qed.

Lemma tokv_eqb_eq a b : tokv_eqb a b = true <-> a = b.
Proof.
  split; [|intros ->; apply tokv_eqb_refl].
  destruct a, b; simpl; try discriminate; auto.
  - intros H. apply Nat.eqb_eq in H. congruence.
  - intros H. apply Nat.eqb_eq in H. congruence.
  - intros H. apply bytes_eqb_eq in H. congruence.
Qed.

Lemma tokv_eqb_neq a b : a <> b -> tokv_eqb a b = false.
Proof. intros H. destruct (tokv_eqb a b) eqn:E; [apply tokv_eqb_eq in E; contradiction|reflexivity]. Qed.

Lemma tokv_eqb_sym a b : tokv_eqb a b = tokv_eqb b a.
Proof.
  destruct (tokv_eqb a b) eqn:E.
  - apply tokv_eqb_eq in E. subst. symmetry. apply tokv_eqb_refl.
  - destruct (tokv_eqb b a) eqn:E2; [|reflexivity]. apply tokv_eqb_eq in E2. subst.
    rewrite tokv_eqb_refl in E. discriminate.
Qed.

Lemma tm_load_delete m key key' :
  tm_load (tm_delete m key) key' = if tokv_eqb key key' then None else tm_load m key'.
Proof.
  induction m as [|[k r] m IH]; simpl.
  - destruct (tokv_eqb key key'); reflexivity.
  - destruct (tokv_eqb k key) eqn:E; simpl.
    + apply tokv_eqb_eq in E. subst k. rewrite IH. destruct (tokv_eqb key key'); reflexivity.
    + rewrite IH. destruct (tokv_eqb k key') eqn:E2; [|reflexivity].
      apply tokv_eqb_eq in E2. subst k. rewrite tokv_eqb_sym, E. reflexivity.
Qed.

Lemma tm_load_store m key r key' :
  tm_load (tm_store m key r) key' = if tokv_eqb key key' then Some r else tm_load m key'.
Proof.
  unfold tm_store. simpl. destruct (tokv_eqb key key') eqn:E; [reflexivity|].
  rewrite tm_load_delete, E. reflexivity.
Qed.

Definition rec_of (k : nat) (g : grant) : tokrec :=
  {| tr_user := g_user g; tr_k := k; tr_aexp := g_t0 g + A_LIFE; tr_rexp := g_t0 g + R_LIFE |}.

Definition expected (gs : list grant) (key : tokv) : option tokrec :=
  match key with
  | TA k | TR k =>
      match nth_error gs k with
      | Some g => if g_dead g then None else Some (rec_of k g)
      | None => None
      end
  | _ => None
  end.

Definition tok_inv (s : state) : Prop := forall key, tm_load (toks s) key = expected (grants s) key.

Lemma nth_error_snoc {A} (l : list A) x k :
  nth_error (l ++ [x]) k = if (k <? length l)%nat then nth_error l k
                           else if (k =? length l)%nat then Some x else None.
Proof.
  destruct (k <? length l)%nat eqn:E.
  - apply Nat.ltb_lt in E. apply nth_error_app1. exact E.
  - apply Nat.ltb_ge in E. rewrite nth_error_app2 by exact E.
    destruct (k =? length l)%nat eqn:E2.
    + apply Nat.eqb_eq in E2. subst. rewrite Nat.sub_diag. reflexivity.
    + apply Nat.eqb_neq in E2. destruct (k - length l)%nat eqn:E3; [lia|]. simpl. destruct n; reflexivity.
Qed.

Lemma nth_error_kill gs k j :
  nth_error (kill gs k) j =
  if (j =? k)%nat then match nth_error gs k with
                       | Some g => Some {| g_user := g_user g; g_t0 := g_t0 g; g_dead := true |}
                       | None => None end
  else nth_error gs j.
Proof.
  unfold kill. revert k j. induction gs as [|g gs IH]; intros k j.
  - destruct k; simpl; destruct j; simpl; try reflexivity;
      destruct (_ =? _)%nat; reflexivity.
  - destruct k.
    + simpl. destruct j; simpl; reflexivity.
    + destruct j; simpl; [reflexivity|]. apply IH.
Qed.

Lemma kill_length gs k : length (kill gs k) = length gs.
Proof.
  unfold kill. revert k. induction gs as [|g gs IH]; intros k.
  - destruct k; reflexivity.
  - destruct k; simpl; [reflexivity|]. f_equal. apply IH.
Qed.

Lemma tok_inv_new s uname : tok_inv s -> tok_inv (new_token s uname).
Proof.
  intros H key. unfold new_token. cbn [toks grants set_toks].
  rewrite !tm_load_store.
  set (k := length (grants s)).
  assert (Hk : expected (grants s) (TA k) = None /\ expected (grants s) (TR k) = None).
  { simpl. assert (E : nth_error (grants s) k = None) by (apply nth_error_None; subst k; lia).
    rewrite E. auto. }
  destruct key as [|j|j|b]; simpl.
  - rewrite H. reflexivity.
  - rewrite nth_error_snoc. fold k.
    destruct (Nat.eqb k j) eqn:E.
    + apply Nat.eqb_eq in E. subst j. rewrite Nat.ltb_irrefl, Nat.eqb_refl. simpl. reflexivity.
    + rewrite H. simpl. destruct (j <? k)%nat eqn:E2; [reflexivity|].
      rewrite Nat.eqb_sym, E. apply Nat.ltb_ge in E2.
      assert (E3 : nth_error (grants s) j = None) by (apply nth_error_None; subst k; lia).
      rewrite E3. reflexivity.
  - rewrite nth_error_snoc. fold k.
    destruct (Nat.eqb k j) eqn:E.
    + apply Nat.eqb_eq in E. subst j. rewrite Nat.ltb_irrefl, Nat.eqb_refl. simpl. reflexivity.
    + rewrite H. simpl. destruct (j <? k)%nat eqn:E2; [reflexivity|].
      rewrite Nat.eqb_sym, E. apply Nat.ltb_ge in E2.
      assert (E3 : nth_error (grants s) j = None) by (apply nth_error_None; subst k; lia).
      rewrite E3. reflexivity.
  - rewrite H. reflexivity.
Qed.

Lemma tok_inv_kill s k :
  tok_inv s ->
  tok_inv (set_toks s (tm_delete (tm_delete (toks s) (TA k)) (TR k)) (kill (grants s) k)).
Proof.
  intros H key. cbn [toks grants set_toks]. rewrite !tm_load_delete.
  destruct key as [|j|j|b]; simpl.
  - rewrite H. reflexivity.
  - rewrite nth_error_kill. rewrite (Nat.eqb_sym j k).
    destruct (Nat.eqb k j) eqn:E.
    + destruct (nth_error (grants s) k); reflexivity.
    + rewrite H. reflexivity.
  - rewrite nth_error_kill. rewrite (Nat.eqb_sym j k).
    destruct (Nat.eqb k j) eqn:E.
    + destruct (nth_error (grants s) k); reflexivity.
    + rewrite H. reflexivity.
  - rewrite H. reflexivity.
Qed.

Lemma tok_inv_refresh s t : tok_inv s -> tok_inv (fst (refresh s t)).
Proof.
  intros H. unfold refresh. destruct (tm_load (toks s) t) as [r|]; [|exact H].
  destruct (tokv_eqb (TR (tr_k r)) t); [|exact H].
  destruct (_ <? _); simpl.
  - apply tok_inv_new. apply tok_inv_kill. exact H.
  - apply tok_inv_kill. exact H.
Qed.

(* AccessCheck is the reference validity: issued as an access token, not superseded, not expired *)
Lemma access_check_spec s t : tok_inv s -> access_check s t = spec_access (grants s) (now s) t.
Proof.
  intros H. unfold access_check. rewrite H.
  destruct t as [|k|k|b]; simpl; try reflexivity.
  - destruct (nth_error (grants s) k) as [g|]; [|reflexivity].
    destruct (g_dead g); [reflexivity|]. simpl. rewrite Nat.eqb_refl. simpl. reflexivity.
  - destruct (nth_error (grants s) k) as [g|]; [|reflexivity].
    destruct (g_dead g); reflexivity.
Qed.

(* ------------------------------------------------------------------ *)
(* C. reachable states keep the token invariant                          *)

Ltac break_step :=
  repeat match goal with
         | |- context [let '(_, _) := ?x in _] => destruct x
         | |- context [match ?x with _ => _ end] =>
             match type of x with
             | sumbool _ _ => fail 1
             | _ => destruct x
             end
         end.

Lemma tok_inv_ext s s' : toks s' = toks s -> grants s' = grants s -> tok_inv s -> tok_inv s'.
Proof. intros Ht Hg H key. rewrite Ht, Hg. apply H. Qed.

Lemma step_rtsp_auth fx w s k m p cr :
  toks (fst (step_rtsp fx w s k m p cr)) = toks s /\ grants (fst (step_rtsp fx w s k m p cr)) = grants s.
Proof. unfold step_rtsp. break_step; simpl; auto. Qed.

Lemma step_wsopen_auth fx s kind p t ch :
  toks (fst (step_wsopen fx s kind p t ch)) = toks s /\ grants (fst (step_wsopen fx s kind p t ch)) = grants s.
Proof. unfold step_wsopen. break_step; simpl; auto. Qed.

Lemma step_wsrtsp_auth fx w s k m p :
  toks (fst (step_wsrtsp fx w s k m p)) = toks s /\ grants (fst (step_wsrtsp fx w s k m p)) = grants s.
Proof. unfold step_wsrtsp. break_step; simpl; auto. Qed.

Lemma step_wsp_auth fx s k m :
  toks (fst (step_wsp fx s k m)) = toks s /\ grants (fst (step_wsp fx s k m)) = grants s.
Proof. unfold step_wsp. break_step; simpl; auto. Qed.

Lemma step_http_auth fx s kind p t q :
  fst (step_http fx s kind p t q) = s.
Proof. unfold step_http. break_step; simpl; auto. Qed.

Lemma step_api_auth s ep t u b n :
  toks (fst (step_api s ep t u b n)) = toks s /\ grants (fst (step_api s ep t u b n)) = grants s.
Proof. unfold step_api. break_step; simpl; auto. Qed.

Lemma step_tok_inv fx w s ev : tok_inv s -> tok_inv (fst (step_gen fx w s ev)).
Proof.
  intros H. destruct ev; cbn [step_gen].
  - exact H.
  - exact H.
  - exact H.
  - unfold step_login. break_step; simpl; auto using tok_inv_new.
  - unfold step_refresh. destruct (is_none t); [exact H|].
    pose proof (tok_inv_refresh s t H) as H2. destruct (refresh s t). exact H2.
  - exact H.
  - destruct (step_rtsp_auth fx w s k m path cr). eapply tok_inv_ext; eauto.
  - destruct (step_wsopen_auth fx s kind path t chan). eapply tok_inv_ext; eauto.
  - destruct (step_wsrtsp_auth fx w s k m path). eapply tok_inv_ext; eauto.
  - destruct (step_wsp_auth fx s k m). eapply tok_inv_ext; eauto.
  - rewrite step_http_auth. exact H.
  - destruct (step_api_auth s ep t u upd_pw name). eapply tok_inv_ext; eauto.
Qed.

Inductive reachable (w : list bytes) : state -> Prop :=
| reach_init : forall users0 ext, reachable w (state0 users0 ext)
| reach_step : forall s ev, reachable w s -> reachable w (fst (step w s ev)).

Lemma tok_inv_init users0 ext : tok_inv (state0 users0 ext).
Proof. intros key. simpl. destruct key as [|[|k]|[|k]|b]; reflexivity. Qed.

Lemma reachable_tok_inv w s : reachable w s -> tok_inv s.
Proof. induction 1; [apply tok_inv_init|apply step_tok_inv; assumption]. Qed.
