(* C18: the user table refines a finite map; both managers keep "nothing pending
   => the file holds the table", so a flush followed by a restart gives back
   exactly the table; the oracle of the correspondence check accepts the model. *)
From Coq Require Import ZArith List Bool Lia.
From V Require Import Bytes StrGo BytesLemmas CanonProofs Route RouteProofs C18Users C18Tables.
Import ListNotations.
Open Scope Z_scope.

(* ================= users ================= *)
Lemma lower_byte_idem b : lower_byte (lower_byte b) = lower_byte b.
Proof.
  unfold lower_byte. destruct ((65 <=? b) && (b <=? 90)) eqn:E; [|rewrite E; reflexivity].
  apply andb_true_iff in E as [A B]. apply Z.leb_le in A, B.
  destruct ((65 <=? b + 32) && (b + 32 <=? 90)) eqn:F; [|reflexivity].
  apply andb_true_iff in F as [C D]. apply Z.leb_le in C, D. lia.
Qed.
Lemma to_lower_idem s : to_lower (to_lower s) = to_lower s.
Proof. unfold to_lower. rewrite map_map. apply map_ext. intros. apply lower_byte_idem. Qed.
Lemma fill_idem a x : fill a (fill a x) = fill a x.
Proof. unfold fill. destruct x; [destruct a; reflexivity|reflexivity]. Qed.
Lemma uinit_idem u : uinit (uinit u) = uinit u.
Proof. unfold uinit. cbn. rewrite to_lower_idem, !fill_idem. reflexivity. Qed.

Lemma uhas_key_eq k u : uhas_key k u = true <-> u_name u = k.
Proof. unfold uhas_key. apply bytes_eqb_eq. Qed.

Lemma user_eqb_eq a b : user_eqb a b = true <-> a = b.
Proof.
  unfold user_eqb. rewrite !andb_true_iff, !bytes_eqb_eq, eqb_true_iff.
  destruct a, b; cbn. split; [intros [[[[? ?] ?] ?] ?]; subst; reflexivity|].
  intros H; inversion H; auto.
Qed.
Lemma user_eqb_refl u : user_eqb u u = true.
Proof. apply user_eqb_eq. reflexivity. Qed.

Lemma ulookup_app t1 t2 k :
  ulookup (t1 ++ t2) k = match ulookup t1 k with Some r => Some r | None => ulookup t2 k end.
Proof. unfold ulookup. induction t1 as [|a t1 IH]; simpl; [reflexivity|]. destruct (uhas_key k a); auto. Qed.

Lemma ulookup_map_replace t k0 (f : user -> user) k :
  (forall x, u_name x = k0 -> u_name (f x) = k0) ->
  ulookup (map (fun x => if uhas_key k0 x then f x else x) t) k =
  if bytes_eqb k0 k then option_map f (ulookup t k0) else ulookup t k.
Proof.
  intros K. unfold ulookup. induction t as [|a t IH]; simpl.
  - destruct (bytes_eqb k0 k); reflexivity.
  - destruct (uhas_key k0 a) eqn:Ha.
    + assert (uhas_key k (f a) = bytes_eqb k0 k) as ->.
      { unfold uhas_key. apply uhas_key_eq in Ha. rewrite (K a Ha). reflexivity. }
      destruct (bytes_eqb k0 k) eqn:E; [reflexivity|].
      rewrite IH. apply uhas_key_eq in Ha. unfold uhas_key at 2. rewrite Ha, E. reflexivity.
    + destruct (uhas_key k a) eqn:Hk.
      * destruct (bytes_eqb k0 k) eqn:E; [|reflexivity].
        apply bytes_eqb_eq in E; subst. congruence.
      * rewrite IH. reflexivity.
Qed.

Lemma ulookup_filter_del t k0 k :
  ulookup (filter (fun x => negb (uhas_key k0 x)) t) k =
  if bytes_eqb k0 k then None else ulookup t k.
Proof.
  unfold ulookup. induction t as [|a t IH]; simpl.
  - destruct (bytes_eqb k0 k); reflexivity.
  - destruct (uhas_key k0 a) eqn:Ha; simpl.
    + rewrite IH. destruct (bytes_eqb k0 k) eqn:E; [reflexivity|].
      apply uhas_key_eq in Ha. unfold uhas_key. rewrite Ha, E. reflexivity.
    + destruct (uhas_key k a) eqn:Hk.
      * destruct (bytes_eqb k0 k) eqn:E; [|reflexivity].
        apply bytes_eqb_eq in E; subst. congruence.
      * exact IH.
Qed.

Lemma ulookup_key t k u : ulookup t k = Some u -> u_name u = k.
Proof. unfold ulookup. intros H. apply find_some in H as [_ H]. apply uhas_key_eq. exact H. Qed.

(* Save on the list = Save on the finite map (lower-cased name; password kept unless asked) *)
Lemma uabs_save t u b k : uabs (usave t u b) k = usave_spec (uabs t) u b k.
Proof.
  unfold usave, usave_spec, uabs, uaupd. cbn [uinit u_name].
  set (k0 := to_lower (u_name u)).
  destruct (ulookup t k0) as [old|] eqn:L.
  - rewrite ulookup_map_replace by (intros x Hx; unfold ucopy, uinit; cbn; rewrite Hx; apply to_lower_idem).
    rewrite L. cbn [option_map].
    destruct (bytes_eqb k0 k) eqn:E; [|reflexivity].
    unfold uval_of, ucopy, uinit. cbn. rewrite !fill_idem.
    destruct old as [on op oa ops opl]. cbn. destruct b; reflexivity.
  - rewrite ulookup_app. destruct (bytes_eqb k0 k) eqn:E.
    + apply bytes_eqb_eq in E; subst k. rewrite L. unfold ulookup, uhas_key. cbn.
      fold k0. rewrite bytes_eqb_refl. reflexivity.
    + destruct (ulookup t k); [reflexivity|]. unfold ulookup, uhas_key. cbn. fold k0. rewrite E. reflexivity.
Qed.

Lemma uabs_del t n k : uabs (udel t n) k = udel_spec (uabs t) n k.
Proof.
  unfold udel, udel_spec, uabs, uaupd. rewrite ulookup_filter_del.
  destruct (bytes_eqb (to_lower n) k); reflexivity.
Qed.

(* the effect of one operation on the finite map; Flush and the queries leave it alone *)
Definition uastep (m : uamap) (o : mop (user * bool)) : uamap :=
  match o with
  | MSave x => usave_spec m (fst x) (snd x)
  | MDel n => udel_spec m n
  | _ => m
  end.

Lemma usave_spec_ext m m' u b : (forall k, m k = m' k) -> forall k, usave_spec m u b k = usave_spec m' u b k.
Proof.
  intros H k. unfold usave_spec, uaupd. rewrite H.
  destruct (bytes_eqb _ k); [reflexivity|apply H].
Qed.
Lemma uastep_ext m m' o : (forall k, m k = m' k) -> forall k, uastep m o k = uastep m' o k.
Proof.
  intros H k. destruct o; cbn; try apply H.
  - apply usave_spec_ext. exact H.
  - unfold udel_spec, uaupd. destruct (bytes_eqb _ k); [reflexivity|apply H].
Qed.

Definition is_restart {X} (o : mop X) : bool := match o with MRestart => true | _ => false end.

Lemma mrun_cons {E X} (M : tops E X) sd o ops :
  mrun M sd (o :: ops) =
  (fst (mrun M (fst (mstep M sd o)) ops), snd (mstep M sd o) :: snd (mrun M (fst (mstep M sd o)) ops)).
Proof.
  simpl. destruct (mstep M sd o) as [sd1 out]. simpl.
  destruct (mrun M sd1 ops) as [sd2 outs]. reflexivity.
Qed.

Lemma mrun_app {E X} (M : tops E X) ops1 : forall sd ops2,
  fst (mrun M sd (ops1 ++ ops2)) = fst (mrun M (fst (mrun M sd ops1)) ops2).
Proof.
  induction ops1 as [|o ops1 IH]; intros sd ops2; [reflexivity|].
  rewrite <- app_comm_cons, !mrun_cons. cbn [fst]. apply IH.
Qed.

Lemma ustep_abs sd o k :
  is_restart o = false ->
  uabs (m_tab (fst (fst (mstep user_ops sd o)))) k = uastep (uabs (m_tab (fst sd))) o k.
Proof.
  destruct sd as [st d]. intros NR. destruct o; cbn [mstep fst uastep]; try reflexivity; try discriminate.
  - unfold do_save. cbn [user_ops t_xkey t_save t_look].
    destruct (is_some _); cbn [fst m_tab]; apply uabs_save.
  - unfold do_del. cbn [user_ops t_ckey t_look t_del].
    destruct (is_some (ulookup (m_tab st) (to_lower k0))) eqn:Ex; cbn [fst m_tab]; [apply uabs_del|].
    unfold udel_spec, uaupd, uabs. destruct (bytes_eqb (to_lower k0) k) eqn:Eq; [|reflexivity].
    apply bytes_eqb_eq in Eq. subst k. destruct (ulookup (m_tab st) (to_lower k0)); [discriminate|reflexivity].
  - unfold do_flush. destruct (pend_empty st); reflexivity.
Qed.

(* after any history of edits (with flushes and queries in between) the user table
   is the fold of the operations over a finite map *)
Theorem users_refine_map ops : forall sd m,
  forallb (fun o => negb (is_restart o)) ops = true ->
  (forall k, uabs (m_tab (fst sd)) k = m k) ->
  forall k, uabs (m_tab (fst (fst (mrun user_ops sd ops)))) k = fold_left uastep ops m k.
Proof.
  induction ops as [|o ops IH]; intros sd m NR H k.
  - cbn. apply H.
  - cbn [forallb] in NR. apply andb_true_iff in NR as [NR1 NR].
    rewrite mrun_cons. cbn [fst fold_left]. apply IH; [exact NR|]. intros k'.
    rewrite ustep_abs by (destruct (is_restart o); [discriminate|reflexivity]).
    apply uastep_ext. exact H.
Qed.

(* ---- one entry per name ---- *)
Lemma uuniq_keys_nodup t : uuniq_keys t = true <-> NoDup (map u_name t).
Proof.
  induction t as [|a t IH]; simpl.
  - split; [constructor|reflexivity].
  - rewrite andb_true_iff, negb_true_iff, IH. split.
    + intros [H N]. constructor; [|exact N]. intros I. apply in_map_iff in I as [x [E Ix]].
      assert (existsb (uhas_key (u_name a)) t = true) as X.
      { apply existsb_exists. exists x. split; [exact Ix|]. apply uhas_key_eq. exact E. }
      congruence.
    + intros N. inversion N as [|? ? N1 N2]; subst. split; [|exact N2].
      destruct (existsb (uhas_key (u_name a)) t) eqn:X; [|reflexivity].
      apply existsb_exists in X as [x [Ix Hx]]. apply uhas_key_eq in Hx.
      exfalso. apply N1. apply in_map_iff. exists x. auto.
Qed.

Lemma ulookup_none t k : ulookup t k = None -> forall u, In u t -> uhas_key k u = false.
Proof. unfold ulookup. intros H u I. exact (find_none _ _ H u I). Qed.

Lemma usave_uniq t u b : uuniq_keys t = true -> uuniq_keys (usave t u b) = true.
Proof.
  intros U. unfold usave. set (k0 := u_name (uinit u)).
  assert (to_lower k0 = k0) as LK by (unfold k0; cbn; apply to_lower_idem).
  destruct (ulookup t k0) eqn:L.
  - apply uuniq_keys_nodup. apply uuniq_keys_nodup in U.
    replace (map u_name (map (fun x => if uhas_key k0 x then ucopy x (uinit u) b else x) t)) with (map u_name t); [exact U|].
    rewrite map_map. apply map_ext. intros x. destruct (uhas_key k0 x) eqn:Hx; [|reflexivity].
    apply uhas_key_eq in Hx. unfold ucopy, uinit. cbn. rewrite Hx. symmetry. exact LK.
  - apply uuniq_keys_nodup. rewrite map_app. cbn [map]. apply uuniq_keys_nodup in U.
    apply NoDup_app_iff_local; [exact U|].
    intros I. apply in_map_iff in I as [x [E Ix]].
    pose proof (ulookup_none _ _ L x Ix) as X. apply uhas_key_eq in E. fold k0 in E. congruence.
Qed.

Lemma udel_uniq t n : uuniq_keys t = true -> uuniq_keys (udel t n) = true.
Proof.
  intros U. apply uuniq_keys_nodup. apply uuniq_keys_nodup in U. unfold udel.
  apply nodup_map_filter. exact U.
Qed.

Lemma filter_none {A} (f : A -> bool) l : (forall x, In x l -> f x = false) -> filter f l = [].
Proof.
  induction l as [|a l IH]; intros N; [reflexivity|]. cbn [filter].
  rewrite (N a (or_introl eq_refl)). apply IH. intros x Ix. apply N. right. exact Ix.
Qed.

(* delete, then re-create: exactly one entry under that name, holding the new data *)
Theorem delete_recreate_one_entry t u b :
  uuniq_keys t = true ->
  let t' := usave (udel t (u_name u)) u b in
  uuniq_keys t' = true /\
  length (filter (uhas_key (to_lower (u_name u))) t') = 1%nat /\
  ulookup t' (to_lower (u_name u)) = Some (uinit u).
Proof.
  intros U t'. split; [apply usave_uniq, udel_uniq, U|].
  unfold t', usave. cbn [uinit u_name]. set (k0 := to_lower (u_name u)).
  assert (ulookup (udel t (u_name u)) k0 = None) as L.
  { unfold udel. fold k0. rewrite ulookup_filter_del, bytes_eqb_refl. reflexivity. }
  rewrite L. split.
  - rewrite filter_app. cbn [filter uinit u_name]. fold k0. unfold uhas_key at 2. cbn [u_name]. fold k0.
    rewrite bytes_eqb_refl. rewrite app_length. cbn [length].
    assert (filter (uhas_key k0) (udel t (u_name u)) = []) as ->; [|reflexivity].
    apply filter_none. apply (ulookup_none _ _ L).
  - rewrite ulookup_app, L. unfold ulookup. cbn [find]. unfold uhas_key. cbn [uinit u_name]. fold k0.
    rewrite bytes_eqb_refl. reflexivity.
Qed.

(* ================= both managers: pending lists, flush, restart ================= *)
Lemma leqb_refl {A} (e : A -> A -> bool) : (forall x, e x x = true) -> forall l, leqb e l l = true.
Proof. intros R l. induction l as [|a l IH]; cbn; [reflexivity|]. rewrite R, IH. reflexivity. Qed.

Section MgrProofs.
  Context {E X : Type}.
  Variable M : tops E X.
  Variable wfx : X -> bool.                        (* guard on a Save argument *)

  Definition stable (e : E) : Prop := t_reinit M e = Some e.

  Hypothesis save_stable : forall t x k, wfx x = true -> t_xkey M x = Some k ->
                                         Forall stable t -> Forall stable (t_save M t x).
  Hypothesis del_stable : forall t k, Forall stable t -> Forall stable (t_del M t k).
  Hypothesis default_stable : Forall stable (load M None).
  Hypothesis eqb_refl : forall e, t_eqb M e e = true.

  Definition op_wf (o : mop X) : bool := match o with MSave x => wfx x | _ => true end.

  (* the invariant of every reachable (manager, disk) pair *)
  Definition inv (sd : mstate E * @disk E) : Prop :=
    Forall stable (m_tab (fst sd)) /\
    (forall l, snd sd = Some l -> Forall stable l) /\
    (pend_empty (fst sd) = true -> load M (snd sd) = m_tab (fst sd)).

  Lemma filter_map_stable l : Forall stable l -> filter_map (t_reinit M) l = l.
  Proof.
    induction 1 as [|a l Ha _ IH]; [reflexivity|]. cbn. unfold stable in Ha. rewrite Ha, IH. reflexivity.
  Qed.

  Lemma load_stable d : (forall l, d = Some l -> Forall stable l) -> Forall stable (load M d).
  Proof.
    intros H. destruct d as [l|]; [|exact default_stable].
    unfold load. rewrite filter_map_stable; apply H; reflexivity.
  Qed.

  Lemma load_some l : Forall stable l -> load M (Some l) = l.
  Proof. intros H. unfold load. apply filter_map_stable. exact H. Qed.

  Lemma pend_empty_app_false (tab : list E) s k r :
    pend_empty {| m_tab := tab; m_saves := s ++ [k]; m_removes := r |} = false.
  Proof. unfold pend_empty. cbn. destruct s; reflexivity. Qed.

  Lemma kmem_not_nil k l : kmem k l = true -> l <> [].
  Proof. destruct l; [discriminate|discriminate]. Qed.

  Lemma inv_start : inv (restart M None, None).
  Proof.
    split; [|split]; cbn.
    - exact default_stable.
    - discriminate.
    - reflexivity.
  Qed.

  Lemma inv_step sd o : op_wf o = true -> inv sd -> inv (fst (mstep M sd o)).
  Proof.
    destruct sd as [st d]. intros W [S [D P]]. cbn [fst snd] in *. unfold inv.
    destruct o; cbn [mstep op_wf] in *.
    - (* Save *)
      unfold do_save. destruct (t_xkey M x) as [k|] eqn:K; cbn [fst snd]; [|split; [|split]; assumption].
      destruct (is_some (t_look M (m_tab st) k)); cbn [fst snd m_tab].
      + split; [apply (save_stable _ _ k W K S)|split; [exact D|]].
        unfold pend_empty. cbn [m_saves m_removes].
        destruct (kmem k (m_saves st)) eqn:Km.
        * destruct (m_saves st); [discriminate|]. discriminate.
        * destruct (m_saves st); discriminate.
      + split; [apply (save_stable _ _ k W K S)|split; [exact D|]].
        rewrite pend_empty_app_false. discriminate.
    - (* Del *)
      unfold do_del. destruct (is_some _); cbn [fst snd m_tab]; [|split; [|split]; assumption].
      split; [apply del_stable; exact S|split; [exact D|]].
      unfold pend_empty. cbn [m_saves m_removes]. destruct (remove_first _ _); destruct (m_removes st); discriminate.
    - cbn [fst snd]. split; [|split]; assumption.
    - cbn [fst snd]. split; [|split]; assumption.
    - (* Flush *)
      unfold do_flush. destruct (pend_empty st) eqn:PE; cbn [fst snd m_tab];
        [split; [|split]; try assumption; intros _; apply P; reflexivity|].
      split; [exact S|split].
      + intros l H. inversion H. subst. exact S.
      + intros _. apply load_some. exact S.
    - (* Restart *)
      cbn [fst snd restart m_tab]. split; [apply load_stable; exact D|split; [exact D|]]. reflexivity.
  Qed.

  Lemma inv_run ops : forall sd, forallb op_wf ops = true -> inv sd -> inv (fst (mrun M sd ops)).
  Proof.
    induction ops as [|o ops IH]; intros sd W I; [exact I|].
    cbn [forallb] in W. apply andb_true_iff in W as [Wo W].
    rewrite mrun_cons. cbn [fst]. apply IH; [exact W|]. apply inv_step; assumption.
  Qed.

  (* nothing pending => a restart changes nothing *)
  Lemma restart_clean_same sd : inv sd -> pend_empty (fst sd) = true ->
    m_tab (restart M (snd sd)) = m_tab (fst sd).
  Proof. intros [_ [_ P]] PE. cbn. apply P. exact PE. Qed.

  (* after a flush a restarted server has exactly the table the old one had — for every history *)
  Theorem flush_restart_exact ops sd :
    forallb op_wf ops = true -> inv sd ->
    m_tab (fst (fst (mrun M sd (ops ++ [MFlush; MRestart])))) = m_tab (fst (fst (mrun M sd ops))).
  Proof.
    intros W I. rewrite mrun_app. pose proof (inv_run ops sd W I) as I1.
    destruct (fst (mrun M sd ops)) as [st d]. cbn [fst].
    cbn [mrun mstep]. unfold do_flush. destruct I1 as [S [D P]]. cbn [fst snd] in *.
    destruct (pend_empty st) eqn:PE; cbn [fst restart m_tab].
    - apply P. reflexivity.
    - apply load_some. exact S.
  Qed.

  (* and the file then holds exactly that table (what LoadAll sees) *)
  Theorem flush_disk_exact ops sd :
    forallb op_wf ops = true -> inv sd ->
    let sd1 := fst (mrun M sd (ops ++ [MFlush])) in
    load M (snd sd1) = m_tab (fst (fst (mrun M sd ops))) /\ pend_empty (fst sd1) = true.
  Proof.
    intros W I sd1. unfold sd1. rewrite mrun_app. pose proof (inv_run ops sd W I) as I1.
    destruct (fst (mrun M sd ops)) as [st d]. cbn [fst].
    cbn [mrun mstep]. unfold do_flush. destruct I1 as [S [D P]]. cbn [fst snd] in *.
    destruct (pend_empty st) eqn:PE; cbn [fst snd m_tab].
    - split; [apply P; reflexivity|exact PE].
    - split; [apply load_some; exact S|reflexivity].
  Qed.

  (* ---- the oracle accepts the model on every well-formed history ---- *)
  Lemma tab_eqb_refl t : tab_eqb M t t = true.
  Proof. apply leqb_refl. exact eqb_refl. Qed.
  Lemma keys_eqb_refl l : keys_eqb l l = true.
  Proof. apply leqb_refl. exact bytes_eqb_refl. Qed.
  Lemma opt_eqb_refl {A} (e : A -> A -> bool) : (forall x, e x x = true) -> forall o, opt_eqb e o o = true.
  Proof. intros R [x|]; cbn; auto. Qed.

  Lemma ok_step_model sd o : inv sd -> ok_step M sd o (snd (mstep M sd o)) = true.
  Proof.
    destruct sd as [st d]. intros [S [D P]]. cbn [fst snd] in *.
    destruct o; cbn [mstep ok_step snd].
    - unfold do_save. destruct (t_xkey M x); [|reflexivity].
      destruct (is_some (t_look M (m_tab st) b)); reflexivity.
    - reflexivity.
    - apply opt_eqb_refl. exact eqb_refl.
    - apply tab_eqb_refl.
    - unfold do_flush, flush_call. destruct (pend_empty st) eqn:PE; cbn [snd ok_step].
      + cbn. apply opt_eqb_refl. exact tab_eqb_refl.
      + cbn. rewrite !tab_eqb_refl. reflexivity.
    - destruct (pend_empty st) eqn:PE; [|apply tab_eqb_refl].
      rewrite (P eq_refl). apply tab_eqb_refl.
  Qed.

  Theorem model_passes ops : forall sd,
    forallb op_wf ops = true -> inv sd -> ok_hist M sd ops (snd (mrun M sd ops)) = true.
  Proof.
    induction ops as [|o ops IH]; intros sd W I; [reflexivity|].
    cbn [forallb] in W. apply andb_true_iff in W as [Wo W].
    rewrite mrun_cons. cbn [snd ok_hist].
    rewrite (ok_step_model sd o I). cbn [andb]. apply IH; [exact W|]. apply inv_step; assumption.
  Qed.
End MgrProofs.

(* ================= the two instances ================= *)
Lemma Forall_map_replace {A} (P : A -> Prop) (c : A -> bool) (f : A -> A) l :
  (forall x, P (f x)) -> Forall P l -> Forall P (map (fun x => if c x then f x else x) l).
Proof.
  intros Hf H. induction H as [|a l Ha _ IH]; cbn; constructor; [|exact IH].
  destruct (c a); [apply Hf|exact Ha].
Qed.
Lemma Forall_filter {A} (P : A -> Prop) (c : A -> bool) l : Forall P l -> Forall P (filter c l).
Proof.
  intros H. induction H as [|a l Ha _ IH]; cbn; [constructor|]. destruct (c a); [constructor; assumption|exact IH].
Qed.

Lemma forallb_ext_l {A} (f g : A -> bool) l : (forall x, f x = g x) -> forallb f l = forallb g l.
Proof. intros H. induction l as [|a l IH]; cbn; [reflexivity|]. rewrite H, IH. reflexivity. Qed.
Lemma filter_all_id {A} (f : A -> bool) l : forallb f l = true -> filter f l = l.
Proof.
  induction l as [|a l IH]; cbn; [reflexivity|]. intros H. apply andb_true_iff in H as [H1 H2].
  rewrite H1, IH by exact H2. reflexivity.
Qed.

(* users: no guard is needed *)
Lemma user_save_stable t x k :
  true = true -> t_xkey user_ops x = Some k ->
  Forall (stable user_ops) t -> Forall (stable user_ops) (t_save user_ops t x).
Proof.
  intros _ _ S. cbn [user_ops t_save]. unfold usave.
  destruct (ulookup t _).
  - apply Forall_map_replace; [|exact S]. intros y. unfold stable, ucopy. cbn. rewrite uinit_idem. reflexivity.
  - apply Forall_app. split; [exact S|]. constructor; [|constructor].
    unfold stable. cbn. rewrite uinit_idem. reflexivity.
Qed.
Lemma user_del_stable t k : Forall (stable user_ops) t -> Forall (stable user_ops) (t_del user_ops t k).
Proof. intros S. cbn. unfold udel. apply Forall_filter. exact S. Qed.
Lemma user_default_stable : Forall (stable user_ops) (load user_ops None).
Proof. cbn. constructor; [|constructor]. unfold stable. cbn. rewrite uinit_idem. reflexivity. Qed.

Definition uinv := inv user_ops.

Theorem users_flush_restart_exact ops sd :
  uinv sd ->
  m_tab (fst (fst (mrun user_ops sd (ops ++ [MFlush; MRestart])))) = m_tab (fst (fst (mrun user_ops sd ops))).
Proof.
  intros I. apply (flush_restart_exact user_ops (fun _ => true) user_save_stable user_del_stable user_default_stable).
  - apply forallb_forall. intros o _. destruct o; reflexivity.
  - exact I.
Qed.

Theorem users_model_passes ops :
  ok_hist user_ops (restart user_ops None, None) ops (snd (mrun user_ops (restart user_ops None, None) ops)) = true.
Proof.
  apply (model_passes user_ops (fun _ => true) user_save_stable user_del_stable user_default_stable user_eqb_refl).
  - apply forallb_forall. intros o _. destruct o; reflexivity.
  - apply inv_start. exact user_default_stable.
Qed.

(* one entry per name, after any history that starts from such a table and disk *)
Definition uuniq_sd (sd : mstate user * @disk user) : Prop :=
  uuniq_keys (m_tab (fst sd)) = true /\ (forall l, snd sd = Some l -> uuniq_keys l = true) /\
  Forall (stable user_ops) (m_tab (fst sd)) /\ (forall l, snd sd = Some l -> Forall (stable user_ops) l).

Theorem users_one_entry_per_name ops : forall sd,
  uuniq_sd sd -> uuniq_keys (m_tab (fst (fst (mrun user_ops sd ops)))) = true.
Proof.
  induction ops as [|o ops IH]; intros sd U; [destruct U as [U _]; exact U|].
  rewrite mrun_cons. cbn [fst]. apply IH.
  destruct sd as [st d]. destruct U as [U [UD [S SD]]]. cbn [fst snd] in *.
  destruct o; cbn [mstep].
  - unfold do_save. cbn [user_ops t_xkey t_look t_save].
    destruct (is_some _); cbn [fst snd m_tab]; (split; [apply usave_uniq; exact U|split; [exact UD|split; [|exact SD]]]);
      apply (user_save_stable _ x (to_lower (u_name (fst x))) eq_refl eq_refl S).
  - unfold do_del. cbn [user_ops t_ckey t_look t_del]. destruct (is_some _); cbn [fst snd m_tab].
    + split; [apply udel_uniq; exact U|split; [exact UD|split; [apply user_del_stable; exact S|exact SD]]].
    + repeat split; assumption.
  - repeat split; assumption.
  - repeat split; assumption.
  - unfold do_flush. destruct (pend_empty st); cbn [fst snd m_tab]; [repeat split; assumption|].
    split; [exact U|split; [|split; [exact S|]]]; intros l H; inversion H; subst; assumption.
  - unfold uuniq_sd. cbn [fst snd restart m_tab].
    assert (load user_ops d = match d with None => [uinit default_admin] | Some l => l end) as L.
    { destruct d as [l|]; [|reflexivity]. apply (load_some user_ops). apply SD. reflexivity. }
    rewrite L. destruct d as [l|].
    + repeat split; auto.
    + split; [reflexivity|split; [discriminate|split; [exact user_default_stable|discriminate]]].
Qed.

(* routes: the pattern of every Save must be stable under CanonicalPath — since the repair
   "CanonicalPath is idempotent" (CanonProofs.canonical_path_idem) that holds for every pattern *)
Lemma canon_stable_all p : canon_stable p = true.
Proof. unfold canon_stable. apply bytes_eqb_eq. apply canonical_path_idem. Qed.
Lemma rop_wf_all ops : forallb rop_wf ops = true.
Proof. apply forallb_forall. intros o _. destruct o; cbn; auto using canon_stable_all. Qed.

Section RouteInstance.
  Variable url_ok : bytes -> bool.
  Let R := route_ops url_ok.

  Lemma route_stable_iff r : stable R r <-> url_ok (r_url r) = true /\ canonical_path (r_pat r) = r_pat r.
  Proof.
    unfold stable. cbn. unfold rinit. destruct (url_ok (r_url r)); [|split; [discriminate|intros [? _]; discriminate]].
    split.
    - intros H. inversion H as [H1]. split; [reflexivity|]. rewrite H1. apply (f_equal r_pat) in H1. exact H1.
    - intros [_ H]. destruct r; cbn in *. rewrite H. reflexivity.
  Qed.

  Lemma route_save_stable t x k :
    canon_stable (r_pat x) = true -> t_xkey R x = Some k ->
    Forall (stable R) t -> Forall (stable R) (t_save R t x).
  Proof.
    intros C K S. cbn [R route_ops t_save t_xkey] in *. unfold save.
    destruct (url_ok (r_url x)) eqn:OK; [|discriminate]. cbn [negb].
    apply bytes_eqb_eq in C.
    assert (stable R {| r_pat := canonical_path (r_pat x); r_url := r_url x; r_keep := r_keep x |}) as N.
    { apply route_stable_iff. cbn. auto. }
    destruct (lookup t _).
    - apply Forall_map_replace; [|exact S]. intros _. exact N.
    - apply Forall_app. split; [exact S|]. constructor; [exact N|constructor].
  Qed.
  Lemma route_del_stable t k : Forall (stable R) t -> Forall (stable R) (t_del R t k).
  Proof. intros S. cbn. unfold del. apply Forall_filter. exact S. Qed.
  Lemma route_default_stable : Forall (stable R) (load R None).
  Proof. cbn. constructor. Qed.

  Theorem routes_flush_restart_exact ops sd :
    inv R sd ->
    m_tab (fst (fst (mrun R sd (ops ++ [MFlush; MRestart])))) = m_tab (fst (fst (mrun R sd ops))).
  Proof.
    intros I. pose proof (rop_wf_all ops) as W.
    apply (flush_restart_exact R (fun r => canon_stable (r_pat r)) route_save_stable route_del_stable route_default_stable).
    - rewrite <- W. apply forallb_ext_l. intros o. destruct o; reflexivity.
    - exact I.
  Qed.

  Theorem routes_model_passes ops :
    ok_hist R (restart R None, None) ops (snd (mrun R (restart R None, None) ops)) = true.
  Proof.
    pose proof (rop_wf_all ops) as W.
    apply (model_passes R (fun r => canon_stable (r_pat r)) route_save_stable route_del_stable route_default_stable route_eqb_refl).
    - rewrite <- W. apply forallb_ext_l. intros o. destruct o; reflexivity.
    - apply inv_start. exact route_default_stable.
  Qed.

  (* the route table under Save/Del is C17's [rrun]: its refinement theorem applies to the edits *)
  Definition rop_of (o : mop route) : list rop :=
    match o with MSave r => [RSave r] | MDel k => [RDel k] | _ => [] end.

  Lemma rstep_edit sd o :
    is_restart o = false ->
    m_tab (fst (fst (mstep R sd o))) = fst (rrun url_ok (m_tab (fst sd)) (rop_of o)).
  Proof.
    destruct sd as [st d]. intros NR. destruct o; cbn [mstep fst rop_of]; try reflexivity; try discriminate.
    - unfold do_save. cbn [R route_ops t_xkey t_save t_look].
      destruct (url_ok (r_url x)) eqn:OK.
      + destruct (is_some _); cbn; reflexivity.
      + cbn. unfold save. rewrite OK. reflexivity.
    - unfold do_del. cbn [R route_ops t_ckey t_look t_del].
      destruct (is_some (lookup (m_tab st) (canonical_path k))) eqn:Ex; cbn [fst m_tab rrun rstep]; [reflexivity|].
      unfold del. symmetry. apply filter_all_id. apply forallb_forall. intros x Ix.
      destruct (lookup (m_tab st) (canonical_path k)) eqn:L; [discriminate|].
      rewrite (lookup_none _ _ L x Ix). reflexivity.
    - unfold do_flush. destruct (pend_empty st); reflexivity.
  Qed.

  Lemma rrun_app t ops1 ops2 :
    fst (rrun url_ok t (ops1 ++ ops2)) = fst (rrun url_ok (fst (rrun url_ok t ops1)) ops2).
  Proof.
    revert t. induction ops1 as [|o ops1 IH]; intros t; [reflexivity|].
    rewrite <- app_comm_cons, !rrun_cons. cbn [fst]. apply IH.
  Qed.

  Theorem routes_edits_are_rrun ops : forall sd,
    forallb (fun o => negb (is_restart o)) ops = true ->
    m_tab (fst (fst (mrun R sd ops))) = fst (rrun url_ok (m_tab (fst sd)) (flat_map rop_of ops)).
  Proof.
    induction ops as [|o ops IH]; intros sd NR; [reflexivity|].
    cbn [forallb] in NR. apply andb_true_iff in NR as [NR1 NR].
    rewrite mrun_cons. cbn [fst flat_map]. rewrite rrun_app, IH by exact NR.
    rewrite rstep_edit by (destruct (is_restart o); [discriminate|reflexivity]). reflexivity.
  Qed.

  (* hence, with C17's [table_refines_map]: the route table is the fold of the edits over a finite map *)
  Theorem routes_refine_map ops sd m :
    forallb (fun o => negb (is_restart o)) ops = true ->
    (forall k, abs (m_tab (fst sd)) k = m k) ->
    forall k, abs (m_tab (fst (fst (mrun R sd ops)))) k = fold_left (astep url_ok) (flat_map rop_of ops) m k.
  Proof.
    intros NR H k. rewrite routes_edits_are_rrun by exact NR. apply table_refines_map. exact H.
  Qed.
End RouteInstance.

(* the guard used to be needed: before the fix "CanonicalPath is idempotent" a route saved under
   "/a /b/.." was stored as "/a " and came back as "/a" after flush + restart (the one-pass body is
   not idempotent: CanonProofs.canonical_once_not_idem).  With the repaired CanonicalPath the same
   pattern is stable and the reloaded table is the saved one. *)
Theorem route_reload_unstable_fixed :
  let R := route_ops (fun _ => true) in
  let r := {| r_pat := [47;97;32;47;98;47;46;46]; r_url := [114]; r_keep := false |} in   (* "/a /b/.." *)
  canon_stable (r_pat r) = true /\
  m_tab (fst (fst (mrun R (restart R None, None) [MSave r; MFlush; MRestart]))) =
  m_tab (fst (fst (mrun R (restart R None, None) [MSave r]))).
Proof. split; vm_compute; reflexivity. Qed.
