(* The model passes the oracle [ok_C02] of Model/LtsOracle.v (the stream-LTS part of C02: a late
   joiner is handed the join replay and then the live packets, contiguously).

   1. With a queue limit of at least 2 * |pkts| + 4 nothing is ever dropped for backlog: in every
      reachable state of the fixed LTS (RTP pack cache) no consumer is discarding and all its
      keep flags are set ([reachable_NI]).  The queue holds at most the join replay
      (<= 3 + |pkts| packets), the packets broadcast while registered (<= |pkts|) and the nil
      element pushed by Close.
   2. [C02_model_passes], from join_contiguous_rcache (LtsJoinProofs), delivered_prefix_of_pushed
      (LtsFanoutProofs) and 1. *)
From Coq Require Import ZArith List Bool Arith Lia.
From V Require Import Val StreamLts Cache LtsWire LtsOracle CacheProofs LtsOracleProofs.
From V Require LtsFanoutProofs LtsJoinProofs.
Import ListNotations.
Local Open Scope nat_scope.

Local Arguments s_ok {cache_t}.
Local Arguments s_lock {cache_t}.
Local Arguments s_lockq {cache_t}.
Local Arguments s_cache {cache_t}.
Local Arguments s_sent {cache_t}.
Local Arguments s_cached {cache_t}.
Local Arguments s_todo {cache_t}.
Local Arguments s_pp {cache_t}.
Local Arguments s_count {cache_t}.
Local Arguments s_cs {cache_t}.
Local Arguments s_att {cache_t}.
Local Arguments s_stp {cache_t}.
Local Arguments s_kp {cache_t}.

Local Notation subseq := LtsFanoutProofs.subseq.
Local Notation somes := LtsFanoutProofs.somes.

(* ------------------------------------------------------------------ *)
(** * 1. nothing is dropped when the limit is large *)

Fixpoint nones (q : list (option pkt)) : nat :=
  match q with
  | [] => 0
  | None :: q' => S (nones q')
  | Some _ :: q' => nones q'
  end.

Lemma nones_app : forall q1 q2, nones (q1 ++ q2) = nones q1 + nones q2.
Proof. induction q1 as [|[p|] q1 IH]; intros q2; cbn [app nones]; rewrite ?IH; lia. Qed.

Lemma nones_map_Some : forall l, nones (map Some l) = 0.
Proof. induction l as [|p l IH]; cbn [map nones]; auto. Qed.

Lemma len_somes_nones : forall q, length q = length (somes q) + nones q.
Proof. induction q as [|[p|] q IH]; cbn [length LtsFanoutProofs.somes nones]; lia. Qed.

(* the consumer's part: not discarding, nothing dropped so far, at most the one nil element of
   Close in the queue, nothing delivered before the registration *)
Record NDc (k : cons) : Prop := {
  nd_disc : c_disc k = false;
  nd_keep : forallb (fun b => b) (c_keep k) = true;
  nd_nones : nones (c_q k) <= (if c_closed k then 1 else 0);
  nd_none : c_regat k = None -> c_pc k = CNone /\ c_out k = []
}.

(* [k'] differs from [k] in the queue (no more nil elements) and in ghost fields only *)
Lemma NDc_frame : forall k k', NDc k ->
  c_disc k' = c_disc k -> c_keep k' = c_keep k -> nones (c_q k') <= nones (c_q k) ->
  c_closed k' = c_closed k -> c_regat k' = c_regat k -> c_pc k' = c_pc k -> c_out k' = c_out k ->
  NDc k'.
Proof.
  intros k k' [H1 H2 H3 H4] E1 E2 E3 E4 E5 E6 E7. constructor.
  - rewrite E1. exact H1.
  - rewrite E2. exact H2.
  - rewrite E4. lia.
  - rewrite E5, E6, E7. exact H4.
Qed.

(* ... or also in the goroutine position and the delivered packets, once it is registered *)
Lemma NDc_same : forall k k', NDc k -> c_regat k <> None ->
  c_disc k' = c_disc k -> c_keep k' = c_keep k -> nones (c_q k') <= nones (c_q k) ->
  c_closed k' = c_closed k -> c_regat k' = c_regat k -> NDc k'.
Proof.
  intros k k' [H1 H2 H3 H4] Hr E1 E2 E3 E4 E5. constructor.
  - rewrite E1. exact H1.
  - rewrite E2. exact H2.
  - rewrite E4. lia.
  - rewrite E5. intros E. contradiction.
Qed.

Lemma regat_of_pc : forall k, NDc k -> c_pc k <> CNone -> c_regat k <> None.
Proof. intros k H Hp E. apply Hp. apply (nd_none k H E). Qed.

Lemma wake_cnone : forall k, c_pc k = CNone -> wake k = k.
Proof. intros k E. unfold wake. rewrite E. reflexivity. Qed.

Lemma wake_q_nones : forall k, nones (c_q (wake k)) <= nones (c_q k).
Proof.
  intros k. unfold wake. destruct (c_pc k); try lia.
  destruct (c_q k) as [|[p|] q]; cbn [c_q nones]; lia.
Qed.

Lemma NDc_wake : forall k, NDc k -> NDc (wake k).
Proof.
  intros k H. destruct (c_regat k) as [r|] eqn:Er.
  - apply (NDc_same k); [exact H|congruence| | | | |].
    + apply LtsFanoutProofs.wake_disc.
    + apply LtsFanoutProofs.wake_keep.
    + apply wake_q_nones.
    + apply LtsFanoutProofs.wake_closed.
    + apply LtsFanoutProofs.wake_regat.
  - rewrite wake_cnone; [exact H|]. apply (nd_none k H Er).
Qed.

Lemma NDc_push_some : forall k p, NDc k -> NDc (push k (Some p)).
Proof.
  intros k p H. unfold push. apply NDc_wake.
  apply (NDc_frame k); [exact H|reflexivity|reflexivity| |reflexivity|reflexivity|reflexivity|reflexivity].
  cbn [c_q]. rewrite nones_app. cbn [nones]. lia.
Qed.

Lemma NDc_close : forall k, NDc k -> NDc (close_cons fixed k).
Proof.
  intros k H. unfold close_cons. destruct (c_closed k) eqn:Ec; [exact H|].
  cbn [v_push fixed]. unfold push. apply NDc_wake.
  destruct H as [H1 H2 H3 H4]. rewrite Ec in H3. constructor; cbn [c_disc c_keep c_q c_closed c_regat c_pc c_out].
  - exact H1.
  - exact H2.
  - rewrite nones_app. cbn [nones]. lia.
  - exact H4.
Qed.

Lemma send_nodrop : forall maxq k p, c_disc k = false -> length (c_q k) <= maxq ->
  send maxq k p =
  push {| c_reg := c_reg k; c_closed := c_closed k; c_q := c_q k; c_pc := c_pc k; c_out := c_out k;
          c_disc := false; c_closes := c_closes k; c_pushed := c_pushed k; c_prefill := c_prefill k;
          c_regat := c_regat k; c_unregat := c_unregat k; c_keep := c_keep k ++ [true] |} (Some p).
Proof.
  intros maxq k p Hd Hq. unfold send. rewrite Hd.
  assert (E : (maxq <? length (c_q k)) = false) by (apply Nat.ltb_ge; exact Hq).
  rewrite E. destruct (p_key p); reflexivity.
Qed.

Lemma NDc_send : forall maxq k p, NDc k -> length (c_q k) <= maxq -> NDc (send maxq k p).
Proof.
  intros maxq k p H Hq. rewrite send_nodrop; [|apply (nd_disc k H)|exact Hq].
  apply NDc_push_some. destruct H as [H1 H2 H3 H4].
  constructor; cbn [c_disc c_keep c_q c_closed c_regat c_pc c_out]; try assumption.
  - reflexivity.
  - rewrite forallb_app, H2. reflexivity.
Qed.

Lemma NDc_set_reg : forall k b n, NDc k -> NDc (set_reg k b n).
Proof.
  intros k b n [H1 H2 H3 H4]. constructor; cbn [set_reg c_disc c_keep c_q c_closed c_regat c_pc c_out];
    try assumption.
  destruct b; [discriminate|exact H4].
Qed.

Lemma NDc_set_pc : forall k pc, NDc k -> c_regat k <> None -> NDc (set_pc k pc).
Proof. intros k pc H Hr. apply (NDc_same k); auto. Qed.

Lemma NDc_finish : forall k, NDc k -> c_regat k <> None -> NDc (finish k).
Proof. intros k H Hr. apply (NDc_same k); auto. cbn [finish c_q nones]. lia. Qed.

Lemma NDc_exit_path : forall k n, NDc k -> c_regat k <> None -> NDc (exit_path fixed k n).
Proof.
  intros k n H Hr. unfold exit_path. cbn [v_atomic fixed]. destruct (c_reg k).
  - apply NDc_set_pc; [apply NDc_set_reg; exact H|exact Hr].
  - apply NDc_finish; assumption.
Qed.

Lemma NDc_loop_test : forall k n, NDc k -> c_regat k <> None -> NDc (loop_test fixed k n).
Proof.
  intros k n H Hr. unfold loop_test. destruct (c_closed k).
  - apply NDc_exit_path; assumption.
  - apply NDc_set_pc; assumption.
Qed.

Lemma NDc_add_out : forall k pc p, NDc k -> c_regat k <> None ->
  NDc {| c_reg := c_reg k; c_closed := c_closed k; c_q := c_q k; c_pc := pc;
         c_out := c_out k ++ [p]; c_disc := c_disc k; c_closes := c_closes k;
         c_pushed := c_pushed k; c_prefill := c_prefill k; c_regat := c_regat k;
         c_unregat := c_unregat k; c_keep := c_keep k |}.
Proof. intros k pc p H Hr. apply (NDc_same k); auto. Qed.

Lemma rg_close : forall V k, c_regat (close_cons V k) = c_regat k.
Proof.
  intros V k. unfold close_cons. destruct (c_closed k); [reflexivity|].
  destruct (v_push V); [rewrite LtsFanoutProofs.push_regat|rewrite LtsFanoutProofs.wake_regat]; reflexivity.
Qed.

(* ---- the state invariant ---- *)

(* [a]: the attacher's position; the registration precedes the start of the goroutine *)
Definition ND (a : apc) (k : cons) : Prop := NDc k /\ (a = A2 -> c_regat k <> None).
Definition NI (s : lstate) : Prop := forall c, ND (s_att s c) (s_cs s c).

Lemma NI_same : forall s s' : lstate, NI s ->
  (forall c, s_cs s' c = s_cs s c) -> (forall c, s_att s' c = s_att s c) -> NI s'.
Proof. intros s s' H E1 E2 c. rewrite E1, E2. apply H. Qed.

(* one consumer's entry and attacher position change *)
Lemma NI_upd : forall (s s' : lstate) c k' a', NI s -> ND a' k' ->
  (forall c', s_cs s' c' = upd (s_cs s) c k' c') ->
  (forall c', s_att s' c' = upd (s_att s) c a' c') -> NI s'.
Proof.
  intros s s' c k' a' H Hk E1 E2 c'. rewrite E1, E2. unfold upd.
  destruct (Nat.eqb c c'); [exact Hk|apply H].
Qed.

(* one consumer's entry changes, no attacher position does *)
Lemma NI_upd_cs : forall (s s' : lstate) c k', NI s -> ND (s_att s c) k' ->
  (forall c', s_cs s' c' = upd (s_cs s) c k' c') ->
  (forall c', s_att s' c' = s_att s c') -> NI s'.
Proof.
  intros s s' c k' H Hk E1 E2 c'. rewrite E1, E2. unfold upd.
  destruct (Nat.eqb_spec c c') as [<-|Hne]; [exact Hk|apply H].
Qed.

Lemma after_acquire_NI : forall (s : lstate) h lq,
  NI s -> NI (after_acquire rcache rc_add rc_snap s h lq).
Proof.
  intros s h lq H. unfold after_acquire. destruct h as [|c].
  - destruct (s_todo s); [exact H|].
    eapply NI_same; [exact H|intros c; reflexivity|intros c; reflexivity].
  - eapply (NI_upd s _ c); [exact H| |intros c'; reflexivity|intros c'; reflexivity].
    split; [|discriminate].
    apply (NDc_frame (s_cs s c)); try reflexivity; [apply H|].
    cbn [c_q]. rewrite nones_map_Some. lia.
Qed.

Lemma acquire_NI : forall (s : lstate) h, NI s -> NI (acquire fixed rcache rc_add rc_snap s h).
Proof.
  intros s h H. unfold acquire. cbn [v_lock fixed].
  destruct (s_lock s); [|apply after_acquire_NI; exact H].
  destruct h as [|c].
  - eapply NI_same; [exact H|intros c; reflexivity|intros c; reflexivity].
  - eapply (NI_upd s _ c (s_cs s c) A0W); [exact H| | |intros c'; reflexivity].
    + split; [apply H|discriminate].
    + intros c'. cbn [set_core s_cs]. unfold upd. destruct (Nat.eqb_spec c c') as [<-|Hne]; reflexivity.
Qed.

Lemma release_NI : forall (s : lstate), NI s -> NI (release fixed rcache rc_add rc_snap s).
Proof.
  intros s H. unfold release. cbn [v_lock fixed].
  destruct (s_lockq s); [|apply after_acquire_NI; exact H].
  eapply NI_same; [exact H|intros c; reflexivity|intros c; reflexivity].
Qed.

Lemma subseq_length : forall A (a b : list A), subseq a b -> length a <= length b.
Proof. intros A a b H. induction H; cbn [length]; lia. Qed.

Lemma select_length : forall A (m : list bool) (l : list A),
  length (LtsFanoutProofs.select m l) <= length l.
Proof. intros A m l. apply subseq_length. apply LtsFanoutProofs.subseq_select. Qed.

(* the log handed to the cache is a prefix of the published packets *)
Lemma inv_cached_prefix : forall n pkts (s : lstate),
  LtsFanoutProofs.Inv rcache n pkts s -> exists rest, pkts = s_cached s ++ rest.
Proof.
  intros n pkts s HI. destruct HI as [_ _ _ _ Hout Hin Hpre _ _ _ _ _ _].
  destruct Hpre as (dropped & Hp & Hd).
  destruct (s_pp s) eqn:Epp.
  - rewrite Hout by discriminate. eexists. exact Hp.
  - rewrite Hout by discriminate. eexists. exact Hp.
  - rewrite Hout by discriminate. eexists. exact Hp.
  - destruct (Hin eq_refl) as (p & rest & Et & Ec).
    destruct Hd as [->|[_ Hd]]; [|discriminate].
    exists rest. rewrite Hp, Ec, Et, <- app_assoc. reflexivity.
Qed.

Lemma snap_length : forall go l ca, RI go l ca -> length (rc_snap ca) <= 3 + length l.
Proof.
  intros go l ca HR. rewrite (RI_snap _ _ _ HR), !app_length.
  pose proof (opt_len (rc_vps ca)). pose proof (opt_len (rc_sps ca)). pose proof (opt_len (rc_pps ca)).
  pose proof (subseq_length _ _ _ (ri_gop _ _ _ HR)). lia.
Qed.

(* the queue never exceeds replay + window + the nil element *)
Lemma q_bound : forall g n pkts (s : lstate) c,
  LtsFanoutProofs.Inv rcache n pkts s -> PI g s -> NI s ->
  length (c_q (s_cs s c)) <= 2 * length pkts + 4.
Proof.
  intros g n pkts s c HI [_ HP] HN.
  destruct (inv_cached_prefix n pkts s HI) as [rest Hc].
  destruct HI as [_ _ _ _ _ _ Hpre _ _ _ _ _ Hki].
  destruct Hpre as (dropped & Hp & _).
  destruct (Hki c) as [(rest' & Hq & _) _ _ Hw _].
  destruct (HP c) as (l0 & rest0 & ca & El & HR & Epre).
  pose proof (nd_nones _ (proj1 (HN c))) as Hn.
  set (k := s_cs s c) in *.
  assert (H1 : length (somes (c_q k)) <= length (c_pushed k)).
  { rewrite Hq. unfold LtsFanoutProofs.pend. rewrite !app_length. lia. }
  assert (H2 : length (c_pushed k) <= length (c_prefill k) + length (s_sent s)).
  { rewrite Hw, app_length.
    pose proof (select_length _ (c_keep k) (LtsFanoutProofs.window (s_sent s) (c_regat k) (c_unregat k))).
    pose proof (subseq_length _ _ _ (LtsFanoutProofs.subseq_window (s_sent s) (c_regat k) (c_unregat k))).
    lia. }
  assert (H3 : length (c_prefill k) <= 3 + length pkts).
  { rewrite Epre. pose proof (snap_length _ _ _ HR) as H.
    assert (length l0 <= length pkts) by (rewrite Hc, El, !app_length; lia). lia. }
  assert (H4 : length (s_sent s) <= length pkts) by (rewrite Hp, app_length; lia).
  rewrite (len_somes_nones (c_q k)). destruct (c_closed k); lia.
Qed.

Lemma step_NI : forall g maxq n pa pkts (s s' : lstate) t,
  2 * length pkts + 4 <= maxq ->
  LtsFanoutProofs.Inv rcache n pkts s -> PI g s -> NI s ->
  step fixed maxq rcache (rc_empty g) rc_add rc_snap n pa s t = Some s' -> NI s'.
Proof.
  intros g maxq n pa pkts s s' t Hmax HI HP H Hst.
  destruct t as [| |c|c|c]; cbn [step] in Hst.
  - (* publisher *)
    unfold step_pub in Hst. destruct (s_pp s), (s_todo s) as [|p rest]; try discriminate.
    + destruct (s_ok s); inversion Hst; subst s';
        (eapply NI_same; [exact H|intros c; reflexivity|intros c; reflexivity]).
    + inversion Hst; subst s'. apply acquire_NI. exact H.
    + inversion Hst; subst s'. apply release_NI.
      intros c. cbn [s_cs s_att]. rewrite LtsFanoutProofs.send_all_spec.
      destruct (H c) as [Hc Ha]. destruct ((c <? n) && c_reg (s_cs s c)); [|split; assumption].
      split.
      * apply NDc_send; [exact Hc|].
        pose proof (q_bound g n pkts s c HI HP H). lia.
      * rewrite LtsFanoutProofs.send_regat. exact Ha.
  - (* closer *)
    unfold step_close in Hst. destruct (s_kp s); try discriminate.
    + inversion Hst; subst s'. eapply NI_same; [exact H|intros c; reflexivity|intros c; reflexivity].
    + destruct (sweep fixed n (s_cs s) (length (s_sent s))) as [f d] eqn:Esw.
      cbn [v_atomic fixed] in Hst. inversion Hst; subst s'.
      intros c. cbn [s_cs s_att].
      replace f with (fst (sweep fixed n (s_cs s) (length (s_sent s)))) by (rewrite Esw; reflexivity).
      rewrite LtsFanoutProofs.sweep_spec. destruct (H c) as [Hc Ha].
      destruct ((c <? n) && c_reg (s_cs s c)); [|split; assumption].
      split; [apply NDc_close, NDc_set_reg, Hc|]. rewrite rg_close. exact Ha.
    + inversion Hst; subst s'. eapply NI_same; [exact H|intros c; reflexivity|intros c; reflexivity].
  - (* attacher *)
    destruct (c <? n); [|discriminate]. unfold step_att in Hst.
    destruct (s_att s c) eqn:Ea; try discriminate.
    + inversion Hst; subst s'. apply acquire_NI. exact H.
    + inversion Hst; subst s'. apply release_NI.
      eapply (NI_upd s _ c _ A2); [exact H| |intros c'; reflexivity|intros c'; reflexivity].
      split; [apply NDc_set_reg, H|]. intros _. cbn [set_reg c_regat]. discriminate.
    + destruct (H c) as [Hc Ha]. rewrite Ea in Ha. specialize (Ha eq_refl).
      destruct (v_recheck fixed && negb (s_ok s) && c_reg (s_cs s c));
        inversion Hst; subst s';
        (eapply (NI_upd s _ c _ ADone); [exact H| |intros c'; reflexivity|intros c'; reflexivity];
         split; [|discriminate]).
      * apply NDc_loop_test; [apply NDc_close, NDc_set_reg, Hc|]. rewrite rg_close. exact Ha.
      * apply NDc_loop_test; assumption.
  - (* stopper *)
    destruct (c <? n); [|discriminate]. destruct (s_att s c) eqn:Ea; try discriminate.
    unfold step_stop in Hst. destruct (H c) as [Hc Ha].
    destruct (s_stp s c); try discriminate.
    + destruct (c_reg (s_cs s c)); inversion Hst; subst s'.
      * eapply (NI_upd_cs s _ c); [exact H| |intros c'; reflexivity|intros c'; reflexivity].
        rewrite Ea. split; [apply NDc_set_reg, Hc|discriminate].
      * eapply NI_same; [exact H|intros c'; reflexivity|intros c'; reflexivity].
    + inversion Hst; subst s'.
      eapply (NI_upd_cs s _ c); [exact H| |intros c'; reflexivity|intros c'; reflexivity].
      rewrite Ea. split; [apply NDc_close, Hc|discriminate].
  - (* consumer goroutine *)
    destruct (c <? n); [|discriminate]. unfold step_cons in Hst.
    destruct (H c) as [Hc Ha].
    destruct (c_pc (s_cs s c)) as [| |[p|]| | |] eqn:Epc; try discriminate;
      assert (Hr : c_regat (s_cs s c) <> None) by (apply regat_of_pc; [exact Hc|rewrite Epc; discriminate]).
    + destruct (c_q (s_cs s c)) as [|x q'] eqn:Eq; inversion Hst; subst s';
        (eapply (NI_upd_cs s _ c); [exact H| |intros c'; reflexivity|intros c'; reflexivity];
         split; [|intros _; exact Hr]).
      * apply NDc_set_pc; assumption.
      * apply (NDc_same (s_cs s c)); auto.
        cbn [c_q]. rewrite Eq. destruct x; cbn [nones]; lia.
    + pose proof (NDc_add_out (s_cs s c) (CGot (Some p)) p Hc Hr) as Hk1.
      destruct (Nat.eqb _ _); inversion Hst; subst s';
        (eapply (NI_upd_cs s _ c); [exact H| |intros c'; reflexivity|intros c'; reflexivity];
         split; [|intros _; first [rewrite LtsOracleProofs.pf_exit_path | idtac]]).
      * apply NDc_exit_path; [exact Hk1|exact Hr].
      * unfold exit_path. cbn [v_atomic fixed c_reg]. destruct (c_reg (s_cs s c)); exact Hr.
      * apply NDc_loop_test; [exact Hk1|exact Hr].
      * unfold loop_test, exit_path. cbn [v_atomic fixed c_reg c_closed].
        destruct (c_closed (s_cs s c)); [destruct (c_reg (s_cs s c))|]; exact Hr.
    + inversion Hst; subst s'.
      eapply (NI_upd_cs s _ c); [exact H| |intros c'; reflexivity|intros c'; reflexivity].
      split; [apply NDc_loop_test; assumption|].
      intros _. unfold loop_test, exit_path. cbn [v_atomic fixed].
      destruct (c_closed (s_cs s c)); [destruct (c_reg (s_cs s c))|]; exact Hr.
    + inversion Hst; subst s'.
      eapply (NI_upd_cs s _ c); [exact H| |intros c'; reflexivity|intros c'; reflexivity].
      cbn [v_atomic fixed]. split.
      * apply NDc_finish; [apply NDc_close, Hc|rewrite rg_close; exact Hr].
      * intros _. cbn [finish c_regat]. rewrite rg_close. exact Hr.
Qed.

Lemma init_NI : forall g pkts stoppers, NI (init rcache (rc_empty g) pkts stoppers).
Proof.
  intros g pkts stoppers c. cbn [init s_att s_cs]. split; [|discriminate].
  constructor; cbn [cons0 c_disc c_keep c_q c_closed c_regat c_pc c_out forallb nones]; auto.
Qed.

Theorem reachable_NI : forall g maxq n pa pkts stoppers sched,
  2 * length pkts + 4 <= maxq ->
  NI (run fixed maxq rcache (rc_empty g) rc_add rc_snap n pa sched (init rcache (rc_empty g) pkts stoppers)).
Proof.
  intros g maxq n pa pkts stoppers sched Hmax.
  assert (H : LtsFanoutProofs.Inv rcache n pkts
                (run fixed maxq rcache (rc_empty g) rc_add rc_snap n pa sched
                     (init rcache (rc_empty g) pkts stoppers)) /\
              PI g (run fixed maxq rcache (rc_empty g) rc_add rc_snap n pa sched
                     (init rcache (rc_empty g) pkts stoppers)) /\
              NI (run fixed maxq rcache (rc_empty g) rc_add rc_snap n pa sched
                     (init rcache (rc_empty g) pkts stoppers))); [|apply H].
  apply (LtsFanoutProofs.inv_run maxq rcache (rc_empty g) rc_add rc_snap n pa
           (fun s => LtsFanoutProofs.Inv rcache n pkts s /\ PI g s /\ NI s)).
  - intros s t s' (H1 & H2 & H3) Hst. split; [|split].
    + eapply LtsFanoutProofs.step_inv; eassumption.
    + eapply step_PI; eassumption.
    + eapply step_NI; eassumption.
  - split; [apply LtsFanoutProofs.init_inv|split; [apply init_PI|apply init_NI]].
Qed.

(* ------------------------------------------------------------------ *)
(** * 2. the model passes [ok_C02] *)

Lemma prefixZ_complete : forall a t, prefixZ a (a ++ t) = true.
Proof. induction a as [|x a IH]; intros t; cbn [app prefixZ]; [reflexivity|]. rewrite Z.eqb_refl. apply IH. Qed.

Lemma jselect_all : forall A (keep : list bool) (w : list A),
  forallb (fun b => b) keep = true -> length keep = length w -> LtsJoinProofs.jselect keep w = w.
Proof.
  induction keep as [|b keep IH]; intros [|x w] Hk Hl; cbn in Hl; try discriminate; [reflexivity|].
  cbn [forallb] in Hk. apply andb_true_iff in Hk. destruct Hk as [-> Hk].
  cbn [LtsJoinProofs.jselect]. rewrite IH; [reflexivity|exact Hk|lia].
Qed.

Lemma jwindow_prefix : forall sent r u, exists t, skipn r sent = LtsJoinProofs.jwindow sent r u ++ t.
Proof.
  intros sent r [n|]; unfold LtsJoinProofs.jwindow.
  - exists (skipn (r - length (firstn n sent)) (skipn n sent)).
    rewrite <- skipn_app, firstn_skipn. reflexivity.
  - exists []. rewrite app_nil_r. reflexivity.
Qed.

Theorem C02_model_passes : forall c : lcase,
  l_var c = fixed -> ok_C02 c (obs_of_state (l_n c) (lrun c)) = true.
Proof.
  intros c Hv. pose proof (lrun_fixed c Hv) as Hs.
  unfold ok_C02, obs_of_state. cbn [o_cons]. apply andb_true_iff. split.
  { rewrite map_length, seq_length. apply Nat.eqb_refl. }
  destruct (_ && _) eqn:Eg; [|reflexivity].
  apply andb_true_iff in Eg. destruct Eg as [Hnc Hmx]. apply Nat.leb_le in Hmx.
  assert (HF : Forall (fun t => t <> TClose) (l_sched c)).
  { apply Forall_forall. intros t Ht E. rewrite forallb_forall in Hnc. specialize (Hnc t Ht).
    rewrite E in Hnc. discriminate. }
  pose proof (reachable_NI (l_gop c) (l_maxq c) (l_n c) (pan c) (l_pkts c) (stp c) (l_sched c) Hmx) as HN.
  pose proof (LtsJoinProofs.join_contiguous_rcache (l_maxq c) (l_gop c) (l_n c) (pan c) (l_pkts c)
                (stp c) (l_sched c) HF) as HJ.
  pose proof (LtsFanoutProofs.sent_prefix_of_published (l_maxq c) rcache (rc_empty (l_gop c)) rc_add
                rc_snap (l_n c) (pan c) (l_pkts c) (stp c) (l_sched c)) as F5.
  cbv zeta in HJ, F5. rewrite <- Hs in HN, HJ, F5.
  destruct F5 as [rest' F5].
  apply forallb_map_seq. intros i Hi. unfold cobs_of. cbn [o_out].
  pose proof (LtsFanoutProofs.delivered_prefix_of_pushed (l_maxq c) rcache (rc_empty (l_gop c)) rc_add
                rc_snap (l_n c) (pan c) (l_pkts c) (stp c) (l_sched c) i) as F1.
  cbv zeta in F1. rewrite <- Hs in F1. destruct F1 as [rest F1].
  destruct (HN i) as [Hc _].
  unfold join_ok. apply existsb_exists.
  destruct (c_regat (s_cs (lrun c) i)) as [r|] eqn:Er.
  - destruct (HJ i r Er) as (H1 & _ & H3 & H4).
    rewrite jselect_all in H3; [|apply (nd_keep _ Hc)|exact H4].
    destruct (jwindow_prefix (s_sent (lrun c)) r (c_unregat (s_cs (lrun c) i))) as [t Ht].
    exists r. split.
    + apply in_seq. rewrite F5, app_length. lia.
    + assert (E1 : firstn r (l_pkts c) = firstn r (s_sent (lrun c))).
      { rewrite F5, firstn_app. replace (r - length (s_sent (lrun c))) with 0 by lia.
        cbn [firstn]. apply app_nil_r. }
      assert (E2 : skipn r (l_pkts c) = skipn r (s_sent (lrun c)) ++ rest').
      { rewrite F5 at 1. rewrite skipn_app. replace (r - length (s_sent (lrun c))) with 0 by lia.
        reflexivity. }
      rewrite skipn_map, <- map_app, E1, E2, Ht, !app_assoc, <- H3, F1, <- !app_assoc, map_app.
      apply prefixZ_complete.
  - destruct (nd_none _ Hc Er) as [_ Eo]. rewrite Eo. exists 0. split; [apply in_seq; lia|reflexivity].
Qed.

Theorem C02_wire_model_passes : forall v : val, l_var (dec_lcase v) = fixed ->
  ok_C02 (dec_lcase v) (dec_obs (lts_run v)) = true.
Proof. intros v Hv. unfold lts_run. rewrite dec_enc_obs. apply C02_model_passes. exact Hv. Qed.
