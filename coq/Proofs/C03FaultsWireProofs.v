(* the extracted oracle accepts the extracted model's own run on every case (wire form) *)
From Coq Require Import ZArith List Bool.
From V Require Import Val C03Adapter C03AdapterProofs RunC03Faults.
Import ListNotations.

Lemma dec_enc_fobs : forall o, dec_fobs (enc_fobs o) = o.
Proof. intros [[[a b] c] d]. reflexivity. Qed.

Lemma not_panic_fobs : forall l, is_panic (vlist enc_fobs l) = false.
Proof. intros [|[[[a b] c] d] l]; reflexivity. Qed.

Theorem faults_model_passes_on_the_wire : forall c,
  x_C03_faults_ok (VL [c; x_C03_faults_run c]) = VI 1%Z.
Proof.
  intros c. unfold x_C03_faults_ok, x_C03_faults_run.
  change (nthv 0 (VL [c; ?r])) with c. cbv beta zeta.
  change (nthv 1 (VL [c; ?r])) with r.
  rewrite not_panic_fobs. unfold vlist. simpl as_list. rewrite map_map.
  rewrite (map_ext _ (fun o => o) dec_enc_fobs), map_id.
  rewrite faults_model_passes. reflexivity.
Qed.
