(* C05 / C03: the extracted oracles answer 1 on (case, the extracted model's output for the case) *)
From Coq Require Import ZArith List Bool Lia.
From V Require Import Val Bytes StrGo Registry RegistryProofs RunC05 RunC03Reg.
Import ListNotations.
Open Scope Z_scope.

Lemma dec_enc_end v : dec_end (enc_end v) = v.
Proof.
  unfold dec_end, enc_end, vlist. simpl as_list. rewrite map_map.
  rewrite <- (map_id v) at 2. apply map_ext. intros [[l t] c]. destruct l; reflexivity.
Qed.

Lemma dec_enc_gout o : dec_gout (enc_gout o) = o.
Proof.
  destruct o as [|[x|]|a b|l|b|b]; [| | | | | |destruct b; reflexivity].
  - reflexivity.
  - change (RGet (Some (Z.to_nat (Z.of_nat x))) = RGet (Some x)). rewrite Nat2Z.id. reflexivity.
  - reflexivity.
  - reflexivity.
  - change (RList (map as_bytes (map VB l)) = RList l). rewrite map_map. simpl. rewrite map_id. reflexivity.
  - destruct b; reflexivity.
Qed.

Lemma dec_enc_gouts l : map dec_gout (map enc_gout l) = l.
Proof. rewrite map_map. induction l as [|o l IH]; simpl; auto. rewrite dec_enc_gout, IH. reflexivity. Qed.

Theorem reg_model_passes_on_the_wire : forall c,
  c05_variant (nthv 0 c) = rfixed -> hist_wf sinit (c05_ops c) = true ->
  x_C03_reg_ok (VL [c; x_C03_reg_run c]) = VI 1.
Proof.
  intros c Hv Hwf. unfold x_C03_reg_ok, x_C03_reg_run, x_C05_run.
  change (nthv 0 (VL [c; ?r])) with c. cbv beta zeta.
  unfold nthv at 1. simpl nth. simpl as_list.
  rewrite last_last, dec_enc_end, Hv, reg_model_passes by exact Hwf. reflexivity.
Qed.

Theorem c05_model_passes_on_the_wire : forall c,
  c05_variant (nthv 0 c) = rfixed -> hist_wf sinit (c05_ops c) = true ->
  x_C05_ok (VL [c; x_C05_run c]) = VI 1.
Proof.
  intros c Hv Hwf. unfold x_C05_ok, x_C05_run.
  change (nthv 0 (VL [c; ?r])) with c. cbv beta zeta.
  unfold nthv at 1. simpl nth. simpl as_list.
  rewrite last_last, removelast_last, dec_enc_end, dec_enc_gouts, Hv, model_passes_end by exact Hwf.
  reflexivity.
Qed.
