(* C18: durability of the table managers under every interleaving of API calls,
   split Flushes and crashes, for the lock discipline of the code (VWhole); the
   narrowed-lock and the other variants are refuted by computed schedules. *)
From Coq Require Import ZArith List Bool Lia.
From V Require Import Bytes StrGo BytesLemmas Route RouteProofs C18Users C18Tables C18TableProofs C18Conc.
Import ListNotations.
Open Scope Z_scope.

Section ConcProofs.
  Context {E X : Type}.
  Variable M : tops E X.
  Variable wfx : X -> bool.
  Hypothesis wf_all : forall x, wfx x = true.
  Hypothesis save_stable : forall t x k, wfx x = true -> t_xkey M x = Some k ->
                                         Forall (stable M) t -> Forall (stable M) (t_save M t x).
  Hypothesis del_stable : forall t k, Forall (stable M) t -> Forall (stable M) (t_del M t k).
  Hypothesis default_stable : Forall (stable M) (load M None).
  Hypothesis eqb_refl : forall e, t_eqb M e e = true.

  Lemma op_wf_all o : op_wf wfx o = true.
  Proof. destruct o; cbn; auto. Qed.

  (* the invariant of every state reachable under the code's lock discipline *)
  Definition cinv (c : cstate E) : Prop :=
    match c_fl c with
    | [] => inv M (c_st c, c_d c)
    | [(_, FBegun snap)] =>
        Forall (stable M) (m_tab (c_st c)) /\ (forall l, c_d c = Some l -> Forall (stable M) l) /\
        snap = m_tab (c_st c) /\ pend_empty (c_st c) = false
    | [(_, FWritten)] => Forall (stable M) (m_tab (c_st c)) /\ c_d c = Some (m_tab (c_st c))
    | _ => False
    end.

  Lemma cinv_start : cinv (cstart M).
  Proof. apply inv_start. exact default_stable. Qed.

  Lemma cinv_disk_stable c : cinv c -> forall l, c_d c = Some l -> Forall (stable M) l.
  Proof.
    unfold cinv. destruct (c_fl c) as [|[f [snap|]] [|y r]]; try contradiction.
    - intros [_ [D _]]. exact D.
    - intros [_ [D _]]. exact D.
    - intros [S D] l H. rewrite D in H. inversion H. subst. exact S.
  Qed.

  Lemma cinv_durable c : cinv c -> durable M c.
  Proof.
    unfold cinv, durable. destruct (c_fl c) as [|[f [snap|]] [|y r]]; try contradiction.
    - intros [_ [_ P]]. exact P.
    - intros [_ [_ [_ P]]] Q. congruence.
    - intros [S D] _. rewrite D. apply (load_some M). exact S.
  Qed.

  Lemma cstep_inv c e c' o : cinv c -> cstep M VWhole c e = Some (c', o) -> cinv c'.
  Proof.
    intros I H. destruct e as [op|f|f ok|f|]; cbn [cstep] in H.
    - (* an API call: only with no Flush in flight *)
      unfold op_enabled, no_flusher in H. destruct (c_fl c) eqn:F; [|discriminate].
      destruct (mstep M (c_st c, c_d c) op) as [sd out] eqn:Ms. inversion H; subst. unfold cinv. cbn [c_fl c_st c_d].
      unfold cinv in I. rewrite F in I.
      pose proof (inv_step M wfx save_stable del_stable default_stable (c_st c, c_d c) op (op_wf_all op) I) as J.
      rewrite Ms in J. destruct sd. exact J.
    - unfold begin_enabled, no_flusher in H. destruct (c_fl c) as [|[g p] l] eqn:F.
      + cbn [fl_get] in H.
        destruct (pend_empty (c_st c)) eqn:PE; inversion H; subst; [exact I|].
        unfold cinv. cbn. unfold cinv in I. rewrite F in I. destruct I as [S [D _]]. cbn [fst snd] in *. auto.
      + destruct (fl_get f ((g, p) :: l)); discriminate.
    - unfold cinv in I. destruct (c_fl c) as [|[g [snap|]] [|y r]] eqn:F; try contradiction; cbn [fl_get] in H; try discriminate.
      + destruct (Nat.eqb f g) eqn:Efg; [|discriminate]. destruct I as [S [D [Sn PE]]].
        destruct ok; inversion H; subst; unfold cinv; cbn [c_fl c_st c_d fl_set fl_del filter fst]; rewrite Efg; cbn [negb].
        * split; [exact S|reflexivity].
        * split; [exact S|split; [exact D|]]. cbn [fst]. intros Q. congruence.
      + destruct (Nat.eqb f g); discriminate.
    - unfold cinv in I. destruct (c_fl c) as [|[g [snap|]] [|y r]] eqn:F; try contradiction; cbn [fl_get] in H; try discriminate.
      + destruct (Nat.eqb f g); discriminate.
      + destruct (Nat.eqb f g) eqn:Efg; [|discriminate]. destruct I as [S D]. cbn [clear_enabled] in H.
        inversion H; subst. unfold cinv. cbn [c_fl c_st c_d fl_del filter fst]. rewrite Efg. cbn [negb].
        split; [exact S|split]; cbn [fst snd cleared m_tab].
        * intros l Hl. rewrite D in Hl. inversion Hl. subst. exact S.
        * intros _. rewrite D. apply (load_some M). exact S.
    - inversion H; subst. unfold cinv. cbn [c_fl c_st c_d].
      pose proof (cinv_disk_stable c I) as D.
      split; [|split]; cbn [fst snd restart m_tab].
      + apply (load_stable M default_stable). exact D.
      + exact D.
      + reflexivity.
  Qed.

  Lemma crun_inv es : forall c c', cinv c -> crun M VWhole c es = Some c' -> cinv c'.
  Proof.
    induction es as [|e es IH]; intros c c' I H; cbn in H; [inversion H; subst; exact I|].
    destruct (cstep M VWhole c e) as [[c1 o]|] eqn:S; [|discriminate].
    apply (IH c1); [|exact H]. apply (cstep_inv c e c1 o I S).
  Qed.

  (* ---- durability under every interleaving ---- *)
  Theorem conc_durable es c : crun M VWhole (cstart M) es = Some c -> durable M c.
  Proof. intros H. apply cinv_durable. apply (crun_inv es (cstart M) c cinv_start H). Qed.

  (* while a Flush is in flight no API call gets in *)
  Theorem whole_excludes c o : no_flusher c = false -> cstep M VWhole c (EOp o) = None.
  Proof. intros H. cbn. unfold op_enabled. rewrite H. reflexivity. Qed.

  Lemma step_begin c f : c_fl c = [] -> pend_empty (c_st c) = false ->
    cstep M VWhole c (EBegin f) =
    Some ({| c_st := c_st c; c_d := c_d c; c_fl := [(f, FBegun (m_tab (c_st c)))] |}, None).
  Proof. intros F P. cbn [cstep]. unfold begin_enabled, no_flusher. rewrite F, P. reflexivity. Qed.
  Lemma step_begin_clean c f : c_fl c = [] -> pend_empty (c_st c) = true -> cstep M VWhole c (EBegin f) = Some (c, None).
  Proof. intros F P. cbn [cstep]. unfold begin_enabled, no_flusher. rewrite F, P. reflexivity. Qed.
  Lemma step_begin_busy c f p l : c_fl c = p :: l -> cstep M VWhole c (EBegin f) = None.
  Proof.
    intros F. cbn [cstep]. unfold begin_enabled, no_flusher. rewrite F.
    destruct (fl_get f (p :: l)); reflexivity.
  Qed.
  Lemma step_write c f snap : c_fl c = [(f, FBegun snap)] ->
    cstep M VWhole c (EWrite f true) =
    Some ({| c_st := c_st c; c_d := Some snap; c_fl := [(f, FWritten)] |}, None).
  Proof.
    intros F. cbn [cstep]. rewrite F. cbn [fl_get]. rewrite PeanoNat.Nat.eqb_refl.
    unfold fl_set, fl_del. cbn [filter fst]. rewrite PeanoNat.Nat.eqb_refl. reflexivity.
  Qed.
  Lemma step_write_fail c f snap : c_fl c = [(f, FBegun snap)] ->
    cstep M VWhole c (EWrite f false) = Some ({| c_st := c_st c; c_d := c_d c; c_fl := [] |}, None).
  Proof.
    intros F. cbn [cstep]. rewrite F. cbn [fl_get]. rewrite PeanoNat.Nat.eqb_refl.
    unfold fl_del. cbn [filter fst]. rewrite PeanoNat.Nat.eqb_refl. reflexivity.
  Qed.
  Lemma step_clear c f : c_fl c = [(f, FWritten)] ->
    cstep M VWhole c (EClear f) = Some ({| c_st := cleared (c_st c); c_d := c_d c; c_fl := [] |}, None).
  Proof.
    intros F. cbn [cstep]. rewrite F. cbn [fl_get]. rewrite PeanoNat.Nat.eqb_refl.
    unfold clear_enabled, fl_del. cbn [filter fst]. rewrite PeanoNat.Nat.eqb_refl. reflexivity.
  Qed.

  (* a Flush that runs to completion from a quiescent state: the file is the table, nothing pending,
     and the table is what it was; a crash + restart afterwards gives back exactly that table *)
  Theorem conc_flush_exact es c f c' :
    crun M VWhole (cstart M) es = Some c -> no_flusher c = true ->
    (crun M VWhole c [EBegin f; EWrite f true; EClear f] = Some c' \/ crun M VWhole c [EOp MFlush] = Some c') ->
    m_tab (c_st c') = m_tab (c_st c) /\ pend_empty (c_st c') = true /\ load M (c_d c') = m_tab (c_st c') /\
    forall c'', crun M VWhole c' [ECrash] = Some c'' -> m_tab (c_st c'') = m_tab (c_st c).
  Proof.
    intros R Q H.
    assert (cinv c') as I'.
    { pose proof (crun_inv es (cstart M) c cinv_start R) as Ic.
      destruct H as [H|H]; (eapply crun_inv; [exact Ic|exact H]). }
    assert (m_tab (c_st c') = m_tab (c_st c) /\ pend_empty (c_st c') = true) as [T P].
    { unfold no_flusher in Q. destruct (c_fl c) eqn:F; [|discriminate]. destruct H as [H|H].
      - cbn [crun] in H. destruct (pend_empty (c_st c)) eqn:PE.
        + rewrite (step_begin_clean c f F PE) in H. cbn [cstep] in H. rewrite F in H. cbn in H. discriminate.
        + rewrite (step_begin c f F PE) in H.
          rewrite (step_write {| c_st := c_st c; c_d := c_d c; c_fl := [(f, FBegun (m_tab (c_st c)))] |} f (m_tab (c_st c)) eq_refl) in H.
          cbn [c_st c_d] in H.
          rewrite (step_clear {| c_st := c_st c; c_d := Some (m_tab (c_st c)); c_fl := [(f, FWritten)] |} f eq_refl) in H.
          inversion H; subst. cbn. auto.
      - cbn [crun cstep] in H. unfold op_enabled, no_flusher in H. rewrite F in H. cbn [mstep] in H.
        unfold do_flush in H. destruct (pend_empty (c_st c)) eqn:PE; inversion H; subst; cbn; auto. }
    split; [exact T|split; [exact P|split]].
    - apply (cinv_durable c' I'). exact P.
    - intros c'' Hc. cbn in Hc. inversion Hc; subst. cbn. rewrite <- T. apply (cinv_durable c' I'). exact P.
  Qed.

  (* ---- the oracle of the schedule replay accepts the model ---- *)
  Definition rinv (r : rstate (E := E) (X := X)) : Prop :=
    cinv (r_c r) /\ (c_fl (r_c r) = [] \/ exists snap, c_fl (r_c r) = [(O, FBegun snap)]).

  Lemma judge_model c o : cinv c -> c_fl c = [] ->
    judge M c o (Some (snd (mstep M (c_st c, c_d c) o))) = true.
  Proof.
    intros I F. unfold judge. apply (ok_step_model M eqb_refl). unfold cinv in I. rewrite F in I. exact I.
  Qed.

  Lemma eop_whole c o : c_fl c = [] ->
    cstep M VWhole c (EOp o) =
    Some ({| c_st := fst (fst (mstep M (c_st c, c_d c) o)); c_d := snd (fst (mstep M (c_st c, c_d c) o)); c_fl := [] |},
          Some (snd (mstep M (c_st c, c_d c) o))).
  Proof.
    intros F. cbn [cstep]. unfold op_enabled, no_flusher. rewrite F.
    destruct (mstep M (c_st c, c_d c) o) as [sd out]. reflexivity.
  Qed.

  Lemma eop_whole_busy c o p l : c_fl c = p :: l -> cstep M VWhole c (EOp o) = None.
  Proof. intros F. cbn [cstep]. unfold op_enabled, no_flusher. rewrite F. reflexivity. Qed.

  (* after write (or failure) and clear the Flush of thread 0 is over *)
  Lemma release_done c snap ok :
    cinv c -> c_fl c = [(O, FBegun snap)] ->
    let c1 := match cstep M VWhole c (EWrite O ok) with Some (c', _) => c' | None => c end in
    let c2 := match cstep M VWhole c1 (EClear O) with Some (c', _) => c' | None => c1 end in
    cinv c2 /\ c_fl c2 = [].
  Proof.
    intros I F c1 c2. subst c2 c1. destruct ok.
    - pose proof (step_write c O snap F) as S1. rewrite S1.
      pose proof (step_clear {| c_st := c_st c; c_d := Some snap; c_fl := [(O, FWritten)] |} O eq_refl) as S2.
      rewrite S2. split; [|reflexivity].
      apply (cstep_inv _ _ _ _ (cstep_inv _ _ _ _ I S1) S2).
    - pose proof (step_write_fail c O snap F) as S1. rewrite S1.
      assert (cstep M VWhole {| c_st := c_st c; c_d := c_d c; c_fl := [] |} (EClear O) = None) as S2 by reflexivity.
      rewrite S2. split; [|reflexivity]. apply (cstep_inv _ _ _ _ I S1).
  Qed.

  Lemma sstep_ok r e : rinv r -> sok_step M VWhole r e (snd (sstep M VWhole r e)) = true /\ rinv (fst (sstep M VWhole r e)).
  Proof.
    intros [I Fl]. destruct e as [o|ok|o|].
    - (* SOp *)
      destruct Fl as [F|[snap F]].
      + unfold sstep, sok_step. rewrite (eop_whole _ o F). cbn [fst snd r_c].
        unfold op_enabled, no_flusher. rewrite F. split; [apply judge_model; assumption|].
        split; [|left; reflexivity]. cbn [r_c].
        apply (cstep_inv (r_c r) (EOp o) _ _ I (eop_whole _ o F)).
      + unfold sstep, sok_step. rewrite (eop_whole_busy _ o _ _ F). cbn [fst snd].
        unfold op_enabled, no_flusher. rewrite F. split; [reflexivity|]. split; [exact I|right; exists snap; exact F].
    - (* SStart *)
      unfold sstep, sok_step. destruct Fl as [F|[snap F]].
      + destruct (pend_empty (c_st (r_c r))) eqn:PE.
        * rewrite (step_begin_clean _ O F PE). cbn [fst snd]. split; [reflexivity|]. split; [exact I|left; exact F].
        * pose proof (step_begin _ O F PE) as S. rewrite S. cbn [fst snd]. split; [reflexivity|].
          split; cbn [r_c]; [apply (cstep_inv _ _ _ _ I S)|right; eexists; reflexivity].
      + rewrite (step_begin_busy _ O _ _ F). cbn [fst snd]. split; [reflexivity|].
        split; [exact I|right; exists snap; exact F].
    - (* SDuring *)
      destruct Fl as [F|[snap F]].
      + unfold sstep, sok_step. rewrite (eop_whole _ o F). cbn [fst snd r_c].
        unfold op_enabled, no_flusher. rewrite F. split; [apply judge_model; assumption|].
        split; [|left; reflexivity]. cbn [r_c].
        apply (cstep_inv (r_c r) (EOp o) _ _ I (eop_whole _ o F)).
      + unfold sstep, sok_step. rewrite (eop_whole_busy _ o _ _ F).
        unfold op_enabled, no_flusher. rewrite F.
        destruct (r_def r); cbn [fst snd]; (split; [reflexivity|]); split; cbn [r_c]; try exact I; right; exists snap; exact F.
    - (* SRelease *)
      destruct Fl as [F|[snap F]].
      + unfold sstep, sok_step, in_flight, no_flusher. rewrite F. cbn [negb fst snd].
        split; [reflexivity|]. split; [exact I|left; exact F].
      + destruct (release_done (r_c r) snap (r_ok r) I F) as [I2 F2].
        unfold sstep, sok_step, in_flight, no_flusher. rewrite F. cbn [negb].
        set (c1 := match cstep M VWhole (r_c r) (EWrite O (r_ok r)) with Some (c', _) => c' | None => r_c r end) in *.
        set (c2 := match cstep M VWhole c1 (EClear O) with Some (c', _) => c' | None => c1 end) in *.
        destruct (r_def r) as [o|].
        * rewrite (eop_whole c2 o F2). cbn [fst snd r_c].
          split; [apply judge_model; assumption|].
          split; [|left; reflexivity]. cbn [r_c]. apply (cstep_inv c2 (EOp o) _ _ I2 (eop_whole c2 o F2)).
        * cbn [fst snd]. split; [reflexivity|]. split; [exact I2|left; exact F2].
  Qed.

  Theorem conc_model_passes es : forall r, rinv r -> sok M VWhole r es (snd (srun M VWhole r es)) = true.
  Proof.
    induction es as [|e es IH]; intros r I; [reflexivity|].
    cbn [srun]. destruct (sstep M VWhole r e) as [r1 o] eqn:S.
    destruct (srun M VWhole r1 es) as [r2 os] eqn:R. cbn [snd sok].
    destruct (sstep_ok r e I) as [A B]. rewrite S in A, B. cbn [fst snd] in A, B.
    rewrite A. cbn [andb]. rewrite S. cbn [fst]. specialize (IH r1 B). rewrite R in IH. exact IH.
  Qed.

  Lemma rinv_start : rinv (rstart M).
  Proof. split; [exact cinv_start|left; reflexivity]. Qed.
End ConcProofs.

(* ================= instances ================= *)
Definition uwf (x : user * bool) : bool := true.
Definition rwf (r : route) : bool := canon_stable (r_pat r).

Theorem users_conc_durable es c : crun user_ops VWhole (cstart user_ops) es = Some c -> durable user_ops c.
Proof.
  apply (conc_durable user_ops uwf (fun _ => eq_refl) user_save_stable user_del_stable user_default_stable).
Qed.

Theorem routes_conc_durable url_ok es c :
  crun (route_ops url_ok) VWhole (cstart (route_ops url_ok)) es = Some c -> durable (route_ops url_ok) c.
Proof.
  apply (conc_durable (route_ops url_ok) rwf (fun r => canon_stable_all (r_pat r))
           (route_save_stable url_ok) (route_del_stable url_ok) (route_default_stable url_ok)).
Qed.

Theorem users_conc_flush_exact es c f c' :
  crun user_ops VWhole (cstart user_ops) es = Some c -> no_flusher c = true ->
  (crun user_ops VWhole c [EBegin f; EWrite f true; EClear f] = Some c' \/ crun user_ops VWhole c [EOp MFlush] = Some c') ->
  m_tab (c_st c') = m_tab (c_st c) /\ pend_empty (c_st c') = true /\ load user_ops (c_d c') = m_tab (c_st c') /\
  forall c'', crun user_ops VWhole c' [ECrash] = Some c'' -> m_tab (c_st c'') = m_tab (c_st c).
Proof.
  apply (conc_flush_exact user_ops uwf (fun _ => eq_refl) user_save_stable user_del_stable user_default_stable).
Qed.

Theorem routes_conc_flush_exact url_ok es c f c' :
  let R := route_ops url_ok in
  crun R VWhole (cstart R) es = Some c -> no_flusher c = true ->
  (crun R VWhole c [EBegin f; EWrite f true; EClear f] = Some c' \/ crun R VWhole c [EOp MFlush] = Some c') ->
  m_tab (c_st c') = m_tab (c_st c) /\ pend_empty (c_st c') = true /\ load R (c_d c') = m_tab (c_st c') /\
  forall c'', crun R VWhole c' [ECrash] = Some c'' -> m_tab (c_st c'') = m_tab (c_st c).
Proof.
  apply (conc_flush_exact (route_ops url_ok) rwf (fun r => canon_stable_all (r_pat r))
           (route_save_stable url_ok) (route_del_stable url_ok) (route_default_stable url_ok)).
Qed.

Theorem users_conc_model_passes es :
  sok user_ops VWhole (rstart user_ops) es (snd (srun user_ops VWhole (rstart user_ops) es)) = true.
Proof.
  apply (conc_model_passes user_ops uwf (fun _ => eq_refl) user_save_stable user_del_stable user_default_stable user_eqb_refl).
  apply rinv_start. exact user_default_stable.
Qed.

Theorem routes_conc_model_passes url_ok es :
  let R := route_ops url_ok in sok R VWhole (rstart R) es (snd (srun R VWhole (rstart R) es)) = true.
Proof.
  apply (conc_model_passes (route_ops url_ok) rwf (fun r => canon_stable_all (r_pat r))
           (route_save_stable url_ok) (route_del_stable url_ok) (route_default_stable url_ok) route_eqb_refl).
  apply rinv_start. exact (route_default_stable url_ok).
Qed.

(* ================= the other lock disciplines, refuted by computed schedules ================= *)
Definition mk_user (n : bytes) : user := {| u_name := n; u_pw := [49]; u_admin := false; u_push := []; u_pull := [] |}.
Definition alice := mk_user [97;108;105;99;101].
Definition bob := mk_user [98;111;98].

Definition lost_edit (V : variant) (es : list (ev (user * bool))) : Prop :=
  exists c, crun user_ops V (cstart user_ops) es = Some c /\
    no_flusher c = true /\ pend_empty (c_st c) = true /\ durableb user_ops c = false /\
    (* every later Flush writes nothing, and a restart does not have the edit *)
    exists c', crun user_ops V c [EOp MFlush; ECrash] = Some c' /\
               tab_eqb user_ops (m_tab (c_st c')) (m_tab (c_st c)) = false.

(* the read lock is dropped before the write lock is taken: Save(bob) gets in between, lands in the table
   after the file content was produced, and its dirty record is cleared *)
Theorem narrow_lock_refuted :
  lost_edit VNarrow [EOp (MSave (alice, true)); EBegin 0; EWrite 0 true; EOp (MSave (bob, true)); EClear 0].
Proof. eexists. split; [vm_compute; reflexivity|]. repeat split; try (vm_compute; reflexivity).
       eexists. split; vm_compute; reflexivity. Qed.

(* ... while under the code's discipline that schedule is not an interleaving at all: Save waits *)
Theorem narrow_schedule_excluded_by_whole :
  crun user_ops VWhole (cstart user_ops)
       [EOp (MSave (alice, true)); EBegin 0; EWrite 0 true; EOp (MSave (bob, true)); EClear 0] = None.
Proof. vm_compute. reflexivity. Qed.

(* dirty lists cleared before the write: a failed write forgets what it should retry *)
Theorem clear_first_refuted :
  lost_edit VClearFirst [EOp (MSave (alice, true)); EBegin 0; EWrite 0 false].
Proof. eexists. split; [vm_compute; reflexivity|]. repeat split; try (vm_compute; reflexivity).
       eexists. split; vm_compute; reflexivity. Qed.

(* no lock around the Flush *)
Theorem no_lock_refuted :
  lost_edit VNoLock [EOp (MSave (alice, true)); EBegin 0; EWrite 0 true; EOp (MSave (bob, true)); EClear 0].
Proof. eexists. split; [vm_compute; reflexivity|]. repeat split; try (vm_compute; reflexivity).
       eexists. split; vm_compute; reflexivity. Qed.

(* non-vacuity: an interleaving with a split Flush, a failed one, a crash and API calls in between exists
   under the code's discipline and ends durable with the edits in the table *)
Example conc_nonvacuous :
  exists c, crun user_ops VWhole (cstart user_ops)
      [EOp (MSave (alice, true)); EBegin 0; EWrite 0 false; EOp (MSave (bob, true));
       EBegin 1; EWrite 1 true; EClear 1; ECrash; EOp MAll] = Some c /\
    length (m_tab (c_st c)) = 3%nat /\ durableb user_ops c = true.
Proof. eexists. split; [vm_compute; reflexivity|]. split; vm_compute; reflexivity. Qed.
