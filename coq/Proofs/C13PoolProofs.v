(* C13, pooled staging buffers: ownership invariant over all interleavings, all pool behaviours and
   any number of goroutines; consequences for the messages; refutations for the programs that break
   the discipline; the oracle accepts the model; link to Writers.v. *)
From Coq Require Import ZArith List Bool Arith Lia.
From V Require Import Bytes BytesLemmas Writers WritersProofs C13Pool.
Import ListNotations.
Open Scope nat_scope.

(* ---------- small facts ---------- *)
Lemma upd_same {A} (f : nat -> A) k x : upd f k x k = x.
Proof. unfold upd. rewrite Nat.eqb_refl. reflexivity. Qed.
Lemma upd_other {A} (f : nat -> A) k x k' : k' <> k -> upd f k x k' = f k'.
Proof. intros N. unfold upd. apply Nat.eqb_neq in N. rewrite N. reflexivity. Qed.

Lemma has_var_in v l : has_var v l = true <-> In v l.
Proof.
  unfold has_var. rewrite existsb_exists. split.
  - intros (x & Hx & E). apply Nat.eqb_eq in E. subst. exact Hx.
  - intros H. exists v. split; [exact H | apply Nat.eqb_refl].
Qed.
Lemma has_var_not v l : has_var v l = false <-> ~ In v l.
Proof. rewrite <- has_var_in. destruct (has_var v l); split; intros; congruence. Qed.

Lemma in_drop_var v b v' h : In (v, b) (drop_var v' h) <-> In (v, b) h /\ v <> v'.
Proof.
  unfold drop_var. rewrite filter_In. simpl. rewrite negb_true_iff, Nat.eqb_neq. tauto.
Qed.
Lemma map_fst_drop_var v h : map fst (drop_var v h) = drop_v v (map fst h).
Proof.
  unfold drop_var, drop_v. induction h as [|[x b] r IH]; simpl; [reflexivity|].
  destruct (Nat.eqb x v); simpl; rewrite IH; reflexivity.
Qed.
Lemma NoDup_filter {A} (f : A -> bool) l : NoDup l -> NoDup (filter f l).
Proof.
  induction 1 as [|x l N _ IH]; simpl; [constructor|].
  destruct (f x); [constructor; [rewrite filter_In; tauto | exact IH] | exact IH].
Qed.
Lemma held_key_in v b (h : list (pvar * bid)) : In (v, b) h -> In v (map fst h).
Proof. intros H. apply (in_map fst) in H. exact H. Qed.

Lemma in_remove_nth {A} (x : A) i l : In x (remove_nth i l) -> In x l.
Proof.
  revert i. induction l as [|y r IH]; intros i H; simpl in *; [destruct i; exact H|].
  destruct i; [right; exact H|]. destruct H as [H|H]; [left; exact H | right; eapply IH; exact H].
Qed.
Lemma NoDup_remove_nth {A} i (l : list A) : NoDup l -> NoDup (remove_nth i l).
Proof.
  intros N. revert i. induction N as [|y r Hy N IH]; intros i; simpl; [destruct i; constructor|].
  destruct i; [exact N|]. constructor; [|apply IH]. intros H. apply Hy. eapply in_remove_nth. exact H.
Qed.
Lemma nth_error_not_in_remove {A} i (l : list A) b :
  NoDup l -> nth_error l i = Some b -> ~ In b (remove_nth i l).
Proof.
  intros N. revert i. induction N as [|y r Hy N IH]; intros i E; [destruct i; discriminate|].
  destruct i; simpl in *.
  - inversion E; subst. exact Hy.
  - intros [H|H].
    + subst y. apply Hy. eapply nth_error_In. exact E.
    + eapply IH; eassumption.
Qed.

Lemma sent_by_snoc k t l k' t' m :
  sent_by k t (l ++ [(k', t', m)]) = sent_by k t l ++ (if Nat.eqb k' k && Nat.eqb t' t then [m] else []).
Proof.
  unfold sent_by. rewrite filter_app, map_app. simpl.
  destruct (Nat.eqb k' k && Nat.eqb t' t); reflexivity.
Qed.

(* ---------- the invariant ---------- *)
Definition holds (s : pstate) (t : nat) (v : pvar) (b : bid) : Prop := In (v, b) (p_held (ps_thr s t)).

Record PInv (progs : list (list instr)) (s : pstate) : Prop := {
  pi_disc : forall t, disc (map fst (p_held (ps_thr s t))) (p_prog (ps_thr s t)) = true;
  pi_keys : forall t, NoDup (map fst (p_held (ps_thr s t)));
  pi_env : forall t v b, holds s t v b -> p_env (ps_thr s t) v = Some b;
  pi_pool : NoDup (ps_pool s);
  pi_free : forall t v b, holds s t v b -> ~ In b (ps_pool s);
  pi_excl : forall t1 v1 t2 v2 b, holds s t1 v1 b -> holds s t2 v2 b -> t1 = t2 /\ v1 = v2;
  pi_lt_pool : forall b, In b (ps_pool s) -> b < ps_next s;
  pi_lt_held : forall t v b, holds s t v b -> b < ps_next s;
  pi_mem : forall t v b, holds s t v b -> ps_mem s b = p_want (ps_thr s t) v;
  pi_out : ps_out s = ps_int s;
  pi_msgs : forall t k,
      sent_by k t (ps_int s) ++ prog_msgs k (p_want (ps_thr s t)) (p_prog (ps_thr s t)) =
      intended k (nth t progs [])
}.

Lemma pinv_init progs : disciplined progs = true -> PInv progs (pinit progs).
Proof.
  intros D. constructor; unfold holds; simpl; try (intros; contradiction); try constructor; try reflexivity.
  - intros t. unfold disciplined in D. rewrite forallb_forall in D.
    destruct (Nat.lt_ge_cases t (length progs)) as [L|G].
    + apply D. apply nth_In. exact L.
    + rewrite nth_overflow by exact G. reflexivity.
Qed.

Ltac thr t' t :=
  unfold set_thr, upd in *; simpl in *;
  let E := fresh "E" in
  destruct (Nat.eqb t' t) eqn:E; [apply Nat.eqb_eq in E; subst t' | apply Nat.eqb_neq in E]; simpl in *.

Lemma get_props progs s ch b pool' next' :
  PInv progs s ->
  match nth_error (ps_pool s) ch with
  | Some b => (b, remove_nth ch (ps_pool s), ps_next s)
  | None => (ps_next s, ps_pool s, S (ps_next s))
  end = (b, pool', next') ->
  NoDup pool' /\ ~ In b pool' /\ (forall x, In x pool' -> In x (ps_pool s)) /\
  (forall t v, ~ holds s t v b) /\ ps_next s <= next' /\ b < next'.
Proof.
  intros I E. destruct (nth_error (ps_pool s) ch) as [b1|] eqn:EN; inversion E; subst; clear E.
  - assert (In b (ps_pool s)) as Hb by (eapply nth_error_In; exact EN).
    repeat split.
    + apply NoDup_remove_nth. apply (pi_pool _ _ I).
    + apply nth_error_not_in_remove; [apply (pi_pool _ _ I) | exact EN].
    + intros x. apply in_remove_nth.
    + intros t v H. apply (pi_free _ _ I _ _ _ H). exact Hb.
    + lia.
    + apply (pi_lt_pool _ _ I). exact Hb.
  - repeat split.
    + apply (pi_pool _ _ I).
    + intros H. apply (pi_lt_pool _ _ I) in H. lia.
    + auto.
    + intros t v H. apply (pi_lt_held _ _ I) in H. lia.
    + lia.
    + lia.
Qed.

Lemma pinv_step progs s t ch s' : PInv progs s -> pstep s t ch = Some s' -> PInv progs s'.
Proof.
  intros I H. unfold pstep in H.
  pose proof (pi_disc _ _ I t) as D.
  pose proof (pi_msgs _ _ I t) as M.
  destruct (p_prog (ps_thr s t)) as [|i rest] eqn:EP; [discriminate|].
  destruct i as [v reset|v b0|v c|v k|v]; cbn [disc] in D.
  - (* Get *)
    apply andb_prop in D as [D D3]. apply andb_prop in D as [D1 D2]. subst reset.
    apply negb_true_iff in D2. rewrite has_var_not in D2.
    destruct (match nth_error (ps_pool s) ch with
              | Some b => (b, remove_nth ch (ps_pool s), ps_next s)
              | None => (ps_next s, ps_pool s, S (ps_next s)) end) as [[b pool'] next'] eqn:EG.
    destruct (get_props _ _ _ _ _ _ I EG) as (G1 & G2 & G3 & G4 & G5 & G6).
    inversion H; subst s'; clear H.
    constructor; unfold holds in *; cbn [ps_pool ps_next ps_mem ps_thr ps_out ps_int].
    + intros t'. thr t' t; [exact D3 | apply (pi_disc _ _ I)].
    + intros t'. thr t' t; [constructor; [exact D2 | apply (pi_keys _ _ I)] | apply (pi_keys _ _ I)].
    + intros t' v' b' Hh. thr t' t; [|apply (pi_env _ _ I); exact Hh].
      destruct Hh as [Hh|Hh].
      * inversion Hh; subst. rewrite Nat.eqb_refl. reflexivity.
      * destruct (Nat.eqb v' v) eqn:Ev.
        -- apply Nat.eqb_eq in Ev. subst v'. exfalso. apply D2. eapply held_key_in. exact Hh.
        -- apply (pi_env _ _ I). exact Hh.
    + exact G1.
    + intros t' v' b' Hh Hp. thr t' t.
      * destruct Hh as [Hh|Hh]; [inversion Hh; subst; apply G2; exact Hp|].
        apply (pi_free _ _ I _ _ _ Hh). apply G3. exact Hp.
      * apply (pi_free _ _ I _ _ _ Hh). apply G3. exact Hp.
    + intros t1 v1 t2 v2 b' H1 H2.
      thr t1 t; thr t2 t.
      * destruct H1 as [H1|H1]; destruct H2 as [H2|H2].
        -- inversion H1; inversion H2; subst. auto.
        -- inversion H1; subst. exfalso. eapply G4. exact H2.
        -- inversion H2; subst. exfalso. eapply G4. exact H1.
        -- apply (pi_excl _ _ I _ _ _ _ _ H1 H2).
      * destruct H1 as [H1|H1]; [inversion H1; subst; exfalso; eapply G4; exact H2|].
        apply (pi_excl _ _ I _ _ _ _ _ H1 H2).
      * destruct H2 as [H2|H2]; [inversion H2; subst; exfalso; eapply G4; exact H1|].
        apply (pi_excl _ _ I _ _ _ _ _ H1 H2).
      * apply (pi_excl _ _ I _ _ _ _ _ H1 H2).
    + intros b' Hb. apply G3 in Hb. apply (pi_lt_pool _ _ I) in Hb. lia.
    + intros t' v' b' Hh. thr t' t.
      * destruct Hh as [Hh|Hh]; [inversion Hh; subst; exact G6|]. apply (pi_lt_held _ _ I) in Hh. lia.
      * apply (pi_lt_held _ _ I) in Hh. lia.
    + intros t' v' b' Hh. thr t' t.
      * destruct Hh as [Hh|Hh].
        -- inversion Hh; subst. rewrite !Nat.eqb_refl. reflexivity.
        -- assert (b' <> b) as Nb by (intros ->; eapply G4; exact Hh).
           assert (v' <> v) as Nv by (intros ->; apply D2; eapply held_key_in; exact Hh).
           apply Nat.eqb_neq in Nb, Nv. rewrite Nb, Nv. apply (pi_mem _ _ I _ _ _ Hh).
      * assert (b' <> b) as Nb by (intros ->; eapply G4; exact Hh).
        apply Nat.eqb_neq in Nb. rewrite Nb. apply (pi_mem _ _ I _ _ _ Hh).
    + apply (pi_out _ _ I).
    + intros t' k. thr t' t; [|apply (pi_msgs _ _ I)].
      rewrite <- (M k). reflexivity.
  - (* Alias: not disciplined *) discriminate.
  - (* Write *)
    apply andb_prop in D as [D1 D2]. rewrite has_var_in in D1.
    apply in_map_iff in D1 as ([v0 b] & Ev & Hvb). simpl in Ev. subst v0.
    pose proof (pi_env _ _ I _ _ _ Hvb) as Eenv. rewrite Eenv in H.
    inversion H; subst s'; clear H.
    constructor; unfold holds in *; cbn [ps_pool ps_next ps_mem ps_thr ps_out ps_int].
    + intros t'. thr t' t; [exact D2 | apply (pi_disc _ _ I)].
    + intros t'. thr t' t; apply (pi_keys _ _ I).
    + intros t' v' b' Hh. thr t' t; apply (pi_env _ _ I); exact Hh.
    + apply (pi_pool _ _ I).
    + intros t' v' b' Hh. thr t' t; apply (pi_free _ _ I _ _ _ Hh).
    + intros t1 v1 t2 v2 b' H1 H2. thr t1 t; thr t2 t; apply (pi_excl _ _ I _ _ _ _ _ H1 H2).
    + apply (pi_lt_pool _ _ I).
    + intros t' v' b' Hh. thr t' t; apply (pi_lt_held _ _ I _ _ _ Hh).
    + intros t' v' b' Hh. thr t' t.
      * destruct (Nat.eqb v' v) eqn:Ev.
        -- apply Nat.eqb_eq in Ev. subst v'.
           rewrite (pi_env _ _ I _ _ _ Hh) in Eenv. inversion Eenv; subst b'.
           rewrite Nat.eqb_refl. rewrite (pi_mem _ _ I _ _ _ Hvb). reflexivity.
        -- assert (b' <> b) as Nb.
           { intros ->. destruct (pi_excl _ _ I _ _ _ _ _ Hh Hvb) as [_ Ev']. subst. rewrite Nat.eqb_refl in Ev. discriminate. }
           apply Nat.eqb_neq in Nb. rewrite Nb. apply (pi_mem _ _ I _ _ _ Hh).
      * assert (b' <> b) as Nb.
        { intros ->. destruct (pi_excl _ _ I _ _ _ _ _ Hh Hvb) as [Et _]. contradiction. }
        apply Nat.eqb_neq in Nb. rewrite Nb. apply (pi_mem _ _ I _ _ _ Hh).
    + apply (pi_out _ _ I).
    + intros t' k. thr t' t; [|apply (pi_msgs _ _ I)].
      rewrite <- (M k). reflexivity.
  - (* Send *)
    apply andb_prop in D as [D1 D2]. rewrite has_var_in in D1.
    apply in_map_iff in D1 as ([v0 b] & Ev & Hvb). simpl in Ev. subst v0.
    pose proof (pi_env _ _ I _ _ _ Hvb) as Eenv. rewrite Eenv in H.
    inversion H; subst s'; clear H.
    constructor; unfold holds in *; cbn [ps_pool ps_next ps_mem ps_thr ps_out ps_int].
    + intros t'. thr t' t; [exact D2 | apply (pi_disc _ _ I)].
    + intros t'. thr t' t; apply (pi_keys _ _ I).
    + intros t' v' b' Hh. thr t' t; apply (pi_env _ _ I); exact Hh.
    + apply (pi_pool _ _ I).
    + intros t' v' b' Hh. thr t' t; apply (pi_free _ _ I _ _ _ Hh).
    + intros t1 v1 t2 v2 b' H1 H2. thr t1 t; thr t2 t; apply (pi_excl _ _ I _ _ _ _ _ H1 H2).
    + apply (pi_lt_pool _ _ I).
    + intros t' v' b' Hh. thr t' t; apply (pi_lt_held _ _ I _ _ _ Hh).
    + intros t' v' b' Hh. thr t' t; apply (pi_mem _ _ I _ _ _ Hh).
    + rewrite (pi_out _ _ I), (pi_mem _ _ I _ _ _ Hvb). reflexivity.
    + intros t' k'. rewrite sent_by_snoc. thr t' t.
      * rewrite <- (M k'). cbn [prog_msgs]. rewrite Nat.eqb_refl, andb_true_r.
        rewrite <- app_assoc. reflexivity.
      * assert (Nat.eqb t t' = false) as Nt by (apply Nat.eqb_neq; auto).
        rewrite Nt, andb_false_r, app_nil_r. apply (pi_msgs _ _ I).
  - (* Put *)
    apply andb_prop in D as [D1 D2]. rewrite has_var_in in D1.
    apply in_map_iff in D1 as ([v0 b] & Ev & Hvb). simpl in Ev. subst v0.
    pose proof (pi_env _ _ I _ _ _ Hvb) as Eenv. rewrite Eenv in H.
    inversion H; subst s'; clear H.
    assert (forall v' b', In (v', b') (drop_var v (p_held (ps_thr s t))) -> b' <> b) as Gone.
    { intros v' b' Hh ->. apply in_drop_var in Hh as [Hh Nv].
      destruct (pi_excl _ _ I _ _ _ _ _ Hh Hvb) as [_ Ev']. contradiction. }
    constructor; unfold holds in *; cbn [ps_pool ps_next ps_mem ps_thr ps_out ps_int].
    + intros t'. thr t' t; [rewrite map_fst_drop_var; exact D2 | apply (pi_disc _ _ I)].
    + intros t'. thr t' t; [|apply (pi_keys _ _ I)].
      rewrite map_fst_drop_var. apply NoDup_filter. apply (pi_keys _ _ I).
    + intros t' v' b' Hh. thr t' t; [apply in_drop_var in Hh as [Hh _]|]; apply (pi_env _ _ I); exact Hh.
    + constructor; [apply (pi_free _ _ I _ _ _ Hvb) | apply (pi_pool _ _ I)].
    + intros t' v' b' Hh [Hp|Hp]; thr t' t.
      * subst b'. eapply Gone; [exact Hh | reflexivity].
      * subst b'. destruct (pi_excl _ _ I _ _ _ _ _ Hh Hvb) as [Et _]. contradiction.
      * apply in_drop_var in Hh as [Hh _]. apply (pi_free _ _ I _ _ _ Hh Hp).
      * apply (pi_free _ _ I _ _ _ Hh Hp).
    + intros t1 v1 t2 v2 b' H1 H2.
      thr t1 t; thr t2 t; try (apply in_drop_var in H1 as [H1 _]); try (apply in_drop_var in H2 as [H2 _]);
        apply (pi_excl _ _ I _ _ _ _ _ H1 H2).
    + intros b' [Hb|Hb]; [subst b'; apply (pi_lt_held _ _ I _ _ _ Hvb) | apply (pi_lt_pool _ _ I _ Hb)].
    + intros t' v' b' Hh. thr t' t; [apply in_drop_var in Hh as [Hh _]|]; apply (pi_lt_held _ _ I _ _ _ Hh).
    + intros t' v' b' Hh. thr t' t; [apply in_drop_var in Hh as [Hh _]|]; apply (pi_mem _ _ I _ _ _ Hh).
    + apply (pi_out _ _ I).
    + intros t' k. thr t' t; [|apply (pi_msgs _ _ I)].
      rewrite <- (M k). reflexivity.
Qed.

Lemma pinv_run progs sched : forall s, PInv progs s -> PInv progs (prun sched s).
Proof.
  induction sched as [|[t ch] r IH]; intros s I; simpl; [exact I|].
  apply IH. destruct (pstep s t ch) eqn:E; [eapply pinv_step; eassumption | exact I].
Qed.

Lemma pinv_reach progs sched : disciplined progs = true -> PInv progs (prun sched (pinit progs)).
Proof. intros D. apply pinv_run. apply pinv_init. exact D. Qed.

(* ---------- theorems ---------- *)

(* ownership: at every point of every execution the pool has no identity twice, nothing that a
   goroutine holds is in the pool, and no identity is held by two goroutines (or in two variables) *)
Theorem pool_ownership progs sched :
  disciplined progs = true ->
  let s := prun sched (pinit progs) in
  NoDup (ps_pool s) /\
  (forall t v b, holds s t v b -> ~ In b (ps_pool s)) /\
  (forall t1 v1 t2 v2 b, holds s t1 v1 b -> holds s t2 v2 b -> t1 = t2 /\ v1 = v2).
Proof.
  intros D s. pose proof (pinv_reach progs sched D) as I. fold s in I.
  split; [apply (pi_pool _ _ I)|]. split; [apply (pi_free _ _ I) | apply (pi_excl _ _ I)].
Qed.

(* while a goroutine holds a buffer its content is exactly what that goroutine composed *)
Theorem pool_content_private progs sched :
  disciplined progs = true ->
  let s := prun sched (pinit progs) in
  forall t v b, holds s t v b -> ps_mem s b = p_want (ps_thr s t) v.
Proof. intros D s. apply (pi_mem _ _ (pinv_reach progs sched D)). Qed.

(* every WebSocket message sent is, byte for byte, the message its sender composed *)
Theorem pool_messages_exact progs sched :
  disciplined progs = true -> ps_out (prun sched (pinit progs)) = ps_int (prun sched (pinit progs)).
Proof. intros D. apply (pi_out _ _ (pinv_reach progs sched D)). Qed.

(* per connection and sender: the messages sent so far are a prefix of the messages the program
   text says it sends (whole messages, in the sender's order) ... *)
Theorem pool_sender_order progs sched :
  disciplined progs = true ->
  let s := prun sched (pinit progs) in
  forall t k, exists rest, sent_by k t (ps_out s) ++ rest = intended k (nth t progs []).
Proof.
  intros D s t k. pose proof (pinv_reach progs sched D) as I. fold s in I.
  rewrite (pi_out _ _ I). eexists. apply (pi_msgs _ _ I).
Qed.

(* ... and all of them once the goroutine is done *)
Theorem pool_sender_complete progs sched :
  disciplined progs = true ->
  let s := prun sched (pinit progs) in
  forall t k, p_prog (ps_thr s t) = [] -> sent_by k t (ps_out s) = intended k (nth t progs []).
Proof.
  intros D s t k F. pose proof (pinv_reach progs sched D) as I. fold s in I.
  rewrite (pi_out _ _ I). rewrite <- (pi_msgs _ _ I t k), F. simpl. rewrite app_nil_r. reflexivity.
Qed.

(* ---------- only goroutines with a program ever send ---------- *)
Lemma idle_step s t ch s' n :
  (forall t', n <= t' -> p_prog (ps_thr s t') = []) -> pstep s t ch = Some s' ->
  (forall t', n <= t' -> p_prog (ps_thr s' t') = []) /\
  (forall e, In e (ps_out s') -> In e (ps_out s) \/ snd (fst e) < n).
Proof.
  intros Idle H. unfold pstep in H.
  destruct (p_prog (ps_thr s t)) as [|i rest] eqn:EP; [discriminate|].
  assert (t < n) as Lt.
  { destruct (Nat.lt_ge_cases t n) as [L|G]; [exact L|]. rewrite (Idle _ G) in EP. discriminate. }
  assert (forall th t', n <= t' -> p_prog (set_thr s t th t') = []) as K.
  { intros th t' G. unfold set_thr. rewrite upd_other by lia. apply Idle. exact G. }
  destruct i as [v reset|v b0|v c|v k|v].
  - destruct (match nth_error (ps_pool s) ch with
              | Some b => (b, remove_nth ch (ps_pool s), ps_next s)
              | None => (ps_next s, ps_pool s, S (ps_next s)) end) as [[b pool'] next'].
    inversion H; subst; simpl. split; [intros; apply K; assumption | auto].
  - inversion H; subst; simpl. split; [intros; apply K; assumption | auto].
  - destruct (p_env (ps_thr s t) v); inversion H; subst; simpl; (split; [intros; apply K; assumption | auto]).
  - inversion H; subst; simpl. split; [intros; apply K; assumption|].
    intros e He. apply in_app_or in He as [He|[He|[]]]; [left; exact He | right; subst e; exact Lt].
  - destruct (p_env (ps_thr s t) v); inversion H; subst; simpl; (split; [intros; apply K; assumption | auto]).
Qed.

Lemma senders_bounded progs sched :
  forall e, In e (ps_out (prun sched (pinit progs))) -> snd (fst e) < length progs.
Proof.
  assert (forall sched s n, (forall t', n <= t' -> p_prog (ps_thr s t') = []) ->
            (forall e, In e (ps_out s) -> snd (fst e) < n) ->
            forall e, In e (ps_out (prun sched s)) -> snd (fst e) < n) as G.
  { induction sched0 as [|[t ch] r IH]; intros s n Idle B e He; simpl in He; [apply B; exact He|].
    destruct (pstep s t ch) as [s1|] eqn:E.
    - destruct (idle_step _ _ _ _ _ Idle E) as [Idle1 O1].
      eapply (IH s1 n Idle1); [|exact He]. intros e1 H1. destruct (O1 _ H1) as [H2|H2]; [apply B; exact H2 | exact H2].
    - eapply (IH s n Idle B). exact He. }
  apply G.
  - intros t' L. simpl. apply nth_overflow. exact L.
  - simpl. intros e [].
Qed.

(* ---------- the oracle accepts every order-preserving interleaving of whole messages ---------- *)
Lemma set_nth_length {A} i (x : A) l : length (set_nth i x l) = length l.
Proof. revert i. induction l as [|y r IH]; intros [|j]; simpl; auto. Qed.
Lemma nth_set_nth {A} i j (x d : A) l : i < length l ->
  nth j (set_nth i x l) d = if Nat.eqb j i then x else nth j l d.
Proof.
  revert i j. induction l as [|y r IH]; intros i j L; simpl in L; [lia|].
  destruct i, j; simpl; auto. apply IH. lia.
Qed.

Definition proj (t : nat) (l : list (nat * bytes)) : list bytes :=
  map snd (filter (fun e => Nat.eqb (fst e) t) l).

Lemma ok_inter_tagged : forall (l : list (nat * bytes)) (ls : list (list bytes)),
  (forall e, In e l -> fst e < length ls) ->
  (forall t, t < length ls -> proj t l = nth t ls []) ->
  ok_inter ls (map snd l) = true.
Proof.
  induction l as [|[t m] r IH]; intros ls B P; simpl.
  - rewrite forallb_forall. intros x Hx. apply (In_nth _ _ []) in Hx as (i & Li & Ei).
    specialize (P i Li). unfold proj in P. simpl in P. rewrite <- P in Ei. subst x. reflexivity.
  - assert (t < length ls) as Lt by (apply (B (t, m)); left; reflexivity).
    rewrite existsb_exists. exists t. split; [apply in_seq; lia|].
    pose proof (P t Lt) as Pt. unfold proj in Pt. simpl in Pt. rewrite Nat.eqb_refl in Pt. simpl in Pt.
    rewrite <- Pt. rewrite bytes_eqb_refl. simpl.
    apply IH.
    + intros e He. rewrite set_nth_length. apply B. right. exact He.
    + intros t' Lt'. rewrite set_nth_length in Lt'. rewrite nth_set_nth by exact Lt.
      destruct (Nat.eqb t' t) eqn:Et.
      * apply Nat.eqb_eq in Et. subst t'. reflexivity.
      * specialize (P t' Lt'). unfold proj in P. simpl in P.
        assert (Nat.eqb t t' = false) as Et' by (rewrite Nat.eqb_sym; exact Et).
        rewrite Et' in P. exact P.
Qed.

Lemma proj_on_conn k t l : proj t (on_conn k l) = sent_by k t l.
Proof.
  unfold proj, on_conn, sent_by. induction l as [|[[k' t'] m] r IH]; simpl; [reflexivity|].
  destruct (Nat.eqb k' k); simpl; [|exact IH].
  destruct (Nat.eqb t' t); simpl; rewrite IH; reflexivity.
Qed.

Lemma nodupb_NoDup l : NoDup l -> nodupb l = true.
Proof.
  induction 1 as [|x l N _ IH]; simpl; [reflexivity|]. rewrite IH, andb_true_r.
  apply negb_true_iff. destruct (existsb (Nat.eqb x) l) eqn:E; [|reflexivity].
  apply existsb_exists in E as (y & Hy & Ey). apply Nat.eqb_eq in Ey. subst y. contradiction.
Qed.

Lemma pfinished_spec n s : pfinished n s = true -> forall t, t < n -> p_prog (ps_thr s t) = [].
Proof.
  unfold pfinished. rewrite forallb_forall. intros F t L.
  specialize (F t). destruct (p_prog (ps_thr s t)); [reflexivity|].
  assert (In t (seq 0 n)) as Hin by (apply in_seq; lia). apply F in Hin. discriminate.
Qed.

(* the oracle applied to the implementation accepts the model: for every disciplined set of
   goroutines, every schedule and every behaviour of the pool *)
Theorem pool_model_passes progs sched conns :
  disciplined progs = true ->
  let s := prun sched (pinit progs) in
  pfinished (length progs) s = true ->
  ok_pool progs (pobserve conns s) (ps_pool s) = true.
Proof.
  intros D s F. unfold ok_pool. apply andb_true_intro. split.
  - rewrite forallb_forall. intros [k msgs] He. unfold pobserve in He.
    apply in_map_iff in He as (k0 & E & _). inversion E; subst k0 msgs. simpl.
    apply ok_inter_tagged.
    + intros e He. rewrite map_length. unfold on_conn in He.
      apply in_map_iff in He as (e0 & E0 & H0). apply filter_In in H0 as [H0 _]. subst e. simpl.
      apply (senders_bounded progs sched). exact H0.
    + intros t Lt. rewrite map_length in Lt. rewrite proj_on_conn.
      rewrite (nth_indep _ [] (intended k [])) by (rewrite map_length; exact Lt).
      rewrite (map_nth (intended k)). change (intended k []) with (@nil bytes).
      apply (pool_sender_complete progs sched D). apply (pfinished_spec _ _ F). exact Lt.
  - apply nodupb_NoDup. apply (pool_ownership progs sched D).
Qed.

(* ---------- link to Writers.v: two goroutines on one connection ---------- *)
Definition as_msgs (l : list bytes) : list msg := map (fun m => [m]) l.
Definition tagb (l : list (nat * bytes)) : list (bool * msg) :=
  map (fun e => (negb (Nat.eqb (fst e) 0), [snd e])) l.

Lemma merge_of_tagged : forall l : list (nat * bytes),
  (forall e, In e l -> fst e < 2) ->
  merge (tag false (as_msgs (proj 0 l))) (tag true (as_msgs (proj 1 l))) (tagb l).
Proof.
  induction l as [|[t m] r IH]; intros B; [constructor|].
  assert (t < 2) as Lt by (apply (B (t, m)); left; reflexivity).
  assert (forall e, In e r -> fst e < 2) as B' by (intros e He; apply B; right; exact He).
  destruct t as [|[|t]]; [| |lia]; unfold proj, tagb; simpl.
  - apply merge_l. apply IH. exact B'.
  - apply merge_r. apply IH. exact B'.
Qed.

Lemma all_bytes_tagb l : all_bytes_of (tagb l) = concat (map snd l).
Proof.
  unfold all_bytes_of, tagb. rewrite map_map. f_equal. apply map_ext. intros e. simpl.
  unfold msg_bytes. simpl. apply app_nil_r.
Qed.

Lemma msg_bytes_as_msgs l : map msg_bytes (as_msgs l) = l.
Proof.
  unfold as_msgs. rewrite map_map. rewrite <- (map_id l) at 2. apply map_ext. intros m.
  unfold msg_bytes. simpl. apply app_nil_r.
Qed.

(* media goroutine pa and request goroutine pb of one ws-rtsp session, connection k: the messages are
   an order-preserving merge (Writers.merge) of the frames and the responses, and the bytes of the
   TCP stream under the WebSocket pass the byte-level oracle ok_sink of the TCP half *)
Theorem pool_two_writers pa pb sched k :
  disciplined [pa; pb] = true ->
  let s := prun sched (pinit [pa; pb]) in
  pfinished 2 s = true ->
  merge (tag false (as_msgs (intended k pa))) (tag true (as_msgs (intended k pb))) (tagb (on_conn k (ps_out s))) /\
  ok_sink (length (intended k pa) + length (intended k pb)) (intended k pa) (intended k pb)
          (concat (map snd (on_conn k (ps_out s)))) = true.
Proof.
  intros D s F.
  assert (forall e, In e (on_conn k (ps_out s)) -> fst e < 2) as B.
  { intros e He. unfold on_conn in He. apply in_map_iff in He as (e0 & E0 & H0).
    apply filter_In in H0 as [H0 _]. subst e. simpl. apply (senders_bounded [pa; pb] sched). exact H0. }
  pose proof (merge_of_tagged _ B) as M.
  rewrite !proj_on_conn in M.
  pose proof (pool_sender_complete [pa; pb] sched D 0 k) as C0.
  pose proof (pool_sender_complete [pa; pb] sched D 1 k) as C1. cbv zeta in C0, C1. fold s in C0, C1.
  rewrite C0 in M by (apply (pfinished_spec _ _ F); lia).
  rewrite C1 in M by (apply (pfinished_spec _ _ F); lia).
  cbn [nth] in M. split; [exact M|].
  rewrite <- all_bytes_tagb.
  rewrite <- (msg_bytes_as_msgs (intended k pa)) at 2. rewrite <- (msg_bytes_as_msgs (intended k pb)) at 2.
  apply ok_sink_merge; [exact M|]. unfold as_msgs. rewrite !map_length. lia.
Qed.

(* ---------- refutations: the programs that break the discipline ---------- *)
Definition frame_pfx : bytes := [36; 0; 0; 2]%Z.
Definition frame_pay : bytes := [7; 8]%Z.
Definition resp_txt : bytes := [82; 84; 83; 80]%Z.

(* goroutine 0: an earlier session, one request answered, the buffer put back after the response
   AND by the deferred Put; 1: media goroutine (data connection 1); 2: request goroutine (control
   connection 0).  The media goroutine is pre-empted between prefix and payload. *)
Definition double_put_progs : list (list instr) :=
  [ [IGet 0 true; IWrite 0 resp_txt; ISend 0 0; IPut 0; IPut 0];
    [IGet 0 true; IWrite 0 frame_pfx; IWrite 0 frame_pay; ISend 0 1; IPut 0];
    [IGet 0 true; IWrite 0 resp_txt; ISend 0 0; IPut 0] ].
Definition double_put_sched : list (nat * nat) :=
  [(0,0);(0,0);(0,0);(0,0);(0,0); (1,0);(1,0); (2,0);(2,0);(2,0);(2,0); (1,0);(1,0);(1,0)].

Example double_put_refuted :
  disciplined double_put_progs = false /\
  let mid := prun (firstn 8 double_put_sched) (pinit double_put_progs) in
  let s := prun double_put_sched (pinit double_put_progs) in
  (* after the earlier session the identity 0 is in the pool twice ... *)
  ps_pool (prun (firstn 5 double_put_sched) (pinit double_put_progs)) = [0; 0] /\
  (* ... two goroutines hold it at the same time ... *)
  p_held (ps_thr mid 1) = [(0, 0)] /\ p_held (ps_thr mid 2) = [(0, 0)] /\
  (* ... and the data channel carries response text spliced with the frame's payload *)
  pfinished 3 s = true /\
  map snd (on_conn 1 (ps_out s)) = [resp_txt ++ frame_pay] /\
  intended 1 (nth 1 double_put_progs []) = [frame_pfx ++ frame_pay] /\
  ok_pool double_put_progs (pobserve [0; 1] s) (ps_pool s) = false.
Proof. vm_compute. repeat split; reflexivity. Qed.

(* the double put is visible in the pool even under a schedule that corrupts no message *)
Example double_put_probe_refuted :
  let sched := [(0,0);(0,0);(0,0);(0,0);(0,0); (1,0);(1,0);(1,0);(1,0);(1,0); (2,0);(2,0);(2,0);(2,0)] in
  let s := prun sched (pinit double_put_progs) in
  pfinished 3 s = true /\ ps_out s = ps_int s /\ nodupb (ps_pool s) = false.
Proof. vm_compute. repeat split; reflexivity. Qed.

(* Put before the WebSocket write has completed *)
Definition use_after_put_progs : list (list instr) :=
  [ [IGet 0 true; IWrite 0 frame_pfx; IWrite 0 frame_pay; IPut 0; ISend 0 1];
    [IGet 0 true; IWrite 0 resp_txt; ISend 0 0; IPut 0] ].
Example use_after_put_refuted :
  let sched := [(0,0);(0,0);(0,0);(0,0); (1,0);(1,0);(1,0); (0,0); (1,0)] in
  let s := prun sched (pinit use_after_put_progs) in
  disciplined use_after_put_progs = false /\ pfinished 2 s = true /\
  map snd (on_conn 1 (ps_out s)) = [resp_txt] /\
  ok_pool use_after_put_progs (pobserve [0; 1] s) (ps_pool s) = false.
Proof. vm_compute. repeat split; reflexivity. Qed.

(* no Reset after Get: the message carries what the buffer's previous user left *)
Definition no_reset_progs : list (list instr) :=
  [ [IGet 0 true; IWrite 0 resp_txt; ISend 0 0; IPut 0];
    [IGet 0 false; IWrite 0 frame_pfx; IWrite 0 frame_pay; ISend 0 1; IPut 0] ].
Example no_reset_refuted :
  let sched := [(0,0);(0,0);(0,0);(0,0); (1,0);(1,0);(1,0);(1,0);(1,0)] in
  let s := prun sched (pinit no_reset_progs) in
  disciplined no_reset_progs = false /\ pfinished 2 s = true /\
  map snd (on_conn 1 (ps_out s)) = [resp_txt ++ frame_pfx ++ frame_pay] /\
  ok_pool no_reset_progs (pobserve [0; 1] s) (ps_pool s) = false.
Proof. vm_compute. repeat split; reflexivity. Qed.

(* one package-level buffer instead of the pool *)
Definition shared_buffer_progs : list (list instr) :=
  [ [IAlias 0 0; IWrite 0 frame_pfx; IWrite 0 frame_pay; ISend 0 1];
    [IAlias 0 0; IWrite 0 resp_txt; ISend 0 0] ].
Example shared_buffer_refuted :
  let sched := [(0,0);(0,0); (1,0);(1,0);(1,0); (0,0);(0,0)] in
  let s := prun sched (pinit shared_buffer_progs) in
  disciplined shared_buffer_progs = false /\ pfinished 2 s = true /\
  map snd (on_conn 1 (ps_out s)) = [resp_txt ++ frame_pay] /\
  ok_pool shared_buffer_progs (pobserve [0; 1] s) (ps_pool s) = false.
Proof. vm_compute. repeat split; reflexivity. Qed.

(* before the fix in /repo: a packet of a track the viewer did not set up — nothing is composed, the
   empty buffer is sent all the same: a WebSocket message that is neither a response nor a frame.
   Disciplined, so this is about the program text: the goroutine must not Send what it did not compose
   (the repaired Consume returns before the Send; its program for such a packet is Get; Put). *)
Example empty_message_refuted :
  let s := prun [(0,0);(0,0);(0,0)] (pinit [[IGet 0 true; ISend 0 1; IPut 0]]) in
  pfinished 1 s = true /\ map snd (on_conn 1 (ps_out s)) = [[]] /\
  ok_pool [[IGet 0 true; IPut 0]] (pobserve [1] s) (ps_pool s) = false.
Proof. vm_compute. repeat split; reflexivity. Qed.

(* non-vacuity: a disciplined program with a deferred Put per request, as Session.process has it *)
Definition good_progs : list (list instr) :=
  [ [IGet 0 true; IWrite 0 resp_txt; ISend 0 0; IPut 0];
    [IGet 0 true; IWrite 0 frame_pfx; IWrite 0 frame_pay; ISend 0 1; IPut 0;
     IGet 0 true; IWrite 0 frame_pfx; IWrite 0 [9; 9]%Z; ISend 0 1; IPut 0];
    [IGet 0 true; IWrite 0 resp_txt; ISend 0 0; IGet 1 true; IWrite 1 [79; 75]%Z; ISend 1 0; IPut 1; IPut 0] ].
Example good_progs_run :
  let sched := [(0,0);(0,0);(0,0);(0,0); (1,0);(1,0); (2,0);(2,0);(2,0); (1,0);(1,0);(1,0); (2,5);(2,0);(2,0);
                (1,0);(1,0);(1,0);(1,0);(1,0); (2,0);(2,0)] in
  let s := prun sched (pinit good_progs) in
  disciplined good_progs = true /\ pfinished 3 s = true /\
  map snd (on_conn 1 (ps_out s)) = [frame_pfx ++ frame_pay; frame_pfx ++ [9; 9]%Z] /\
  map snd (on_conn 0 (ps_out s)) = [resp_txt; resp_txt; [79; 75]%Z] /\
  ok_pool good_progs (pobserve [0; 1] s) (ps_pool s) = true.
Proof. vm_compute. repeat split; reflexivity. Qed.
