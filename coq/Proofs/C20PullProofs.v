(* C20: proofs about Model/C20Pull.v *)
From Coq Require Import ZArith List Bool Lia.
From V Require Import C20Pull.
Import ListNotations.
Open Scope Z_scope.

Lemma play_nonneg : forall s, 0 <= play s.
Proof. induction s as [|r s IH]; [simpl; lia|]. destruct r; cbn [play]; lia. Qed.

(* ---------- the link between the client's fields and the credential walk ---------- *)
Definition prev_nochal (p : option (meth * reply)) : Prop :=
  match p with Some (_, r) => is_challenge r = false | None => True end.
Definition Rinv (st : cst) (k : cstate) : Prop :=
  (a_realm st = true -> k_seen k = true) /\
  (a_md5 st = true -> (2 <= k_chal k)%nat) /\
  prev_nochal (k_prev k).

Lemma prev_check_nochal p q : prev_nochal p -> prev_check p q = true.
Proof. destruct p as [[m r]|]; [|reflexivity]. destruct r; simpl; intros H; try reflexivity; discriminate. Qed.

Definition last_pair (l : list (req * reply)) : option (req * reply) :=
  match rev l with p :: _ => Some p | [] => None end.

Lemma last_pair_cons p l : l <> [] -> last_pair (p :: l) = last_pair l.
Proof.
  unfold last_pair. intros H. simpl. destruct (rev l) eqn:E.
  - exfalso. apply H. apply (f_equal (@rev _)) in E. rewrite rev_involutive in E. exact E.
  - reflexivity.
Qed.

Lemma meth_eqb_refl m : meth_eqb m m = true.
Proof. destruct m; reflexivity. Qed.

(* what one attempt needs of the walk state *)
Record pre (fuel : nat) (user : bool) (m : meth) (st : cst) (a : authk) (se : bool) (k : cstate) : Prop := {
  pre_prev : prev_check (k_prev k) (mkreq m a se) = true;
  pre_seen : k_seen k || auth_none a = true;
  pre_md5a : auth_md5 a = true -> (2 <= k_chal k)%nat;
  pre_realm : a_realm st = true -> k_seen k = true;
  pre_md5s : a_md5 st = true -> (2 <= k_chal k)%nat;
  pre_fuel : (fuel <= 1)%nat -> (2 - fuel <= k_chal k)%nat;
  pre_user : user = false -> a_realm st = false /\ a = ANone
}.

Definition att_post (user : bool) (m : meth) (se : bool) (s : script) (k : cstate)
  (res : bool * cst * list req * script) : Prop :=
  let '(ok, st', q, s') := res in
  s' = skipn (length q) s /\ q <> [] /\
  Forall (fun x => q_meth x = m /\ q_sess x = se) q /\
  (user = false -> a_realm st' = false /\ Forall (fun x => auth_none (q_auth x) = true) q) /\
  exists k', cred_run k (replies s q) = Some k' /\
    (ok = true -> Rinv st' k' /\ a_sess st' = sess_after m ROk /\
                  exists x, last_pair (replies s q) = Some (x, ROk)) /\
    (ok = false -> exists x r, last_pair (replies s q) = Some (x, r) /\ is_ok r = false).

Lemma cred_step_pre fuel user m st a se k r :
  pre fuel user m st a se k ->
  cred_step k (mkreq m a se, r) =
    Some {| k_seen := k_seen k || is_challenge r; k_prev := Some (m, r);
            k_chal := if is_challenge r then S (k_chal k) else k_chal k |}.
Proof.
  intros P. unfold cred_step. cbn [fst snd q_auth q_meth mkreq].
  rewrite (pre_seen _ _ _ _ _ _ _ P), (pre_prev _ _ _ _ _ _ _ P).
  destruct (auth_md5 a) eqn:E; [|reflexivity].
  pose proof (pre_md5a _ _ _ _ _ _ _ P E) as H. apply Nat.leb_le in H. rewrite H. reflexivity.
Qed.

Lemma skipn_pop (s : script) : snd (pop s) = skipn 1 s.
Proof. destruct s; reflexivity. Qed.

Lemma skipn_S_pop n (s : script) : skipn n (snd (pop s)) = skipn (S n) s.
Proof. destruct s; [destruct n; reflexivity|reflexivity]. Qed.

Lemma skipn_S_1 {A} n (s : list A) : skipn n (skipn 1 s) = skipn (S n) s.
Proof. destruct s; [destruct n; reflexivity|reflexivity]. Qed.

Lemma attempt_spec : forall fuel user m st a se s k,
  pre fuel user m st a se k -> att_post user m se s k (attempt fuel user m st a se s).
Proof.
  induction fuel as [|f IH]; intros user m st a se s k P.
  - (* no retry left *)
    cbn [attempt]. pose proof (cred_step_pre _ _ _ _ _ _ _ (fst (pop s)) P) as Hstep.
    destruct (pop s) as [r s1] eqn:Ep. cbn [fst] in Hstep.
    assert (Hs1 : s1 = skipn 1 s) by (rewrite <- skipn_pop, Ep; reflexivity).
    assert (Hrep : replies s [mkreq m a se] = [(mkreq m a se, r)]) by (cbn [replies]; rewrite Ep; reflexivity).
    destruct (transport_fail r) eqn:Et; unfold att_post.
    + split; [exact Hs1|]. split; [discriminate|]. split; [constructor; [split; reflexivity|constructor]|].
      split. { intros Hu. destruct (pre_user _ _ _ _ _ _ _ P Hu) as [H1 H2]. split; [exact H1|]. subst a. repeat constructor. }
      rewrite Hrep. cbn [cred_run]. rewrite Hstep. eexists; split; [reflexivity|]. split; [discriminate|].
      intros _. exists (mkreq m a se), r. split; [reflexivity|]. destruct r; try discriminate; reflexivity.
    + split; [exact Hs1|]. split; [discriminate|]. split; [constructor; [split; reflexivity|constructor]|].
      split. { intros Hu. destruct (pre_user _ _ _ _ _ _ _ P Hu) as [H1 H2]. split; [exact H1|]. subst a. repeat constructor. }
      rewrite Hrep. cbn [cred_run]. rewrite Hstep. eexists; split; [reflexivity|]. split.
      * intros Hok. destruct r; try discriminate. cbn [is_challenge orb]. split; [|split].
        -- split; [|split]; cbn [k_seen k_chal k_prev set_sess a_realm a_md5].
           ++ rewrite orb_false_r. exact (pre_realm _ _ _ _ _ _ _ P).
           ++ exact (pre_md5s _ _ _ _ _ _ _ P).
           ++ reflexivity.
        -- reflexivity.
        -- eexists; reflexivity.
      * intros Hok. exists (mkreq m a se), r. split; [reflexivity|exact Hok].
  - (* a retry is possible *)
    cbn [attempt]. pose proof (cred_step_pre _ _ _ _ _ _ _ (fst (pop s)) P) as Hstep.
    destruct (pop s) as [r s1] eqn:Ep. cbn [fst] in Hstep.
    assert (Hs1 : s1 = skipn 1 s) by (rewrite <- skipn_pop, Ep; reflexivity).
    assert (Hrep : replies s [mkreq m a se] = [(mkreq m a se, r)]) by (cbn [replies]; rewrite Ep; reflexivity).
    assert (Hnone : user = false -> Forall (fun x => auth_none (q_auth x) = true) [mkreq m a se]).
    { intros Hu. destruct (pre_user _ _ _ _ _ _ _ P Hu) as [_ H2]. subst a. repeat constructor. }
    assert (Hfail : forall st', (user = false -> a_realm st' = false) -> is_ok r = false ->
                    att_post user m se s k (false, st', [mkreq m a se], s1)).
    { intros st' Hst' Hnok. unfold att_post.
      split; [exact Hs1|]. split; [discriminate|]. split; [constructor; [split; reflexivity|constructor]|].
      split. { intros Hu. split; [exact (Hst' Hu)|exact (Hnone Hu)]. }
      rewrite Hrep. cbn [cred_run]. rewrite Hstep. eexists; split; [reflexivity|]. split; [discriminate|].
      intros _. exists (mkreq m a se), r. split; [reflexivity|exact Hnok]. }
    assert (Hrealm0 : user = false -> a_realm st = false) by (intros Hu; exact (proj1 (pre_user _ _ _ _ _ _ _ P Hu))).
    destruct (transport_fail r) eqn:Et.
    { apply Hfail; [exact Hrealm0|]. destruct r; try discriminate; reflexivity. }
    destruct (is401 r) eqn:E401.
    + destruct user eqn:Eu; cbn [negb].
      2:{ apply Hfail; [intros _; cbn; exact (Hrealm0 eq_refl)|]. destruct r; try discriminate; reflexivity. }
      set (md5 := (f =? 0)%nat).
      set (st1 := set_sess st (sess_after m r)).
      set (st2 := if md5 then set_md5 st1 else st1).
      destruct (challenge st2 r md5) as [[st3 a2]|] eqn:Ec.
      2:{ apply Hfail; [discriminate|]. destruct r; try discriminate; reflexivity. }
      (* the retry *)
      assert (Hchal : is_challenge r = true) by (destruct r; try discriminate; reflexivity).
      rewrite Hchal in Hstep. rewrite orb_true_r in Hstep.
      set (k1 := {| k_seen := true; k_prev := Some (m, r); k_chal := S (k_chal k) |}) in *.
      assert (P1 : pre f true m st3 a2 se k1).
      { assert (Hmd5 : md5 = true -> (1 <= k_chal k)%nat).
        { unfold md5. intros H. apply Nat.eqb_eq in H. subst f. pose proof (pre_fuel _ _ _ _ _ _ _ P). lia. }
        assert (Ha2 : (a2 = ABasic md5 /\ r = RBasic) \/ (a2 = ADigest md5 /\ r = RDigest)).
        { destruct r; try discriminate; cbn in Ec; inversion Ec; auto. }
        assert (Hst3 : a_md5 st3 = a_md5 st2).
        { destruct r; try discriminate; cbn in Ec; inversion Ec; reflexivity. }
        constructor; cbn [k_seen k_prev k_chal k1].
        - destruct Ha2 as [[-> ->]|[-> ->]]; cbn; apply meth_eqb_refl.
        - reflexivity.
        - intros H. destruct Ha2 as [[-> _]|[-> _]]; cbn in H; specialize (Hmd5 H); lia.
        - reflexivity.
        - rewrite Hst3. unfold st2. destruct md5 eqn:Em.
          + intros _. specialize (Hmd5 eq_refl). lia.
          + unfold st1. cbn. intros H. pose proof (pre_md5s _ _ _ _ _ _ _ P H). lia.
        - intros Hf. destruct f as [|f']; [|lia]. unfold md5 in Hmd5. specialize (Hmd5 eq_refl). lia.
        - discriminate. }
      specialize (IH true m st3 a2 se s1 k1 P1).
      destruct (attempt f true m st3 a2 se s1) as [[[ok st4] qs] s2].
      unfold att_post in IH |- *.
      destruct IH as (I1 & I2 & I3 & I4 & k' & I5 & I6 & I7).
      split. { rewrite I1, Hs1. cbn [length]. apply skipn_S_1. }
      split; [discriminate|].
      split; [constructor; [split; reflexivity|exact I3]|].
      split; [discriminate|].
      exists k'. cbn [replies]. rewrite Ep. cbn [cred_run]. rewrite Hstep.
      split; [exact I5|].
      assert (Hne : replies s1 qs <> []).
      { destruct qs; [contradiction|]. cbn [replies]. destruct (pop s1). discriminate. }
      rewrite (last_pair_cons _ _ Hne). split; assumption.
    + (* not a 401: the status decides *)
      destruct (is_ok r) eqn:Eok.
      * unfold att_post.
        split; [exact Hs1|]. split; [discriminate|]. split; [constructor; [split; reflexivity|constructor]|].
        split. { intros Hu. split; [cbn; exact (Hrealm0 Hu)|exact (Hnone Hu)]. }
        rewrite Hrep. cbn [cred_run]. rewrite Hstep. eexists; split; [reflexivity|]. split; [|discriminate].
        intros _. destruct r; try discriminate. cbn [is_challenge orb]. split; [|split].
        -- split; [|split]; cbn [k_seen k_chal k_prev set_sess a_realm a_md5].
           ++ rewrite orb_false_r. exact (pre_realm _ _ _ _ _ _ _ P).
           ++ exact (pre_md5s _ _ _ _ _ _ _ P).
           ++ reflexivity.
        -- reflexivity.
        -- eexists; reflexivity.
      * apply Hfail; [intros Hu; cbn; exact (Hrealm0 Hu)|reflexivity].
Qed.

(* ---------- requestWithResponse ---------- *)
Lemma cur_auth_none st : a_realm st = false -> cur_auth st = ANone.
Proof. unfold cur_auth. intros ->. reflexivity. Qed.

Lemma rwr_spec user m st s k :
  Rinv st k -> (user = false -> a_realm st = false) ->
  att_post user m (a_sess st) s k (rwr user m st s).
Proof.
  intros (Hr & Hm & Hp) Hu. unfold rwr. apply attempt_spec. constructor.
  - apply prev_check_nochal. exact Hp.
  - destruct (a_realm st) eqn:E; [rewrite (Hr eq_refl); reflexivity|].
    rewrite (cur_auth_none _ E). apply orb_true_r.
  - unfold cur_auth. destruct (a_realm st); [|discriminate].
    destruct (a_nonce st); cbn; exact Hm.
  - exact Hr.
  - exact Hm.
  - lia.
  - intros H. split; [exact (Hu H)|apply cur_auth_none; exact (Hu H)].
Qed.

(* ---------- lists ---------- *)
Lemma replies_app q1 : forall s q2,
  replies s (q1 ++ q2) = replies s q1 ++ replies (skipn (length q1) s) q2.
Proof.
  induction q1 as [|x q1 IH]; intros s q2; [reflexivity|].
  cbn [app replies length]. destruct (pop s) as [r s'] eqn:E. cbn [app]. f_equal.
  rewrite IH. f_equal. f_equal. rewrite <- skipn_S_pop, E. reflexivity.
Qed.

Lemma cred_run_app l1 : forall k l2,
  cred_run k (l1 ++ l2) = match cred_run k l1 with Some k1 => cred_run k1 l2 | None => None end.
Proof.
  induction l1 as [|p l1 IH]; intros k l2; [reflexivity|].
  cbn [app cred_run]. destruct (cred_step k p); [apply IH|reflexivity].
Qed.

Lemma last_pair_app l1 l2 : l2 <> [] -> last_pair (l1 ++ l2) = last_pair l2.
Proof.
  intros H. unfold last_pair. rewrite rev_app_distr. destruct (rev l2) eqn:E; [|reflexivity].
  exfalso. apply H. apply (f_equal (@rev _)) in E. rewrite rev_involutive in E. exact E.
Qed.

Lemma replies_length s : forall q, length (replies q s) = length s.
Proof. induction s as [|x s IH]; intros q; [reflexivity|]. cbn [replies]. destruct (pop q). cbn. f_equal. apply IH. Qed.

Lemma replies_nonempty s q : q <> [] -> replies s q <> [].
Proof. destruct q; [contradiction|]. cbn [replies]. destruct (pop s). discriminate. Qed.

Lemma skipn_add {A} n m (l : list A) : skipn m (skipn n l) = skipn (n + m) l.
Proof.
  revert l. induction n as [|n IH]; intros l; [reflexivity|].
  destruct l; [destruct m; reflexivity|]. cbn [skipn Nat.add]. apply IH.
Qed.

(* ---------- method order ---------- *)
Definition rk := meth_rank.
Fixpoint sortedP (ms : list meth) : Prop :=
  match ms with
  | [] => True
  | m :: ms' => Forall (fun y => (rk m <= rk y)%nat) ms' /\ sortedP ms'
  end.

Lemma nondec_const m : forall l, Forall (fun x => x = m) l -> nondecreasing l = true.
Proof.
  induction l as [|a l IH]; intros H; [reflexivity|].
  inversion H as [|? ? Ha Hl]; subst. destruct l as [|b l']; [reflexivity|].
  cbn [nondecreasing]. inversion Hl; subst. rewrite Nat.leb_refl. apply IH. exact Hl.
Qed.

Lemma nondec_app m : forall l1 l2,
  Forall (fun x => x = m) l1 -> nondecreasing l2 = true ->
  Forall (fun y => (rk m <= rk y)%nat) l2 -> nondecreasing (l1 ++ l2) = true.
Proof.
  induction l1 as [|a l1 IH]; intros l2 H1 H2 H3; [exact H2|].
  inversion H1 as [|? ? Ha Hl]; subst.
  specialize (IH l2 Hl H2 H3).
  destruct l1 as [|a' l1'].
  - cbn [app]. destruct l2 as [|b t]; [reflexivity|].
    cbn [nondecreasing]. inversion H3; subst.
    replace (meth_rank m <=? meth_rank b)%nat with true by (symmetry; apply Nat.leb_le; assumption).
    exact H2.
  - inversion Hl; subst. cbn [app nondecreasing]. rewrite Nat.leb_refl. exact IH.
Qed.

Lemma count_meth_app m l1 l2 : count_meth m (l1 ++ l2) = (count_meth m l1 + count_meth m l2)%nat.
Proof. unfold count_meth. rewrite filter_app, app_length. reflexivity. Qed.

Lemma count_meth_const m' m l : Forall (fun x => x = m) l -> l <> [] ->
  (count_meth m' [m] <= count_meth m' l)%nat.
Proof.
  intros H Hne. destruct l as [|a l]; [contradiction|]. inversion H; subst.
  unfold count_meth. cbn [filter]. destruct (meth_eqb m' m); cbn [length]; lia.
Qed.

(* ---------- Open's request sequence ---------- *)
Definition plan_post (user : bool) (ms : list meth) (s : script) (k : cstate)
  (res : bool * cst * list req * script) : Prop :=
  let '(ok, st', q, s') := res in
  s' = skipn (length q) s /\
  match ms, q with m :: _, x :: _ => q_meth x = m | [], [] => True | _, _ => False end /\
  nondecreasing (map q_meth q) = true /\
  (forall lo, Forall (fun y => (lo <= rk y)%nat) ms -> Forall (fun x => (lo <= rk (q_meth x))%nat) q) /\
  (user = false -> Forall (fun x => auth_none (q_auth x) = true) q) /\
  exists k', cred_run k (replies s q) = Some k' /\
    (ok = true -> Rinv st' k' /\ (user = false -> a_realm st' = false) /\
       (forall m', (count_meth m' ms <= count_meth m' (map q_meth q))%nat) /\
       (ms <> [] -> a_sess st' = sess_after (last ms MOptions) ROk /\
                    exists x, last_pair (replies s q) = Some (x, ROk) /\ q_meth x = last ms MOptions)) /\
    (ok = false -> exists x r, last_pair (replies s q) = Some (x, r) /\ is_ok r = false).

Lemma run_plan_spec user : forall ms st s k,
  sortedP ms -> Rinv st k -> (user = false -> a_realm st = false) ->
  plan_post user ms s k (run_plan user ms st s).
Proof.
  induction ms as [|m ms IH]; intros st s k Hs HR Hu.
  - cbn [run_plan]. unfold plan_post. repeat split; try reflexivity; try constructor.
    exists k. split; [reflexivity|]. split; [|discriminate].
    intros _. split; [exact HR|]. split; [exact Hu|]. split; [intros; apply Nat.le_refl|]. intros H; contradiction.
  - cbn [run_plan]. pose proof (rwr_spec user m st s k HR Hu) as R.
    destruct (rwr user m st s) as [[[ok st1] q] s1]. unfold att_post in R.
    destruct R as (R1 & R2 & R3 & R4 & k1 & R5 & R6 & R7).
    assert (Hq : Forall (fun x => x = m) (map q_meth q)).
    { clear -R3. induction R3 as [|x l [Hx _] _ IHl]; cbn; constructor; auto. }
    destruct q as [|x0 q0]; [contradiction|].
    assert (Hx0 : q_meth x0 = m) by (inversion R3 as [|? ? [H _] _]; exact H).
    destruct ok.
    + destruct (R6 eq_refl) as (HR1 & Hsess & xl & Hlast). clear R7.
      destruct Hs as [Hge Hs'].
      assert (Hu1 : user = false -> a_realm st1 = false) by (intros H; exact (proj1 (R4 H))).
      destruct ms as [|m2 ms2].
      { (* the last request of the plan *)
        cbn [run_plan]. unfold plan_post. rewrite app_nil_r.
        split; [exact R1|]. split; [exact Hx0|].
        split; [apply (nondec_const m); exact Hq|].
        split. { intros lo Hlo. inversion Hlo as [|? ? Hm Hrest]; subst.
                 clear -R3 Hm. induction R3 as [|x l [Hx _] _ IHl]; constructor; [rewrite Hx; exact Hm|exact IHl]. }
        split; [intros H; exact (proj2 (R4 H))|].
        exists k1. split; [exact R5|]. split; [|discriminate]. intros _.
        split; [exact HR1|]. split; [exact Hu1|]. split.
        - intros m'. apply (count_meth_const m' m _ Hq). discriminate.
        - intros _. cbn [last]. split; [exact Hsess|]. exists xl. split; [exact Hlast|].
          pose proof Hlast as HL. unfold last_pair in HL.
          destruct (rev (replies s (x0 :: q0))) as [|p t] eqn:E; [discriminate|]. inversion HL; subst p.
          assert (Hin : In (xl, ROk) (replies s (x0 :: q0))) by (apply in_rev; rewrite E; left; reflexivity).
          clear -Hin R3. revert s Hin. induction R3 as [|y l [Hy _] _ IHl]; intros s Hin; [contradiction|].
          cbn [replies] in Hin. destruct (pop s). destruct Hin as [Hin|Hin]; [inversion Hin; subst; exact Hy|].
          exact (IHl _ Hin). }
      specialize (IH st1 s1 k1 Hs' HR1 Hu1).
      destruct (run_plan user (m2 :: ms2) st1 s1) as [[[ok2 st2] q2] s2]. unfold plan_post in IH |- *.
      destruct IH as (I1 & I2 & I3 & I4 & I5 & k2 & I6 & I7 & I8).
      split. { rewrite I1, R1, app_length. apply skipn_add. }
      split; [exact Hx0|].
      split. { rewrite map_app. apply (nondec_app m); [exact Hq|exact I3|].
               specialize (I4 (rk m) Hge). clear -I4. induction I4; cbn; constructor; auto. }
      split. { intros lo Hlo. inversion Hlo as [|? ? Hm Hrest]; subst. apply Forall_app. split.
               - clear -R3 Hm. induction R3 as [|x l [Hx _] _ IHl]; constructor; [rewrite Hx; exact Hm|exact IHl].
               - exact (I4 lo Hrest). }
      split. { intros H. apply Forall_app. split; [exact (proj2 (R4 H))|exact (I5 H)]. }
      assert (Hq2 : q2 <> []) by (destruct q2; [contradiction|discriminate]).
      exists k2. rewrite replies_app, cred_run_app, R5, <- R1. split; [exact I6|]. split.
      * intros Hok. destruct (I7 Hok) as (J1 & J2 & J3 & J4). split; [exact J1|]. split; [exact J2|]. split.
        -- intros m'. rewrite map_app, count_meth_app.
           change (m :: m2 :: ms2) with ([m] ++ (m2 :: ms2)). rewrite count_meth_app.
           pose proof (count_meth_const m' m (map q_meth (x0 :: q0)) Hq ltac:(discriminate)).
           specialize (J3 m'). lia.
        -- intros _. destruct (J4 ltac:(discriminate)) as (K1 & xk & K2 & K3).
           change (last (m :: m2 :: ms2) MOptions) with (last (m2 :: ms2) MOptions).
           split; [exact K1|]. exists xk. split; [|exact K3].
           rewrite last_pair_app; [exact K2|]. apply replies_nonempty. exact Hq2.
      * intros Hok. destruct (I8 Hok) as (xx & rr & K1 & K2). exists xx, rr. split; [|exact K2].
        rewrite last_pair_app; [exact K1|]. apply replies_nonempty. exact Hq2.
    + destruct (R7 eq_refl) as (xx & rr & K1 & K2). unfold plan_post.
      split; [exact R1|]. split; [exact Hx0|].
      split; [apply (nondec_const m); exact Hq|].
      split. { intros lo Hlo. inversion Hlo as [|? ? Hm Hrest]; subst.
               clear -R3 Hm. induction R3 as [|x l [Hx _] _ IHl]; constructor; [rewrite Hx; exact Hm|exact IHl]. }
      split; [intros H; exact (proj2 (R4 H))|].
      exists k1. split; [exact R5|]. split; [discriminate|]. intros _. exists xx, rr. split; assumption.
Qed.
