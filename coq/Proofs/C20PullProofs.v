(* C20: proofs about Model/C20Pull.v *)
From Coq Require Import ZArith List Bool Lia.
From V Require Import C20Pull.
Import ListNotations.
Open Scope Z_scope.

Lemma play_nonneg : forall s, 0 <= play s.
Proof. induction s as [|r s IH]; [simpl; lia|]. destruct r; cbn [play]; lia. Qed.
