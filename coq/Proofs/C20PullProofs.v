(* C20: proofs about Model/C20Pull.v *)
From Coq Require Import ZArith List Bool Lia.
From V Require Import C20Pull.
Import ListNotations.
Open Scope Z_scope.

Lemma play_nonneg : forall s, 0 <= play s.
Proof. induction s as [|r s IH]; [simpl; lia|]. destruct r; cbn [play]; lia. Qed.

(* ---------- the link between the client's fields and the credential walk ---------- *)
Definition prev_nochal (p : option (meth * reply)) : Prop :=
  match p with Some (_, r) => is_challenge r = false | None => True end.
Definition Rinv (st : cst) (k : cstate) : Prop :=
  (a_realm st = true -> k_seen k = true) /\
  (a_md5 st = true -> (2 <= k_chal k)%nat) /\
  prev_nochal (k_prev k).

Lemma prev_check_nochal p q : prev_nochal p -> prev_check p q = true.
Proof. destruct p as [[m r]|]; [|reflexivity]. destruct r; simpl; intros H; try reflexivity; discriminate. Qed.

Definition last_pair (l : list (req * reply)) : option (req * reply) :=
  match rev l with p :: _ => Some p | [] => None end.

Lemma last_pair_cons p l : l <> [] -> last_pair (p :: l) = last_pair l.
Proof.
  unfold last_pair. intros H. simpl. destruct (rev l) eqn:E.
  - exfalso. apply H. apply (f_equal (@rev _)) in E. rewrite rev_involutive in E. exact E.
  - reflexivity.
Qed.

Lemma meth_eqb_refl m : meth_eqb m m = true.
Proof. destruct m; reflexivity. Qed.

(* what one attempt needs of the walk state *)
Record pre (fuel : nat) (user : bool) (m : meth) (st : cst) (a : authk) (se : bool) (k : cstate) : Prop := {
  pre_prev : prev_check (k_prev k) (mkreq m a se) = true;
  pre_seen : k_seen k || auth_none a = true;
  pre_md5a : auth_md5 a = true -> (2 <= k_chal k)%nat;
  pre_realm : a_realm st = true -> k_seen k = true;
  pre_md5s : a_md5 st = true -> (2 <= k_chal k)%nat;
  pre_fuel : (fuel <= 1)%nat -> (2 - fuel <= k_chal k)%nat;
  pre_user : user = false -> a_realm st = false /\ a = ANone
}.

Definition att_post (user : bool) (m : meth) (se : bool) (s : script) (k : cstate)
  (res : bool * cst * list req * script) : Prop :=
  let '(ok, st', q, s') := res in
  s' = skipn (length q) s /\ q <> [] /\
  Forall (fun x => q_meth x = m /\ q_sess x = se) q /\
  (user = false -> a_realm st' = false /\ Forall (fun x => auth_none (q_auth x) = true) q) /\
  exists k', cred_run k (replies s q) = Some k' /\
    (ok = true -> Rinv st' k' /\ a_sess st' = sess_after m ROk /\
                  exists x, last_pair (replies s q) = Some (x, ROk)) /\
    (ok = false -> exists x r, last_pair (replies s q) = Some (x, r) /\ is_ok r = false).

Lemma cred_step_pre fuel user m st a se k r :
  pre fuel user m st a se k ->
  cred_step k (mkreq m a se, r) =
    Some {| k_seen := k_seen k || is_challenge r; k_prev := Some (m, r);
            k_chal := if is_challenge r then S (k_chal k) else k_chal k |}.
Proof.
  intros P. unfold cred_step. cbn [fst snd q_auth q_meth mkreq].
  rewrite (pre_seen _ _ _ _ _ _ _ P), (pre_prev _ _ _ _ _ _ _ P).
  destruct (auth_md5 a) eqn:E; [|reflexivity].
  pose proof (pre_md5a _ _ _ _ _ _ _ P E) as H. apply Nat.leb_le in H. rewrite H. reflexivity.
Qed.

Lemma skipn_pop (s : script) : snd (pop s) = skipn 1 s.
Proof. destruct s; reflexivity. Qed.

Lemma skipn_S_pop n (s : script) : skipn n (snd (pop s)) = skipn (S n) s.
Proof. destruct s; [destruct n; reflexivity|reflexivity]. Qed.

Lemma skipn_S_1 {A} n (s : list A) : skipn n (skipn 1 s) = skipn (S n) s.
Proof. destruct s; [destruct n; reflexivity|reflexivity]. Qed.

Lemma attempt_spec : forall fuel user m st a se s k,
  pre fuel user m st a se k -> att_post user m se s k (attempt fuel user m st a se s).
Proof.
  induction fuel as [|f IH]; intros user m st a se s k P.
  - (* no retry left *)
    cbn [attempt]. pose proof (cred_step_pre _ _ _ _ _ _ _ (fst (pop s)) P) as Hstep.
    destruct (pop s) as [r s1] eqn:Ep. cbn [fst] in Hstep.
    assert (Hs1 : s1 = skipn 1 s) by (rewrite <- skipn_pop, Ep; reflexivity).
    assert (Hrep : replies s [mkreq m a se] = [(mkreq m a se, r)]) by (cbn [replies]; rewrite Ep; reflexivity).
    destruct (transport_fail r) eqn:Et; unfold att_post.
    + split; [exact Hs1|]. split; [discriminate|]. split; [constructor; [split; reflexivity|constructor]|].
      split. { intros Hu. destruct (pre_user _ _ _ _ _ _ _ P Hu) as [H1 H2]. split; [exact H1|]. subst a. repeat constructor. }
      rewrite Hrep. cbn [cred_run]. rewrite Hstep. eexists; split; [reflexivity|]. split; [discriminate|].
      intros _. exists (mkreq m a se), r. split; [reflexivity|]. destruct r; try discriminate; reflexivity.
    + split; [exact Hs1|]. split; [discriminate|]. split; [constructor; [split; reflexivity|constructor]|].
      split. { intros Hu. destruct (pre_user _ _ _ _ _ _ _ P Hu) as [H1 H2]. split; [exact H1|]. subst a. repeat constructor. }
      rewrite Hrep. cbn [cred_run]. rewrite Hstep. eexists; split; [reflexivity|]. split.
      * intros Hok. destruct r; try discriminate. cbn [is_challenge orb]. split; [|split].
        -- split; [|split]; cbn [k_seen k_chal k_prev set_sess a_realm a_md5].
           ++ rewrite orb_false_r. exact (pre_realm _ _ _ _ _ _ _ P).
           ++ exact (pre_md5s _ _ _ _ _ _ _ P).
           ++ reflexivity.
        -- reflexivity.
        -- eexists; reflexivity.
      * intros Hok. exists (mkreq m a se), r. split; [reflexivity|exact Hok].
  - (* a retry is possible *)
    cbn [attempt]. pose proof (cred_step_pre _ _ _ _ _ _ _ (fst (pop s)) P) as Hstep.
    destruct (pop s) as [r s1] eqn:Ep. cbn [fst] in Hstep.
    assert (Hs1 : s1 = skipn 1 s) by (rewrite <- skipn_pop, Ep; reflexivity).
    assert (Hrep : replies s [mkreq m a se] = [(mkreq m a se, r)]) by (cbn [replies]; rewrite Ep; reflexivity).
    assert (Hnone : user = false -> Forall (fun x => auth_none (q_auth x) = true) [mkreq m a se]).
    { intros Hu. destruct (pre_user _ _ _ _ _ _ _ P Hu) as [_ H2]. subst a. repeat constructor. }
    assert (Hfail : forall st', (user = false -> a_realm st' = false) -> is_ok r = false ->
                    att_post user m se s k (false, st', [mkreq m a se], s1)).
    { intros st' Hst' Hnok. unfold att_post.
      split; [exact Hs1|]. split; [discriminate|]. split; [constructor; [split; reflexivity|constructor]|].
      split. { intros Hu. split; [exact (Hst' Hu)|exact (Hnone Hu)]. }
      rewrite Hrep. cbn [cred_run]. rewrite Hstep. eexists; split; [reflexivity|]. split; [discriminate|].
      intros _. exists (mkreq m a se), r. split; [reflexivity|exact Hnok]. }
    assert (Hrealm0 : user = false -> a_realm st = false) by (intros Hu; exact (proj1 (pre_user _ _ _ _ _ _ _ P Hu))).
    destruct (transport_fail r) eqn:Et.
    { apply Hfail; [exact Hrealm0|]. destruct r; try discriminate; reflexivity. }
    destruct (is401 r) eqn:E401.
    + destruct user eqn:Eu; cbn [negb].
      2:{ apply Hfail; [intros _; cbn; exact (Hrealm0 eq_refl)|]. destruct r; try discriminate; reflexivity. }
      set (md5 := (f =? 0)%nat).
      set (st1 := set_sess st (sess_after m r)).
      set (st2 := if md5 then set_md5 st1 else st1).
      destruct (challenge st2 r md5) as [[st3 a2]|] eqn:Ec.
      2:{ apply Hfail; [discriminate|]. destruct r; try discriminate; reflexivity. }
      (* the retry *)
      assert (Hchal : is_challenge r = true) by (destruct r; try discriminate; reflexivity).
      rewrite Hchal in Hstep. rewrite orb_true_r in Hstep.
      set (k1 := {| k_seen := true; k_prev := Some (m, r); k_chal := S (k_chal k) |}) in *.
      assert (P1 : pre f true m st3 a2 se k1).
      { assert (Hmd5 : md5 = true -> (1 <= k_chal k)%nat).
        { unfold md5. intros H. apply Nat.eqb_eq in H. subst f. pose proof (pre_fuel _ _ _ _ _ _ _ P). lia. }
        assert (Ha2 : (a2 = ABasic md5 /\ r = RBasic) \/ (a2 = ADigest md5 /\ r = RDigest)).
        { destruct r; try discriminate; cbn in Ec; inversion Ec; auto. }
        assert (Hst3 : a_md5 st3 = a_md5 st2).
        { destruct r; try discriminate; cbn in Ec; inversion Ec; reflexivity. }
        constructor; cbn [k_seen k_prev k_chal k1].
        - destruct Ha2 as [[-> ->]|[-> ->]]; cbn; apply meth_eqb_refl.
        - reflexivity.
        - intros H. destruct Ha2 as [[-> _]|[-> _]]; cbn in H; specialize (Hmd5 H); lia.
        - reflexivity.
        - rewrite Hst3. unfold st2. destruct md5 eqn:Em.
          + intros _. specialize (Hmd5 eq_refl). lia.
          + unfold st1. cbn. intros H. pose proof (pre_md5s _ _ _ _ _ _ _ P H). lia.
        - intros Hf. destruct f as [|f']; [|lia]. unfold md5 in Hmd5. specialize (Hmd5 eq_refl). lia.
        - discriminate. }
      specialize (IH true m st3 a2 se s1 k1 P1).
      destruct (attempt f true m st3 a2 se s1) as [[[ok st4] qs] s2].
      unfold att_post in IH |- *.
      destruct IH as (I1 & I2 & I3 & I4 & k' & I5 & I6 & I7).
      split. { rewrite I1, Hs1. cbn [length]. apply skipn_S_1. }
      split; [discriminate|].
      split; [constructor; [split; reflexivity|exact I3]|].
      split; [discriminate|].
      exists k'. cbn [replies]. rewrite Ep. cbn [cred_run]. rewrite Hstep.
      split; [exact I5|].
      assert (Hne : replies s1 qs <> []).
      { destruct qs; [contradiction|]. cbn [replies]. destruct (pop s1). discriminate. }
      rewrite (last_pair_cons _ _ Hne). split; assumption.
    + (* not a 401: the status decides *)
      destruct (is_ok r) eqn:Eok.
      * unfold att_post.
        split; [exact Hs1|]. split; [discriminate|]. split; [constructor; [split; reflexivity|constructor]|].
        split. { intros Hu. split; [cbn; exact (Hrealm0 Hu)|exact (Hnone Hu)]. }
        rewrite Hrep. cbn [cred_run]. rewrite Hstep. eexists; split; [reflexivity|]. split; [|discriminate].
        intros _. destruct r; try discriminate. cbn [is_challenge orb]. split; [|split].
        -- split; [|split]; cbn [k_seen k_chal k_prev set_sess a_realm a_md5].
           ++ rewrite orb_false_r. exact (pre_realm _ _ _ _ _ _ _ P).
           ++ exact (pre_md5s _ _ _ _ _ _ _ P).
           ++ reflexivity.
        -- reflexivity.
        -- eexists; reflexivity.
      * apply Hfail; [intros Hu; cbn; exact (Hrealm0 Hu)|reflexivity].
Qed.

(* ---------- requestWithResponse ---------- *)
Lemma cur_auth_none st : a_realm st = false -> cur_auth st = ANone.
Proof. unfold cur_auth. intros ->. reflexivity. Qed.

Lemma rwr_spec user m st s k :
  Rinv st k -> (user = false -> a_realm st = false) ->
  att_post user m (a_sess st) s k (rwr user m st s).
Proof.
  intros (Hr & Hm & Hp) Hu. unfold rwr. apply attempt_spec. constructor.
  - apply prev_check_nochal. exact Hp.
  - destruct (a_realm st) eqn:E; [rewrite (Hr eq_refl); reflexivity|].
    rewrite (cur_auth_none _ E). apply orb_true_r.
  - unfold cur_auth. destruct (a_realm st); [|discriminate].
    destruct (a_nonce st); cbn; exact Hm.
  - exact Hr.
  - exact Hm.
  - lia.
  - intros H. split; [exact (Hu H)|apply cur_auth_none; exact (Hu H)].
Qed.

(* ---------- lists ---------- *)
Lemma replies_app q1 : forall s q2,
  replies s (q1 ++ q2) = replies s q1 ++ replies (skipn (length q1) s) q2.
Proof.
  induction q1 as [|x q1 IH]; intros s q2; [reflexivity|].
  cbn [app replies length]. destruct (pop s) as [r s'] eqn:E. cbn [app]. f_equal.
  rewrite IH. f_equal. f_equal. rewrite <- skipn_S_pop, E. reflexivity.
Qed.

Lemma cred_run_app l1 : forall k l2,
  cred_run k (l1 ++ l2) = match cred_run k l1 with Some k1 => cred_run k1 l2 | None => None end.
Proof.
  induction l1 as [|p l1 IH]; intros k l2; [reflexivity|].
  cbn [app cred_run]. destruct (cred_step k p); [apply IH|reflexivity].
Qed.

Lemma last_pair_app l1 l2 : l2 <> [] -> last_pair (l1 ++ l2) = last_pair l2.
Proof.
  intros H. unfold last_pair. rewrite rev_app_distr. destruct (rev l2) eqn:E; [|reflexivity].
  exfalso. apply H. apply (f_equal (@rev _)) in E. rewrite rev_involutive in E. exact E.
Qed.

Lemma replies_length s : forall q, length (replies q s) = length s.
Proof. induction s as [|x s IH]; intros q; [reflexivity|]. cbn [replies]. destruct (pop q). cbn. f_equal. apply IH. Qed.

Lemma replies_nonempty s q : q <> [] -> replies s q <> [].
Proof. destruct q; [contradiction|]. cbn [replies]. destruct (pop s). discriminate. Qed.

Lemma skipn_add {A} n m (l : list A) : skipn m (skipn n l) = skipn (n + m) l.
Proof.
  revert l. induction n as [|n IH]; intros l; [reflexivity|].
  destruct l; [destruct m; reflexivity|]. cbn [skipn Nat.add]. apply IH.
Qed.

Lemma replies_in (P : req -> Prop) : forall q s x r,
  Forall P q -> In (x, r) (replies s q) -> P x.
Proof.
  induction q as [|y q IH]; intros s x r HF Hin; [contradiction|].
  inversion HF as [|? ? Hy Hq]; subst.
  cbn [replies] in Hin. destruct (pop s) as [r0 s0]. destruct Hin as [Hin|Hin].
  - inversion Hin; subst. exact Hy.
  - exact (IH _ _ _ Hq Hin).
Qed.

(* ---------- method order ---------- *)
Definition rk := meth_rank.
Fixpoint sortedP (ms : list meth) : Prop :=
  match ms with
  | [] => True
  | m :: ms' => Forall (fun y => (rk m <= rk y)%nat) ms' /\ sortedP ms'
  end.

Lemma nondec_const m : forall l, Forall (fun x => x = m) l -> nondecreasing l = true.
Proof.
  induction l as [|a l IH]; intros H; [reflexivity|].
  inversion H as [|? ? Ha Hl]; subst. destruct l as [|b l']; [reflexivity|].
  cbn [nondecreasing]. inversion Hl; subst. rewrite Nat.leb_refl. apply IH. exact Hl.
Qed.

Lemma nondec_app m : forall l1 l2,
  Forall (fun x => x = m) l1 -> nondecreasing l2 = true ->
  Forall (fun y => (rk m <= rk y)%nat) l2 -> nondecreasing (l1 ++ l2) = true.
Proof.
  induction l1 as [|a l1 IH]; intros l2 H1 H2 H3; [exact H2|].
  inversion H1 as [|? ? Ha Hl]; subst.
  specialize (IH l2 Hl H2 H3).
  destruct l1 as [|a' l1'].
  - cbn [app]. destruct l2 as [|b t]; [reflexivity|].
    cbn [nondecreasing]. inversion H3; subst.
    replace (meth_rank m <=? meth_rank b)%nat with true by (symmetry; apply Nat.leb_le; assumption).
    exact H2.
  - inversion Hl; subst. cbn [app nondecreasing]. rewrite Nat.leb_refl. exact IH.
Qed.

Lemma count_meth_app m l1 l2 : count_meth m (l1 ++ l2) = (count_meth m l1 + count_meth m l2)%nat.
Proof. unfold count_meth. rewrite filter_app, app_length. reflexivity. Qed.

Lemma count_meth_const m' m l : Forall (fun x => x = m) l -> l <> [] ->
  (count_meth m' [m] <= count_meth m' l)%nat.
Proof.
  intros H Hne. destruct l as [|a l]; [contradiction|]. inversion H; subst.
  unfold count_meth. cbn [filter]. destruct (meth_eqb m' m); cbn [length]; lia.
Qed.

(* ---------- Open's request sequence ---------- *)
(* the Session state when the last request of the plan is built *)
Fixpoint sess_before_last (ms : list meth) (init : bool) : bool :=
  match ms with
  | [] => init
  | m :: rest => match rest with [] => init | _ => sess_before_last rest (sess_after m ROk) end
  end.

Definition plan_post (user : bool) (ms : list meth) (st : cst) (s : script) (k : cstate)
  (res : bool * cst * list req * script) : Prop :=
  let '(ok, st', q, s') := res in
  s' = skipn (length q) s /\
  match ms, q with m :: _, x :: _ => q_meth x = m | [], [] => True | _, _ => False end /\
  nondecreasing (map q_meth q) = true /\
  (forall lo, Forall (fun y => (lo <= rk y)%nat) ms -> Forall (fun x => (lo <= rk (q_meth x))%nat) q) /\
  (user = false -> Forall (fun x => auth_none (q_auth x) = true) q) /\
  exists k', cred_run k (replies s q) = Some k' /\
    (ok = true -> Rinv st' k' /\ (user = false -> a_realm st' = false) /\
       (forall m', (count_meth m' ms <= count_meth m' (map q_meth q))%nat) /\
       (ms <> [] -> a_sess st' = sess_after (last ms MOptions) ROk /\
                    exists x, last_pair (replies s q) = Some (x, ROk) /\ q_meth x = last ms MOptions /\
                              q_sess x = sess_before_last ms (a_sess st))) /\
    (ok = false -> exists x r, last_pair (replies s q) = Some (x, r) /\ is_ok r = false).

Lemma run_plan_spec user : forall ms st s k,
  sortedP ms -> Rinv st k -> (user = false -> a_realm st = false) ->
  plan_post user ms st s k (run_plan user ms st s).
Proof.
  induction ms as [|m ms IH]; intros st s k Hs HR Hu.
  - cbn [run_plan]. unfold plan_post. repeat split; try reflexivity; try constructor.
    exists k. split; [reflexivity|]. split; [|discriminate].
    intros _. split; [exact HR|]. split; [exact Hu|]. split; [intros; apply Nat.le_refl|]. intros H; contradiction.
  - cbn [run_plan]. pose proof (rwr_spec user m st s k HR Hu) as R.
    destruct (rwr user m st s) as [[[ok st1] q] s1]. unfold att_post in R.
    destruct R as (R1 & R2 & R3 & R4 & k1 & R5 & R6 & R7).
    assert (Hq : Forall (fun x => x = m) (map q_meth q)).
    { clear -R3. induction R3 as [|x l [Hx _] _ IHl]; cbn; constructor; auto. }
    destruct q as [|x0 q0]; [contradiction|].
    assert (Hx0 : q_meth x0 = m) by (inversion R3 as [|? ? [H _] _]; exact H).
    destruct ok.
    + destruct (R6 eq_refl) as (HR1 & Hsess & xl & Hlast). clear R7.
      destruct Hs as [Hge Hs'].
      assert (Hu1 : user = false -> a_realm st1 = false) by (intros H; exact (proj1 (R4 H))).
      destruct ms as [|m2 ms2].
      { (* the last request of the plan *)
        cbn [run_plan]. unfold plan_post. rewrite app_nil_r.
        split; [exact R1|]. split; [exact Hx0|].
        split; [apply (nondec_const m); exact Hq|].
        split. { intros lo Hlo. inversion Hlo as [|? ? Hm Hrest]; subst.
                 clear -R3 Hm. induction R3 as [|x l [Hx _] _ IHl]; constructor; [rewrite Hx; exact Hm|exact IHl]. }
        split; [intros H; exact (proj2 (R4 H))|].
        exists k1. split; [exact R5|]. split; [|discriminate]. intros _.
        split; [exact HR1|]. split; [exact Hu1|]. split.
        - intros m'. apply (count_meth_const m' m _ Hq). discriminate.
        - intros _. cbn [last]. split; [exact Hsess|]. exists xl. split; [exact Hlast|].
          pose proof Hlast as HL. unfold last_pair in HL.
          destruct (rev (replies s (x0 :: q0))) as [|p t] eqn:E; [discriminate|]. inversion HL; subst p.
          assert (Hin : In (xl, ROk) (replies s (x0 :: q0))) by (apply in_rev; rewrite E; left; reflexivity).
          exact (replies_in _ _ _ _ _ R3 Hin). }
      specialize (IH st1 s1 k1 Hs' HR1 Hu1).
      destruct (run_plan user (m2 :: ms2) st1 s1) as [[[ok2 st2] q2] s2]. unfold plan_post in IH |- *.
      destruct IH as (I1 & I2 & I3 & I4 & I5 & k2 & I6 & I7 & I8).
      split. { rewrite I1, R1, app_length. apply skipn_add. }
      split; [exact Hx0|].
      split. { rewrite map_app. apply (nondec_app m); [exact Hq|exact I3|].
               specialize (I4 (rk m) Hge). clear -I4. induction I4; cbn; constructor; auto. }
      split. { intros lo Hlo. inversion Hlo as [|? ? Hm Hrest]; subst. apply Forall_app. split.
               - clear -R3 Hm. induction R3 as [|x l [Hx _] _ IHl]; constructor; [rewrite Hx; exact Hm|exact IHl].
               - exact (I4 lo Hrest). }
      split. { intros H. apply Forall_app. split; [exact (proj2 (R4 H))|exact (I5 H)]. }
      assert (Hq2 : q2 <> []) by (destruct q2; [contradiction|discriminate]).
      exists k2. rewrite replies_app, cred_run_app, R5, <- R1. split; [exact I6|]. split.
      * intros Hok. destruct (I7 Hok) as (J1 & J2 & J3 & J4). split; [exact J1|]. split; [exact J2|]. split.
        -- intros m'. rewrite map_app, count_meth_app.
           change (m :: m2 :: ms2) with ([m] ++ (m2 :: ms2)). rewrite count_meth_app.
           pose proof (count_meth_const m' m (map q_meth (x0 :: q0)) Hq ltac:(discriminate)).
           specialize (J3 m'). lia.
        -- intros _. destruct (J4 ltac:(discriminate)) as (K1 & xk & K2 & K3 & K4).
           change (last (m :: m2 :: ms2) MOptions) with (last (m2 :: ms2) MOptions).
           split; [exact K1|]. exists xk. split; [|split; [exact K3|]].
           ++ rewrite last_pair_app; [exact K2|]. apply replies_nonempty. exact Hq2.
           ++ rewrite K4, Hsess. reflexivity.
      * intros Hok. destruct (I8 Hok) as (xx & rr & K1 & K2). exists xx, rr. split; [|exact K2].
        rewrite last_pair_app; [exact K1|]. apply replies_nonempty. exact Hq2.
    + destruct (R7 eq_refl) as (xx & rr & K1 & K2). unfold plan_post.
      split; [exact R1|]. split; [exact Hx0|].
      split; [apply (nondec_const m); exact Hq|].
      split. { intros lo Hlo. inversion Hlo as [|? ? Hm Hrest]; subst.
               clear -R3 Hm. induction R3 as [|x l [Hx _] _ IHl]; constructor; [rewrite Hx; exact Hm|exact IHl]. }
      split; [intros H; exact (proj2 (R4 H))|].
      exists k1. split; [exact R5|]. split; [discriminate|]. intros _. exists xx, rr. split; assumption.
Qed.

(* ---------- GetOrCreate ---------- *)
Lemma sorted_plan c : sortedP (plan c).
Proof.
  destruct c as [u v a b r]. unfold plan, setups; cbn [c_video c_audio c_sdp_bad].
  destruct v, a, b; cbn; repeat (split || constructor); cbn; lia.
Qed.

Lemma Rinv0 : Rinv cst0 k0.
Proof. split; [discriminate|]. split; [discriminate|]. exact I. Qed.

Lemma world_eqb_refl w : world_eqb w w = true.
Proof. unfold world_eqb. rewrite eqb_reflx, !Z.eqb_refl. reflexivity. Qed.

Lemma world_eqb_eq a b : world_eqb a b = true -> a = b.
Proof.
  unfold world_eqb. intros H. apply andb_prop in H as [H H4]. apply andb_prop in H as [H H3].
  apply andb_prop in H as [H1 H2]. destruct a, b; cbn in *.
  apply eqb_prop in H1. apply Z.eqb_eq in H2, H3, H4. subst. reflexivity.
Qed.

Lemma ended_started w : ended (started w) = w.
Proof. destruct w as [r c n g]. unfold ended, started; cbn. Abort.

(* [ended (started w)] restores everything but the registration flag, which becomes false *)
Lemma ended_started w : w_reg w = false -> ended (started w) = w.
Proof. destruct w as [r c n g]. cbn. intros ->. unfold ended, started; cbn. f_equal; lia. Qed.

Lemma pop_tl (s : script) : snd (pop s) = tl s.
Proof. destruct s; reflexivity. Qed.

Lemma Forall_forallb {A} (f : A -> bool) l : Forall (fun x => f x = true) l -> forallb f l = true.
Proof. induction 1; cbn; [reflexivity|]. rewrite H, IHForall. reflexivity. Qed.

Lemma order_ok_of (q : list req) :
  match q with x :: _ => q_meth x = MOptions | [] => False end ->
  nondecreasing (map q_meth q) = true -> order_ok (map q_meth q) = true.
Proof. destruct q as [|x q]; [contradiction|]. cbn [map]. intros -> H. exact H. Qed.

Lemma last_req_of_pair s q x r :
  last_pair (replies s q) = Some (x, r) -> last_req_accepted s q = meth_eqb (q_meth x) MPlay && is_ok r.
Proof.
  unfold last_pair, last_req_accepted. destruct (rev (replies s q)) as [|[x' r'] t]; [discriminate|].
  intros H. inversion H. reflexivity.
Qed.

(* the answer of one request that starts with nothing registered:
   (answer, requests, world, script left, a pull client runs) *)
Definition request_post (c : cfg) (w : world) (s : script)
  (res : outcome * list req * world * script * bool) : Prop :=
  let '(out, q, w1, s1, runs) := res in
  creds_ok (tl s) q = true /\
  (c_user c = false -> Forall (fun x => auth_none (q_auth x) = true) q) /\
  (q = [] \/ order_ok (map q_meth q) = true) /\
  match out with
  | Playing =>
      c_routed c = true /\ c_sdp_bad c = false /\ w1 = started w /\ runs = true /\
      order_ok (map q_meth q) = true /\
      last_req_accepted (tl s) q = true /\
      (forall m, (count_meth m (plan c) <= count_meth m (map q_meth q))%nat) /\
      (exists x, last_pair (replies (tl s) q) = Some (x, ROk) /\ q_meth x = MPlay /\
                 q_sess x = (c_video c || c_audio c)) /\
      s1 = skipn (length q) (tl s)
  | Failed =>
      w1 = w /\ runs = false /\ last_req_accepted (tl s) q = false
  end.

Lemma plan_facts c : c_sdp_bad c = false ->
  last (plan c) MOptions = MPlay /\ sess_before_last (plan c) false = (c_video c || c_audio c).
Proof.
  destruct c as [u v a b r]. cbn [c_sdp_bad c_video c_audio]. intros ->.
  unfold plan, setups; cbn [c_video c_audio c_sdp_bad]. destruct v, a; split; reflexivity.
Qed.

Lemma request_spec c w s : w_reg w = false -> request_post c w s (request c w s).
Proof.
  intros Hw. unfold request. rewrite Hw.
  destruct (c_routed c) eqn:Er; cbn [negb].
  2:{ unfold request_post. repeat split; auto. }
  pose proof (pop_tl s) as Htl. destruct (pop s) as [r0 s0]. cbn [snd] in Htl. subst s0.
  destruct (is_ok r0); cbn [negb].
  2:{ unfold request_post. repeat split; auto. }
  pose proof (run_plan_spec (c_user c) (plan c) cst0 (tl s) k0 (sorted_plan c) Rinv0 (fun _ => eq_refl)) as P.
  destruct (run_plan (c_user c) (plan c) cst0 (tl s)) as [[[ok st] q] s1].
  unfold plan_post in P. destruct P as (P1 & P2 & P3 & P4 & P5 & k' & P6 & P7 & P8).
  assert (Hhd : match q with x :: _ => q_meth x = MOptions | [] => False end).
  { unfold plan in P2. destruct q; [contradiction|exact P2]. }
  assert (Hord : order_ok (map q_meth q) = true) by (apply order_ok_of; assumption).
  assert (Hcreds : creds_ok (tl s) q = true) by (unfold creds_ok; rewrite P6; reflexivity).
  destruct ok; cbn [andb].
  - destruct (P7 eq_refl) as (J1 & J2 & J3 & J4).
    destruct (J4 ltac:(unfold plan; discriminate)) as (K1 & x & K2 & K3 & K4).
    destruct (c_sdp_bad c) eqn:Eb; cbn [negb].
    + (* the description is unusable: the last request was DESCRIBE *)
      unfold request_post. split; [exact Hcreds|]. split; [exact P5|]. split; [right; exact Hord|].
      split; [reflexivity|]. split; [reflexivity|].
      rewrite (last_req_of_pair _ _ _ _ K2), K3. unfold plan. rewrite Eb. reflexivity.
    + destruct (plan_facts c Eb) as [F1 F2].
      unfold request_post. split; [exact Hcreds|]. split; [exact P5|]. split; [right; exact Hord|].
      split; [exact Er|]. split; [exact Eb|]. split; [reflexivity|]. split; [reflexivity|].
      split; [exact Hord|].
      split. { rewrite (last_req_of_pair _ _ _ _ K2), K3, F1. reflexivity. }
      split; [exact J3|].
      split. { exists x. split; [exact K2|]. split; [rewrite K3; exact F1|]. rewrite K4. exact F2. }
      exact P1.
  - destruct (P8 eq_refl) as (x & r & K1 & K2).
    unfold request_post. split; [exact Hcreds|]. split; [exact P5|]. split; [right; exact Hord|].
    split; [reflexivity|]. split; [reflexivity|].
    rewrite (last_req_of_pair _ _ _ _ K1), K2. apply andb_false_r.
Qed.

(* ---------- one round, many rounds ---------- *)
Lemma request_registered c w : c_routed c = true -> w_reg w = true ->
  request c w [] = (Playing, [], w, [], false).
Proof. intros Hr Hw. unfold request. rewrite Hr, Hw. reflexivity. Qed.

Lemma count_plan c : c_sdp_bad c = false ->
  (1 <= count_meth MDescribe (plan c))%nat /\
  ((if c_video c then 1 else 0) + (if c_audio c then 1 else 0) <= count_meth MSetup (plan c))%nat.
Proof.
  destruct c as [u v a b r]. cbn [c_sdp_bad c_video c_audio]. intros ->.
  unfold plan, setups; cbn [c_video c_audio c_sdp_bad]. destruct v, a; cbn; lia.
Qed.

Lemma round_spec c w s : w_reg w = false ->
  ok_round c w s (fst (round c w s)) = true /\ snd (round c w s) = w.
Proof.
  intros Hw. unfold round. pose proof (request_spec c w s Hw) as R.
  destruct (request c w s) as [[[[out q] w1] s1] runs]. unfold request_post in R.
  destruct R as (R1 & R2 & R3 & R4). cbn [fst snd].
  assert (Hnone : c_user c || forallb (fun x => auth_none (q_auth x)) q = true).
  { destruct (c_user c); [reflexivity|]. cbn [orb]. apply Forall_forallb. apply R2. reflexivity. }
  destruct out.
  - destruct R4 as (-> & -> & R5). split; [|reflexivity].
    unfold ok_round; cbn [o_final o_closed o_reqs o_out o_mid o_delivered o_again].
    rewrite world_eqb_refl, R1, Hnone, R5. cbn [andb negb]. rewrite Z.eqb_refl.
    destruct R3 as [->|R3]; [reflexivity|]. rewrite R3. destruct q; reflexivity.
  - destruct R4 as (Hr & Hb & -> & -> & R5 & R6 & R7 & (x & R8 & R9 & R10) & ->).
    split; [|apply ended_started; exact Hw].
    unfold ok_round; cbn [o_final o_closed o_reqs o_out o_mid o_delivered o_again].
    rewrite (ended_started w Hw), world_eqb_refl, R1, Hnone, Hr, Hb, R5, R6. cbn [andb negb].
    unfold playing_world. rewrite world_eqb_refl.
    rewrite (request_registered c (started w) Hr eq_refl). rewrite world_eqb_refl. cbn [andb].
    destruct (count_plan c Hb) as [C1 C2].
    replace (1 <=? count_meth MDescribe (map q_meth q))%nat with true
      by (symmetry; apply Nat.leb_le; specialize (R7 MDescribe); lia).
    replace ((if c_video c then 1 else 0) + (if c_audio c then 1 else 0) <=? count_meth MSetup (map q_meth q))%nat
      with true by (symmetry; apply Nat.leb_le; specialize (R7 MSetup); lia).
    cbn [andb]. rewrite Z.eqb_refl, andb_true_r.
    unfold last_pair in R8. destruct (rev (replies (tl s) q)) as [|p t] eqn:E; [discriminate|].
    inversion R8; subst p.
    assert (Hrev : exists t', rev q = x :: t').
    { clear -E. revert E. generalize (tl s) as s0. intros s0 E.
      assert (H : map fst (replies s0 q) = q).
      { clear E. revert s0. induction q as [|y q IH]; intros s0; [reflexivity|].
        cbn [replies]. destruct (pop s0). cbn. f_equal. apply IH. }
      rewrite <- H, <- map_rev, E. cbn. eexists; reflexivity. }
    destruct Hrev as [t' ->]. rewrite R10. destruct (c_video c || c_audio c); reflexivity.
Qed.

Lemma rounds_spec c : forall ss,
  ok_rounds c ss (rounds c w0 ss) = true /\
  rounds c w0 ss = map (fun s => fst (round c w0 s)) ss.
Proof.
  induction ss as [|s ss [IH1 IH2]]; [split; reflexivity|].
  cbn [rounds ok_rounds map]. destruct (round_spec c w0 s eq_refl) as [H1 H2].
  destruct (round c w0 s) as [o w']. cbn [fst snd] in *. subst w'.
  rewrite H1, IH1, IH2. split; reflexivity.
Qed.

(* nothing is left behind by a round, whatever the script *)
Lemma round_no_leak c w s : w_reg w = false ->
  let o := fst (round c w s) in
  snd (round c w s) = w /\ o_final o = w /\ o_closed o = true /\
  (o_out o = Failed -> o_mid o = w /\ o_delivered o = 0) /\
  (o_out o = Playing -> o_mid o = started w /\ w_reg (o_mid o) = true /\ o_again o = true /\
                        o_delivered o = play (skipn (length (o_reqs o)) (tl s))).
Proof.
  intros Hw. unfold round. pose proof (request_spec c w s Hw) as R.
  destruct (request c w s) as [[[[out q] w1] s1] runs]. unfold request_post in R.
  destruct R as (R1 & R2 & R3 & R4). cbn [fst snd o_final o_closed o_out o_mid o_delivered o_again o_reqs].
  destruct out.
  - destruct R4 as (-> & -> & R5). repeat split; try reflexivity; intros; discriminate.
  - destruct R4 as (Hr & Hb & -> & -> & R5 & R6 & R7 & _ & ->).
    rewrite (ended_started w Hw). repeat split; try reflexivity; try (intros; discriminate).
    rewrite (request_registered c (started w) Hr eq_refl). apply world_eqb_refl.
Qed.

(* ... in particular after every prefix of a script *)
Lemma prefix_no_leak c s n : snd (round c w0 (firstn n s)) = w0.
Proof. exact (proj1 (round_no_leak c w0 (firstn n s) eq_refl)). Qed.

(* pre-repair behaviours, as small variants of the model *)
(* D33: without a read deadline a silent camera never yields an answer: modelled as the missing
   transition — [RSilence] is the only reply kind whose handling needs the deadline *)
Definition needs_deadline (r : reply) : bool := match r with RSilence => true | _ => false end.

(* ---------- n concurrent first requests: the observation model meets the demand ---------- *)
Lemma iter_started n :
  Nat.iter (S n) started w0 =
  {| w_reg := true; w_cnt := Z.of_nat (S n); w_conns := Z.of_nat (S n); w_readers := Z.of_nat (S n) |}.
Proof.
  induction n as [|n IH]; [reflexivity|].
  change (Nat.iter (S (S n)) started w0) with (started (Nat.iter (S n) started w0)). rewrite IH.
  unfold started; cbn [w_cnt w_conns w_readers]. f_equal; lia.
Qed.

Lemma iter_ended_replaced k : forall r c,
  Nat.iter k ended_replaced {| w_reg := r; w_cnt := c; w_conns := c; w_readers := c |} =
  {| w_reg := r; w_cnt := c - Z.of_nat k; w_conns := c - Z.of_nat k; w_readers := c - Z.of_nat k |}.
Proof.
  induction k as [|k IH]; intros r c.
  - cbn [Nat.iter nat_rect]. f_equal; lia.
  - change (Nat.iter (S k) ended_replaced ?w) with (ended_replaced (Nat.iter k ended_replaced w)).
    rewrite IH. unfold ended_replaced; cbn [w_reg w_cnt w_conns w_readers]. f_equal; lia.
Qed.

Lemma conc_model_ok n : (1 <= n)%nat -> ok_conc (conc_model n) = true.
Proof.
  intros Hn. destruct n as [|n]; [lia|]. unfold ok_conc, conc_model.
  cbn [co_answers co_live co_registered co_member co_world co_final].
  rewrite iter_started. replace (S n - 1)%nat with n by lia. rewrite iter_ended_replaced.
  rewrite (world_eqb_refl w0). cbn [andb Z.eqb]. unfold started, w0, world_eqb.
  cbn [w_reg w_cnt w_conns w_readers Bool.eqb].
  replace (Z.of_nat (S n) - Z.of_nat n) with 1 by lia. reflexivity.
Qed.
