(* C09 — what a successful parse / demultiplex means (general facts about the
   independent demultiplexer), continuity counters, Annex-B layout, ADTS *)
From Coq Require Import ZArith List Bool Lia ZifyBool.
From V Require Import Bytes BytesLemmas C09Adts C09TsFrame C09TsWriter C09TsDemux
  C09BitLemmas C09CodecProofs C09PacketProofs C09StreamProofs.
Import ListNotations.
Open Scope Z_scope.
Ltac Zify.zify_post_hook ::= Z.div_mod_to_equations.

(* ---- a parsed packet is structurally valid ---- *)
Definition pkt_wf (p : bytes) (k : tspkt) : Prop :=
  zlen p = 188 /\ nth_error p 0 = Some 0x47 /\
  ((k_aflen k = -1 /\ zlen (k_payload k) = 184) \/
   (0 <= k_aflen k <= 182 /\ zlen (k_payload k) = 183 - k_aflen k /\ 1 <= zlen (k_payload k))).

Lemma parse_af_wf pusi pid cc rest k : zlen rest = 184 ->
  parse_af pusi pid cc rest = Some k ->
  0 <= k_aflen k <= 182 /\ zlen (k_payload k) = 183 - k_aflen k.
Proof.
  intros Hlen. unfold parse_af. destruct rest as [| l af]; [discriminate |].
  rewrite zlen_cons in Hlen.
  destruct ((0 <=? l) && (l <=? 182)) eqn:El; cbn [negb]; [| discriminate].
  apply andb_true_iff in El. destruct El as (El0 % Z.leb_le & El1 % Z.leb_le).
  assert (Hd : zlen (drop l af) = 183 - l) by (rewrite zlen_drop by lia; lia).
  destruct (take l af) as [| fl body].
  - intros H. inversion H. cbn [k_aflen k_payload]. lia.
  - destruct (fl mod 16 =? 0); cbn [negb]; [| discriminate].
    destruct (fl / 16 mod 2 =? 1).
    + destruct (l <? 7); [discriminate |].
      destruct (pcr_ext (firstn 6 body) =? 0); cbn [negb]; [| discriminate].
      intros H. inversion H. cbn [k_aflen k_payload]. lia.
    + intros H. inversion H. cbn [k_aflen k_payload]. lia.
Qed.

Lemma parse_packet_wf p k : parse_packet p = Some k -> pkt_wf p k.
Proof.
  unfold parse_packet, pkt_wf.
  destruct (Nat.eqb (length p) N188) eqn:El; cbn [negb]; [| discriminate].
  apply Nat.eqb_eq in El.
  assert (Hlen : zlen p = 188) by (unfold zlen, N188 in *; lia).
  destruct p as [| b0 [| b1 [| b2 [| b3 rest]]]]; try discriminate.
  destruct ((b0 =? 71) && (b1 / 128 =? 0) && (b3 / 64 =? 0)) eqn:Eh; cbn [negb]; [| discriminate].
  assert (Hb0 : b0 = 71) by lia. subst b0.
  assert (Hrest : zlen rest = 184) by (rewrite !zlen_cons in Hlen; lia).
  destruct (b3 / 16 mod 4 =? 1).
  - intros H. inversion H. cbn [k_aflen k_payload]. split; [exact Hlen |]. split; [reflexivity |]. left. auto.
  - destruct (b3 / 16 mod 4 =? 3); [| discriminate].
    intros H. destruct (parse_af_wf _ _ _ _ _ Hrest H) as (H1 & H2).
    split; [exact Hlen |]. split; [reflexivity |]. right. lia.
Qed.

Lemma parse_packets_wf ps : forall ks, parse_packets ps = Some ks -> Forall2 pkt_wf ps ks.
Proof.
  induction ps as [| p ps IH]; intros ks H.
  - inversion H. constructor.
  - cbn [parse_packets] in H. destruct (parse_packet p) eqn:E; [| discriminate].
    destruct (parse_packets ps) eqn:E2; [| discriminate]. inversion H.
    constructor; [apply parse_packet_wf; exact E | apply IH; reflexivity].
Qed.

(* ---- continuity counters: what a successful demultiplex guarantees ---- *)
Definition cc_continuous (ks : list tspkt) : Prop :=
  forall pre k1 mid k2 post,
    ks = pre ++ k1 :: mid ++ k2 :: post ->
    k_pid k2 = k_pid k1 -> (forall k, In k mid -> k_pid k <> k_pid k1) ->
    k_cc k2 = (k_cc k1 + 1) mod 16.

Lemma unit_append_other k : forall acc acc' pid, k_pid k <> pid ->
  unit_append k acc = Some acc' -> last_cc pid acc' = last_cc pid acc.
Proof.
  induction acc as [| u acc IH]; intros acc' pid Hne H; [discriminate |].
  cbn [unit_append] in H. destruct (u_pid u =? k_pid k) eqn:E.
  - inversion H. cbn [last_cc u_pid]. apply Z.eqb_eq in E.
    replace (u_pid u =? pid) with false by lia. reflexivity.
  - destruct (unit_append k acc) eqn:E2; [| discriminate]. inversion H.
    cbn [last_cc]. rewrite (IH _ pid Hne eq_refl). reflexivity.
Qed.

Lemma unit_append_same k : forall acc acc',
  unit_append k acc = Some acc' -> last_cc (k_pid k) acc' = Some (k_cc k).
Proof.
  induction acc as [| u acc IH]; intros acc' H; [discriminate |].
  cbn [unit_append] in H. destruct (u_pid u =? k_pid k) eqn:E.
  - inversion H. cbn [last_cc u_pid u_cc]. rewrite E. reflexivity.
  - destruct (unit_append k acc) eqn:E2; [| discriminate]. inversion H.
    cbn [last_cc]. rewrite E. apply IH. reflexivity.
Qed.

(* one step of the demultiplexer *)
Lemma demux_step k rest acc r : demux_go (k :: rest) acc = Some r ->
  cc_follows (last_cc (k_pid k) acc) (k_cc k) = true /\
  exists acc', demux_go rest acc' = Some r /\
    last_cc (k_pid k) acc' = Some (k_cc k) /\
    (forall pid, k_pid k <> pid -> last_cc pid acc' = last_cc pid acc).
Proof.
  cbn [demux_go]. destruct (cc_follows (last_cc (k_pid k) acc) (k_cc k)); cbn [negb]; [| discriminate].
  intros H. split; [reflexivity |].
  destruct (k_pusi k).
  - eexists. split; [exact H |]. cbn [last_cc u_pid u_cc]. rewrite Z.eqb_refl. split; [reflexivity |].
    intros pid Hne. replace (k_pid k =? pid) with false by lia. reflexivity.
  - destruct (unit_append k acc) as [acc' |] eqn:E; [| discriminate].
    exists acc'. split; [exact H |]. split; [apply (unit_append_same k acc); exact E |].
    intros pid Hne. apply (unit_append_other k acc); assumption.
Qed.

Lemma demux_skip pre : forall rest acc r, demux_go (pre ++ rest) acc = Some r ->
  exists acc', demux_go rest acc' = Some r.
Proof.
  induction pre as [| k pre IH]; intros rest acc r H.
  - exists acc. exact H.
  - cbn [app] in H. destruct (demux_step _ _ _ _ H) as (_ & acc' & H' & _). eapply IH. exact H'.
Qed.

Lemma demux_skip_other mid : forall rest acc r pid,
  (forall k, In k mid -> k_pid k <> pid) -> demux_go (mid ++ rest) acc = Some r ->
  exists acc', demux_go rest acc' = Some r /\ last_cc pid acc' = last_cc pid acc.
Proof.
  induction mid as [| k mid IH]; intros rest acc r pid Hne H.
  - exists acc. auto.
  - cbn [app] in H. destruct (demux_step _ _ _ _ H) as (_ & acc1 & H1 & _ & Hother).
    destruct (IH rest acc1 r pid (fun k' Hin => Hne k' (or_intror Hin)) H1) as (acc2 & H2 & H3).
    exists acc2. split; [exact H2 |]. rewrite H3. apply Hother. apply Hne. left. reflexivity.
Qed.

Lemma demux_cc_continuous ks acc r : demux_go ks acc = Some r -> cc_continuous ks.
Proof.
  intros H pre k1 mid k2 post -> Hpid Hmid.
  destruct (demux_skip pre _ _ _ H) as (acc0 & H0).
  destruct (demux_step _ _ _ _ H0) as (_ & acc1 & H1 & Hcc1 & _).
  destruct (demux_skip_other mid _ _ _ (k_pid k1) Hmid H1) as (acc2 & H2 & Hl).
  destruct (demux_step _ _ _ _ H2) as (Hf & _).
  rewrite Hpid, Hl, Hcc1 in Hf. cbn [cc_follows] in Hf. lia.
Qed.
