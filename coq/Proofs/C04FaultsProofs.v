(* C04 — consumer faults in both callbacks.  With the clean-up in the order StopConsume, Consumer.Close
   (the code as it is) the behaviour of Consumer.Close is invisible: the fault run and the fault-free
   run of the stream LTS agree on everything except the (unreferenced) queue of a finished consumer.
   Hence a consumer whose Consume panicked is detached and counted out whatever its Close does, and
   nobody else is affected.  With the order Close, StopConsume this is false (refutation). *)
From Coq Require Import ZArith List Bool Arith Lia.
From V Require Import Val StreamLts Cache LtsWire LtsOracle LtsOracleProofs LtsBacklogProofs
                      C04Oracle C04OracleProofs C04Faults.
From V Require LtsReleaseProofs.
Import ListNotations.
Local Open Scope nat_scope.

Local Arguments s_ok {cache_t}.
Local Arguments s_lock {cache_t}.
Local Arguments s_lockq {cache_t}.
Local Arguments s_cache {cache_t}.
Local Arguments s_sent {cache_t}.
Local Arguments s_cached {cache_t}.
Local Arguments s_todo {cache_t}.
Local Arguments s_pp {cache_t}.
Local Arguments s_count {cache_t}.
Local Arguments s_cs {cache_t}.
Local Arguments s_att {cache_t}.
Local Arguments s_stp {cache_t}.
Local Arguments s_kp {cache_t}.

Ltac ssimpl :=
  cbn [s_ok s_lock s_lockq s_cache s_sent s_cached s_todo s_pp s_count s_cs s_att s_stp s_kp
       set_cs set_core set_att set_stp fst snd].

(* ---- per consumer: equal, or a finished consumer up to its queue ---- *)
Definition noq (k : cons) : cons :=
  Build_cons (c_reg k) (c_closed k) [] (c_pc k) (c_out k) (c_disc k) (c_closes k) (c_pushed k)
             (c_prefill k) (c_regat k) (c_unregat k) (c_keep k).

Definition crel (k1 k2 : cons) : Prop :=
  k1 = k2 \/ (noq k1 = noq k2 /\ c_pc k2 = CDone /\ c_reg k2 = false).
(* [p]: parked inside Consumer.Close *)
Definition prel (p : bool) (k1 k2 : cons) : Prop := crel k1 k2 /\ (p = true -> c_pc k2 = CDone).

Lemma noq_fields : forall k1 k2, noq k1 = noq k2 ->
  c_reg k1 = c_reg k2 /\ c_closed k1 = c_closed k2 /\ c_pc k1 = c_pc k2 /\ c_out k1 = c_out k2 /\
  c_disc k1 = c_disc k2 /\ c_closes k1 = c_closes k2 /\ c_pushed k1 = c_pushed k2 /\
  c_prefill k1 = c_prefill k2 /\ c_regat k1 = c_regat k2 /\ c_unregat k1 = c_unregat k2 /\
  c_keep k1 = c_keep k2.
Proof. intros k1 k2 H. unfold noq in H. injection H. intros. repeat split; assumption. Qed.

Lemma crel_refl : forall k, crel k k.
Proof. now left. Qed.

Lemma crel_fields : forall k1 k2, crel k1 k2 -> noq k1 = noq k2.
Proof. intros k1 k2 [->|[H _]]; [reflexivity|exact H]. Qed.

Lemma crel_reg_true : forall k1 k2, crel k1 k2 -> c_reg k2 = true -> k1 = k2.
Proof. intros k1 k2 [->|(_ & _ & H)] Hr; [reflexivity|congruence]. Qed.

Lemma crel_not_done : forall k1 k2, crel k1 k2 -> c_pc k2 <> CDone -> k1 = k2.
Proof. intros k1 k2 [->|(_ & H & _)] Hr; [reflexivity|congruence]. Qed.

(* operations that may still be applied to a finished consumer *)
Lemma prel_close : forall p k1 k2, prel p k1 k2 -> prel p (close_cons fixed k1) (close_cons fixed k2).
Proof.
  intros p k1 k2 [Hc Hp]. split.
  - destruct Hc as [->|(Hn & Hd & Hr)]; [now left|right].
    destruct (noq_fields _ _ Hn) as (E1 & E2 & E3 & E4 & E5 & E6 & E7 & E8 & E9 & E10 & E11).
    destruct k1 as [r1 cl1 q1 pc1 o1 d1 n1 pu1 pf1 ra1 ua1 ke1].
    destruct k2 as [r2 cl2 q2 pc2 o2 d2 n2 pu2 pf2 ra2 ua2 ke2].
    simpl in *. subst. unfold close_cons, push, wake, noq. simpl.
    destruct cl2; simpl; auto.
  - intros E. destruct (close_view k2) as (q' & pc' & Ev & _ & Hs). rewrite Ev. simpl.
    now apply (pc_step_done _ _ Hs), Hp.
Qed.

Lemma prel_set_reg : forall p k1 k2 b n, k1 = k2 -> (p = true -> c_pc k2 = CDone) ->
  prel p (set_reg k1 b n) (set_reg k2 b n).
Proof. intros p k1 k2 b n -> Hp. split; [now left|exact Hp]. Qed.

Lemma prel_send : forall p maxq k1 k2 pk, k1 = k2 -> (p = true -> c_pc k2 = CDone) ->
  prel p (send maxq k1 pk) (send maxq k2 pk).
Proof.
  intros p maxq k1 k2 pk -> Hp. split; [now left|].
  intros E. destruct (send_view maxq k2 pk) as (q' & pc' & Ev & _ & Hs). rewrite Ev. simpl.
  now apply (pc_step_done _ _ Hs), Hp.
Qed.

(* the attacher's snapshot overwrites the queue *)
Lemma prel_snap : forall p k1 k2 pre, prel p k1 k2 ->
  prel p {| c_reg := c_reg k1; c_closed := c_closed k1; c_q := map Some pre; c_pc := c_pc k1;
            c_out := c_out k1; c_disc := c_disc k1; c_closes := c_closes k1; c_pushed := pre;
            c_prefill := pre; c_regat := c_regat k1; c_unregat := c_unregat k1; c_keep := c_keep k1 |}
         {| c_reg := c_reg k2; c_closed := c_closed k2; c_q := map Some pre; c_pc := c_pc k2;
            c_out := c_out k2; c_disc := c_disc k2; c_closes := c_closes k2; c_pushed := pre;
            c_prefill := pre; c_regat := c_regat k2; c_unregat := c_unregat k2; c_keep := c_keep k2 |}.
Proof.
  intros p k1 k2 pre [Hc Hp]. split; [|exact Hp]. left.
  destruct (noq_fields _ _ (crel_fields _ _ Hc)) as (E1 & E2 & E3 & E4 & E5 & E6 & E7 & E8 & E9 & E10 & E11).
  now rewrite E1, E2, E3, E4, E5, E6, E9, E10, E11.
Qed.

(* ---- the clean-up with a faulty Close against [finish] ---- *)
Lemma call_close_rel : forall m k, c_reg k = false ->
  crel (fst (call_close m k)) (finish k) /\
  (snd (call_close m k) = true -> m = CloseBlocks) /\ c_pc (finish k) = CDone.
Proof.
  intros m k Hr. split; [|split; [|reflexivity]].
  - destruct m; simpl; [now left| |]; right; (split; [reflexivity|split; [reflexivity|exact Hr]]).
  - destruct m; simpl; congruence.
Qed.

Lemma exit_path_rel : forall m k n,
  let r := exit_pathF true m k n in
  crel (fst r) (exit_path fixed k n) /\
  (snd r = true -> m = CloseBlocks /\ c_pc (exit_path fixed k n) = CDone).
Proof.
  intros m k n. unfold exit_pathF, exit_path. cbn [v_atomic fixed].
  destruct (c_reg k) eqn:Hr; cbn [fst snd].
  - split; [now left|discriminate].
  - destruct (call_close_rel m k Hr) as (H1 & H2 & H3). split; [exact H1|]. intros E. split; auto.
Qed.

Lemma loop_test_rel : forall m k n,
  let r := loop_testF true m k n in
  crel (fst r) (loop_test fixed k n) /\
  (snd r = true -> m = CloseBlocks /\ c_pc (loop_test fixed k n) = CDone).
Proof.
  intros m k n. unfold loop_testF, loop_test. destruct (c_closed k).
  - apply exit_path_rel.
  - cbn [fst snd]. split; [now left|discriminate].
Qed.

Lemma after_loaded_rel : forall m k, c_reg k = false ->
  let r := after_loaded true m k in
  crel (fst r) (finish (close_cons fixed k)) /\ (snd r = true -> m = CloseBlocks).
Proof.
  intros m k Hr. unfold after_loaded.
  assert (Hr' : c_reg (close_cons fixed k) = false).
  { destruct (close_view k) as (q' & pc' & Ev & _). rewrite Ev. exact Hr. }
  destruct (call_close_rel m (close_cons fixed k) Hr') as (H1 & H2 & _). auto.
Qed.

(* ------------------------------------------------------------------ *)
Section Sim.
Variable maxq : nat.
Variable cache_t : Type.
Variable cache_empty : cache_t.
Variable cache_add : cache_t -> pkt -> cache_t.
Variable cache_snap : cache_t -> list pkt.
Variable ncons : nat.
Variable panic_at : nat -> nat.
Variable close_of : nat -> close_mode.
Variable pkts : list pkt.

Notation state := (st cache_t).
Notation stepN := (step fixed maxq cache_t cache_empty cache_add cache_snap ncons panic_at).
Notation runN := (run fixed maxq cache_t cache_empty cache_add cache_snap ncons panic_at).
Notation fstepT := (fstep true maxq cache_t cache_empty cache_add cache_snap ncons panic_at close_of).
Notation frunT := (frun true maxq cache_t cache_empty cache_add cache_snap ncons panic_at close_of).
Notation InvN := (Inv maxq cache_t ncons panic_at 0 pkts).

(* the two states agree on everything but the queues of finished consumers *)
Definition srel (b : nat -> bool) (s1 s2 : state) : Prop :=
  s_ok s1 = s_ok s2 /\ s_lock s1 = s_lock s2 /\ s_lockq s1 = s_lockq s2 /\ s_cache s1 = s_cache s2 /\
  s_sent s1 = s_sent s2 /\ s_cached s1 = s_cached s2 /\ s_todo s1 = s_todo s2 /\ s_pp s1 = s_pp s2 /\
  s_count s1 = s_count s2 /\ s_kp s1 = s_kp s2 /\
  (forall x, s_att s1 x = s_att s2 x) /\ (forall x, s_stp s1 x = s_stp s2 x) /\
  (forall x, prel (b x) (s_cs s1 x) (s_cs s2 x)).

Definition rel (sb : fstate cache_t) (s2 : state) : Prop :=
  srel (snd sb) (fst sb) s2 /\ (forall x, snd sb x = true -> close_of x = CloseBlocks).

Ltac sr_break H :=
  destruct H as (Eok & Elock & Elockq & Ecache & Esent & Ecached & Etodo & Epp & Ecount & Ekp & Eatt & Estp & Ecs).

Ltac sr_split := unfold srel; ssimpl; repeat match goal with |- _ /\ _ => split end.

Lemma srel_refl : forall s, srel (fun _ => false) s s.
Proof.
  intros s. unfold srel, prel. repeat split; auto; try apply crel_refl; try discriminate.
Qed.

Lemma upd_prel : forall (b : nat -> bool) (f1 f2 : nat -> cons) c k1 k2,
  (forall x, prel (b x) (f1 x) (f2 x)) -> prel (b c) k1 k2 ->
  forall x, prel (b x) (upd f1 c k1 x) (upd f2 c k2 x).
Proof.
  intros b f1 f2 c k1 k2 H Hk x. destruct (Nat.eq_dec c x) as [<-|Hne].
  - now rewrite !upd_same.
  - rewrite !upd_other by assumption. apply H.
Qed.

Lemma upd_fun_ext : forall A (f1 f2 : nat -> A) c v,
  (forall x, f1 x = f2 x) -> forall x, upd f1 c v x = upd f2 c v x.
Proof.
  intros A f1 f2 c v H x. destruct (Nat.eq_dec c x) as [<-|Hne].
  - now rewrite !upd_same.
  - rewrite !upd_other by assumption. apply H.
Qed.

Notation after_acquireF := (after_acquire cache_t cache_add cache_snap).
Notation acquireF := (acquire fixed cache_t cache_add cache_snap).
Notation releaseF := (release fixed cache_t cache_add cache_snap).

Lemma after_acquire_srel : forall b m1 m2 h r,
  srel b m1 m2 -> srel b (after_acquireF m1 h r) (after_acquireF m2 h r).
Proof.
  intros b m1 m2 h r H. pose proof H as H0. sr_break H. unfold after_acquire. destruct h as [|c].
  - rewrite Etodo. destruct (s_todo m2) eqn:Et2; [exact H0|].
    sr_split; auto; try congruence.
  - sr_split; auto; try congruence.
    + apply upd_fun_ext. exact Eatt.
    + rewrite Ecache. apply upd_prel; [exact Ecs|]. apply prel_snap. apply Ecs.
Qed.

Lemma acquire_srel : forall b m1 m2 h, srel b m1 m2 -> srel b (acquireF m1 h) (acquireF m2 h).
Proof.
  intros b m1 m2 h H. pose proof H as H0. sr_break H. unfold acquire. cbn [v_lock fixed].
  rewrite Elock, Elockq. destruct (s_lock m2) eqn:El2.
  - destruct h as [|c]; sr_split; auto; try congruence.
    apply upd_fun_ext. exact Eatt.
  - now apply after_acquire_srel.
Qed.

Lemma release_srel : forall b m1 m2, srel b m1 m2 -> srel b (releaseF m1) (releaseF m2).
Proof.
  intros b m1 m2 H. pose proof H as H0. sr_break H. unfold release. cbn [v_lock fixed].
  rewrite Elockq. destruct (s_lockq m2) as [|h r] eqn:Eq2.
  - sr_split; auto.
  - now apply after_acquire_srel.
Qed.

Lemma sweep_snd_ext : forall n (f1 f2 : nat -> cons) sent,
  (forall x, c_reg (f1 x) = c_reg (f2 x)) ->
  snd (sweep fixed n f1 sent) = snd (sweep fixed n f2 sent).
Proof.
  induction n as [|n IH]; intros f1 f2 sent H; [reflexivity|]. simpl.
  pose proof (sweep_at n f1 sent n) as A1. pose proof (sweep_at n f2 sent n) as A2.
  rewrite Nat.ltb_irrefl in A1, A2. simpl in A1, A2.
  specialize (IH f1 f2 sent H).
  destruct (sweep fixed n f1 sent) as [g1 d1]. destruct (sweep fixed n f2 sent) as [g2 d2].
  simpl in *. rewrite A1, A2, H. subst d2. destruct (c_reg (f2 n)); reflexivity.
Qed.

Lemma send_all_prel : forall b (f1 f2 : nat -> cons) p,
  (forall x, prel (b x) (f1 x) (f2 x)) ->
  forall x, prel (b x) (send_all maxq ncons f1 p x) (send_all maxq ncons f2 p x).
Proof.
  intros b f1 f2 p H x. rewrite !send_all_at. destruct (H x) as [Hc Hp].
  destruct (noq_fields _ _ (crel_fields _ _ Hc)) as (E1 & _). rewrite E1.
  destruct ((x <? ncons) && c_reg (f2 x)) eqn:E; [|apply H].
  apply andb_true_iff in E. destruct E as [_ Hr]. apply prel_send; [now apply crel_reg_true|exact Hp].
Qed.

Lemma sweep_prel : forall b (f1 f2 : nat -> cons) sent,
  (forall x, prel (b x) (f1 x) (f2 x)) ->
  forall x, prel (b x) (fst (sweep fixed ncons f1 sent) x) (fst (sweep fixed ncons f2 sent) x).
Proof.
  intros b f1 f2 sent H x. rewrite !sweep_at. destruct (H x) as [Hc Hp].
  destruct (noq_fields _ _ (crel_fields _ _ Hc)) as (E1 & _). rewrite E1.
  destruct ((x <? ncons) && c_reg (f2 x)) eqn:E; [|apply H].
  apply andb_true_iff in E. destruct E as [_ Hr]. apply prel_close.
  apply prel_set_reg; [now apply crel_reg_true|exact Hp].
Qed.

Lemma park_other : forall b c p x, x <> c -> park b c p x = b x.
Proof. intros b c [] x H; unfold park; [apply upd_other; congruence|reflexivity]. Qed.

Lemma park_same : forall b c p, park b c p c = p || b c.
Proof. intros b c []; unfold park; [now rewrite upd_same|reflexivity]. Qed.

Definition orel (o1 : option (fstate cache_t)) (o2 : option state) : Prop :=
  match o1, o2 with
  | Some sb, Some s2 => rel sb s2
  | None, None => True
  | _, _ => False
  end.

Lemma stp_self : forall (f : nat -> spc) c x, upd f c (f c) x = f x.
Proof.
  intros f c x. destruct (Nat.eq_dec c x) as [<-|Hne]; [apply upd_same|now apply upd_other].
Qed.

(* one step of the fault LTS against the same step of the fault-free LTS *)
Lemma fstep_sim : forall sb s2 t, rel sb s2 -> InvN s2 -> orel (fstepT sb t) (stepN s2 t).
Proof.
  intros [s1 b] s2 t [HS Hb] HI. cbn [fst snd] in HS, Hb. pose proof HS as HS0. sr_break HS.
  destruct HI as [HL HP HC].
  assert (Hk0 : forall x, CInv0 (s_sent s2) (s_att s2 x) (s_cs s2 x)) by (intros x; apply HC).
  destruct t as [| |c|c|c]; unfold fstep; cbn [fst snd step].
  - (* TPub *)
    unfold step_pub. rewrite Epp, Etodo, Eok.
    destruct (s_pp s2) eqn:Epp2; destruct (s_todo s2) as [|p rest] eqn:Et2; cbn [orel]; auto.
    + destruct (s_ok s2) eqn:Eok2; cbn [orel]; (split; [cbn [fst snd]; sr_split; auto; congruence|exact Hb]).
    + split; [cbn [fst snd]; now apply acquire_srel|exact Hb].
    + split; [cbn [fst snd]|exact Hb]. apply release_srel. sr_split; auto; try congruence.
      now apply send_all_prel.
  - (* TClose *)
    unfold step_close. rewrite Ekp. destruct (s_kp s2) eqn:Ekp2; cbn [orel]; auto.
    + rewrite Eok. split; [cbn [fst snd]; sr_split; auto|exact Hb].
    + rewrite Esent.
      pose proof (sweep_prel b (s_cs s1) (s_cs s2) (length (s_sent s2)) Ecs) as Hsw.
      assert (Hd : snd (sweep fixed ncons (s_cs s1) (length (s_sent s2))) =
                   snd (sweep fixed ncons (s_cs s2) (length (s_sent s2)))).
      { apply sweep_snd_ext. intros x. destruct (Ecs x) as [Hc _].
        now destruct (noq_fields _ _ (crel_fields _ _ Hc)). }
      destruct (sweep fixed ncons (s_cs s1) (length (s_sent s2))) as [f1 d1].
      destruct (sweep fixed ncons (s_cs s2) (length (s_sent s2))) as [f2 d2].
      cbn [fst snd] in Hsw, Hd. subst d2. cbn [v_atomic fixed orel].
      split; [cbn [fst snd]; sr_split; auto; congruence|exact Hb].
    + split; [cbn [fst snd]; sr_split; auto|exact Hb].
  - (* TAtt c *)
    destruct (c <? ncons); cbn [orel]; auto.
    unfold step_attF, step_att. rewrite (Eatt c).
    destruct (s_att s2 c) eqn:Ea; cbn [orel]; auto.
    + split; [cbn [fst snd]; now apply acquire_srel|exact Hb].
    + (* A1: the consumer has not started *)
      assert (Hpc : c_pc (s_cs s2 c) = CNone).
      { destruct (c_pc (s_cs s2 c)) eqn:E; try reflexivity;
          (assert (E' : A1 = ADone); [rewrite <- Ea; apply (ci_pc _ _ _ (Hk0 c)); rewrite E; discriminate|discriminate]). }
      destruct (Ecs c) as [Hcr Hpk].
      assert (Ek : s_cs s1 c = s_cs s2 c) by (apply crel_not_done; [exact Hcr|congruence]).
      split; [cbn [fst snd]|exact Hb]. apply release_srel. sr_split; auto; try congruence.
      * apply upd_fun_ext. exact Eatt.
      * rewrite Esent. apply upd_prel; [exact Ecs|]. now apply prel_set_reg.
    + (* A2 *)
      assert (Hpc : c_pc (s_cs s2 c) = CNone).
      { destruct (c_pc (s_cs s2 c)) eqn:E; try reflexivity;
          (assert (E' : A2 = ADone); [rewrite <- Ea; apply (ci_pc _ _ _ (Hk0 c)); rewrite E; discriminate|discriminate]). }
      destruct (Ecs c) as [Hcr Hpk].
      assert (Ek : s_cs s1 c = s_cs s2 c) by (apply crel_not_done; [exact Hcr|congruence]).
      assert (Hbc : b c = false).
      { destruct (b c) eqn:Eb; [|reflexivity]. specialize (Hpk eq_refl). congruence. }
      cbn [v_recheck fixed]. rewrite Ek, Eok, Esent, Ecount.
      replace (true && negb (s_ok s2) && c_reg (s_cs s2 c)) with (negb (s_ok s2) && c_reg (s_cs s2 c)) by reflexivity.
      destruct (negb (s_ok s2) && c_reg (s_cs s2 c));
        match goal with |- context [loop_testF true ?M ?K ?N] =>
          pose proof (loop_test_rel M K N) as Hlt; cbv zeta in Hlt;
          destruct (loop_testF true M K N) as [k2' p2] end;
        cbn [fst snd] in Hlt; destruct Hlt as [Hl1 Hl2]; cbn [orel];
        (split; cbn [fst snd];
         [ sr_split; auto; try congruence;
           [ apply upd_fun_ext; exact Eatt
           | intros x; destruct (Nat.eq_dec c x) as [<-|Hne];
             [ rewrite !upd_same, park_same, Hbc, orb_false_r; split; [exact Hl1|intros E; now apply Hl2]
             | rewrite !upd_other by assumption; rewrite park_other by congruence; apply Ecs ] ]
         | intros x; destruct (Nat.eq_dec c x) as [<-|Hne];
           [ rewrite park_same, Hbc, orb_false_r; intros E; now apply Hl2
           | rewrite park_other by congruence; apply Hb ] ]).
  - (* TStop c *)
    destruct (c <? ncons); cbn [orel]; auto. rewrite (Eatt c).
    destruct (s_att s2 c); cbn [orel]; auto.
    unfold step_stop. cbn [v_atomic fixed]. rewrite (Estp c).
    destruct (Ecs c) as [Hcr Hpk].
    destruct (noq_fields _ _ (crel_fields _ _ Hcr)) as (Er & _).
    destruct (s_stp s2 c) eqn:Es; cbn [orel]; auto.
    + rewrite Er. destruct (c_reg (s_cs s2 c)) eqn:Hr; cbn [orel].
      * split; [cbn [fst snd]|exact Hb]. sr_split; auto; try congruence.
        -- apply upd_fun_ext. exact Estp.
        -- rewrite Esent. apply upd_prel; [exact Ecs|]. apply prel_set_reg; [now apply crel_reg_true|exact Hpk].
      * split; [cbn [fst snd]|exact Hb]. sr_split; auto. apply upd_fun_ext. exact Estp.
    + split; [cbn [fst snd]|exact Hb]. sr_split; auto; try congruence.
      * apply upd_fun_ext. exact Estp.
      * apply upd_prel; [exact Ecs|]. apply prel_close. now split.
  - (* TCons c *)
    destruct (c <? ncons); cbn [orel]; auto.
    unfold step_consF. destruct (Ecs c) as [Hcr Hpk].
    destruct (noq_fields _ _ (crel_fields _ _ Hcr)) as (_ & _ & Epc & _).
    destruct (c_pc (s_cs s2 c)) as [| |[p|]| | |] eqn:Epc2; rewrite Epc.
    + (* CNone *) unfold step_cons. rewrite Epc, Epc2. exact I.
    + (* CPop *)
      assert (Ek : s_cs s1 c = s_cs s2 c) by (apply crel_not_done; [exact Hcr|congruence]).
      assert (Hbc : b c = true -> False) by (intros Eb; specialize (Hpk Eb); congruence).
      unfold step_cons. rewrite Ek, Epc2.
      destruct (c_q (s_cs s2 c)) as [|x q']; cbn [orel];
        (split; [cbn [fst snd]|exact Hb]); sr_split; auto;
        (apply upd_prel; [exact Ecs|]; split; [apply crel_refl|intros Eb; elim (Hbc Eb)]).
    + (* CGot (Some p) *)
      assert (Ek : s_cs s1 c = s_cs s2 c) by (apply crel_not_done; [exact Hcr|congruence]).
      assert (Hbc : b c = false).
      { destruct (b c) eqn:Eb; [|reflexivity]. specialize (Hpk eq_refl). congruence. }
      unfold step_cons. rewrite Ek, Epc2, Esent.
      destruct (Nat.eqb (S (length (c_out (s_cs s2 c)))) (panic_at c));
        [ match goal with |- context [exit_pathF true ?M ?K ?N] =>
            pose proof (exit_path_rel M K N) as Hlt; cbv zeta in Hlt;
            destruct (exit_pathF true M K N) as [k2' p2] end
        | match goal with |- context [loop_testF true ?M ?K ?N] =>
            pose proof (loop_test_rel M K N) as Hlt; cbv zeta in Hlt;
            destruct (loop_testF true M K N) as [k2' p2] end ];
        cbn [fst snd] in Hlt; destruct Hlt as [Hl1 Hl2]; cbn [orel];
        (split; cbn [fst snd];
         [ sr_split; auto;
           intros x; destruct (Nat.eq_dec c x) as [<-|Hne];
             [ rewrite !upd_same, park_same, Hbc, orb_false_r; split; [exact Hl1|intros E; now apply Hl2]
             | rewrite !upd_other by assumption; rewrite park_other by congruence; apply Ecs ]
         | intros x; destruct (Nat.eq_dec c x) as [<-|Hne];
           [ rewrite park_same, Hbc, orb_false_r; intros E; now apply Hl2
           | rewrite park_other by congruence; apply Hb ] ]).
    + (* CGot None *)
      assert (Ek : s_cs s1 c = s_cs s2 c) by (apply crel_not_done; [exact Hcr|congruence]).
      assert (Hbc : b c = false).
      { destruct (b c) eqn:Eb; [|reflexivity]. specialize (Hpk eq_refl). congruence. }
      unfold step_cons. rewrite Ek, Epc2, Esent.
      match goal with |- context [loop_testF true ?M ?K ?N] =>
        pose proof (loop_test_rel M K N) as Hlt; cbv zeta in Hlt;
        destruct (loop_testF true M K N) as [k2' p2] end.
      cbn [fst snd] in Hlt; destruct Hlt as [Hl1 Hl2]; cbn [orel].
      split; cbn [fst snd].
      * sr_split; auto.
        intros x; destruct (Nat.eq_dec c x) as [<-|Hne];
          [ rewrite !upd_same, park_same, Hbc, orb_false_r; split; [exact Hl1|intros E; now apply Hl2]
          | rewrite !upd_other by assumption; rewrite park_other by congruence; apply Ecs ].
      * intros x; destruct (Nat.eq_dec c x) as [<-|Hne];
          [ rewrite park_same, Hbc, orb_false_r; intros E; now apply Hl2
          | rewrite park_other by congruence; apply Hb ].
    + (* CWait *) unfold step_cons. rewrite Epc, Epc2. exact I.
    + (* CExitLoaded *)
      assert (Ek : s_cs s1 c = s_cs s2 c) by (apply crel_not_done; [exact Hcr|congruence]).
      assert (Hbc : b c = false).
      { destruct (b c) eqn:Eb; [|reflexivity]. specialize (Hpk eq_refl). congruence. }
      assert (Hr : c_reg (s_cs s2 c) = false) by (apply (ci_exit _ _ _ (Hk0 c)); now left).
      unfold step_cons. rewrite Ek, Epc2, Ecount, (Estp c). cbn [v_atomic fixed].
      pose proof (after_loaded_rel (close_of c) (s_cs s2 c) Hr) as Hlt. cbv zeta in Hlt.
      destruct (after_loaded true (close_of c) (s_cs s2 c)) as [k2' p2].
      cbn [fst snd] in Hlt; destruct Hlt as [Hl1 Hl2]; cbn [orel].
      split; cbn [fst snd].
      * sr_split; auto.
        -- apply upd_fun_ext. exact Estp.
        -- intros x; destruct (Nat.eq_dec c x) as [<-|Hne];
             [ rewrite !upd_same, park_same, Hbc, orb_false_r; split; [exact Hl1|intros _; reflexivity]
             | rewrite !upd_other by assumption; rewrite park_other by congruence; apply Ecs ].
      * intros x; destruct (Nat.eq_dec c x) as [<-|Hne];
          [ rewrite park_same, Hbc, orb_false_r; exact Hl2
          | rewrite park_other by congruence; apply Hb ].
    + (* CDone *) unfold step_cons. rewrite Epc, Epc2. exact I.
Qed.

Notation initN := (init cache_t cache_empty).

Lemma frun_sim : forall sched sb s2, rel sb s2 -> InvN s2 -> rel (frunT sched sb) (runN sched s2).
Proof.
  induction sched as [|t sched IH]; intros sb s2 HR HI; [exact HR|]. cbn [frun run].
  pose proof (fstep_sim sb s2 t HR HI) as Hs. unfold orel in Hs.
  destruct (fstepT sb t) as [sb'|]; destruct (stepN s2 t) as [s2'|] eqn:E2; try contradiction.
  - apply IH; [exact Hs|]. eapply inv_step; eassumption.
  - apply IH; assumption.
Qed.

(* THE SIMULATION: whatever Consumer.Close does, the run agrees with the fault-free run on the
   publisher, the mutex, the counter, every attacher and stopper, and on every consumer except for
   the queue of a consumer whose goroutine has finished and that is out of the map *)
Theorem close_fault_invisible : forall sched stoppers,
  rel (frunT sched (finit cache_t cache_empty pkts stoppers)) (runN sched (initN pkts stoppers)).
Proof.
  intros sched stoppers. apply frun_sim.
  - split; [apply srel_refl|]. cbn [snd finit]. discriminate.
  - apply inv_init.
Qed.

End Sim.

(* ---- the C04 clause ---- *)
Theorem panic_detaches_whatever_close_does :
  forall maxq cache_t cache_empty cache_add cache_snap ncons panic_at
         (close_of : nat -> close_mode) pkts stoppers sched c,
  0 < panic_at c ->
  let fstepT := fstep true maxq cache_t cache_empty cache_add cache_snap ncons panic_at close_of in
  let sb := frun true maxq cache_t cache_empty cache_add cache_snap ncons panic_at close_of sched
                 (finit cache_t cache_empty pkts stoppers) in
  let s0 := run fixed maxq cache_t cache_empty cache_add cache_snap ncons panic_at sched
                (init cache_t cache_empty pkts stoppers) in
  let k := s_cs (fst sb) c in
  (* the counter is the fault-free run's *)
  s_count (fst sb) = s_count s0 /\
  length (c_out k) <= panic_at c /\
  (c_closes k = 1 <-> c_pc k = CDone) /\
  (panic_at c <= length (c_out k) ->
     c_reg k = false /\ (c_pc k = CExitLoaded \/ c_pc k = CDone) /\
     (c_pc k = CExitLoaded ->
        exists sb', fstepT sb (TCons c) = Some sb' /\
                    c_pc (s_cs (fst sb') c) = CDone /\ c_closes (s_cs (fst sb') c) = 1 /\
                    c_reg (s_cs (fst sb') c) = false /\ s_count (fst sb') = (s_count (fst sb) - 1)%Z)).
Proof.
  intros maxq cache_t cache_empty cache_add cache_snap ncons panic_at close_of pkts stoppers sched c Hn
         fstepT sb s0 k.
  pose proof (close_fault_invisible maxq cache_t cache_empty cache_add cache_snap ncons panic_at close_of
                pkts sched stoppers) as HR. fold sb s0 in HR.
  pose proof (panic_detaches maxq cache_t cache_empty cache_add cache_snap ncons panic_at pkts stoppers
                sched c Hn) as HP. cbv zeta in HP. fold s0 in HP.
  pose proof (inv_reachable maxq cache_t cache_empty cache_add cache_snap ncons panic_at 0 pkts sched stoppers)
    as HI. fold s0 in HI.
  destruct HR as [HS Hb]. pose proof HS as HS0.
  destruct HS as (_ & _ & _ & _ & _ & _ & _ & _ & Ecount & _ & _ & _ & Ecs).
  destruct (Ecs c) as [Hcr _].
  destruct (noq_fields _ _ (crel_fields _ _ Hcr)) as (Er & _ & Epc & Eo & _ & Ecl & _).
  fold k in Er, Epc, Eo, Ecl.
  destruct HP as (H1 & H2 & _ & H4).
  split; [exact Ecount|]. split; [rewrite Eo; exact H1|]. split; [rewrite Ecl, Epc; exact H2|].
  intros Hge. rewrite Eo in Hge. destruct (H4 Hge) as (Hp & Hr & Hx & _).
  split; [rewrite Er; exact Hr|]. split; [rewrite Epc; exact Hp|].
  intros Epk. rewrite Epc in Epk. destruct (Hx Epk) as (s' & Es & Hd & Hc1).
  pose proof (fstep_sim maxq cache_t cache_empty cache_add cache_snap ncons panic_at close_of pkts
                sb s0 (TCons c) (conj HS0 Hb) HI) as Hsim.
  unfold orel in Hsim. rewrite Es in Hsim. fold fstepT in Hsim.
  destruct (fstepT sb (TCons c)) as [sb'|]; [|contradiction].
  exists sb'. split; [reflexivity|].
  destruct Hsim as [HS' _].
  destruct HS' as (_ & _ & _ & _ & _ & _ & _ & _ & Ecount' & _ & _ & _ & Ecs').
  destruct (Ecs' c) as [Hcr' _].
  destruct (noq_fields _ _ (crel_fields _ _ Hcr')) as (Er' & _ & Epc' & _ & _ & Ecl' & _).
  rewrite Epc', Ecl', Er', Ecount', Ecount. repeat split; auto.
  - (* reg of s' *)
    pose proof (inv_step maxq cache_t cache_empty cache_add cache_snap ncons panic_at 0 pkts s0 (TCons c) s' HI Es)
      as [_ _ HC']. destruct (HC' c) as (H0' & _). apply (ci_exit _ _ _ H0'). now right.
  - (* the counter *)
    simpl in Es. destruct (c <? ncons); [|discriminate]. unfold step_cons in Es. rewrite Epk in Es.
    injection Es as <-. reflexivity.
Qed.

(* nobody is affected by what somebody's Close does: two runs that differ only in the behaviour of
   Consumer.Close agree on everything but the queues of finished consumers *)
Theorem close_behaviour_does_not_affect_anybody :
  forall maxq cache_t cache_empty cache_add cache_snap ncons panic_at
         (close_of close_of' : nat -> close_mode) pkts stoppers sched,
  let s := fst (frun true maxq cache_t cache_empty cache_add cache_snap ncons panic_at close_of sched
                     (finit cache_t cache_empty pkts stoppers)) in
  let s' := fst (frun true maxq cache_t cache_empty cache_add cache_snap ncons panic_at close_of' sched
                      (finit cache_t cache_empty pkts stoppers)) in
  s_count s = s_count s' /\ s_sent s = s_sent s' /\ s_todo s = s_todo s' /\ s_pp s = s_pp s' /\
  s_lock s = s_lock s' /\ s_lockq s = s_lockq s' /\ s_ok s = s_ok s' /\ s_kp s = s_kp s' /\
  (forall x, s_att s x = s_att s' x) /\ (forall x, s_stp s x = s_stp s' x) /\
  (forall x, noq (s_cs s x) = noq (s_cs s' x) /\
             (c_pc (s_cs s x) <> CDone -> s_cs s x = s_cs s' x)).
Proof.
  intros maxq cache_t cache_empty cache_add cache_snap ncons panic_at close_of close_of' pkts stoppers sched s s'.
  destruct (close_fault_invisible maxq cache_t cache_empty cache_add cache_snap ncons panic_at close_of
              pkts sched stoppers) as [H1 _].
  destruct (close_fault_invisible maxq cache_t cache_empty cache_add cache_snap ncons panic_at close_of'
              pkts sched stoppers) as [H2 _].
  fold s in H1. fold s' in H2.
  destruct H1 as (A1 & A2 & A3 & A4 & A5 & A6 & A7 & A8 & A9 & A10 & A11 & A12 & A13).
  destruct H2 as (B1 & B2 & B3 & B4 & B5 & B6 & B7 & B8 & B9 & B10 & B11 & B12 & B13).
  repeat match goal with |- _ /\ _ => split end; try congruence;
    try (intros x; first [now rewrite A11, B11 | now rewrite A12, B12]).
  intros x. destruct (A13 x) as [C1 _]. destruct (B13 x) as [C2 _]. split.
  - rewrite (crel_fields _ _ C1), (crel_fields _ _ C2). reflexivity.
  - intros Hnd.
    destruct (noq_fields _ _ (crel_fields _ _ C1)) as (_ & _ & Epc & _).
    rewrite (crel_not_done _ _ C1) by congruence.
    symmetry. apply (crel_not_done _ _ C2). congruence.
Qed.

(* ---- the order Close, StopConsume is wrong ---- *)
Definition mkq (i kd : Z) : pkt := {| p_id := i; p_kind := kd |}.
Definition faults_refute_case : lcase :=
  {| l_var := fixed; l_n := 1; l_maxq := 3; l_gop := false; l_pkts := [mkq 1 2; mkq 2 1; mkq 3 1];
     l_stop := [];
     l_sched := [TAtt 0; TAtt 0; TAtt 0; TPub; TPub; TPub; TCons 0; TCons 0; TCons 0; TCons 0;
                 TPub; TPub; TPub; TPub; TPub; TPub; TCons 0; TCons 0];
     l_panic := [1] |}.

(* Consume panics in its first call and Close panics too.  Close first: the consumer stays in the map
   for ever (finished goroutine, counter 1, the publisher keeps filling its queue).  StopConsume first:
   out of the map, counter 0. *)
Example close_before_stop_refuted :
  (let s := fst (lfrun false faults_refute_case (fun _ => ClosePanics)) in
   c_reg (s_cs s 0) = true /\ c_pc (s_cs s 0) = CDone /\ s_count s = 1%Z /\
   length (c_q (s_cs s 0)) = 2 /\ map p_id (c_out (s_cs s 0)) = [1%Z]) /\
  (let s := fst (lfrun false faults_refute_case (fun _ => CloseBlocks)) in
   c_reg (s_cs s 0) = true /\ s_count s = 1%Z /\ length (c_q (s_cs s 0)) = 2) /\
  (let s := fst (lfrun true faults_refute_case (fun _ => ClosePanics)) in
   c_reg (s_cs s 0) = false /\ c_pc (s_cs s 0) = CDone /\ s_count s = 0%Z /\ c_closes (s_cs s 0) = 1).
Proof. vm_compute. repeat split. Qed.

(* ---- the oracle of the fault cases ---- *)
Lemma dec_enc_consF : forall (sb : st rcache * (nat -> bool)) c,
  dec_cobs (enc_consF sb c) = dec_cobs (enc_cons (fst sb) c).
Proof. reflexivity. Qed.

Lemma dec_enc_obsF : forall n (sb : st rcache * (nat -> bool)),
  dec_obs (enc_stateF n sb) = obs_of_state n (fst sb).
Proof.
  intros n sb. rewrite <- dec_enc_obs. unfold dec_obs, enc_stateF, enc_state.
  f_equal. change (nthv 0 (VL (?a :: _))) with a. unfold vlist. cbn [as_list].
  rewrite !map_map. apply map_ext. intros c. apply dec_enc_consF.
Qed.

Lemma cobs_of_rel : forall b (s1 s2 : lstate) c,
  prel b (s_cs s1 c) (s_cs s2 c) -> s_att s1 c = s_att s2 c -> s_stp s1 c = s_stp s2 c ->
  cobs_of s1 c = cobs_of s2 c.
Proof.
  intros b s1 s2 c [Hc _] Ea Es. unfold cobs_of. rewrite Ea, Es.
  destruct (noq_fields _ _ (crel_fields _ _ Hc)) as (E1 & E2 & E3 & E4 & E5 & E6 & _).
  rewrite E1, E3, E4, E5, E6.
  destruct (c_reg (s_cs s2 c)) eqn:Hr; [|reflexivity].
  rewrite (crel_reg_true _ _ Hc Hr). reflexivity.
Qed.

Theorem faults_model_passes : forall (c : lcase) cm,
  l_var c = fixed -> ok_faults c (obs_of_state (l_n c) (fst (lfrun true c cm))) = true.
Proof.
  intros c cm Hv.
  pose proof (close_fault_invisible (l_maxq c) rcache (rc_empty (l_gop c)) rc_add rc_snap (l_n c)
                (pan c) cm (l_pkts c) (l_sched c) (stp c)) as [HS _].
  pose proof (lrun_fixed c Hv) as Hs.
  change (frun true (l_maxq c) rcache (rc_empty (l_gop c)) rc_add rc_snap (l_n c) (pan c) cm (l_sched c)
               (finit rcache (rc_empty (l_gop c)) (l_pkts c) (stp c))) with (lfrun true c cm) in HS.
  rewrite <- Hs in HS.
  assert (Eobs : obs_of_state (l_n c) (fst (lfrun true c cm)) = obs_of_state (l_n c) (lrun c)).
  { destruct HS as (A1 & A2 & A3 & A4 & A5 & A6 & A7 & A8 & A9 & A10 & A11 & A12 & A13).
    unfold obs_of_state. rewrite A1, A7, A8, A9, A10. f_equal.
    apply map_ext. intros x. eapply cobs_of_rel; [apply A13|apply A11|apply A12]. }
  rewrite Eobs. unfold ok_faults. rewrite (C04x_model_passes c Hv). cbn [andb].
  apply andb_true_iff. split.
  - (* Consumer.Close exactly once, by a finished goroutine *)
    unfold closes_ok, obs_of_state. cbn [o_cons]. apply forallb_map_seq. intros i Hi.
    unfold cobs_of. cbn [o_closes o_pc].
    pose proof (inv_reachable (l_maxq c) rcache (rc_empty (l_gop c)) rc_add rc_snap (l_n c) (pan c) 0
                  (l_pkts c) (l_sched c) (stp c)) as HI.
    rewrite <- Hs in HI. destruct HI as [_ _ HC]. destruct (HC i) as (H0 & _).
    destruct (ci_closes _ _ _ H0) as [Hc1 Hc2].
    destruct (c_pc (s_cs (lrun c) i)) eqn:Epc; cbn [cpc_code Z.eqb Pos.eqb];
      try (rewrite Hc2 by discriminate; reflexivity). rewrite Hc1 by reflexivity. reflexivity.
  - (* the counter *)
    pose proof (C03_model_passes c Hv) as H3. unfold ok_C03 in H3.
    apply andb_true_iff in H3. destruct H3 as [_ H3]. exact H3.
Qed.

Theorem faults_model_passes_on_the_wire : forall v,
  l_var (dec_lcase v) = fixed -> ok_faults (dec_lcase v) (dec_obs (faults_run v)) = true.
Proof.
  intros v Hv. unfold faults_run. rewrite dec_enc_obsF. now apply faults_model_passes.
Qed.
