(* C07 — the oracle theorem on the wire-level case record *)
From Coq Require Import ZArith List Bool Lia ZifyBool.
From V Require Import Val Bytes C06Rtp C06NalDepack C06H264Depack C06H265Depack C06AacDepack C06SyncClock C06Demux
  C07Cache C07Contain C07Proofs RunC06 RunC07.
Import ListNotations.
Open Scope Z_scope.

Theorem C07_model_passes_run : forall k, c07_wf k = true ->
  let '(fs, pn) := run_c07 k in ok_c07 k fs pn = true.
Proof.
  intros k WF. unfold c07_wf in WF. apply andb_true_iff in WF as [WF P]. apply andb_true_iff in WF as [EV OK].
  unfold run_c07, ok_c07, c07_all_events.
  destruct (s_pinned k) eqn:PN.
  - apply andb_true_iff in P as [U NZ].
    assert (NZ' : s_rt k <> 0) by lia.
    pose proof (model_passes_pinned (s_cd k) (s_clock k) (s_seq0 k) (s_k k) (s_rt k) (s_msw k) (s_lsw k)
                  (s_events k) (s_suffix k) U NZ' EV OK) as H.
    cbn [app].
    destruct (drun (s_cd k) (s_clock k) dst_init
                (ESr (sr_bytes (s_rt k) (s_msw k) (s_lsw k)) :: s_events k ++ suffix_events (s_cd k) (s_seq0 k) (s_k k) (s_suffix k)))
      as [[st fs] pn]. exact H.
  - pose proof (model_passes_unpinned (s_cd k) (s_clock k) (s_seq0 k) (s_k k) (s_events k) (s_suffix k) (s_rt k) EV OK) as H.
    cbn [app].
    destruct (drun (s_cd k) (s_clock k) dst_init (s_events k ++ suffix_events (s_cd k) (s_seq0 k) (s_k k) (s_suffix k)))
      as [[st fs] pn]. exact H.
Qed.

(* non-vacuity: garbage (an AP-looking packet cut after its size field, a lone
   end fragment, a short RTCP packet) followed by a fragmented unit *)
Definition nv7 : c07case :=
  {| s_cd := CH264; s_clock := 90000; s_cc := 0; s_seq0 := 65535; s_k := 3;
     s_pinned := true; s_rt := 1000; s_msw := 1; s_lsw := 2;
     s_events := [EData (mkP 7 5 false [120; 0; 1]); EData (mkP 9 5 true [124; 65; 1; 2]); ESr [128; 200; 0]];
     s_suffix := [IFrag 4000 true [101; 1; 2; 3; 4; 5] [2; 2]] |}.
Theorem C07_nonvacuous :
  c07_wf nv7 = true /\ run_c07 nv7 = ([mkO 0 533333333 [101; 1; 2; 3; 4; 5]], false).
Proof. vm_compute. split; reflexivity. Qed.

(* ---- converter oracles ---- *)
From V Require C08Flv C09Adts C09TsFrame.
From V Require Import C07Conv C07ConvProofs.

Theorem flvconv_model_passes c fs :
  hvcc_built c -> Forall oframe_ok fs ->
  flvconv_ok c fs true (Z.of_nat (length (C08Flv.mux_frames c (flv_in (zero_dts fs) fs)))) = true.
Proof.
  intros HB OK. unfold flvconv_ok.
  destruct (flv_run_total c HB (flv_in (zero_dts fs) fs) false (flv_in_ok _ _ OK)) as (b & T & ->).
  simpl. destruct (psets_known c); auto. apply Z.eqb_refl.
Qed.

Theorem tsconv_model_passes sps pps fs :
  Forall oframe_ok fs ->
  tsconv_ok sps pps fs true (Z.of_nat (length (ts_spec sps pps None (ts_in (zero_dts fs) fs)))) 0 = true.
Proof.
  intros OK. unfold tsconv_ok. rewrite (ts_run_spec sps pps None _ (ts_in_ok _ _ OK)).
  rewrite Z.eqb_refl. simpl. lia.
Qed.

(* known finding: a sender report arriving after media has started rebases the
   clock; a later frame (RTP timestamp 3600 ticks later) is presented ~6.6 hours earlier *)
Theorem sr_rebase_refuted :
  exists p1 p2 rt,
    p_ts p1 < p_ts p2 /\
    let '(_, fs, _) := drun CH264 90000 dst_init [EData p1; ESr (sr_bytes rt 0 0); EData p2] in
    match fs with
    | [a; b] => o_pts b < o_pts a
    | _ => False
    end.
Proof.
  exists (mkP 1 93600 true [65; 1; 2]), (mkP 2 97200 true [65; 3; 4]), 2147483648.
  vm_compute. split; reflexivity.
Qed.

(* ---- metadata clause of the stream oracle ---- *)
From V Require Import C07Meta C07MetaProofs.

Theorem meta_model_passes : forall c fs,
  meta_kept c (fs ++ meta_frames (meta_after c fs)) = true \/ exists o, In o fs /\ is_meta_frame o = true.
Proof.
  intros c fs. destruct (existsb is_meta_frame fs) eqn:E.
  - right. apply existsb_exists in E. exact E.
  - left. unfold meta_kept, meta_after.
    rewrite malformed_paramset_does_not_poison by (destruct c; reflexivity).
    rewrite filter_app.
    assert (F : filter is_meta_frame fs = []).
    { induction fs as [|o r IH]; simpl in *; auto. apply orb_false_iff in E as [E1 E2]. rewrite E1. auto. }
    rewrite F. destruct c; reflexivity.
Qed.
