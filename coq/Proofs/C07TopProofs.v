(* C07 — the oracle theorem on the wire-level case record *)
From Coq Require Import ZArith List Bool Lia ZifyBool.
From V Require Import Val Bytes C06Rtp C06NalDepack C06H264Depack C06H265Depack C06AacDepack C06SyncClock C06Demux
  C07Cache C07Contain C07Proofs RunC06 RunC07.
Import ListNotations.
Open Scope Z_scope.

Theorem C07_model_passes_run : forall k, c07_wf k = true ->
  let '(fs, pn) := run_c07 k in ok_c07 k fs pn = true.
Proof.
  intros k WF. unfold c07_wf in WF. apply andb_true_iff in WF as [WF P]. apply andb_true_iff in WF as [EV OK].
  unfold run_c07, ok_c07, c07_all_events.
  destruct (s_pinned k) eqn:PN.
  - apply andb_true_iff in P as [U NZ].
    assert (NZ' : s_rt k <> 0) by lia.
    pose proof (model_passes_pinned (s_cd k) (s_clock k) (s_seq0 k) (s_k k) (s_rt k) (s_msw k) (s_lsw k)
                  (s_events k) (s_suffix k) U NZ' EV OK) as H.
    cbn [app].
    destruct (drun (s_cd k) (s_clock k) dst_init
                (ESr (sr_bytes (s_rt k) (s_msw k) (s_lsw k)) :: s_events k ++ suffix_events (s_cd k) (s_seq0 k) (s_k k) (s_suffix k)))
      as [[st fs] pn]. exact H.
  - pose proof (model_passes_unpinned (s_cd k) (s_clock k) (s_seq0 k) (s_k k) (s_events k) (s_suffix k) (s_rt k) EV OK) as H.
    cbn [app].
    destruct (drun (s_cd k) (s_clock k) dst_init (s_events k ++ suffix_events (s_cd k) (s_seq0 k) (s_k k) (s_suffix k)))
      as [[st fs] pn]. exact H.
Qed.

(* non-vacuity: garbage (an AP-looking packet cut after its size field, a lone
   end fragment, a short RTCP packet) followed by a fragmented unit *)
Definition nv7 : c07case :=
  {| s_cd := CH264; s_clock := 90000; s_cc := 0; s_seq0 := 65535; s_k := 3;
     s_pinned := true; s_rt := 1000; s_msw := 1; s_lsw := 2;
     s_events := [EData (mkP 7 5 false [120; 0; 1]); EData (mkP 9 5 true [124; 65; 1; 2]); ESr [128; 200; 0]];
     s_suffix := [IFrag 4000 true [101; 1; 2; 3; 4; 5] [2; 2]] |}.
Theorem C07_nonvacuous :
  c07_wf nv7 = true /\ run_c07 nv7 = ([mkO 0 533333333 [101; 1; 2; 3; 4; 5]], false).
Proof. vm_compute. split; reflexivity. Qed.
