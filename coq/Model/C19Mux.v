(* C19: Listener.serve (listener.go) over the matchers registered by
   service.listen (service/service.go): rtsp.MatchRTSP() first, then
   listener.MatchHTTP(); each is MatchPrefix(table).matchPrefix =
   io.ReadFull(sniffer, maxDepth bytes) followed by the tree walk. *)
From Coq Require Import ZArith List Bool.
From V Require Import Bytes C19PTree C19Sniffer.
Import ListNotations.
Open Scope Z_scope.

(* -------- io.ReadFull / io.ReadAtLeast on the sniffing reader:
   for n < min && err == nil { nn, err = r.Read(buf[n:]); n += nn } *)
Inductive rfres := RFOk (d : bytes) (e : Z) (s : sniffer) | RFPanic | RFFuel.

Fixpoint read_full (fx : bool) (fuel : nat) (want : nat) (s : sniffer) : rfres :=
  match want with
  | O => RFOk [] 0 s
  | _ =>
      match fuel with
      | O => RFFuel
      | S f =>
          let (r, s1) := sniffer_read fx want s in
          match r with
          | RPanic => RFPanic
          | ROk d e =>
              if negb (Z.eqb e 0) || Nat.leb want (length d) then RFOk d e s1
              else match read_full fx f (want - length d) s1 with
                   | RFOk d2 e2 s2 => RFOk (d ++ d2) e2 s2
                   | other => other
                   end
          end
      end
  end.

(* every continuing iteration either gains a byte or uses up a script item *)
Definition rf_fuel (want : nat) (s : sniffer) : nat := (want + length (sn_src s) + 1)%nat.

(* -------- Listener.serve: the matchers in registration order *)
Inductive decision := DSvc (i : nat) | DNone | DPanic | DFuel.

Fixpoint try_matchers (fx : bool) (i : nat) (tables : list (list bytes)) (s : sniffer) : decision * sniffer :=
  match tables with
  | [] => (DNone, s)                                   (* c.Close(); ErrNotMatched *)
  | t :: ts =>
      let s1 := reset true s in                        (* muc.startSniffing() *)
      let depth := max_depth t in
      match read_full fx (rf_fuel depth s1) depth s1 with
      | RFOk seen _ s2 =>
          if tree_match_prefix t seen
          then (DSvc i, reset false s2)                (* muc.doneSniffing(); handed to listener i *)
          else try_matchers fx (S i) ts s2
      | RFPanic => (DPanic, s1)
      | RFFuel => (DFuel, s1)
      end
  end.

Definition mux_serve (fx : bool) (tables : list (list bytes)) (sc : script) : decision * sniffer :=
  try_matchers fx O tables (new_sniffer sc).

(* the connection's life: classification, then the chosen service reads *)
Definition mux_run (fx : bool) (tables : list (list bytes)) (sc : script) (svc : list nat)
  : decision * nat * list sres :=
  let (d, s) := mux_serve fx tables sc in
  match d with
  | DSvc _ => let (rs, _) := service_reads fx svc s in (d, remaining s, rs)
  | _ => (d, remaining s, [])
  end.

(* what the harness observes besides the decision: whether the listener closed
   the connection, and how many service queues received it *)
Definition dec_closed (d : decision) : bool := match d with DNone => true | _ => false end.
Definition dec_handed (d : decision) : nat := match d with DSvc _ => 1%nat | _ => O end.

(* -------- the tables registered in production *)
Definition str (s : list Z) : bytes := s.

Definition M_OPTIONS : bytes := [79;80;84;73;79;78;83].
Definition M_GET : bytes := [71;69;84].
Definition M_HEAD : bytes := [72;69;65;68].
Definition M_POST : bytes := [80;79;83;84].
Definition M_PATCH : bytes := [80;65;84;67;72].
Definition M_PUT : bytes := [80;85;84].
Definition M_DELETE : bytes := [68;69;76;69;84;69].
Definition M_TRACE : bytes := [84;82;65;67;69].
Definition M_CONNECT : bytes := [67;79;78;78;69;67;84].

Definition M_DESCRIBE : bytes := [68;69;83;67;82;73;66;69].
Definition M_ANNOUNCE : bytes := [65;78;78;79;85;78;67;69].
Definition M_SETUP : bytes := [83;69;84;85;80].
Definition M_PLAY : bytes := [80;76;65;89].
Definition M_PAUSE : bytes := [80;65;85;83;69].
Definition M_TEARDOWN : bytes := [84;69;65;82;68;79;87;78].
Definition M_GET_PARAMETER : bytes := [71;69;84;95;80;65;82;65;77;69;84;69;82].
Definition M_SET_PARAMETER : bytes := [83;69;84;95;80;65;82;65;77;69;84;69;82].
Definition M_RECORD : bytes := [82;69;67;79;82;68].
Definition M_REDIRECT : bytes := [82;69;68;73;82;69;67;84].

Definition SP : Z := 32.
Definition STAR : Z := 42.
Definition RTSP_UP : bytes := [82;84;83;80].          (* "RTSP" *)
Definition RTSP_LO : bytes := [114;116;115;112].      (* "rtsp" *)
Definition COLON_SS : bytes := [58;47;47].            (* "://" *)

(* rtsp.MatchRTSP(): "OPTIONS * RTSP", "OPTIONS * rtsp", "OPTIONS rtsp://", "OPTIONS RTSP://", the ten methods *)
Definition rtsp_table : list bytes :=
  [ M_OPTIONS ++ [SP; STAR; SP] ++ RTSP_UP;
    M_OPTIONS ++ [SP; STAR; SP] ++ RTSP_LO;
    M_OPTIONS ++ [SP] ++ RTSP_LO ++ COLON_SS;
    M_OPTIONS ++ [SP] ++ RTSP_UP ++ COLON_SS;
    M_DESCRIBE; M_ANNOUNCE; M_SETUP; M_PLAY; M_PAUSE; M_TEARDOWN;
    M_GET_PARAMETER; M_SET_PARAMETER; M_RECORD; M_REDIRECT ].

(* listener.MatchHTTP(): defaultHTTPMethods *)
Definition http_table : list bytes :=
  [ M_OPTIONS; M_GET; M_HEAD; M_POST; M_PATCH; M_PUT; M_DELETE; M_TRACE; M_CONNECT ].

(* service.listen: ServeAsync(rtsp.MatchRTSP(), …) then ServeAsync(listener.MatchHTTP(), …) *)
Definition prod_tables : list (list bytes) := [rtsp_table; http_table].
Definition SVC_RTSP : nat := 0%nat.
Definition SVC_HTTP : nat := 1%nat.

Definition rtsp_methods : list bytes :=
  [ M_DESCRIBE; M_ANNOUNCE; M_SETUP; M_PLAY; M_PAUSE; M_TEARDOWN;
    M_GET_PARAMETER; M_SET_PARAMETER; M_RECORD; M_REDIRECT ].
Definition http_methods_other : list bytes :=
  [ M_GET; M_HEAD; M_POST; M_PATCH; M_PUT; M_DELETE; M_TRACE; M_CONNECT ].

(* an OPTIONS request line is RTSP exactly when its target is "*" with an RTSP
   version, or an rtsp:// URL (either case of the four letters, as registered) *)
Definition options_is_rtsp (target version : bytes) : bool :=
  (bytes_eqb [STAR] target && (is_prefix RTSP_UP version || is_prefix RTSP_LO version))
  || is_prefix (RTSP_LO ++ COLON_SS) target || is_prefix (RTSP_UP ++ COLON_SS) target.
Definition CR : Z := 13.
Definition LF : Z := 10.
Definition no_sp (s : bytes) : bool := negb (existsb (Z.eqb SP) s).

(* -------- specification of the routing decision on the client's byte stream:
   the first registered table holding a string the stream starts with *)
Fixpoint classify_from (i : nat) (tables : list (list bytes)) (st : bytes) : decision :=
  match tables with
  | [] => DNone
  | t :: ts => if any_prefix t st then DSvc i else classify_from (S i) ts st
  end.
Definition classify (tables : list (list bytes)) (st : bytes) : decision := classify_from O tables st.

(* no read error before [n] bytes have been delivered, unless nothing more ever
   arrives after it (the peer has closed, or stays silent and the sniff
   deadline — which is not reset between matchers — keeps firing) *)
Fixpoint good (n : nat) (sc : script) : bool :=
  match sc with
  | [] => true
  | it :: sc' =>
      if Nat.leb n (length (it_data it)) then true
      else (Z.eqb (it_err it) 0 && good (n - length (it_data it)) sc') || is_nil (stream sc')
  end.

Definition max_depth_all (tables : list (list bytes)) : nat :=
  fold_right (fun t m => Nat.max (max_depth t) m) O tables.

Definition decision_eqb (a b : decision) : bool :=
  match a, b with
  | DSvc i, DSvc j => Nat.eqb i j
  | DNone, DNone => true
  | DPanic, DPanic => true
  | DFuel, DFuel => true
  | _, _ => false
  end.

(* soundness of a positive decision against the stream *)
Definition decision_sound (tables : list (list bytes)) (st : bytes) (d : decision) : bool :=
  match d with
  | DSvc i => match nth_error tables i with Some t => any_prefix t st | None => false end
  | DNone => true
  | _ => false
  end.

Definition tables_wf (tables : list (list bytes)) : bool := forallb (fun t => negb (is_nil t)) tables.

(* oracle for one connection served by the listener.
   [closed]: the listener closed the connection; [handed]: number of service
   queues that received it. *)
Definition ok_serve (tables : list (list bytes)) (sc : script) (svc : list nat)
                    (d : decision) (closed : bool) (handed : nat) (rem0 : nat) (rs : list sres) : bool :=
  decision_sound tables (stream sc) d
  && (if good (max_depth_all tables) sc then decision_eqb d (classify tables (stream sc)) else true)
  && match d with
     | DSvc _ => negb closed && Nat.eqb handed 1 && ok_service sc svc rem0 rs
     | DNone => closed && Nat.eqb handed 0
     | _ => false
     end.

(* -------- real loopback connections (stream "loop"): the client writes
   head ++ filler in any segmentation, then either half-closes or stays silent
   (the sniff timeout then fires when fewer than max_depth bytes have arrived).
   TCP delivers an arbitrary re-segmentation, so the prediction must not depend
   on it: MuxProofs.mux_classify shows it does not.  The filler is not shipped
   to the model; [loop_wf] makes the head alone decide. *)
Definition TIMEOUT : Z := 2.
Definition loop_script (head : bytes) (silent : bool) : script :=
  {| it_data := head; it_err := 0 |} :: (if silent then [{| it_data := []; it_err := TIMEOUT |}] else []).
(* byte counts of the loopback stream are binary integers: a 1 MiB count as a
   unary nat would be a million constructors deep *)
Definition loop_wf (head : bytes) (fill : Z) : bool :=
  Z.eqb fill 0 || Nat.leb (max_depth_all prod_tables) (length head).
Definition loop_run (head : bytes) (fill : Z) (silent : bool) : decision * nat * Z * bool :=
  let d := fst (mux_serve true prod_tables (loop_script head silent)) in
  match d with
  | DSvc _ => (d, 1%nat, zlen head + fill, true)
  | _ => (d, O, 0, true)
  end.
Definition ok_loop (head : bytes) (fill : Z) (silent : bool)
                   (d : decision) (handed : nat) (nrecv : Z) (eq : bool) : bool :=
  decision_eqb d (classify prod_tables head)
  && match d with
     | DSvc _ => Nat.eqb handed 1 && eq && Z.eqb nrecv (zlen head + fill)
     | DNone => Nat.eqb handed 0
     | _ => false
     end.
