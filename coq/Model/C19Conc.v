(* C19: several connections in the sniff phase at once.  Listener.Serve starts
   one goroutine per accepted connection; all of them walk the same registered
   matchers (immutable patricia trees).  Small-step model: one step = one
   sniffer.Read issued by io.ReadFull of one connection's current matcher, into
   that matcher call's read buffer at offset [c_n].  A schedule (list of
   connection indices) interleaves the steps of k connections.

   [shared = false]: `buf := make([]byte, t.maxDepth)` per matchPrefix call, as
   in /repo — the buffer is private to the connection ([c_buf]).
   [shared = true]: a variant in which the tree owns one buffer used by every
   call ([sb], one per registered table) — kept only to show what the
   independence theorem excludes (ConcProofs.shared_buffer_refuted). *)
From Coq Require Import ZArith List Bool.
From V Require Import Bytes C19PTree C19Sniffer C19Mux.
Import ListNotations.
Open Scope Z_scope.

Record conn := {
  c_sn : sniffer;
  c_i : nat;                    (* index of the matcher being tried *)
  c_rest : list (list bytes);   (* its table and the ones after it *)
  c_n : nat;                    (* ReadFull: bytes read so far *)
  c_buf : bytes;                (* the call's private read buffer *)
  c_dec : option decision
}.

(* copy(buf[off:], d) *)
Definition write_at (off : nat) (d : bytes) (buf : bytes) : bytes :=
  firstn off buf ++ d ++ skipn (off + length d) buf.

Definition zeros (n : nat) : bytes := repeat 0 n.

Fixpoint upd {A} (i : nat) (x : A) (l : list A) : list A :=
  match l, i with
  | [], _ => []
  | _ :: r, O => x :: r
  | y :: r, S j => y :: upd j x r
  end.

(* muc.startSniffing() and a fresh matcher call *)
Definition enter (i : nat) (tables : list (list bytes)) (s : sniffer) : conn :=
  {| c_sn := reset true s; c_i := i; c_rest := tables; c_n := O;
     c_buf := match tables with t :: _ => zeros (max_depth t) | [] => [] end;
     c_dec := None |}.

Definition conn_init (tables : list (list bytes)) (sc : script) : conn := enter O tables (new_sniffer sc).

Definition decided (c : conn) (d : decision) (s : sniffer) : conn :=
  {| c_sn := s; c_i := c_i c; c_rest := c_rest c; c_n := c_n c; c_buf := c_buf c; c_dec := Some d |}.

Definition conn_step (shared : bool) (sb : list bytes) (c : conn) : conn * list bytes :=
  match c_dec c with
  | Some _ => (c, sb)
  | None =>
      match c_rest c with
      | [] => (decided c DNone (c_sn c), sb)                 (* no matcher left: c.Close() *)
      | t :: ts =>
          let depth := max_depth t in
          let want := (depth - c_n c)%nat in
          let (r, s1) := sniffer_read true want (c_sn c) in
          match r with
          | RPanic => (decided c DPanic s1, sb)
          | ROk d e =>
              let buf := if shared then nth (c_i c) sb [] else c_buf c in
              let buf' := write_at (c_n c) d buf in
              let sb' := if shared then upd (c_i c) buf' sb else sb in
              let n' := (c_n c + length d)%nat in
              if negb (Z.eqb e 0) || Nat.leb want (length d) then
                (* ReadFull returns; match on buf[:n] *)
                if tree_match_prefix t (firstn n' buf')
                then (decided c (DSvc (c_i c)) (reset false s1), sb')
                else (enter (S (c_i c)) ts s1, sb')
              else
                ({| c_sn := s1; c_i := c_i c; c_rest := c_rest c; c_n := n'; c_buf := buf'; c_dec := None |}, sb')
          end
      end
  end.

Definition sys : Type := list conn * list bytes.

Definition sys_step (shared : bool) (st : sys) (j : nat) : sys :=
  match nth_error (fst st) j with
  | Some c => let (c', sb') := conn_step shared (snd st) c in (upd j c' (fst st), sb')
  | None => st
  end.

Definition run_sched (shared : bool) (st : sys) (sched : list nat) : sys := fold_left (sys_step shared) sched st.

Definition sys_init (tables : list (list bytes)) (scs : list script) : sys :=
  (map (conn_init tables) scs, map (fun t => zeros (max_depth t)) tables).

(* one connection on its own *)
Definition step1 (c : conn) : conn := fst (conn_step false [] c).
Fixpoint iter {A} (n : nat) (f : A -> A) (x : A) : A :=
  match n with O => x | S m => iter m f (f x) end.

Definition count_of (j : nat) (sched : list nat) : nat := length (filter (Nat.eqb j) sched).

(* correspondence stream "concurrent": per connection (script, service read sizes)
   and what was observed for it; the oracle is ok_serve on each connection's own bytes *)
Definition ok_conc (tables : list (list bytes))
  (conns : list (script * list nat))
  (obs : list (decision * bool * nat * nat * list sres)) : bool :=
  Nat.eqb (length conns) (length obs) &&
  forallb (fun co =>
             let '(sc, svc) := fst co in
             let '(d, closed, handed, rem0, rs) := snd co in
             ok_serve tables sc svc d closed handed rem0 rs)
          (combine conns obs).

Definition conc_run (tables : list (list bytes)) (conns : list (script * list nat))
  : list (decision * bool * nat * nat * list sres) :=
  map (fun c => let '(d, rem0, rs) := mux_run true tables (fst c) (snd c) in
                (d, dec_closed d, dec_handed d, rem0, rs)) conns.
