(* C02 — FLV late join next to other viewers.  The tags of a stream are shared objects: the same
   *flv.Tag sits in FlvCache's GOP queue, in the queue of every FLV consumer and in every
   late-joiner replay.  What a joiner is replayed must be a function of the PUBLISHED tags only —
   whatever the other consumers (real flv.Writer viewers that rebase timestamps onto their own time
   line) have done with those tags in the meantime.  This file: the events of the correspondence
   check, the model's prediction and the oracle.  In the model the viewers do not occur in the
   prediction at all; that this is right for the shared-reference world model of C08
   (Model/C08Fanout.v) is Proofs/C02FlvViewersProofs.v.  No proofs here. *)
From Coq Require Import ZArith List Bool.
From V Require Import StreamLts Cache C02Classify.
Import ListNotations.
Open Scope Z_scope.

Inductive vev :=
| VPub                    (* the next tag is published: CachePack, then pushed to every attached viewer *)
| VAttach                 (* a viewer (flv.Writer over a buffer) attaches: PushTo into its queue *)
| VView (j m : nat)       (* viewer j's routine writes up to m queued tags through its flv.Writer *)
| VJoin.                  (* the observed late joiner: PushTo into a fresh queue, contents recorded *)

Definition tagrec := (Z * Z * list Z)%type.     (* tagtype, timestamp, data *)

Definition data_of (tags : list tagrec) (id : Z) : list Z :=
  snd (nth (Z.to_nat id) tags (0, 0, [])).

(* what a joiner is replayed after the first n published tags: (index, timestamp, data) *)
Definition join_replay (gopon : bool) (tags : list tagrec) (n : nat) : list (Z * Z * list Z) :=
  let pre := firstn n tags in
  map (fun t => (t_id t, t_ts t, data_of tags (t_id t)))
      (flv_pushed gopon (flv_kinds pre) (flv_tss pre)).

(* the model: one replay per VJoin; only VPub moves the state *)
Fixpoint viewers_joins (gopon : bool) (tags : list tagrec) (n : nat) (evs : list vev)
  : list (list (Z * Z * list Z)) :=
  match evs with
  | [] => []
  | VPub :: r => viewers_joins gopon tags (if (n <? length tags)%nat then S n else n) r
  | VJoin :: r => join_replay gopon tags n :: viewers_joins gopon tags n r
  | _ :: r => viewers_joins gopon tags n r
  end.

(* oracle for one replay against the specification over the published prefix *)
Definition replay_ok (gopon : bool) (tags : list tagrec) (n : nat) (r : list (Z * Z * list Z)) : bool :=
  let pre := firstn n tags in
  flv_ok gopon pre (flv_kinds pre) (map (fun x => (fst (fst x), snd (fst x))) r) (flv_tss pre) &&
  forallb (fun x => zlist_eqb (snd x) (data_of tags (fst (fst x)))) r.

(* observed: for every VJoin the replay read at join time and read again at the very end (the
   tags are shared: a viewer that lags behind may touch them after the join), and the published
   tag objects (timestamp, data) read at the end *)
Fixpoint joins_ok (gopon : bool) (tags : list tagrec) (n : nat) (evs : list vev)
         (obs : list (list (Z * Z * list Z) * list (Z * Z * list Z))) : bool :=
  match evs with
  | [] => match obs with [] => true | _ => false end
  | VPub :: r => joins_ok gopon tags (if (n <? length tags)%nat then S n else n) r obs
  | VJoin :: r =>
      match obs with
      | (a, b) :: obs' => replay_ok gopon tags n a && replay_ok gopon tags n b && joins_ok gopon tags n r obs'
      | [] => false
      end
  | _ :: r => joins_ok gopon tags n r obs
  end.

Fixpoint origs_ok (tags : list tagrec) (origs : list (Z * list Z)) : bool :=
  match tags, origs with
  | [], [] => true
  | (_, ts, d) :: tags', (ots, od) :: origs' => (ts =? ots) && zlist_eqb d od && origs_ok tags' origs'
  | _, _ => false
  end.

Definition viewers_ok (gopon : bool) (tags : list tagrec) (evs : list vev)
           (ojoins : list (list (Z * Z * list Z) * list (Z * Z * list Z))) (oorigs : list (Z * list Z)) : bool :=
  joins_ok gopon tags O evs ojoins && origs_ok tags oorigs.
