(* C19: network/socket/listener/listener.go — Conn / sniffer.

   The raw connection is a *script*: a list of read results (data, err).  A
   Read(p) with len(p) > 0 takes the head item; if its data does not fit, the
   first len(p) bytes are returned with a nil error and the rest (with its
   error) stays at the head; otherwise (data, err) is returned and the item is
   gone.  An exhausted script answers (0, EOF) for ever.  This covers every
   segmentation of the client's writes (items with err = 0), a peer that closes
   (end of script), a read deadline that fires ((0, timeout) item), transports
   that return data together with an error (crypto/tls does, with EOF) and even
   the discouraged (0, nil).  A Read with len(p) = 0 returns (0, nil) and
   consumes nothing, as net.Conn does.

   [fx] selects the repaired ([true], the code in /repo after the `fix:` commit)
   or the original ([false]) treatment of [lastErr] on buffered reads. *)
From Coq Require Import ZArith List Bool.
From V Require Import Bytes C19PTree.
Import ListNotations.
Open Scope Z_scope.

Definition EOF : Z := 1.

Record item := { it_data : bytes; it_err : Z }.
Definition script := list item.
Definition stream (s : script) : bytes := flat_map it_data s.

Definition src_read (n : nat) (s : script) : bytes * Z * script :=
  match n with
  | O => ([], 0, s)
  | _ =>
      match s with
      | [] => ([], EOF, [])
      | it :: s' =>
          if Nat.leb (length (it_data it)) n then (it_data it, it_err it, s')
          else (firstn n (it_data it), 0,
                {| it_data := skipn n (it_data it); it_err := it_err it |} :: s')
      end
  end.

(* sniffer + the Conn.reader switch ([sn_direct]: reader == the raw net.Conn).
   bytes.Buffer is only ever written and sliced, never read from, so its Len()
   is [length sn_buf] and Cap() != 0 iff something was written since the last
   [bytes.Buffer{}], i.e. iff [sn_buf] is non-empty. *)
Record sniffer := {
  sn_src : script;
  sn_buf : bytes;
  sn_rd : nat;          (* bufferRead *)
  sn_size : nat;        (* bufferSize *)
  sn_sniffing : bool;
  sn_lasterr : Z;
  sn_direct : bool
}.

Definition new_sniffer (s : script) : sniffer :=
  {| sn_src := s; sn_buf := []; sn_rd := O; sn_size := O; sn_sniffing := false;
     sn_lasterr := 0; sn_direct := false |}.

Inductive rres := ROk (d : bytes) (e : Z) | RPanic.

(* sniffer.reset *)
Definition reset (snif : bool) (s : sniffer) : sniffer :=
  {| sn_src := sn_src s; sn_buf := sn_buf s; sn_rd := O; sn_size := length (sn_buf s);
     sn_sniffing := snif; sn_lasterr := sn_lasterr s; sn_direct := sn_direct s |}.

(* sniffer.Read *)
Definition sniffer_read (fx : bool) (n : nat) (s : sniffer) : rres * sniffer :=
  if Nat.ltb (sn_rd s) (sn_size s) then
    (* s.buffer.Bytes()[s.bufferRead:s.bufferSize] *)
    if Nat.leb (sn_size s) (length (sn_buf s)) then
      let avail := firstn (sn_size s - sn_rd s) (skipn (sn_rd s) (sn_buf s)) in
      let d := firstn n avail in
      let rd := (sn_rd s + length d)%nat in
      let e := if fx && Nat.ltb rd (sn_size s) then 0 else sn_lasterr s in
      (ROk d e,
       {| sn_src := sn_src s; sn_buf := sn_buf s; sn_rd := rd; sn_size := sn_size s;
          sn_sniffing := sn_sniffing s; sn_lasterr := sn_lasterr s; sn_direct := sn_direct s |})
    else (RPanic, s)
  else
    let drop := negb (sn_sniffing s) && negb (is_nil (sn_buf s)) in
    let buf1 := if drop then [] else sn_buf s in
    let direct1 := if drop then true else sn_direct s in
    let '(d, e, src') := src_read n (sn_src s) in
    if Nat.ltb 0 (length d) && sn_sniffing s then
      (ROk d e,
       {| sn_src := src'; sn_buf := buf1 ++ d; sn_rd := sn_rd s; sn_size := sn_size s;
          sn_sniffing := sn_sniffing s; sn_lasterr := e; sn_direct := direct1 |})
    else
      (ROk d e,
       {| sn_src := src'; sn_buf := buf1; sn_rd := sn_rd s; sn_size := sn_size s;
          sn_sniffing := sn_sniffing s; sn_lasterr := sn_lasterr s; sn_direct := direct1 |}).

(* Conn.Read: through the sniffer until the reader has been switched *)
Definition conn_read (fx : bool) (n : nat) (s : sniffer) : rres * sniffer :=
  if sn_direct s then
    let '(d, e, src') := src_read n (sn_src s) in
    (ROk d e,
     {| sn_src := src'; sn_buf := sn_buf s; sn_rd := sn_rd s; sn_size := sn_size s;
        sn_sniffing := sn_sniffing s; sn_lasterr := sn_lasterr s; sn_direct := true |})
  else sniffer_read fx n s.

(* bytes of the raw connection not yet pulled out of it *)
Definition remaining (s : sniffer) : nat := length (stream (sn_src s)).

(* a matcher: reads of arbitrary sizes on the reader returned by startSniffing *)
Fixpoint matcher_reads (fx : bool) (sizes : list nat) (s : sniffer) : list rres * sniffer :=
  match sizes with
  | [] => ([], s)
  | n :: sizes' =>
      let (r, s1) := sniffer_read fx n s in
      match r with
      | RPanic => ([RPanic], s1)
      | ROk _ _ => let (rs, s2) := matcher_reads fx sizes' s1 in (r :: rs, s2)
      end
  end.

Fixpoint sessions_run (fx : bool) (sessions : list (list nat)) (s : sniffer) : list (list rres) * sniffer :=
  match sessions with
  | [] => ([], s)
  | sz :: rest =>
      let (rs, s1) := matcher_reads fx sz (reset true s) in
      let (rss, s2) := sessions_run fx rest s1 in
      (rs :: rss, s2)
  end.

(* the service: reads of arbitrary sizes on the Conn; each observation also
   records how many bytes the raw connection still holds *)
Inductive sres := SOk (d : bytes) (e : Z) (rem : nat) | SPanic.

Fixpoint service_reads (fx : bool) (sizes : list nat) (s : sniffer) : list sres * sniffer :=
  match sizes with
  | [] => ([], s)
  | n :: sizes' =>
      let (r, s1) := conn_read fx n s in
      match r with
      | RPanic => ([SPanic], s1)
      | ROk d e => let (rs, s2) := service_reads fx sizes' s1 in (SOk d e (remaining s1) :: rs, s2)
      end
  end.

Definition sres_data (r : sres) : bytes := match r with SOk d _ _ => d | SPanic => [] end.
Definition delivered (rs : list sres) : bytes := flat_map sres_data rs.

(* bytes the sniffer still owes the service *)
Definition pending (s : sniffer) : bytes :=
  if sn_direct s then [] else firstn (sn_size s - sn_rd s) (skipn (sn_rd s) (sn_buf s)).

(* the whole life of one accepted connection as the listener drives it:
   sessions of matcher reads, doneSniffing, then the service *)
Definition sniff_run (fx : bool) (sc : script) (sessions : list (list nat)) (svc : list nat)
  : list (list rres) * nat * list sres * sniffer :=
  let (ms, s1) := sessions_run fx sessions (new_sniffer sc) in
  let s2 := reset false s1 in
  let (rs, s3) := service_reads fx svc s2 in
  (ms, remaining s2, rs, s3).

(* -------- oracle on what the service observed.
   total: length of the original stream; [dl]: bytes delivered so far;
   [pc]: bytes pulled from the raw connection before this read. *)
Fixpoint ok_reads (st : bytes) (dl pc : nat) (sizes : list nat) (rs : list sres) : bool :=
  match sizes, rs with
  | [], [] => true
  | n :: sizes', SOk d e rem :: rs' =>
      let consumed := (length st - rem)%nat in
      let dl' := (dl + length d)%nat in
      Nat.leb rem (length st)
      && Nat.leb (length d) n
      && is_prefix d (skipn dl st)                         (* in order, each byte once, nothing skipped *)
      && Nat.leb dl' consumed
      && (if Z.eqb e 0 then true else Nat.eqb dl' consumed) (* an error never overtakes sniffed data *)
      && (if Nat.ltb 0 n && Nat.ltb dl pc then Nat.ltb 0 (length d) else true)  (* withheld bytes come first *)
      && ok_reads st dl' consumed sizes' rs'
  | _, _ => false
  end.

(* -------- which errors the service may see while the sniffed bytes are replayed.
   [aerr sc k]: the error the raw connection returned *together with* the read
   whose last byte is byte k of the stream (0 when byte k is not the end of a
   read result, or came with a nil error).  Errors that came with no bytes at
   all — a sniff deadline that fired, an EOF — are attached to nothing. *)
Fixpoint aerr (sc : script) (k : nat) : Z :=
  match sc with
  | [] => 0
  | it :: sc' =>
      let l := length (it_data it) in
      if Nat.eqb k 0 then 0
      else if Nat.eqb l 0 then aerr sc' k
      else if Nat.ltb k l then 0
      else if Nat.eqb k l then it_err it
      else aerr sc' (k - l)
  end.

(* a read answered from the replay buffer (bytes were withheld: dl < pc) touches
   the raw connection not at all; it reports no error — except that the read
   which hands over the last sniffed byte may report the error that came with
   that byte.  In particular an error consumed during sniffing with no bytes (a
   deadline expiry followed by more data) is never replayed. *)
Fixpoint ok_errs (sc : script) (total dl pc : nat) (rs : list sres) : bool :=
  match rs with
  | [] => true
  | SOk d e rem :: rs' =>
      let consumed := (total - rem)%nat in
      let dl' := (dl + length d)%nat in
      (if Nat.ltb dl pc
       then Z.eqb e 0 || (Nat.eqb dl' consumed && Z.eqb e (aerr sc consumed))
       else true)
      && ok_errs sc total dl' consumed rs'
  | SPanic :: _ => false
  end.

(* errors of the reads that were answered from the replay buffer *)
Fixpoint replayed_errs (total dl pc : nat) (rs : list sres) : list Z :=
  match rs with
  | [] => []
  | SOk d e rem :: rs' =>
      (if Nat.ltb dl pc then [e] else []) ++ replayed_errs total (dl + length d) (total - rem) rs'
  | SPanic :: _ => []
  end.

(* every error of the script comes with no bytes (deadline expiries, plain EOF) *)
Definition data_errfree (sc : script) : bool :=
  forallb (fun it => is_nil (it_data it) || Z.eqb (it_err it) 0) sc.

Definition ok_service (sc : script) (svc : list nat) (rem0 : nat) (rs : list sres) : bool :=
  Nat.leb rem0 (length (stream sc)) &&
  ok_reads (stream sc) O (length (stream sc) - rem0) svc rs &&
  ok_errs sc (length (stream sc)) O (length (stream sc) - rem0) rs.

(* what a matcher saw in one session is a prefix of the stream *)
Definition rres_data (r : rres) : bytes := match r with ROk d _ => d | RPanic => [] end.
Definition session_seen (rs : list rres) : bytes := flat_map rres_data rs.
Definition no_rpanic (rs : list rres) : bool := forallb (fun r => match r with RPanic => false | _ => true end) rs.

Definition ok_sniff (sc : script) (sessions : list (list nat)) (svc : list nat)
                    (ms : list (list rres)) (rem0 : nat) (rs : list sres) : bool :=
  Nat.eqb (length ms) (length sessions)
  && forallb (fun m => no_rpanic m && is_prefix (session_seen m) (stream sc)) ms
  && ok_service sc svc rem0 rs.
