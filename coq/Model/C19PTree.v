(* C19: network/socket/listener/matcher.go — the immutable patricia tree behind
   MatchPrefix / MatchHTTP / rtsp.MatchRTSP.

   Go's [next map[byte]*ptNode] is an association list keyed by the first byte,
   in order of first occurrence (keys are distinct by construction, so the map's
   iteration order is irrelevant for lookups; the wire dump sorts by key).
   [newNode] recurses on the tails of the strings, so the model carries fuel;
   [new_tree] supplies [S (max_len strs)] = Go's [maxDepth], which is always
   enough (the out-of-fuel node is never built: PTreeProofs.new_node_fuel_irrelevant
   / the main theorem hold for that fuel without side conditions). *)
From Coq Require Import ZArith List Bool.
From V Require Import Bytes.
Import ListNotations.
Open Scope Z_scope.

Inductive ptnode := PT (prefix : bytes) (terminal : bool) (next : list (Z * ptnode)).

Definition pt_prefix (n : ptnode) : bytes := match n with PT p _ _ => p end.
Definition pt_terminal (n : ptnode) : bool := match n with PT _ t _ => t end.
Definition pt_next (n : ptnode) : list (Z * ptnode) := match n with PT _ _ x => x end.

Definition is_nil {A} (l : list A) : bool := match l with [] => true | _ => false end.

(* -------- splitPrefix *)
Definition hd_is (c : Z) (b : bytes) : bool :=
  match b with x :: _ => Z.eqb x c | [] => false end.

(* the [for i := 0; ; i++] loop: position i of the first string is common to
   all iff every other string has that byte there *)
Fixpoint lcp_all (first : bytes) (others : list bytes) : bytes :=
  match first with
  | [] => []
  | c :: f' => if forallb (hd_is c) others
               then c :: lcp_all f' (map (@tl Z) others)
               else []
  end.

Definition split_prefix (bss : list bytes) : bytes * list bytes :=
  match bss with
  | [] => ([], bss)
  | [] :: _ => ([], bss)
  | [b] => (b, [[]])
  | b :: others =>
      let p := lcp_all b others in
      (* rest = b[len(prefix):] for each b — in range because p is a prefix of
         every string (PTreeProofs.lcp_all_common) *)
      (p, map (skipn (length p)) bss)
  end.

(* -------- newNode *)
Fixpoint group_add (k : Z) (v : bytes) (g : list (Z * list bytes)) : list (Z * list bytes) :=
  match g with
  | [] => [(k, [v])]
  | (k', vs) :: g' => if Z.eqb k k' then (k', vs ++ [v]) :: g' else (k', vs) :: group_add k v g'
  end.

(* body of [for _, s := range strs] that fills [nexts] *)
Definition group_step (g : list (Z * list bytes)) (s : bytes) : list (Z * list bytes) :=
  match s with
  | [] => g
  | c :: s' => group_add c s' g
  end.

Definition groups (rest : list bytes) : list (Z * list bytes) := fold_left group_step rest [].

Definition has_empty (l : list bytes) : bool := existsb (@is_nil Z) l.

Definition max_len (strs : list bytes) : nat := fold_right (fun s m => Nat.max (length s) m) O strs.

Fixpoint new_node (fuel : nat) (strs : list bytes) : ptnode :=
  match strs with
  | [] => PT [] true []
  | [s] => PT s true []
  | _ =>
      match fuel with
      | O => PT [] false []      (* out of fuel; unreachable when max_len strs < fuel *)
      | S f =>
          let pr := split_prefix strs in
          PT (fst pr) (has_empty (snd pr))
             (map (fun kv => (fst kv, new_node f (snd kv))) (groups (snd pr)))
      end
  end.

(* newPatriciaTree: root and maxDepth *)
Definition max_depth (strs : list bytes) : nat := S (max_len strs).
Definition new_tree (strs : list bytes) : ptnode := new_node (max_depth strs) strs.

(* -------- ptNode.match *)
Fixpoint pt_match (n : ptnode) (b : bytes) (prefix : bool) {struct n} : bool :=
  match n with
  | PT p term next =>
      let l := Nat.min (length p) (length b) in
      (* b[:l] is in range since l <= len(b) *)
      if (Nat.ltb 0 (length p)) && negb (bytes_eqb (firstn l b) p) then false
      else if term && (prefix || Nat.eqb (length p) (length b)) then true
      else if Nat.leb (length b) l then false
      else match nth_error b l with          (* b[l], l < len(b) here *)
           | None => false
           | Some c =>
               (fix look (nx : list (Z * ptnode)) : bool :=
                  match nx with
                  | [] => false
                  | (k, ch) :: r => if Z.eqb k c then pt_match ch (skipn (S l) b) prefix else look r
                  end) next
           end
  end.

(* what the tree is for *)
Definition any_prefix (strs : list bytes) (b : bytes) : bool := existsb (fun s => is_prefix s b) strs.
Definition any_equal (strs : list bytes) (b : bytes) : bool := existsb (fun s => bytes_eqb s b) strs.

(* patriciaTree.matchPrefix on the bytes io.ReadFull obtained *)
Definition tree_match_prefix (strs : list bytes) (seen : bytes) : bool := pt_match (new_tree strs) seen true.

(* oracle for the direct tree stream: per input, (prefix-mode answer, exact-mode answer) *)
Definition ok_ptree (strs : list bytes) (inputs : list bytes) (obs : list (bool * bool)) : bool :=
  Nat.eqb (length inputs) (length obs) &&
  forallb (fun io => Bool.eqb (fst (snd io)) (is_nil strs || any_prefix strs (fst io))
                     && Bool.eqb (snd (snd io))
                                 (if is_nil strs then is_nil (fst io) else any_equal strs (fst io)))
          (combine inputs obs).

Definition run_ptree (strs : list bytes) (inputs : list bytes) : list (bool * bool) :=
  map (fun b => (pt_match (new_tree strs) b true, pt_match (new_tree strs) b false)) inputs.
