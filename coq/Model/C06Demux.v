(* C06 — the demuxer level (av/format/rtp/demuxer.go): packets of one medium on
   its RTP channel and RTCP sender reports on its control channel; frames get
   their presentation time from the synchronised clock.  Plus the top-level
   plan, its wire form (RTSP interleaved frames carrying RTP / RTCP, what
   rtp.ReadPacket parses), the specification under a loss pattern and the
   boolean oracles that are applied to the implementation.  No proofs here. *)
From Coq Require Import ZArith List Bool.
From V Require Import Val Bytes C06Rtp C06NalDepack C06H264Depack C06H265Depack C06AacDepack C06SyncClock.
Import ListNotations.
Open Scope Z_scope.

Inductive cd := CH264 | CH265 | CAAC.
Inductive ev := EData (p : packet) | ESr (data : bytes).

Record dst := mkD { d_g : gst; d_base : Z }.        (* depacketiser state, syncClock.RTPTime *)
Record oframe := mkO { o_mt : Z; o_pts : Z; o_pl : bytes }.

Definition mt_of (c : cd) : Z := match c with CAAC => 1 | _ => 0 end.   (* codec.MediaTypeVideo / Audio *)

Definition media_step (c : cd) (g : gst) (p : packet) : gst * res :=
  match c with
  | CH264 => gstep c264 g p
  | CH265 => gstep c265 g p
  | CAAC => (g, aac_step p)
  end.

Definition to_oframe (c : cd) (clock base : Z) (f : uframe) : oframe :=
  mkO (mt_of c) (pts_of clock base (u_ts f)) (u_pl f).

Definition dstep (c : cd) (clock : Z) (st : dst) (e : ev) : dst * list oframe * bool :=
  match e with
  | EData p =>
      let '(g', r) := media_step c (d_g st) p in
      (mkD g' (d_base st), map (to_oframe c clock (d_base st)) (res_frames r), is_rpanic r)
  | ESr data =>                                   (* depacketizer.Control *)
      if d_base st =? 0 then
        match sr_decode data with
        | CNo => (st, [], false)
        | CSet rt => (mkD (d_g st) rt, [], false)
        | CPanic => (st, [], true)
        end
      else (st, [], false)
  end.

Fixpoint drun (c : cd) (clock : Z) (st : dst) (es : list ev) : dst * list oframe * bool :=
  match es with
  | [] => (st, [], false)
  | e :: r =>
      match dstep c clock st e with
      | (st', fs, true) => (st', fs, true)
      | (st', fs, false) => let '(st'', fs', pn) := drun c clock st' r in (st'', fs ++ fs', pn)
      end
  end.

Definition dst_init : dst := mkD (mkG [] (mkW true true true true)) 0.

(* ---- plan ---- *)
Inductive titem := TData (it : item) | TSr (rt msw lsw : Z).

Definition SSRC : Z := 305419896.
Definition sr_bytes (rt msw lsw : Z) : bytes :=
  [128; 200; 0; 6] ++ be32 SSRC ++ be32 msw ++ be32 lsw ++ be32 rt ++ be32 0 ++ be32 0.

Definition data_pkts (c : cd) (seq0 k : Z) (it : item) : list packet :=
  match c with
  | CH264 => item_pkts z264 seq0 k it
  | CH265 => item_pkts z265 seq0 k it
  | CAAC => [aac_item_pkt seq0 k it]
  end.
Definition dnpk (c : cd) (it : item) : nat := match c with CAAC => 1%nat | _ => npk it end.
Definition tnpk (c : cd) (ti : titem) : nat := match ti with TData it => dnpk c it | TSr _ _ _ => 1%nat end.

Definition titem_evs (c : cd) (seq0 k : Z) (ti : titem) : list ev :=
  match ti with
  | TData it => map EData (data_pkts c seq0 k it)
  | TSr rt msw lsw => [ESr (sr_bytes rt msw lsw)]
  end.
(* RTCP packets do not consume RTP sequence numbers *)
Definition tadv (c : cd) (ti : titem) : Z := match ti with TData it => Z.of_nat (dnpk c it) | TSr _ _ _ => 0 end.

Fixpoint tevents (c : cd) (seq0 k : Z) (items : list titem) : list ev :=
  match items with
  | [] => []
  | ti :: r => titem_evs c seq0 k ti ++ tevents c seq0 (k + tadv c ti) r
  end.

(* ---- wire form ---- *)
Definition rtp_bytes (cc pt : Z) (p : packet) : bytes :=
  [128 + cc; (if p_mark p then 128 else 0) + pt] ++ be16 (p_seq p) ++ be32 (p_ts p) ++ be32 SSRC
  ++ flat_map (fun i => be32 (Z.of_nat i)) (seq 1 (Z.to_nat cc)) ++ p_pl p.
Definition interleaved (ch : Z) (b : bytes) : bytes := [36; ch] ++ be16 (zlen b) ++ b.
Definition ev_wire (c : cd) (cc : Z) (e : ev) : bytes :=
  match e with
  | EData p => interleaved (match c with CAAC => 2 | _ => 0 end) (rtp_bytes cc (match c with CAAC => 97 | _ => 96 end) p)
  | ESr d => interleaved (match c with CAAC => 3 | _ => 1 end) d
  end.

(* ---- specification ---- *)
(* the units of an item with their *unwrapped* RTP timestamps *)
Fixpoint aac_true_frames (ts : Z) (aus : list bytes) : list uframe :=
  match aus with [] => [] | au :: r => mkU ts au :: aac_true_frames (ts + 1024) r end.
Definition true_frames (c : cd) (it : item) : list uframe :=
  match c with
  | CH264 => filter (fun f => keep264 (u_pl f)) (map (mkU (item_ts it)) (item_units it))
  | CH265 => map (mkU (item_ts it)) (item_units it)
  | CAAC => aac_true_frames (item_ts it) (item_units it)
  end.

(* walk the plan with the loss mask: a surviving sender report sets the clock
   base while it is still 0; a data item yields its units iff all its packets survive *)
Fixpoint tspec (c : cd) (clock base : Z) (items : list titem) (mask : list bool) : list oframe :=
  match items with
  | [] => []
  | TSr rt _ _ :: r =>
      let base' := if all_true (firstn 1 mask) && (base =? 0) then rt else base in
      tspec c clock base' r (skipn 1 mask)
  | TData it :: r =>
      (if all_true (firstn (dnpk c it) mask) then map (to_oframe c clock base) (true_frames c it) else [])
      ++ tspec c clock base r (skipn (dnpk c it) mask)
  end.

(* The property wants ONE presentation clock per stream (differences of
   presentation times = differences of RTP timestamps).  The code takes the first
   sender report with a non-zero RTP time as clock base even when media is already
   flowing, which shifts every later frame (known finding pts-rebase-at-first-sr).
   The specification the implementation is judged by stamps ALL frames with the
   base in force at the end of the plan; it coincides with [tspec] when every
   sender report precedes the media ([sr_before_data], part of the guard). *)
Fixpoint final_base (c : cd) (base : Z) (items : list titem) (mask : list bool) : Z :=
  match items with
  | [] => base
  | TSr rt _ _ :: r =>
      final_base c (if all_true (firstn 1 mask) && (base =? 0) then rt else base) r (skipn 1 mask)
  | TData it :: r => final_base c base r (skipn (dnpk c it) mask)
  end.
Fixpoint tspec_fixed (c : cd) (clock b : Z) (items : list titem) (mask : list bool) : list oframe :=
  match items with
  | [] => []
  | TSr _ _ _ :: r => tspec_fixed c clock b r (skipn 1 mask)
  | TData it :: r =>
      (if all_true (firstn (dnpk c it) mask) then map (to_oframe c clock b) (true_frames c it) else [])
      ++ tspec_fixed c clock b r (skipn (dnpk c it) mask)
  end.
Definition tspec_one (c : cd) (clock : Z) (items : list titem) (mask : list bool) : list oframe :=
  tspec_fixed c clock (final_base c 0 items mask) items mask.
Fixpoint sr_before_data (seen_data : bool) (items : list titem) : bool :=
  match items with
  | [] => true
  | TSr _ _ _ :: r => negb seen_data && sr_before_data seen_data r
  | TData _ :: r => sr_before_data true r
  end.

Definition total_tpk (c : cd) (items : list titem) : nat :=
  fold_right (fun ti n => (tnpk c ti + n)%nat) 0%nat items.
Definition total_dpk (c : cd) (items : list titem) : Z :=
  fold_right (fun ti n => tadv c ti + n) 0 items.

(* guards *)
Definition u32 (x : Z) : bool := (0 <=? x) && (x <? 4294967296).
Definition data_ok (c : cd) (it : item) : bool :=
  match c with
  | CH264 => item_ok z264 it
  | CH265 => item_ok z265 it
  | CAAC => aac_item_ok it
  end.
(* no_ts_wrap: every unit's true timestamp is its 32-bit timestamp (D10) *)
Definition no_ts_wrap_item (c : cd) (it : item) : bool :=
  (0 <=? item_ts it) &&
  (match c with
   | CAAC => item_ts it + 1024 * Z.of_nat (length (item_units it)) <? 4294967296
   | _ => item_ts it <? 4294967296
   end).
Definition titem_ok (c : cd) (ti : titem) : bool :=
  match ti with
  | TData it => data_ok c it && no_ts_wrap_item c it
  | TSr rt msw lsw => u32 rt && u32 msw && u32 lsw
  end.
Definition case_wf (c : cd) (clock seq0 : Z) (items : list titem) (mask : list bool) : bool :=
  (0 <? clock) && (0 <=? seq0) && (seq0 <? 65536)
  && forallb (titem_ok c) items
  && Nat.eqb (length mask) (total_tpk c items)
  && (total_dpk c items <=? 65536)         (* distinct sequence numbers *)
  && sr_before_data false items.           (* one clock base for the whole stream *)

(* ---- oracles ---- *)
Definition oframe_eqb (a b : oframe) : bool :=
  Z.eqb (o_mt a) (o_mt b) && Z.eqb (o_pts a) (o_pts b) && bytes_eqb (o_pl a) (o_pl b).

(* loss mode: exact *)
Definition ok_loss (c : cd) (clock : Z) (items : list titem) (mask : list bool)
           (obs : list oframe) (dead : bool) : bool :=
  negb dead && list_eqb oframe_eqb obs (tspec_one c clock items mask).

(* rearrangement mode (reordering, duplication, loss): nothing spliced or
   invented — every frame is a source unit, stamped from its own RTP timestamp
   with one of the clock bases the stream announced *)
Definition plan_bases (items : list titem) : list Z :=
  0 :: flat_map (fun ti => match ti with TSr rt _ _ => [rt] | _ => [] end) items.
Definition plan_frames (c : cd) (items : list titem) : list uframe :=
  flat_map (fun ti => match ti with TData it => true_frames c it | _ => [] end) items.
Definition ok_pick (c : cd) (clock : Z) (items : list titem) (obs : list oframe) (dead : bool) : bool :=
  negb dead &&
  forallb (fun o => existsb (fun f => bytes_eqb (o_pl o) (u_pl f) && Z.eqb (o_mt o) (mt_of c) &&
                                      existsb (fun b => Z.eqb (o_pts o) (pts_of clock b (u_ts f))) (plan_bases items))
                            (plan_frames c items)) obs.
