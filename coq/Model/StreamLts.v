(* Labelled transition system for one media.Stream: publisher, closer, and per
   consumer an attacher (startConsume), an optional stopper (StopConsume) and
   the delivery goroutine (consumption.consume).  The atomic steps are exactly
   the code segments between the verifhook schedule points in
   media/stream.go, media/consumption.go, media/consumptions.go.  Shared by
   C01, C02, C03, C04.

   The [variant] record selects the code as it was before each repair
   (all false) or as it is now (all true); theorems are about [fixed], the
   [_refuted] examples about the older variants. *)
From Coq Require Import ZArith List Bool Arith.
Import ListNotations.

(* kind: 0 = not on the video channel (audio, RTCP), 1 = video, 2 = video starting a key frame,
   3 = SPS, 4 = PPS, 5 = VPS (for FLV: 3 = video sequence header, 4 = audio sequence header, 5 = metadata) *)
Record pkt := { p_id : Z; p_kind : Z }.
Definition p_key (p : pkt) : bool := Z.eqb (p_kind p) 2.

Record variant := {
  v_lock : bool;      (* join mutex around cache+broadcast and snapshot+register (D1) *)
  v_recheck : bool;   (* startConsume re-checks the stream status after Add (D2) *)
  v_push : bool;      (* consumption.Close wakes through Push(nil) instead of a bare Signal (D3) *)
  v_atomic : bool     (* Remove / RemoveAndCloseAll use LoadAndDelete and decrement per entry (D4) *)
}.
Definition fixed := {| v_lock := true; v_recheck := true; v_push := true; v_atomic := true |}.
Definition original := {| v_lock := false; v_recheck := false; v_push := false; v_atomic := false |}.

(* consumer goroutine: where it is parked / blocked *)
Inductive cpc :=
| CNone                       (* goroutine not started *)
| CPop                        (* parked at consume.pop: tested closed = false, about to Pop *)
| CGot (x : option pkt)       (* parked at consume.got: Pop returned x (None = nil pack) *)
| CWait                       (* blocked in sync.Cond.Wait inside Pop *)
| CExitLoaded                 (* deferred StopConsume: parked at remove.loaded *)
| CDone.                      (* goroutine finished; Consumer.Close called *)

Record cons := {
  c_reg : bool;               (* present in the consumptions map *)
  c_closed : bool;            (* consumption.closed *)
  c_q : list (option pkt);    (* recvQueue; None = nil element *)
  c_pc : cpc;
  c_out : list pkt;           (* handed to Consumer.Consume, oldest first *)
  c_disc : bool;              (* discarding *)
  c_closes : nat;             (* calls of Consumer.Close *)
  (* ghost history, not observable in the implementation *)
  c_pushed : list pkt;        (* every packet ever pushed to the queue, oldest first *)
  c_prefill : list pkt;       (* cache snapshot taken at attach *)
  c_regat : option nat;       (* length of the sent log when it was registered *)
  c_unregat : option nat;     (* length of the sent log when it was removed *)
  c_keep : list bool          (* own keep/drop decision for each packet broadcast while registered *)
}.

Definition cons0 : cons :=
  {| c_reg := false; c_closed := false; c_q := []; c_pc := CNone; c_out := []; c_disc := false;
     c_closes := 0; c_pushed := []; c_prefill := []; c_regat := None; c_unregat := None; c_keep := [] |}.

Inductive ppc := P0 | P1 | P1W | P2.          (* P1W: blocked in joinLock.Lock() *)
Inductive apc := A0 | A0W | A1 | A2 | ADone.  (* A0W: blocked in joinLock.Lock() *)
Inductive spc := S0 | S1 | SDone.
Inductive kpc := K0 | K1 | K2 | KDone.

Inductive tid := TPub | TClose | TAtt (c : nat) | TStop (c : nat) | TCons (c : nat).

Inductive holder := HPub | HAtt (c : nat).

Section Lts.
Variable V : variant.
Variable maxq : nat.                    (* maxQLen = 1000 in the code *)
(* the pack cache is abstract here: C02 instantiates it with the H.264/H.265/FLV caches *)
Variable cache_t : Type.
Variable cache_empty : cache_t.
Variable cache_add : cache_t -> pkt -> cache_t.
Variable cache_snap : cache_t -> list pkt.
Variable ncons : nat.
(* Consumer.Consume of consumer c panics on its n-th call (0 = never); the goroutine recovers,
   detaches and closes *)
Variable panic_at : nat -> nat.

Record st := {
  s_ok : bool;                 (* status == StreamOK *)
  s_lock : option holder;      (* join mutex: holder *)
  s_lockq : list holder;       (* goroutines blocked in Lock(), FIFO *)
  s_cache : cache_t;
  s_sent : list pkt;           (* packets whose broadcast completed, oldest first *)
  s_cached : list pkt;         (* packets handed to the cache, oldest first (ghost) *)
  s_todo : list pkt;           (* what the publisher will still write *)
  s_pp : ppc;
  s_count : Z;
  s_cs : nat -> cons;
  s_att : nat -> apc;
  s_stp : nat -> spc;
  s_kp : kpc
}.

Definition upd {A} (f : nat -> A) (c : nat) (v : A) : nat -> A :=
  fun c' => if Nat.eqb c c' then v else f c'.

Definition set_cs (s : st) (f : nat -> cons) : st :=
  {| s_ok := s_ok s; s_lock := s_lock s; s_lockq := s_lockq s; s_cache := s_cache s; s_sent := s_sent s; s_cached := s_cached s;
     s_todo := s_todo s; s_pp := s_pp s; s_count := s_count s; s_cs := f; s_att := s_att s;
     s_stp := s_stp s; s_kp := s_kp s |}.

(* ---- per-consumer operations ---- *)

(* a signal reaches the condition variable: a waiter resumes inside Pop, takes the
   head (nil when empty) and parks at consume.got *)
Definition wake (k : cons) : cons :=
  match c_pc k with
  | CWait =>
      match c_q k with
      | [] => {| c_reg := c_reg k; c_closed := c_closed k; c_q := []; c_pc := CGot None; c_out := c_out k;
                 c_disc := c_disc k; c_closes := c_closes k; c_pushed := c_pushed k; c_prefill := c_prefill k;
                 c_regat := c_regat k; c_unregat := c_unregat k; c_keep := c_keep k |}
      | x :: q' => {| c_reg := c_reg k; c_closed := c_closed k; c_q := q'; c_pc := CGot x; c_out := c_out k;
                 c_disc := c_disc k; c_closes := c_closes k; c_pushed := c_pushed k; c_prefill := c_prefill k;
                 c_regat := c_regat k; c_unregat := c_unregat k; c_keep := c_keep k |}
      end
  | _ => k
  end.

Definition push (k : cons) (x : option pkt) : cons :=
  wake {| c_reg := c_reg k; c_closed := c_closed k; c_q := c_q k ++ [x]; c_pc := c_pc k; c_out := c_out k;
          c_disc := c_disc k; c_closes := c_closes k;
          c_pushed := match x with Some p => c_pushed k ++ [p] | None => c_pushed k end;
          c_prefill := c_prefill k; c_regat := c_regat k; c_unregat := c_unregat k; c_keep := c_keep k |}.

(* consumption.send *)
Definition send (k : cons) (p : pkt) : cons :=
  let n := length (c_q k) in
  let d := if p_key p
           then (if c_disc k && (n <? maxq)%nat then false
                 else if negb (c_disc k) && (maxq <? n)%nat then true else c_disc k)
           else c_disc k in
  let k1 := {| c_reg := c_reg k; c_closed := c_closed k; c_q := c_q k; c_pc := c_pc k; c_out := c_out k;
               c_disc := d; c_closes := c_closes k; c_pushed := c_pushed k; c_prefill := c_prefill k;
               c_regat := c_regat k; c_unregat := c_unregat k; c_keep := c_keep k ++ [negb d] |} in
  if d then k1 else push k1 (Some p).

(* consumption.Close *)
Definition close_cons (k : cons) : cons :=
  if c_closed k then k else
  let k1 := {| c_reg := c_reg k; c_closed := true; c_q := c_q k; c_pc := c_pc k; c_out := c_out k;
               c_disc := c_disc k; c_closes := c_closes k; c_pushed := c_pushed k; c_prefill := c_prefill k;
               c_regat := c_regat k; c_unregat := c_unregat k; c_keep := c_keep k |} in
  if v_push V then push k1 None else wake k1.

Definition set_reg (k : cons) (b : bool) (sent : nat) : cons :=
  {| c_reg := b; c_closed := c_closed k; c_q := c_q k; c_pc := c_pc k; c_out := c_out k;
     c_disc := c_disc k; c_closes := c_closes k; c_pushed := c_pushed k; c_prefill := c_prefill k;
     c_regat := if b then Some sent else c_regat k;
     c_unregat := if b then c_unregat k else Some sent; c_keep := c_keep k |}.

Definition set_pc (k : cons) (pc : cpc) : cons :=
  {| c_reg := c_reg k; c_closed := c_closed k; c_q := c_q k; c_pc := pc; c_out := c_out k;
     c_disc := c_disc k; c_closes := c_closes k; c_pushed := c_pushed k; c_prefill := c_prefill k;
     c_regat := c_regat k; c_unregat := c_unregat k; c_keep := c_keep k |}.

(* the goroutine's deferred handler has finished: Consumer.Close called, queue reset *)
Definition finish (k : cons) : cons :=
  {| c_reg := c_reg k; c_closed := c_closed k; c_q := []; c_pc := CDone; c_out := c_out k;
     c_disc := c_disc k; c_closes := S (c_closes k); c_pushed := c_pushed k; c_prefill := c_prefill k;
     c_regat := c_regat k; c_unregat := c_unregat k; c_keep := c_keep k |}.

(* the loop test `for !c.closed`, then either the next parking point or the exit path.
   Returns the consumer and the change of the shared counter. *)
(* the deferred handler of consume(): StopConsume -> Remove: Load (or LoadAndDelete) *)
Definition exit_path (k : cons) (sent : nat) : cons :=
  if c_reg k then
    set_pc (if v_atomic V then set_reg k false sent else k) CExitLoaded
  else finish k.

Definition loop_test (k : cons) (sent : nat) : cons :=
  if c_closed k then exit_path k sent else set_pc k CPop.

(* ---- steps ---- *)
Fixpoint send_all (n : nat) (f : nat -> cons) (p : pkt) : nat -> cons :=
  match n with
  | O => f
  | S n' => let f' := send_all n' f p in
            if c_reg (f' n') then upd f' n' (send (f' n') p) else f'
  end.

Fixpoint sweep (n : nat) (f : nat -> cons) (sent : nat) : (nat -> cons) * Z :=
  match n with
  | O => (f, 0%Z)
  | S n' => let '(f', d) := sweep n' f sent in
            if c_reg (f' n') then (upd f' n' (close_cons (set_reg (f' n') false sent)), (d + 1)%Z)
            else (f', d)
  end.

Definition set_core (s : st) (lock : option holder) (lockq : list holder) (cache : cache_t)
           (cached : list pkt) (pp : ppc) (f : nat -> cons) (att : nat -> apc) : st :=
  {| s_ok := s_ok s; s_lock := lock; s_lockq := lockq; s_cache := cache; s_sent := s_sent s;
     s_cached := cached; s_todo := s_todo s; s_pp := pp; s_count := s_count s; s_cs := f; s_att := att;
     s_stp := s_stp s; s_kp := s_kp s |}.

(* what a goroutine does right after it obtained the join mutex, up to its next point *)
Definition after_acquire (s : st) (h : holder) (lockq : list holder) : st :=
  match h with
  | HPub =>
      match s_todo s with
      | p :: _ => set_core s (Some HPub) lockq (cache_add (s_cache s) p) (s_cached s ++ [p]) P2 (s_cs s) (s_att s)
      | [] => s
      end
  | HAtt c =>
      let k := s_cs s c in
      let pre := cache_snap (s_cache s) in
      let k1 := {| c_reg := c_reg k; c_closed := c_closed k; c_q := map Some pre; c_pc := c_pc k;
                   c_out := c_out k; c_disc := c_disc k; c_closes := c_closes k; c_pushed := pre;
                   c_prefill := pre; c_regat := c_regat k; c_unregat := c_unregat k; c_keep := c_keep k |} in
      set_core s (Some (HAtt c)) lockq (s_cache s) (s_cached s) (s_pp s) (upd (s_cs s) c k1) (upd (s_att s) c A1)
  end.

(* Lock(): enter the section or queue up behind the holder *)
Definition acquire (s : st) (h : holder) : st :=
  if v_lock V then
    match s_lock s with
    | None => after_acquire s h (s_lockq s)
    | Some _ =>
        match h with
        | HPub => set_core s (s_lock s) (s_lockq s ++ [h]) (s_cache s) (s_cached s) P1W (s_cs s) (s_att s)
        | HAtt c => set_core s (s_lock s) (s_lockq s ++ [h]) (s_cache s) (s_cached s) (s_pp s) (s_cs s)
                             (upd (s_att s) c A0W)
        end
    end
  else after_acquire (set_core s None [] (s_cache s) (s_cached s) (s_pp s) (s_cs s) (s_att s)) h [].

(* Unlock(): hand the mutex to the first waiter, which runs on to its next point *)
Definition release (s : st) : st :=
  if v_lock V then
    match s_lockq s with
    | [] => set_core s None [] (s_cache s) (s_cached s) (s_pp s) (s_cs s) (s_att s)
    | h :: rest => after_acquire s h rest
    end
  else set_core s None [] (s_cache s) (s_cached s) (s_pp s) (s_cs s) (s_att s).

Definition step_pub (s : st) : option st :=
  match s_pp s, s_todo s with
  | P0, p :: rest =>
      if s_ok s then
        Some {| s_ok := s_ok s; s_lock := s_lock s; s_lockq := s_lockq s; s_cache := s_cache s; s_sent := s_sent s;
                s_cached := s_cached s; s_todo := s_todo s; s_pp := P1; s_count := s_count s; s_cs := s_cs s;
                s_att := s_att s; s_stp := s_stp s; s_kp := s_kp s |}
      else
        Some {| s_ok := s_ok s; s_lock := s_lock s; s_lockq := s_lockq s; s_cache := s_cache s; s_sent := s_sent s;
                s_cached := s_cached s; s_todo := rest; s_pp := P0; s_count := s_count s; s_cs := s_cs s;
                s_att := s_att s; s_stp := s_stp s; s_kp := s_kp s |}
  | P1, _ :: _ => Some (acquire s HPub)
  | P2, p :: rest =>
      Some (release
        {| s_ok := s_ok s; s_lock := s_lock s; s_lockq := s_lockq s; s_cache := s_cache s;
           s_sent := s_sent s ++ [p]; s_cached := s_cached s; s_todo := rest; s_pp := P0;
           s_count := s_count s; s_cs := send_all ncons (s_cs s) p; s_att := s_att s;
           s_stp := s_stp s; s_kp := s_kp s |})
  | _, _ => None
  end.

Definition set_att (s : st) (c : nat) (a : apc) (count : Z) (f : nat -> cons) : st :=
  {| s_ok := s_ok s; s_lock := s_lock s; s_lockq := s_lockq s; s_cache := s_cache s; s_sent := s_sent s;
     s_cached := s_cached s; s_todo := s_todo s; s_pp := s_pp s; s_count := count; s_cs := f;
     s_att := upd (s_att s) c a; s_stp := s_stp s; s_kp := s_kp s |}.

Definition step_att (s : st) (c : nat) : option st :=
  let k := s_cs s c in
  match s_att s c with
  | A0 => Some (acquire s (HAtt c))
  | A0W => None
  | A1 =>
      Some (release (set_att s c A2 (s_count s + 1)%Z (upd (s_cs s) c (set_reg k true (length (s_sent s))))))
  | A2 =>
      (* re-check of the status (repair of D2), then `go c.consume()` which runs to its first point *)
      let '(k1, cnt) :=
        if v_recheck V && negb (s_ok s) && c_reg k
        then (close_cons (set_reg k false (length (s_sent s))), (s_count s - 1)%Z)
        else (k, s_count s) in
      Some (set_att s c ADone cnt (upd (s_cs s) c (loop_test k1 (length (s_sent s)))))
  | ADone => None
  end.

Definition set_stp (s : st) (c : nat) (a : spc) (count : Z) (f : nat -> cons) : st :=
  {| s_ok := s_ok s; s_lock := s_lock s; s_lockq := s_lockq s; s_cache := s_cache s; s_sent := s_sent s; s_cached := s_cached s;
     s_todo := s_todo s; s_pp := s_pp s; s_count := count; s_cs := f; s_att := s_att s;
     s_stp := upd (s_stp s) c a; s_kp := s_kp s |}.

(* Stream.StopConsume from outside (teardown, write error, admin) *)
Definition step_stop (s : st) (c : nat) : option st :=
  let k := s_cs s c in
  match s_stp s c with
  | S0 =>
      if c_reg k
      then Some (set_stp s c S1 (s_count s)
                   (upd (s_cs s) c (if v_atomic V then set_reg k false (length (s_sent s)) else k)))
      else Some (set_stp s c SDone (s_count s) (s_cs s))
  | S1 =>
      let k1 := if v_atomic V then k else set_reg k false (length (s_sent s)) in
      Some (set_stp s c SDone (s_count s - 1)%Z (upd (s_cs s) c (close_cons k1)))
  | SDone => None
  end.

Definition step_cons (s : st) (c : nat) : option st :=
  let k := s_cs s c in
  let sent := length (s_sent s) in
  match c_pc k with
  | CPop =>
      match c_q k with
      | [] => Some (set_cs s (upd (s_cs s) c (set_pc k CWait)))
      | x :: q' =>
          Some (set_cs s (upd (s_cs s) c
            {| c_reg := c_reg k; c_closed := c_closed k; c_q := q'; c_pc := CGot x; c_out := c_out k;
               c_disc := c_disc k; c_closes := c_closes k; c_pushed := c_pushed k; c_prefill := c_prefill k;
               c_regat := c_regat k; c_unregat := c_unregat k; c_keep := c_keep k |}))
      end
  | CGot (Some p) =>
      let k1 := {| c_reg := c_reg k; c_closed := c_closed k; c_q := c_q k; c_pc := c_pc k;
                   c_out := c_out k ++ [p]; c_disc := c_disc k; c_closes := c_closes k;
                   c_pushed := c_pushed k; c_prefill := c_prefill k; c_regat := c_regat k;
                   c_unregat := c_unregat k; c_keep := c_keep k |} in
      if Nat.eqb (S (length (c_out k))) (panic_at c)
      then Some (set_cs s (upd (s_cs s) c (exit_path k1 sent)))      (* Consume panicked: recovered, detach *)
      else Some (set_cs s (upd (s_cs s) c (loop_test k1 sent)))
  | CGot None => Some (set_cs s (upd (s_cs s) c (loop_test k sent)))
  | CExitLoaded =>
      let k1 := if v_atomic V then k else set_reg k false sent in
      Some (set_stp s c (s_stp s c) (s_count s - 1)%Z (upd (s_cs s) c (finish (close_cons k1))))
  | CNone | CWait | CDone => None
  end.

Definition step_close (s : st) : option st :=
  match s_kp s with
  | K0 =>
      Some {| s_ok := false; s_lock := s_lock s; s_lockq := s_lockq s; s_cache := s_cache s; s_sent := s_sent s; s_cached := s_cached s;
              s_todo := s_todo s; s_pp := s_pp s; s_count := s_count s; s_cs := s_cs s; s_att := s_att s;
              s_stp := s_stp s; s_kp := if s_ok s then K1 else KDone |}
  | K1 =>
      let '(f, d) := sweep ncons (s_cs s) (length (s_sent s)) in
      if v_atomic V then
        Some {| s_ok := s_ok s; s_lock := s_lock s; s_lockq := s_lockq s; s_cache := cache_empty; s_sent := s_sent s; s_cached := s_cached s;
                s_todo := s_todo s; s_pp := s_pp s; s_count := (s_count s - d)%Z; s_cs := f; s_att := s_att s;
                s_stp := s_stp s; s_kp := KDone |}
      else
        Some {| s_ok := s_ok s; s_lock := s_lock s; s_lockq := s_lockq s; s_cache := s_cache s; s_sent := s_sent s; s_cached := s_cached s;
                s_todo := s_todo s; s_pp := s_pp s; s_count := s_count s; s_cs := f; s_att := s_att s;
                s_stp := s_stp s; s_kp := K2 |}
  | K2 =>
      Some {| s_ok := s_ok s; s_lock := s_lock s; s_lockq := s_lockq s; s_cache := cache_empty; s_sent := s_sent s; s_cached := s_cached s;
              s_todo := s_todo s; s_pp := s_pp s; s_count := 0%Z; s_cs := s_cs s; s_att := s_att s;
              s_stp := s_stp s; s_kp := KDone |}
  | KDone => None
  end.

Definition step (s : st) (t : tid) : option st :=
  match t with
  | TPub => step_pub s
  | TClose => step_close s
  | TAtt c => if (c <? ncons)%nat then step_att s c else None
  | TStop c =>
      (* StopConsume needs the consumer id that StartConsume returned: a stop can only begin once the attach has returned *)
      if (c <? ncons)%nat then
        match s_att s c with ADone => step_stop s c | _ => None end
      else None
  | TCons c => if (c <? ncons)%nat then step_cons s c else None
  end.

(* disabled steps are skipped *)
Fixpoint run (sched : list tid) (s : st) : st :=
  match sched with
  | [] => s
  | t :: sched' => run sched' (match step s t with Some s' => s' | None => s end)
  end.

Definition init (pkts : list pkt) (stoppers : nat -> bool) : st :=
  {| s_ok := true; s_lock := None; s_lockq := []; s_cache := cache_empty; s_sent := []; s_cached := []; s_todo := pkts;
     s_pp := P0; s_count := 0%Z; s_cs := fun _ => cons0; s_att := fun _ => A0;
     s_stp := fun c => if stoppers c then S0 else SDone; s_kp := K0 |}.

End Lts.
