(* C18: the table managers under CONCURRENT use.  API calls are atomic steps (they
   run under the manager's lock); a Flush is split into its steps — dirty check and
   hand-over of table and lists to the provider / the provider writes the file (or
   fails) / the dirty lists are cleared — and the lock discipline decides which
   steps of other threads may come in between.  [VWhole] is the code as it is: the
   whole Flush under the write lock.  The other variants are the ways of getting
   it wrong that the check must notice.  An interleaving is a list of events, each
   enabled in the state it meets.  No proofs in this file. *)
From Coq Require Import ZArith List Bool.
From V Require Import Bytes C18Tables.
Import ListNotations.
Open Scope Z_scope.

Inductive variant :=
| VWhole        (* Lock(); check; provider.Flush; clear; Unlock()            — the code *)
| VNarrow       (* RLock(); check; provider.Flush; RUnlock(); Lock(); clear; Unlock() *)
| VClearFirst   (* Lock(); check; clear; provider.Flush; Unlock()                      *)
| VNoLock.      (* no lock at all around the Flush                                    *)

(* a Flush between its steps *)
Inductive fpc (E : Type) := FBegun (snap : list E) | FWritten.
Arguments FBegun {E}. Arguments FWritten {E}.

Inductive ev (X : Type) :=
| EOp (o : mop X)                 (* an API call, atomic: Save/Del/Get/All, a whole Flush, Reset *)
| EBegin (f : nat)                (* Flush of thread f: dirty check; table and lists go to the provider *)
| EWrite (f : nat) (ok : bool)    (* the provider replaces the file — or fails: Flush returns the error *)
| EClear (f : nat)                (* Flush f clears the dirty lists and returns *)
| ECrash.                         (* the process dies and the server restarts on what is on disk *)
Arguments EOp {X}. Arguments EBegin {X}. Arguments EWrite {X}. Arguments EClear {X}. Arguments ECrash {X}.

Record cstate (E : Type) := { c_st : mstate E; c_d : @disk E; c_fl : list (nat * fpc E) }.
Arguments c_st {E}. Arguments c_d {E}. Arguments c_fl {E}. Arguments Build_cstate {E}.

Section Conc.
  Context {E X : Type}.
  Variable M : tops E X.
  Variable V : variant.

  Fixpoint fl_get (f : nat) (l : list (nat * fpc E)) : option (fpc E) :=
    match l with
    | [] => None
    | (g, p) :: l' => if Nat.eqb f g then Some p else fl_get f l'
    end.
  Definition fl_del (f : nat) (l : list (nat * fpc E)) : list (nat * fpc E) :=
    filter (fun x => negb (Nat.eqb f (fst x))) l.
  Definition fl_set (f : nat) (p : fpc E) (l : list (nat * fpc E)) : list (nat * fpc E) :=
    (f, p) :: fl_del f l.
  Definition is_begun (x : nat * fpc E) : bool := match snd x with FBegun _ => true | FWritten => false end.
  Definition no_flusher (c : cstate E) : bool := match c_fl c with [] => true | _ => false end.
  Definition no_reader (c : cstate E) : bool := negb (existsb is_begun (c_fl c)).

  Definition is_query (o : mop X) : bool := match o with MGet _ | MAll => true | _ => false end.

  (* may an API call run now?  edits, Flush and Reset take the write lock, Get/All the read lock *)
  Definition op_enabled (c : cstate E) (o : mop X) : bool :=
    match V with
    | VWhole | VClearFirst => no_flusher c
    | VNarrow => if is_query o then true else no_reader c
    | VNoLock => true
    end.
  Definition begin_enabled (c : cstate E) (f : nat) : bool :=
    match fl_get f (c_fl c) with
    | Some _ => false
    | None => match V with
              | VWhole | VClearFirst => no_flusher c
              | VNarrow | VNoLock => true
              end
    end.
  Definition clear_enabled (c : cstate E) : bool :=
    match V with VNarrow => no_reader c | _ => true end.

  Definition cleared (st : mstate E) : mstate E := {| m_tab := m_tab st; m_saves := []; m_removes := [] |}.

  (* one step; None = not enabled (the thread waits); the output of an API call is returned *)
  Definition cstep (c : cstate E) (e : ev X) : option (cstate E * option (mout E)) :=
    match e with
    | EOp o =>
        if op_enabled c o then
          let '(sd, out) := mstep M (c_st c, c_d c) o in
          Some ({| c_st := fst sd; c_d := snd sd; c_fl := c_fl c |}, Some out)
        else None
    | EBegin f =>
        if begin_enabled c f then
          if pend_empty (c_st c) then Some (c, None)            (* nothing pending: Flush returns at once *)
          else Some ({| c_st := match V with VClearFirst => cleared (c_st c) | _ => c_st c end;
                        c_d := c_d c; c_fl := fl_set f (FBegun (m_tab (c_st c))) (c_fl c) |}, None)
        else None
    | EWrite f ok =>
        match fl_get f (c_fl c) with
        | Some (FBegun snap) =>
            (* without a lock the encoder reads the live table, not what it was handed *)
            let written := match V with VNoLock => m_tab (c_st c) | _ => snap end in
            if ok then
              match V with
              | VClearFirst => Some ({| c_st := c_st c; c_d := Some written; c_fl := fl_del f (c_fl c) |}, None)
              | _ => Some ({| c_st := c_st c; c_d := Some written; c_fl := fl_set f FWritten (c_fl c) |}, None)
              end
            else Some ({| c_st := c_st c; c_d := c_d c; c_fl := fl_del f (c_fl c) |}, None)
        | _ => None
        end
    | EClear f =>
        match fl_get f (c_fl c) with
        | Some FWritten =>
            if clear_enabled c
            then Some ({| c_st := cleared (c_st c); c_d := c_d c; c_fl := fl_del f (c_fl c) |}, None)
            else None
        | _ => None
        end
    | ECrash => Some ({| c_st := restart M (c_d c); c_d := c_d c; c_fl := [] |}, None)
    end.

  (* an interleaving: every event enabled where it occurs *)
  Fixpoint crun (c : cstate E) (es : list (ev X)) : option (cstate E) :=
    match es with
    | [] => Some c
    | e :: es' => match cstep c e with Some (c', _) => crun c' es' | None => None end
    end.

  Definition cstart : cstate E := {| c_st := restart M None; c_d := None; c_fl := [] |}.

  (* durability: whatever is not on disk is still recorded as pending *)
  Definition durable (c : cstate E) : Prop :=
    pend_empty (c_st c) = true -> load M (c_d c) = m_tab (c_st c).
  Definition durableb (c : cstate E) : bool :=
    negb (pend_empty (c_st c)) || tab_eqb M (load M (c_d c)) (m_tab (c_st c)).

  (* ---- the schedules the check replays on the real managers ----
     a Flush is started on its own goroutine and parks inside the provider; an API call issued
     meanwhile either runs at once or blocks until the Flush has returned *)
  Inductive sev :=
  | SOp (o : mop X)             (* an API call with no Flush in flight *)
  | SStart (ok : bool)          (* start a Flush whose provider will succeed / fail; it parks in the provider *)
  | SDuring (o : mop X)         (* an API call on another goroutine while the Flush is parked *)
  | SRelease.                   (* the provider proceeds; wait for the Flush and for the blocked call *)
  Inductive sout :=
  | OOp (o : mout E)
  | OStart (parked : bool)
  | ODuring (blocked : bool) (o : option (mout E))
  | ORelease (failed : bool) (o : option (mout E))
  | OSkip.

  Record rstate := { r_c : cstate E; r_ok : bool; r_def : option (mop X) }.

  Definition in_flight (c : cstate E) : bool := negb (no_flusher c).

  Definition sstep (r : rstate) (e : sev) : rstate * sout :=
    let c := r_c r in
    match e with
    | SOp o =>
        match cstep c (EOp o) with
        | Some (c', Some out) => ({| r_c := c'; r_ok := r_ok r; r_def := r_def r |}, OOp out)
        | _ => (r, OSkip)
        end
    | SStart ok =>
        match cstep c (EBegin O) with
        | Some (c', _) => ({| r_c := c'; r_ok := ok; r_def := None |}, OStart (in_flight c'))
        | None => (r, OSkip)
        end
    | SDuring o =>
        match cstep c (EOp o) with
        | Some (c', out) => ({| r_c := c'; r_ok := r_ok r; r_def := r_def r |}, ODuring false out)
        | None => match r_def r with
                  | None => ({| r_c := c; r_ok := r_ok r; r_def := Some o |}, ODuring true None)
                  | Some _ => (r, OSkip)
                  end
        end
    | SRelease =>
        if in_flight c then
          let c1 := match cstep c (EWrite O (r_ok r)) with Some (c', _) => c' | None => c end in
          let c2 := match cstep c1 (EClear O) with Some (c', _) => c' | None => c1 end in
          match r_def r with
          | Some o =>
              match cstep c2 (EOp o) with
              | Some (c3, out) => ({| r_c := c3; r_ok := true; r_def := None |}, ORelease (negb (r_ok r)) out)
              | None => ({| r_c := c2; r_ok := true; r_def := None |}, ORelease (negb (r_ok r)) None)
              end
          | None => ({| r_c := c2; r_ok := true; r_def := None |}, ORelease (negb (r_ok r)) None)
          end
        else (r, OSkip)
    end.

  Fixpoint srun (r : rstate) (es : list sev) : rstate * list sout :=
    match es with
    | [] => (r, [])
    | e :: es' => let '(r1, o) := sstep r e in let '(r2, os) := srun r1 es' in (r2, o :: os)
    end.

  Definition rstart : rstate := {| r_c := cstart; r_ok := true; r_def := None |}.

  (* the oracle: every API call is judged (ok_step) in the state in which the model runs it — in
     particular a Flush must leave a file that reads back as the table, and a restart with nothing
     pending must show the table the server had; whether a call blocked is compared, not judged *)
  Definition judge (c : cstate E) (o : mop X) (out : option (mout E)) : bool :=
    match out with Some x => ok_step M (c_st c, c_d c) o x | None => false end.

  Definition sok_step (r : rstate) (e : sev) (obs : sout) : bool :=
    let c := r_c r in
    match e, fst (sstep r e), obs with
    | SOp o, _, OOp out => if op_enabled c o then judge c o (Some out) else false
    | SOp o, _, OSkip => negb (op_enabled c o)
    | SStart _, _, OStart _ => true
    | SStart _, _, OSkip => true
    | SDuring o, _, ODuring _ out =>
        if op_enabled c o then judge c o out
        else match out with
             | None => true                                      (* it waits, as in the model *)
             | Some _ => if is_query o then judge c o out else true
                 (* it did not wait: whether a call blocks is compared with the model but not judged — a
                    query must still show the table; an edit that got in is judged by what the following
                    Flush and restart show *)
             end
    | SDuring _, _, OSkip => true
    | SRelease, r', ORelease _ out =>
        match r_def r with
        | Some o =>
            (* the state in which the deferred call ran: after write and clear *)
            let c1 := match cstep c (EWrite O (r_ok r)) with Some (c', _) => c' | None => c end in
            let c2 := match cstep c1 (EClear O) with Some (c', _) => c' | None => c1 end in
            match out with Some _ => judge c2 o out | None => true (* it ran earlier *) end
        | None => true
        end
    | SRelease, _, OSkip => true
    | _, _, _ => false
    end.

  Fixpoint sok (r : rstate) (es : list sev) (obs : list sout) : bool :=
    match es, obs with
    | [], [] => true
    | e :: es', o :: obs' => sok_step r e o && sok (fst (sstep r e)) es' obs'
    | _, _ => false
    end.
End Conc.
