(* C13: a published RTP packet is ONE object shared by every viewer's delivery goroutine and the stream's
   RTP->frame demuxer goroutine.  rtp.Packet.Write reads it twice: len(p.Data) for the `$ ch len` prefix
   (time t1), then p.Data for the body (time t2); the prefix write can block in between.  Writers.v treats a
   message as an immutable value; this file models what that rests on.  An execution is any sequence of
   operations (every interleaving of any number of writers and other goroutines).  No proofs here. *)
From Coq Require Import ZArith List Bool Arith.
From V Require Import Bytes.
Import ListNotations.

Inductive sop :=
| SLen (w i : nat)       (* writer w composes the prefix of packet i: reads len(p.Data) *)
| SBody (w : nat)        (* writer w reads p.Data again and the frame is out *)
| SRead (i : nat)        (* another goroutine (demuxer: Payload()) reads packet i and leaves it alone *)
| STrim (i n : nat).     (* another goroutine shortens packet i in place by n bytes (p.Data = p.Data[:len-n]) *)

Record sframe := { f_writer : nat; f_pkt : nat; f_len : nat; f_body : bytes }.

Record sstate := {
  s_store : nat -> bytes;                   (* the published packets, by identity *)
  s_hdr : nat -> option (nat * nat);        (* writer -> (packet, length announced in its prefix) *)
  s_out : list sframe
}.

Definition sinit (store : nat -> bytes) : sstate := {| s_store := store; s_hdr := fun _ => None; s_out := [] |}.

Definition updn {A} (f : nat -> A) (k : nat) (x : A) : nat -> A := fun k' => if Nat.eqb k' k then x else f k'.

Definition sstep (s : sstate) (o : sop) : sstate :=
  match o with
  | SLen w i => {| s_store := s_store s; s_hdr := updn (s_hdr s) w (Some (i, length (s_store s i))); s_out := s_out s |}
  | SBody w =>
      match s_hdr s w with
      | Some (i, l) => {| s_store := s_store s; s_hdr := updn (s_hdr s) w None;
                          s_out := s_out s ++ [{| f_writer := w; f_pkt := i; f_len := l; f_body := s_store s i |}] |}
      | None => s
      end
  | SRead _ => s
  | STrim i n => {| s_store := updn (s_store s) i (firstn (length (s_store s i) - n) (s_store s i));
                    s_hdr := s_hdr s; s_out := s_out s |}
  end.

Definition srun (ops : list sop) (s : sstate) : sstate := fold_left sstep ops s.

(* the discipline: nobody mutates a published packet *)
Definition packets_immutable (ops : list sop) : bool :=
  forallb (fun o => match o with STrim _ _ => false | _ => true end) ops.

(* the bytes of a frame on the wire, as a Writers message: prefix chunk, body chunk *)
Definition frame_msg (ch : Z) (l : nat) (body : bytes) : list bytes := [[36%Z; ch] ++ be16 (Z.of_nat l); body].

(* oracle: every emitted frame announces the length of its body and the body is the published packet *)
Definition ok_frames (pub : nat -> bytes) (out : list sframe) : bool :=
  forallb (fun f => Nat.eqb (f_len f) (length (f_body f)) && bytes_eqb (f_body f) (pub (f_pkt f))) out.

(* purity probe: after the history every published packet is what was published *)
Definition ok_pure (pub : list bytes) (after : list bytes) : bool :=
  Nat.eqb (length pub) (length after) && forallb (fun e => bytes_eqb (fst e) (snd e)) (combine pub after).
