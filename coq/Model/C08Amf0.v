(* C08 — AMF0 as emitted by av/format/amf for the FLV metadata tag: the value
   shapes the muxer writes (Number, Boolean, String / LongString inside one ECMA
   array), the encoder mirroring amf.WriteAny / WriteEcmaArray / writeUtf8, and an
   independent reader written from the AMF0 specification.  No proofs here. *)
From Coq Require Import ZArith List Bool.
From V Require Import Bytes.
Import ListNotations.
Open Scope Z_scope.

(* big-endian integers written with div/mod (friendly to lia) *)
Definition c08_be16 (v : Z) : bytes := [v / 256 mod 256; v mod 256].
Definition c08_be24 (v : Z) : bytes := [v / 65536 mod 256; v / 256 mod 256; v mod 256].
Definition c08_be32 (v : Z) : bytes :=
  [v / 16777216 mod 256; v / 65536 mod 256; v / 256 mod 256; v mod 256].
Definition c08_be64 (v : Z) : bytes := c08_be32 (v / 4294967296) ++ c08_be32 (v mod 4294967296).

(* reading n big-endian bytes off the front *)
Definition c08_rd (n : nat) (s : bytes) : option (Z * bytes) :=
  if (length s <? n)%nat then None else Some (be_decode (firstn n s), skipn n s).
(* reading n raw bytes off the front *)
Definition c08_rdn (n : Z) (s : bytes) : option (bytes * bytes) :=
  if (n <? 0) || (zlen s <? n) then None else Some (take n s, drop n s).

(* ---- values ---- *)
Inductive amfv : Type :=
| ANum (bits : Z)          (* IEEE-754 binary64 bit pattern, 0 <= bits < 2^64 *)
| ABool (b : bool)
| AStr (s : bytes).

Definition amfv_eqb (a b : amfv) : bool :=
  match a, b with
  | ANum x, ANum y => Z.eqb x y
  | ABool x, ABool y => Bool.eqb x y
  | AStr x, AStr y => bytes_eqb x y
  | _, _ => false
  end.

Definition amf_prop : Type := (bytes * amfv)%type.
Definition amf_prop_eqb (a b : amf_prop) : bool :=
  bytes_eqb (fst a) (fst b) && amfv_eqb (snd a) (snd b).

(* float64(int) for |n| < 2^53 (Go's conversion is exact there): the bit pattern *)
Definition f64_of_Z (n : Z) : Z :=
  if n =? 0 then 0 else
  let a := Z.abs n in
  let e := Z.log2 a in
  let m := if e <=? 52 then a * 2 ^ (52 - e) else a / 2 ^ (e - 52) in
  (if n <? 0 then 9223372036854775808 else 0) + (1023 + e) * 4503599627370496 + (m - 4503599627370496).

(* the integer a bit pattern denotes, when it denotes one (normal numbers and +-0) *)
Definition f64_to_Z (bits : Z) : option Z :=
  let sign := bits / 9223372036854775808 in
  let ex := bits / 4503599627370496 mod 2048 in
  let fr := bits mod 4503599627370496 in
  if (ex =? 0) then (if fr =? 0 then Some 0 else None)
  else if ex =? 2047 then None
  else
    let m := 4503599627370496 + fr in
    let e := ex - 1023 in
    let mag :=
      if 52 <=? e then Some (m * 2 ^ (e - 52))
      else if e <? 0 then None
      else if m mod 2 ^ (52 - e) =? 0 then Some (m / 2 ^ (52 - e)) else None in
    match mag with
    | Some v => Some (if sign =? 1 then - v else v)
    | None => None
    end.

(* ---- encoder (mirrors primitive.go / object.go / any.go) ---- *)
(* writeUtf8(w, s, 2): the low 16 bits of uint32(len) then the bytes *)
Definition amf_utf8 (s : bytes) : bytes := c08_be16 (zlen s mod 65536) ++ s.

Definition amf_enc (v : amfv) : bytes :=
  match v with
  | ANum b => 0 :: c08_be64 b
  | ABool b => [1; if b then 1 else 0]
  | AStr s => if 65535 <? zlen s then 12 :: c08_be32 (zlen s mod 4294967296) ++ s
              else 2 :: amf_utf8 s
  end.

Fixpoint amf_enc_props (l : list amf_prop) : bytes :=
  match l with
  | [] => []
  | (n, v) :: l' => amf_utf8 n ++ amf_enc v ++ amf_enc_props l'
  end.

Definition amf_enc_ecma (l : list amf_prop) : bytes :=
  8 :: c08_be32 (Z.of_nat (length l) mod 4294967296) ++ amf_enc_props l ++ [0; 0; 9].

(* ScriptData.Marshal: WriteString(name) then WriteAny(value) *)
Definition script_enc (name : bytes) (props : list amf_prop) : bytes :=
  (2 :: amf_utf8 name) ++ amf_enc_ecma props.

(* ---- independent reader (AMF0 spec: markers 0 number, 1 boolean, 2 string,
        8 ECMA array, 9 object end, 12 long string) ---- *)
Definition amf_rd_utf8 (s : bytes) : option (bytes * bytes) :=
  match c08_rd 2 s with
  | Some (l, r) => c08_rdn l r
  | None => None
  end.

Definition amf_parse_value (s : bytes) : option (amfv * bytes) :=
  match s with
  | [] => None
  | m :: r =>
      if m =? 0 then
        match c08_rd 8 r with Some (b, r') => Some (ANum b, r') | None => None end
      else if m =? 1 then
        match r with b :: r' => Some (ABool (negb (b =? 0)), r') | [] => None end
      else if m =? 2 then
        match amf_rd_utf8 r with Some (x, r') => Some (AStr x, r') | None => None end
      else if m =? 12 then
        match c08_rd 4 r with
        | Some (l, r') => match c08_rdn l r' with
                          | Some (x, r'') => Some (AStr x, r'')
                          | None => None
                          end
        | None => None
        end
      else None
  end.

Definition starts_with (b : Z) (s : bytes) : bool :=
  match s with x :: _ => x =? b | [] => false end.

(* properties up to the (empty name, object-end) terminator *)
Fixpoint amf_parse_props (fuel : nat) (s : bytes) : option (list amf_prop * bytes) :=
  match fuel with
  | O => None
  | S f =>
      match amf_rd_utf8 s with
      | None => None
      | Some (name, r) =>
          if starts_with 9 r then
            match name with [] => Some ([], tl r) | _ => None end
          else
            match amf_parse_value r with
            | None => None
            | Some (v, r') =>
                match amf_parse_props f r' with
                | None => None
                | Some (l, r'') => Some ((name, v) :: l, r'')
                end
            end
      end
  end.

(* a SCRIPTDATA body: String name, ECMA array whose count equals the number of
   properties, nothing after the terminator *)
Definition parse_script (s : bytes) : option (bytes * list amf_prop) :=
  if starts_with 2 s then
    match amf_rd_utf8 (tl s) with
    | Some (name, r0) =>
        if starts_with 8 r0 then
          match c08_rd 4 (tl r0) with
          | Some (cnt, r2) =>
              match amf_parse_props (S (length r2)) r2 with
              | Some (l, []) => if cnt =? Z.of_nat (length l) then Some (name, l) else None
              | _ => None
              end
          | None => None
          end
        else None
    | None => None
    end
  else None.

(* what is well-formed enough to survive a round trip *)
Definition amfv_wf (v : amfv) : bool :=
  match v with
  | ANum b => (0 <=? b) && (b <? 18446744073709551616)
  | ABool _ => true
  | AStr s => zlen s <? 4294967296
  end.
Definition amf_prop_wf (p : amf_prop) : bool :=
  (zlen (fst p) <? 65536) && amfv_wf (snd p).
