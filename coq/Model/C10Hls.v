(* C10 — HLS segmenter, playlist and segment store.
   Go: av/format/hls/{segmentgenerator,playlist,segment,segmentfile,aac_jitter}.go,
   fed by av/format/mpegts/{h264,aac}_packetizer.go.

   Executable model + specification predicates + boolean oracle.  No proofs here.

   The transport-stream bytes of a segment are an opaque function [tsw] of the
   list of frames written into it (the TS writer belongs to C09): a segment is
   its list of written frames [wframe].  Time is in 90 kHz ticks; the Go code's
   float64 durations are [ticks / 90000] and every float comparison is replaced
   by the equivalent integer comparison (justified in design/C10.md, validated
   by the correspondence on the boundary values); the "%.3f" text of a duration
   is modelled exactly (correctly rounded float64 division, then exact decimal
   rounding half-to-even as strconv does). *)
From Coq Require Import ZArith List Bool.
From V Require Import Val Bytes.
Import ListNotations.
Open Scope Z_scope.

(* ------------------------------------------------------------------ input *)
Inductive kind := KA | KK | KV.          (* AAC frame, IDR (key) video frame, other video frame *)
Record frame := { f_kind : kind; f_pts : Z; f_dts : Z; f_pay : bytes }.

Record cfg := {
  c_frag : Z;                 (* hlsFragment, seconds *)
  c_rate : Z;                 (* audio sample rate given to the segment generator *)
  c_mem : bool;               (* memory mode (segmentPath = "") *)
  c_copy : bool;              (* memorySegmentFile.get hands out a copy (the repaired code) *)
  c_path : bytes;             (* stream path *)
  c_sps : bytes; c_pps : bytes; (* the stream's parameter sets NOW: codec.VideoMeta.Sps/Pps, which the packetizer
                                   reads per frame and which the RTP depacketizer may fill in or change later *)
  c_pick : list Z -> nat      (* sync.Pool: which free buffer Get returns (out of range = a new one) *)
}.

Definition is_audio (k : kind) : bool := match k with KA => true | _ => false end.
Definition is_key (k : kind) : bool := match k with KK => true | _ => false end.
Definition kind_eqb (a b : kind) : bool :=
  match a, b with KA, KA => true | KK, KK => true | KV, KV => true | _, _ => false end.

(* ------------------------------------------------------------------ constants *)
Definition TICKS : Z := 90000.
Definition MIN_TICKS : Z := 9000.     (* hlsSegmentMinDurationMs: duration*1000 < 100  <->  ticks < 9000 *)
Definition AAC_DELAY : Z := 9000.     (* hlsAacDelay * 90 *)
Definition AAC_SYNC : Z := 9000.      (* hlsConfDefaultAacSync * 90 *)
Definition WINDOW : nat := 3.         (* hlsRemainSegments *)
Definition VPID : Z := 256.
Definition APID : Z := 257.

(* ------------------------------------------------------------------ elementary-stream headers
   (mpegts.Frame.prepareAvcHeader / prepareAacHeader for NAL types 1 and 5 and AAC-LC 44.1 kHz stereo) *)
Definition AUD : bytes := [0; 0; 0; 1; 9; 240].
Definition SC4 : bytes := [0; 0; 0; 1].
Definition SC3 : bytes := [0; 0; 1].
Definition opt_ps (ps : bytes) : bytes := match ps with [] => [] | _ => SC4 ++ ps end.
Definition key_header_ps (sps pps : bytes) : bytes := AUD ++ opt_ps sps ++ opt_ps pps ++ SC3.
Definition key_header (c : cfg) : bytes := key_header_ps (c_sps c) (c_pps c).
(* VideoMeta.Sps/Pps assigned (SDP sprop-parameter-sets absent: the depacketizer fills them from the stream) *)
Definition set_path (c : cfg) (path : bytes) : cfg :=
  {| c_frag := c_frag c; c_rate := c_rate c; c_mem := c_mem c; c_copy := c_copy c; c_path := path;
     c_sps := c_sps c; c_pps := c_pps c; c_pick := c_pick c |}.
Definition set_ps (c : cfg) (sps pps : bytes) : cfg :=
  {| c_frag := c_frag c; c_rate := c_rate c; c_mem := c_mem c; c_copy := c_copy c; c_path := c_path c;
     c_sps := sps; c_pps := pps; c_pick := c_pick c |}.
Definition video_header (c : cfg) (k : kind) : bytes :=
  match k with KK => key_header c | _ => AUD ++ SC3 end.
Definition adts (n : Z) : bytes :=
  let L := n + 7 in
  [255; 241; 80; 128 + (L / 2048) mod 4; (L / 8) mod 256; (L mod 8) * 32 + 31; 252].

(* ------------------------------------------------------------------ written frames, segments *)
Record wframe := {
  w_pid : Z; w_pts : Z; w_dts : Z; w_key : bool;
  w_es : bytes;              (* Header ++ Payload, the PES payload *)
  w_src : list frame;        (* the source frames it carries (several for an audio batch) *)
  w_sps : bytes; w_pps : bytes  (* ghost: the stream's parameter sets when the frame was packetized *)
}.

Record seg := {
  s_seq : Z; s_start : Z;
  s_dur : Z;                 (* duration in ticks: float64(s_dur)/90000 in Go *)
  s_hdr : bool;              (* isSequenceHeader *)
  s_aud : bool;              (* ghost: opened by the audio-driven reap *)
  s_frames : list wframe;
  s_buf : Z                  (* pooled buffer (memory mode) *)
}.

Record acache := { a_pts : Z; a_es : bytes; a_src : list frame }.

(* ghost: what the generator does to its store, in order.  In disk mode the store is the directory: files named
   murmur(path)_<n>.ts, which outlive the generator (see C10HlsDisk.v) *)
Inductive fev :=
| FOpen (n : Z)                 (* segmentFile.open of number n *)
| FWrite (n : Z) (w : wframe)   (* writeFrame *)
| FDelete (n : Z).              (* segmentFile.delete *)

Record st := {
  seqno : Z;
  cur : option seg;
  cache : option acache;
  jbase : Z; jn : Z;                       (* hlsAacJitter *)
  pl : list seg;                           (* Playlist.segments *)
  closed : list seg;                       (* ghost: every segment ever added to the playlist, oldest first *)
  dropped : list seg;                      (* ghost: segments discarded as too short *)
  free : list Z;                           (* segmentPool *)
  nextb : Z;
  layers : list (Z * list wframe);         (* earlier contents of each buffer, newest first *)
  fevs : list fev                          (* ghost: store events so far *)
}.

Definition init_free : st :=
  {| seqno := 0; cur := None; cache := None; jbase := 0; jn := 0; pl := []; closed := []; dropped := [];
     free := []; nextb := 0; layers := []; fevs := [] |}.

Fixpoint remove_nth {A} (n : nat) (l : list A) : list A :=
  match l, n with
  | [], _ => []
  | _ :: t, O => t
  | x :: t, S k => x :: remove_nth k t
  end.

(* segmentPool.Get *)
Definition alloc (c : cfg) (s : st) : Z * st :=
  match nth_error (free s) (c_pick c (free s)) with
  | Some b => (b, {| seqno := seqno s; cur := cur s; cache := cache s; jbase := jbase s; jn := jn s; pl := pl s;
                     closed := closed s; dropped := dropped s;
                     free := remove_nth (c_pick c (free s)) (free s); nextb := nextb s; layers := layers s; fevs := fevs s |})
  | None => (nextb s, {| seqno := seqno s; cur := cur s; cache := cache s; jbase := jbase s; jn := jn s; pl := pl s;
                     closed := closed s; dropped := dropped s;
                     free := free s; nextb := nextb s + 1; layers := layers s; fevs := fevs s |})
  end.

(* segmentFile.delete: the buffer goes back to the pool, its bytes stay in the backing array *)
Definition release (g : seg) (s : st) : st :=
  {| seqno := seqno s; cur := cur s; cache := cache s; jbase := jbase s; jn := jn s; pl := pl s;
     closed := closed s; dropped := dropped s;
     free := s_buf g :: free s; nextb := nextb s; layers := (s_buf g, s_frames g) :: layers s;
     fevs := fevs s ++ [FDelete (s_seq g)] |}.

Definition set_cur (o : option seg) (s : st) : st :=
  {| seqno := seqno s; cur := o; cache := cache s; jbase := jbase s; jn := jn s; pl := pl s;
     closed := closed s; dropped := dropped s; free := free s; nextb := nextb s; layers := layers s; fevs := fevs s |}.
Definition set_seqno (n : Z) (s : st) : st :=
  {| seqno := n; cur := cur s; cache := cache s; jbase := jbase s; jn := jn s; pl := pl s;
     closed := closed s; dropped := dropped s; free := free s; nextb := nextb s; layers := layers s; fevs := fevs s |}.
Definition set_cache (o : option acache) (s : st) : st :=
  {| seqno := seqno s; cur := cur s; cache := o; jbase := jbase s; jn := jn s; pl := pl s;
     closed := closed s; dropped := dropped s; free := free s; nextb := nextb s; layers := layers s; fevs := fevs s |}.
Definition set_jit (b n : Z) (s : st) : st :=
  {| seqno := seqno s; cur := cur s; cache := cache s; jbase := b; jn := n; pl := pl s;
     closed := closed s; dropped := dropped s; free := free s; nextb := nextb s; layers := layers s; fevs := fevs s |}.
Definition set_pl (l : list seg) (s : st) : st :=
  {| seqno := seqno s; cur := cur s; cache := cache s; jbase := jbase s; jn := jn s; pl := l;
     closed := closed s; dropped := dropped s; free := free s; nextb := nextb s; layers := layers s; fevs := fevs s |}.
Definition add_closed (g : seg) (s : st) : st :=
  {| seqno := seqno s; cur := cur s; cache := cache s; jbase := jbase s; jn := jn s; pl := pl s;
     closed := closed s ++ [g]; dropped := dropped s; free := free s; nextb := nextb s; layers := layers s; fevs := fevs s |}.
Definition add_fev (e : fev) (s : st) : st :=
  {| seqno := seqno s; cur := cur s; cache := cache s; jbase := jbase s; jn := jn s; pl := pl s;
     closed := closed s; dropped := dropped s; free := free s; nextb := nextb s; layers := layers s;
     fevs := fevs s ++ [e] |}.
Definition add_dropped (g : seg) (s : st) : st :=
  {| seqno := seqno s; cur := cur s; cache := cache s; jbase := jbase s; jn := jn s; pl := pl s;
     closed := closed s; dropped := dropped s ++ [g]; free := free s; nextb := nextb s; layers := layers s; fevs := fevs s |}.

(* segmentOpen *)
Definition segment_open (c : cfg) (start : Z) (hdr by_audio : bool) (s : st) : st :=
  match cur s with
  | Some _ => s
  | None =>
      let n := seqno s + 1 in
      let '(b, s1) := alloc c s in
      add_fev (FOpen n)
        (set_cur (Some {| s_seq := n; s_start := start; s_dur := 0; s_hdr := hdr; s_aud := by_audio;
                          s_frames := []; s_buf := b |}) (set_seqno n s1))
  end.

(* NewSegmentGenerator *)
Definition init (c : cfg) : st := segment_open c 0 true false init_free.

(* segment.updateDuration + segmentFile.writeFrame *)
Definition seg_write (w : wframe) (g : seg) : seg :=
  {| s_seq := s_seq g; s_start := s_start g;
     s_dur := if w_pts w <? s_start g then s_dur g else w_pts w - s_start g;
     s_hdr := s_hdr g; s_aud := s_aud g; s_frames := s_frames g ++ [w]; s_buf := s_buf g |}.

Definition flush_frame (w : wframe) (s : st) : st :=
  match cur s with
  | Some g => add_fev (FWrite (s_seq g) w) (set_cur (Some (seg_write w g)) s)
  | None => s                                           (* nil dereference in Go; unreachable, see cur_open *)
  end.

Definition cache_frame (a : acache) : wframe :=
  {| w_pid := APID; w_pts := a_pts a; w_dts := a_pts a; w_key := false; w_es := a_es a; w_src := a_src a;
     w_sps := []; w_pps := [] |}.

Definition flush_cache (s : st) : st :=
  match cache s with
  | None => s
  | Some a => set_cache None (flush_frame (cache_frame a) s)
  end.

(* Playlist.clearSegments(remain) on the list after append *)
Fixpoint release_all (l : list seg) (s : st) : st :=
  match l with [] => s | g :: t => release_all t (release g s) end.

Definition clear_segments (remain : nat) (s : st) : st :=
  let n := length (pl s) in
  if (remain <? n)%nat then
    let k := (n - remain)%nat in
    set_pl (skipn k (pl s)) (release_all (firstn k (pl s)) s)
  else s.

Definition add_segment (g : seg) (s : st) : st :=
  clear_segments WINDOW (set_pl (pl s ++ [g]) (add_closed g s)).

(* segmentClose *)
Definition segment_close (s : st) : st :=
  match cur s with
  | None => s
  | Some g =>
      let s1 := set_cur None s in
      if s_dur g <? MIN_TICKS
      then add_dropped g (release g (set_seqno (seqno s1 - 1) s1))
      else add_segment g s1
  end.

(* reapSegment *)
Definition reap (c : cfg) (start : Z) (by_audio : bool) (s : st) : st :=
  flush_cache (segment_open c start false by_audio (segment_close s)).

Definition cur_dur (s : st) : Z := match cur s with Some g => s_dur g | None => 0 end.
(* isSegmentOverflow / isSegmentAbsolutelyOverflow: duration >= float64(n)  <->  ticks >= 90000 n *)
Definition overflow (c : cfg) (s : st) : bool := TICKS * c_frag c <=? cur_dur s.
Definition abs_overflow (c : cfg) (s : st) : bool :=
  match cur s with None => true | Some g => TICKS * (2 * c_frag c) <=? s_dur g end.

(* hlsAacJitter.onBufferStart; Go's integer division truncates (all operands are non-negative here) *)
Definition jitter_start (c : cfg) (pts : Z) (s : st) : Z * st :=
  let est := jbase s + Z.quot (jn s * 90000 * 1024) (c_rate c) in
  let d := est - pts in
  if (d <=? AAC_SYNC) && (- AAC_SYNC <=? d)
  then (est, set_jit (jbase s) (jn s + 1) s)
  else (pts, set_jit pts 1 s).

Definition video_frame (c : cfg) (f : frame) : wframe :=
  {| w_pid := VPID; w_pts := f_pts f; w_dts := f_dts f; w_key := is_key (f_kind f);
     w_es := video_header c (f_kind f) ++ f_pay f; w_src := [f]; w_sps := c_sps c; w_pps := c_pps c |}.

(* SegmentGenerator.WriteMpegtsFrame *)
Definition write_frame (c : cfg) (f : frame) (s : st) : st :=
  match cur s with
  | None => s
  | Some _ =>
      match f_pay f with
      | [] => s
      | _ =>
          if is_audio (f_kind f) then
            let h := adts (zlen (f_pay f)) in
            let '(a, s1) :=
              match cache s with
              | None =>
                  let '(p, s0) := jitter_start c (f_pts f) s in
                  let a := {| a_pts := p; a_es := h ++ f_pay f; a_src := [f] |} in
                  (a, set_cache (Some a) s0)
              | Some a0 =>
                  let a := {| a_pts := a_pts a0; a_es := a_es a0 ++ h ++ f_pay f; a_src := a_src a0 ++ [f] |} in
                  (a, set_cache (Some a) (set_jit (jbase s) (jn s + 1) s))
              end in
            if AAC_DELAY <? f_pts f - a_pts a then flush_cache s1
            else if abs_overflow c s1 then reap c (f_pts f) true s1
            else s1
          else
            let s1 := if is_key (f_kind f) && overflow c s then reap c (f_pts f) false s else s in
            flush_frame (video_frame c f) s1
      end
  end.

(* SegmentGenerator.Close then Playlist.Close *)
Definition close_all (s : st) : st :=
  let s1 := match cur s with
            | None => s
            | Some g => release g (set_cur None s)
            end in
  clear_segments 0 s1.

(* ------------------------------------------------------------------ serving *)
Fixpoint find_seg (seq : Z) (l : list seg) : option seg :=
  match l with
  | [] => None
  | g :: t => if s_seq g =? seq then Some g else find_seg seq t
  end.

(* what Segment(seq) returns: a private copy / an open file (RCopy), or a view of the pooled buffer *)
Inductive reader :=
| RCopy (fs : list wframe)
| RAlias (buf : Z) (fs : list wframe).

Definition fetch (c : cfg) (seq : Z) (s : st) : option reader :=
  match find_seg seq (pl s) with
  | None => None
  | Some g => Some (if c_mem c && negb (c_copy c) then RAlias (s_buf g) (s_frames g) else RCopy (s_frames g))
  end.

(* bytes in the backing array of buffer [b]: every write starts at offset 0 after Reset, so a newer
   content overlays the older one (no reallocation: contents stay below the 512 KiB capacity) *)
Definition overlay (new old : bytes) : bytes := new ++ skipn (length new) old.

Section Bytes.
  Variable tsw : list wframe -> bytes.       (* mpegts.Writer: header + packets of the frames (C09) *)

  Fixpoint backing (b : Z) (l : list (Z * list wframe)) : bytes :=
    match l with
    | [] => []
    | (b', fs) :: t => if b' =? b then overlay (tsw fs) (backing b t) else backing b t
    end.

  Definition owner (b : Z) (s : st) : option seg :=
    match find (fun g => s_buf g =? b) (pl s) with
    | Some g => Some g
    | None => match cur s with
              | Some g => if s_buf g =? b then Some g else None
              | None => None
              end
    end.

  Definition buffer_bytes (b : Z) (s : st) : bytes :=
    match owner b s with
    | Some g => overlay (tsw (s_frames g)) (backing b (layers s))
    | None => backing b (layers s)
    end.

  (* io.ReadAll on the reader, in state [s] *)
  Definition read_bytes (r : reader) (s : st) : bytes :=
    match r with
    | RCopy fs => tsw fs
    | RAlias b fs => firstn (length (tsw fs)) (buffer_bytes b s)
    end.
End Bytes.

(* ------------------------------------------------------------------ float64 and "%.3f" *)
(* correctly rounded quotient: round-half-even of a/b for b > 0, a >= 0 *)
Definition rne_div (a b : Z) : Z :=
  let q := a / b in let r := a mod b in
  if 2 * r <? b then q else if b <? 2 * r then q + 1 else if Z.even q then q else q + 1.

(* float64(x)/90000.0 for 0 < x < 2^53 as mantissa/2^k with 2^52 <= mantissa <= 2^53 *)
Definition fl_div90k (x : Z) : Z * Z :=
  if x <=? 0 then (0, 0) else
  let k0 := 69 - Z.log2 x in
  let k := if 2 ^ 53 <=? Z.shiftl x k0 / TICKS then k0 - 1 else k0 in
  (rne_div (Z.shiftl x k) TICKS, k).

(* the number of thousandths "%.3f" prints for float64(x)/90000 *)
Definition millis (x : Z) : Z :=
  let '(m, k) := fl_div90k x in
  if k <=? 0 then m * 1000 * 2 ^ (- k) else rne_div (m * 1000) (2 ^ k).

Fixpoint dec_fuel (fuel : nat) (n : Z) (acc : bytes) : bytes :=
  match fuel with
  | O => acc
  | S k => let acc' := (48 + n mod 10) :: acc in
           if n / 10 =? 0 then acc' else dec_fuel k (n / 10) acc'
  end.
(* strconv.Itoa / %d (|n| < 10^60) *)
Definition dec (n : Z) : bytes := if n <? 0 then 45 :: dec_fuel 60 (- n) [] else dec_fuel 60 n [].
Definition dec3 (n : Z) : bytes := [48 + (n / 100) mod 10; 48 + (n / 10) mod 10; 48 + n mod 10].
(* "%.3f" from thousandths *)
Definition fmt_millis (ms : Z) : bytes := dec (ms / 1000) ++ [46] ++ dec3 (ms mod 1000).

(* ------------------------------------------------------------------ the playlist *)
Record entry := { e_disc : bool; e_ms : Z; e_uri : bytes; e_tok : bytes }.
Record plview := { v_target : Z; v_mseq : Z; v_entries : list entry }.

Definition str (s : list Z) : bytes := s.
Definition S_STREAMS : bytes := [47; 115; 116; 114; 101; 97; 109; 115].         (* "/streams" *)
Definition S_TS : bytes := [46; 116; 115].                                        (* ".ts" *)
Definition S_TOKEN : bytes := [63; 116; 111; 107; 101; 110; 61].                  (* "?token=" *)
Definition S_HEAD : bytes :=   (* "#EXTM3U\n#EXT-X-VERSION:3\n#EXT-X-ALLOW-CACHE:NO\n#EXT-X-TARGETDURATION:" *)
  [35;69;88;84;77;51;85;10;35;69;88;84;45;88;45;86;69;82;83;73;79;78;58;51;10;35;69;88;84;45;88;45;65;76;76;79;87;45;
   67;65;67;72;69;58;78;79;10;35;69;88;84;45;88;45;84;65;82;71;69;84;68;85;82;65;84;73;79;78;58].
Definition S_MSEQ : bytes :=   (* "\n#EXT-X-MEDIA-SEQUENCE:" *)
  [10;35;69;88;84;45;88;45;77;69;68;73;65;45;83;69;81;85;69;78;67;69;58].
Definition S_DISC : bytes :=   (* "#EXT-X-DISCONTINUITY\n" *)
  [35;69;88;84;45;88;45;68;73;83;67;79;78;84;73;78;85;73;84;89;10].
Definition S_INF : bytes := [35;69;88;84;73;78;70;58].                            (* "#EXTINF:" *)

Definition seg_uri (c : cfg) (seq : Z) : bytes := S_STREAMS ++ c_path c ++ [47] ++ dec seq ++ S_TS.

Definition max_dur (l : list seg) : Z := fold_left (fun m g => if m <? s_dur g then s_dur g else m) l 0.

Definition entry_of (c : cfg) (tok : bytes) (g : seg) : entry :=
  {| e_disc := s_hdr g; e_ms := millis (s_dur g); e_uri := seg_uri c (s_seq g); e_tok := tok |}.

(* Playlist.M3u8: None = "playlist is not enough" *)
Definition m3u8 (c : cfg) (tok : bytes) (s : st) : option plview :=
  match pl s with
  | g0 :: _ =>
      if (length (pl s) <? WINDOW)%nat then None else
      Some {| v_target := max_dur (pl s) / TICKS + 1;      (* int32(maxDuration + 1) *)
              v_mseq := s_seq g0;
              v_entries := map (entry_of c tok) (pl s) |}
  | [] => None
  end.

Definition render_entry (e : entry) : bytes :=
  (if e_disc e then S_DISC else []) ++ S_INF ++ fmt_millis (e_ms e) ++ [44; 10] ++ e_uri e ++
  (match e_tok e with [] => [] | t => S_TOKEN ++ t end) ++ [10].

Definition render (v : plview) : bytes :=
  S_HEAD ++ dec (v_target v) ++ S_MSEQ ++ dec (v_mseq v) ++ [10; 10] ++ flat_map render_entry (v_entries v).

(* the playlist as lines; [render] is these lines, each followed by LF (render_lines in the proofs) *)
Definition L_EXTM3U : bytes := [35;69;88;84;77;51;85].
Definition L_VERSION : bytes := [35;69;88;84;45;88;45;86;69;82;83;73;79;78;58;51].
Definition L_CACHE : bytes := [35;69;88;84;45;88;45;65;76;76;79;87;45;67;65;67;72;69;58;78;79].
Definition L_TARGET : bytes := [35;69;88;84;45;88;45;84;65;82;71;69;84;68;85;82;65;84;73;79;78;58].
Definition L_MSEQ : bytes := [35;69;88;84;45;88;45;77;69;68;73;65;45;83;69;81;85;69;78;67;69;58].
Definition L_DISC : bytes := [35;69;88;84;45;88;45;68;73;83;67;79;78;84;73;78;85;73;84;89].
Definition tok_suffix (tok : bytes) : bytes := match tok with [] => [] | t => S_TOKEN ++ t end.
Definition entry_lines (e : entry) : list bytes :=
  (if e_disc e then [L_DISC] else []) ++ [S_INF ++ fmt_millis (e_ms e) ++ [44]; e_uri e ++ tok_suffix (e_tok e)].
Definition view_lines (v : plview) : list bytes :=
  [L_EXTM3U; L_VERSION; L_CACHE; L_TARGET ++ dec (v_target v); L_MSEQ ++ dec (v_mseq v); []] ++
  flat_map entry_lines (v_entries v).
Definition unlines (ls : list bytes) : bytes := flat_map (fun l => l ++ [10]) ls.

(* reading a playlist the way a player does, independently of how it was produced: the lines that are neither empty
   nor tags/comments ('#') are the URIs *)
Definition no_lf (s : bytes) : bool := forallb (fun b => negb (b =? 10)) s.
Definition is_uri_line (l : bytes) : bool := match l with [] => false | b :: _ => negb (b =? 35) end.
Definition uri_lines (raw : bytes) : list bytes := filter is_uri_line (split_on 10 raw).
(* what the URI line for number [seq] must be, byte for byte, for the caller's token *)
Definition uri_line (c : cfg) (tok : bytes) (seq : Z) : bytes := seg_uri c seq ++ tok_suffix tok.

(* ------------------------------------------------------------------ histories *)
Inductive op :=
| OFrame (f : frame)
| OFetch (seq : Z)            (* Segment(seq): keep the reader *)
| ORead (h : Z)               (* read the h-th kept reader to the end *)
| OPlGet (tok : bytes)        (* M3u8(tok): keep the returned slice *)
| OPlRead (h : Z)             (* look at the h-th kept slice again *)
| OClose
| OSetPs (sps pps : bytes)    (* the stream's SPS/PPS become known / change: vm.Sps, vm.Pps assigned *)
| ONewGen (lf : list (Z * bytes)).
  (* a new generation of the stream: the running generator/playlist is abandoned as it is (a history that wants a
     clean end puts OClose first), files [lf] (number, content) appear in the storage directory (whatever an
     earlier run under the same path left behind), then NewPlaylist + NewSegmentGenerator for the same path *)

(* what a segment read yields, at the frame level: the harness demultiplexes the bytes *)
Record segobs := { g_ok : bool;           (* well-formed TS, advertised size = bytes read, re-muxing the frames gives the same bytes *)
                   g_frames : list wframe (* w_src is not observable: [] *) }.

Inductive opres :=
| RNone
| RFetch (ok : bool)
| RRead (o : option segobs)
| RPlGet (ok : bool)
| RPlRead (o : option bytes).

Record sobs := {
  o_pl : option (plview * bytes);    (* M3u8(default token): parsed view and the raw text *)
  o_live : list Z;                   (* the sequence numbers Segment resolves, ascending *)
  o_files : list Z;                  (* disk mode: sequence numbers of the .ts files present, ascending *)
  o_new : list (Z * segobs);         (* content of the segments that became resolvable at this step *)
  o_res : opres
}.

Definition strip (w : wframe) : wframe :=
  {| w_pid := w_pid w; w_pts := w_pts w; w_dts := w_dts w; w_key := w_key w; w_es := w_es w; w_src := [];
     w_sps := []; w_pps := [] |}.
Definition obs_of_frames (fs : list wframe) : segobs := {| g_ok := true; g_frames := map strip fs |}.

(* run state: generator/playlist, kept readers, kept playlist slices, default token *)
Record rst := { r_st : st; r_readers : list reader; r_pls : list bytes; r_prev : list Z;
                r_left : list Z  (* disk mode: numbers of the files in the directory when this generation began *) }.

Fixpoint insert_sorted (x : Z) (l : list Z) : list Z :=
  match l with [] => [x] | y :: t => if x <=? y then x :: l else y :: insert_sorted x t end.
Definition sort_z (l : list Z) : list Z := fold_right insert_sorted [] l.
Definition mem_z (x : Z) (l : list Z) : bool := existsb (Z.eqb x) l.

Definition live_seqs (s : st) : list Z := map s_seq (pl s).
Definition file_seqs (c : cfg) (s : st) : list Z :=
  if c_mem c then [] else
  sort_z (live_seqs s ++ match cur s with Some g => [s_seq g] | None => [] end).

(* the directory: this generation's own files plus what was there before and has not been reached yet.  A
   generation opens the numbers 1, 2, ... [seqno] (opening truncates or creates; what it opened it later deletes
   itself), so an earlier file survives exactly while its number is above [seqno] *)
Definition dedup_z (l : list Z) : list Z := fold_right (fun x acc => if mem_z x acc then acc else x :: acc) [] l.
Definition dir_seqs (c : cfg) (lf : list Z) (s : st) : list Z :=
  if c_mem c then [] else
  sort_z (live_seqs s ++ match cur s with Some g => [s_seq g] | None => [] end) ++
  filter (fun n => seqno s <? n) lf.

Definition nth_z {A} (l : list A) (h : Z) : option A := if h <? 0 then None else nth_error l (Z.to_nat h).

(* readers handed out by the model are always copies in the configurations the correspondence runs
   (disk mode, or memory mode with the repaired get()); an aliasing reader has no frame-level reading *)
Definition read_frames (r : reader) : option segobs :=
  match r with RCopy fs => Some (obs_of_frames fs) | RAlias _ _ => None end.

Definition step (c : cfg) (dtok : bytes) (r : rst) (o : op) : rst * sobs :=
  let '(s', readers', pls', res) :=
    match o with
    | OFrame f => (write_frame c f (r_st r), r_readers r, r_pls r, RNone)
    | OFetch seq =>
        match fetch c seq (r_st r) with
        | Some rd => (r_st r, r_readers r ++ [rd], r_pls r, RFetch true)
        | None => (r_st r, r_readers r, r_pls r, RFetch false)
        end
    | ORead h =>
        (r_st r, r_readers r, r_pls r,
         RRead (match nth_z (r_readers r) h with Some rd => read_frames rd | None => None end))
    | OPlGet tok =>
        match m3u8 c tok (r_st r) with
        | Some v => (r_st r, r_readers r, r_pls r ++ [render v], RPlGet true)
        | None => (r_st r, r_readers r, r_pls r, RPlGet false)
        end
    | OPlRead h => (r_st r, r_readers r, r_pls r, RPlRead (nth_z (r_pls r) h))
    | OClose => (close_all (r_st r), r_readers r, r_pls r, RNone)
    | OSetPs _ _ => (r_st r, r_readers r, r_pls r, RNone)
    | ONewGen _ => (init c, [], r_pls r, RNone)
    end in
  let live := live_seqs s' in
  let newsegs := filter (fun g => negb (mem_z (s_seq g) (r_prev r))) (pl s') in
  let left' := match o with
               | ONewGen lf => if c_mem c then [] else
                                 sort_z (dedup_z (dir_seqs c (r_left r) (r_st r) ++ map fst lf))
               | _ => r_left r
               end in
  ({| r_st := s'; r_readers := readers'; r_pls := pls'; r_prev := live; r_left := left' |},
   {| o_pl := match m3u8 c dtok s' with Some v => Some (v, render v) | None => None end;
      o_live := live;
      o_files := dir_seqs c left' s';
      o_new := map (fun g => (s_seq g, obs_of_frames (s_frames g))) newsegs;
      o_res := res |}).

(* the configuration in force for the next operation *)
Definition step_cfg (c : cfg) (o : op) : cfg :=
  match o with OSetPs sps pps => set_ps c sps pps | _ => c end.

Fixpoint run_from (c : cfg) (dtok : bytes) (r : rst) (ops : list op) : list (cfg * (rst * sobs)) :=
  match ops with
  | [] => []
  | o :: t => let '(r', ob) := step c dtok r o in (c, (r', ob)) :: run_from (step_cfg c o) dtok r' t
  end.

Definition rinit (c : cfg) : rst := {| r_st := init c; r_readers := []; r_pls := []; r_prev := []; r_left := [] |}.
Definition run (c : cfg) (dtok : bytes) (ops : list op) : list (cfg * (rst * sobs)) := run_from c dtok (rinit c) ops.
Definition model (c : cfg) (dtok : bytes) (ops : list op) : list sobs := map (fun x => snd (snd x)) (run c dtok ops).

Definition frames_of (ops : list op) : list frame :=
  flat_map (fun o => match o with OFrame f => [f] | _ => [] end) ops.
Fixpoint feed (c : cfg) (fs : list frame) (s : st) : st :=
  match fs with [] => s | f :: t => feed c t (write_frame c f s) end.

(* ------------------------------------------------------------------ specification predicates *)
Fixpoint consecutive (n : Z) (l : list Z) : bool :=
  match l with [] => true | x :: t => (x =? n) && consecutive (n + 1) t end.

Fixpoint entries_ok (c : cfg) (tok : bytes) (seq : Z) (target : Z) (live : list Z) (l : list entry) : bool :=
  match l with
  | [] => true
  | e :: t =>
      bytes_eqb (e_uri e) (seg_uri c seq)          (* URI names sequence number seq ... *)
      && mem_z seq live                            (* ... which Segment resolves *)
      && bytes_eqb (e_tok e) tok                   (* the caller's token *)
      && (e_ms e <=? target * 1000)                (* target duration not below the listed duration *)
      && entries_ok c tok (seq + 1) target live t  (* consecutive numbers *)
  end.

(* a served playlist: exactly three entries, consecutive from the media sequence, ... *)
Definition view_ok (c : cfg) (tok : bytes) (live : list Z) (v : plview) : bool :=
  (length (v_entries v) =? WINDOW)%nat && entries_ok c tok (v_mseq v) (v_target v) live (v_entries v).

(* first video frame of a segment *)
Definition first_video (fs : list wframe) : option wframe := find (fun w => w_pid w =? VPID) fs.
(* it is a key frame and its elementary stream starts with AUD, SPS, PPS and a start code *)
Definition starts_with_key_ps (sps pps : bytes) (fs : list wframe) : bool :=
  match first_video fs with
  | None => true
  | Some w => w_key w && is_prefix (key_header_ps sps pps) (w_es w)
  end.
Definition starts_with_key (c : cfg) (fs : list wframe) : bool := starts_with_key_ps (c_sps c) (c_pps c) fs.

(* the stream's SPS/PPS that were current when the first video frame of the model's segment [seq] was packetized *)
Definition model_ps (s : st) (seq : Z) : bytes * bytes :=
  match find_seg seq (pl s) with
  | Some g => match first_video (s_frames g) with Some w => (w_sps w, w_pps w) | None => ([], []) end
  | None => ([], [])
  end.

(* the guard of D35: the model's segment [seq] was not opened by the audio-driven reap *)
Definition opened_by_audio (s : st) (seq : Z) : bool :=
  match find_seg seq (pl s) with Some g => s_aud g | None => false end.

Definition wframe_eqb (a b : wframe) : bool :=
  (w_pid a =? w_pid b) && (w_pts a =? w_pts b) && (w_dts a =? w_dts b) && Bool.eqb (w_key a) (w_key b)
  && bytes_eqb (w_es a) (w_es b).
Definition segobs_eqb (a b : segobs) : bool :=
  Bool.eqb (g_ok a) (g_ok b) && list_eqb wframe_eqb (g_frames a) (g_frames b).
Definition opt_eqb {A} (e : A -> A -> bool) (a b : option A) : bool :=
  match a, b with None, None => true | Some x, Some y => e x y | _, _ => false end.
Definition entry_eqb (a b : entry) : bool :=
  Bool.eqb (e_disc a) (e_disc b) && (e_ms a =? e_ms b) && bytes_eqb (e_uri a) (e_uri b) && bytes_eqb (e_tok a) (e_tok b).
Definition view_eqb (a b : plview) : bool :=
  (v_target a =? v_target b) && (v_mseq a =? v_mseq b) && list_eqb entry_eqb (v_entries a) (v_entries b).
Definition newseg_eqb (a b : Z * segobs) : bool := (fst a =? fst b) && segobs_eqb (snd a) (snd b).
Definition opres_eqb (a b : opres) : bool :=
  match a, b with
  | RNone, RNone => true
  | RFetch x, RFetch y => Bool.eqb x y
  | RRead x, RRead y => opt_eqb segobs_eqb x y
  | RPlGet x, RPlGet y => Bool.eqb x y
  | RPlRead x, RPlRead y => opt_eqb bytes_eqb x y
  | _, _ => false
  end.

(* ------------------------------------------------------------------ the oracle
   [m] is the model's state and observation after the step, [o] what the implementation showed.
   [strict] = apply the key-frame clause also to segments opened by the audio-driven reap (D35). *)
Definition res_ok (r : opres) : bool :=
  match r with RRead (Some g) => g_ok g | _ => true end.

Definition ok_step (c : cfg) (dtok : bytes) (strict : bool) (m : rst * sobs) (o : sobs) : bool :=
  let s := r_st (fst m) in
  let mo := snd m in
  (* the playlist: served exactly when three complete segments exist; its text is the rendering of the
     parsed view; the view has the window shape; it lists the most recent complete segments *)
  match o_pl o, o_pl mo with
  | None, None => true
  | Some (v, raw), Some (mv, _) =>
      bytes_eqb (render v) raw && view_ok c dtok (o_live o) v && view_eqb v mv
      (* the URI lines of the text as served are, byte for byte, the URIs of exactly the numbers that resolve, each with
         the caller's token (a token or path with a line feed cannot be carried by a line-based playlist) *)
      && (negb (no_lf dtok) || negb (no_lf (c_path c))
          || list_eqb bytes_eqb (uri_lines raw) (map (uri_line c dtok) (o_live o)))
  | _, _ => false
  end
  (* only the window resolves; storage is bounded *)
  && list_eqb Z.eqb (o_live o) (o_live mo)
  && (length (o_live o) <=? WINDOW)%nat
  && list_eqb Z.eqb (o_files o) (o_files mo)
  && (length (o_files o) <=? WINDOW + 1 + length (r_left (fst m)))%nat
  (* every segment is the transport stream of exactly the frames written for its number *)
  && list_eqb newseg_eqb (o_new o) (o_new mo)
  && forallb (fun x => g_ok (snd x)) (o_new o)
  (* every segment after the first starts its video with a key frame preceded by the SPS/PPS of the stream
     that were current when that frame was packetized *)
  && forallb (fun x => (fst x <=? 1) || (negb strict && opened_by_audio s (fst x))
                       || starts_with_key_ps (fst (model_ps s (fst x))) (snd (model_ps s (fst x))) (g_frames (snd x)))
             (o_new o)
  (* kept readers / kept playlist slices still show what they showed when handed out *)
  && opres_eqb (o_res o) (o_res mo) && res_ok (o_res o).

Fixpoint ok_steps (dtok : bytes) (strict : bool) (ms : list (cfg * (rst * sobs))) (os : list sobs) : bool :=
  match ms, os with
  | [], [] => true
  | m :: ms', o :: os' => ok_step (fst m) dtok strict (snd m) o && ok_steps dtok strict ms' os'
  | _, _ => false
  end.

Definition ok (c : cfg) (dtok : bytes) (strict : bool) (ops : list op) (obs : list sobs) : bool :=
  ok_steps dtok strict (run c dtok ops) obs.

(* ------------------------------------------------------------------ well-formed inputs *)
Definition PTS_MAX : Z := 2 ^ 33.
Definition frame_wf (f : frame) : bool :=
  (0 <=? f_pts f) && (f_pts f <? PTS_MAX) && (0 <=? f_dts f) && (f_dts f <? PTS_MAX).
Definition op_wf (o : op) : bool := match o with OFrame f => frame_wf f | _ => true end.
Definition cfg_wf (c : cfg) : bool := (0 <? c_rate c) && (- 2 ^ 30 <? c_frag c) && (c_frag c <? 2 ^ 30).
Definition wf (c : cfg) (ops : list op) : bool := cfg_wf c && forallb op_wf ops.
