(* C05: media/global.go — the stream registry (a sync.Map path -> *Stream), Regist / Unregist /
   Stream.Close / Get / Count / Infos and the idle-close decision, over sequential histories.
   Streams are numbered in creation order.  [v_swap]: Regist installs with an atomic Swap (repair
   of D6) — sequentially the same as Load+Store; [v_unmap]: close removes the stream from the
   registry if it is still the registered one (repair of D5); [v_anycons]: the idle decision counts
   consumers of every protocol (repair of D7).
   [st_att_total] / [st_det_total] are ghost counters (successful attaches / detaches of a stream);
   [released s] is the number of consumers whose Close must have been called by now: all that were
   ever attached once the stream has ended, the detached ones while it is live.  [GUnregistAll] is
   media.UnregistAll (server shutdown).
   HLS viewers are not consumers: the idle task sees them only through the playlist's last-access
   time, which Playlist.M3u8 / Playlist.Segment (av/format/hls) stamp and NewPlaylist initialises.
   [st_hls_idle] is the logical time elapsed since that stamp ([GTick] advances the clock of every
   playlist), [st_segs] the number of segments ever added to the playlist (it keeps the last 3 and
   serves the m3u8 only with 3); [GSeg] / [GHlsPoll] / [GHlsSeg] are a finished segment, a playlist
   request and a segment request; the idle decision [GIdle i d] has the period as its argument.
   [v_hlsstamp] = a playlist request counts as an access whatever the playlist state. *)
From Coq Require Import ZArith List Bool.
From V Require Import Bytes StrGo.
Import ListNotations.
Open Scope Z_scope.

Record rvariant := { v_unmap : bool; v_anycons : bool; v_hlsstamp : bool }.
Definition rfixed := {| v_unmap := true; v_anycons := true; v_hlsstamp := true |}.
Definition roriginal := {| v_unmap := false; v_anycons := false; v_hlsstamp := true |}.
(* a playlist that records a poll as an access only when it can be served (a seeded change, never in /repo) *)
Definition rpollunstamped := {| v_unmap := true; v_anycons := true; v_hlsstamp := false |}.

Record strm := {
  st_path : bytes;        (* canonical path fixed at creation *)
  st_live : bool;         (* status == StreamOK *)
  st_rtp : Z;             (* RTP consumers attached *)
  st_flv : Z;             (* FLV consumers attached *)
  st_retire : bool;       (* replaced while it had consumers: a retire task is pending *)
  st_hls : bool;          (* the stream has an HLS playlist (H.264 + AAC) *)
  st_att_total : Z;       (* ghost: attach operations on this stream that succeeded *)
  st_det_total : Z;       (* ghost: detach operations on this stream that succeeded *)
  st_hls_idle : Z;        (* logical time since the playlist's last access (creation counts) *)
  st_segs : Z             (* segments ever added to the playlist; it lists the last 3 *)
}.

(* the number of consumers of the stream whose Close must have been called *)
Definition released (s : strm) : Z := if st_live s then st_det_total s else st_att_total s.

Record rstate := {
  g_map : list (bytes * nat);   (* the registry, at most one entry per key *)
  g_streams : list strm         (* every stream ever created; index = stream id *)
}.

Definition rinit : rstate := {| g_map := []; g_streams := [] |}.

Fixpoint mlookup (m : list (bytes * nat)) (k : bytes) : option nat :=
  match m with
  | [] => None
  | (k', v) :: m' => if bytes_eqb k' k then Some v else mlookup m' k
  end.
Definition mdelete (m : list (bytes * nat)) (k : bytes) : list (bytes * nat) :=
  filter (fun e => negb (bytes_eqb (fst e) k)) m.
Definition mstore (m : list (bytes * nat)) (k : bytes) (v : nat) : list (bytes * nat) :=
  mdelete m k ++ [(k, v)].

Definition strm0 : strm := {| st_path := []; st_live := false; st_rtp := 0; st_flv := 0; st_retire := false; st_hls := false;
                              st_att_total := 0; st_det_total := 0; st_hls_idle := 0; st_segs := 0 |}.
Definition sget (g : rstate) (i : nat) : strm := nth i (g_streams g) strm0.
Fixpoint lset {A} (l : list A) (i : nat) (v : A) : list A :=
  match l, i with
  | [], _ => []
  | _ :: l', O => v :: l'
  | x :: l', S i' => x :: lset l' i' v
  end.
Definition sset (g : rstate) (i : nat) (v : strm) : rstate :=
  {| g_map := g_map g; g_streams := lset (g_streams g) i v |}.

(* HLS side of a stream *)
Definition hls_touch (s : strm) (stamp : bool) (segs : Z) : strm :=
  {| st_path := st_path s; st_live := st_live s; st_rtp := st_rtp s; st_flv := st_flv s; st_retire := st_retire s;
     st_hls := st_hls s; st_att_total := st_att_total s; st_det_total := st_det_total s;
     st_hls_idle := if stamp then 0 else st_hls_idle s; st_segs := segs |}.
Definition age_strm (d : Z) (s : strm) : strm :=
  {| st_path := st_path s; st_live := st_live s; st_rtp := st_rtp s; st_flv := st_flv s; st_retire := st_retire s;
     st_hls := st_hls s; st_att_total := st_att_total s; st_det_total := st_det_total s;
     st_hls_idle := st_hls_idle s + Z.max 0 d; st_segs := st_segs s |}.
Definition hls_usable (s : strm) : bool := st_live s && st_hls s.
Definition servable (s : strm) : bool := 3 <=? st_segs s.                 (* hlsRemainSegments *)
Definition seg_found (s : strm) (n : Z) : bool := (0 <=? n) && (st_segs s - 3 <=? n) && (n <? st_segs s).
(* the idle task's view of HLS viewers: an access within the period *)
Definition hls_recent (s : strm) (period : Z) : bool := st_hls s && (st_hls_idle s <? period).

Definition retire_period : Z := 5.

Section Reg.
Variable V : rvariant.

(* Stream.close *)
Definition close_stream (g : rstate) (i : nat) : rstate :=
  let s := sget g i in
  if negb (st_live s) then g else
  let s' := {| st_path := st_path s; st_live := false; st_rtp := 0; st_flv := 0; st_retire := false; st_hls := st_hls s;
               st_att_total := st_att_total s; st_det_total := st_det_total s;
      st_hls_idle := st_hls_idle s; st_segs := st_segs s |} in
  let g1 := sset g i s' in
  if v_unmap V then
    match mlookup (g_map g1) (st_path s) with
    | Some j => if Nat.eqb i j
                then {| g_map := mdelete (g_map g1) (st_path s); g_streams := g_streams g1 |} else g1
    | None => g1
    end
  else g1.

Inductive gop :=
| GNew (path : bytes) (hls : bool)
| GRegist (i : nat)
| GUnregist (i : nat)
| GClose (i : nat)
| GGet (path : bytes)
| GCount
| GList
| GAttach (i : nat) (flv : bool)
| GDetach (i : nat) (flv : bool)
| GIdle (i : nat) (period : Z)
| GUnregistAll
| GTick (d : Z)
| GSeg (i : nat)
| GHlsPoll (i : nat)
| GHlsSeg (i : nat) (n : Z)
| GFire.                      (* every pending retire task of the registry runs once *)

Inductive gout :=
| RUnit
| RGet (r : option nat)
| RCount (streams consumers : Z)
| RList (paths : list bytes)
| RIdle (closed : bool)
| RHls (ok : bool).

Definition consumers (s : strm) : Z := st_rtp s + st_flv s.

Fixpoint bytes_leb (a b : bytes) {struct a} : bool :=
  match a, b with
  | [], _ => true
  | _ :: _, [] => false
  | x :: a', y :: b' => if x <? y then true else if y <? x then false else bytes_leb a' b'
  end.
Fixpoint insert_sorted (x : bytes) (l : list bytes) : list bytes :=
  match l with
  | [] => [x]
  | y :: l' => if bytes_leb x y then x :: l else y :: insert_sorted x l'
  end.
Definition sort_paths (l : list bytes) : list bytes := fold_right insert_sorted [] l.

(* one run of the zero-consumers close task (runZeroConsumersClose.run) for stream i with period [period] *)
Definition idle_task (g : rstate) (i : nat) (period : Z) : rstate * gout :=
  let s := sget g i in
  if negb (i <? length (g_streams g))%nat then (g, RIdle false) else
  let idle := (if v_anycons V then consumers s else st_rtp s) <=? 0 in
  if idle && negb (hls_recent s period) then (close_stream g i, RIdle (st_live s)) else (g, RIdle false).

Definition gstep (g : rstate) (o : gop) : rstate * gout :=
  match o with
  | GNew p hls =>
      ({| g_map := g_map g;
          g_streams := g_streams g ++ [{| st_path := canonical_path p; st_live := true; st_rtp := 0;
                                          st_flv := 0; st_retire := false; st_hls := hls;
                                          st_att_total := 0; st_det_total := 0; st_hls_idle := 0; st_segs := 0 |}] |}, RUnit)
  | GRegist i =>
      if negb (i <? length (g_streams g))%nat then (g, RUnit) else
      let s := sget g i in
      match mlookup (g_map g) (st_path s) with
      | Some j =>
          if Nat.eqb i j then (g, RUnit) else
          let g1 := {| g_map := mstore (g_map g) (st_path s) i; g_streams := g_streams g |} in
          let old := sget g1 j in
          if consumers old <=? 0 then (close_stream g1 j, RUnit)
          else (sset g1 j {| st_path := st_path old; st_live := st_live old; st_rtp := st_rtp old;
                             st_flv := st_flv old; st_retire := true; st_hls := st_hls old;
                             st_att_total := st_att_total old; st_det_total := st_det_total old;
      st_hls_idle := st_hls_idle old; st_segs := st_segs old |}, RUnit)
      | None => ({| g_map := mstore (g_map g) (st_path s) i; g_streams := g_streams g |}, RUnit)
      end
  | GUnregist i =>
      if negb (i <? length (g_streams g))%nat then (g, RUnit) else
      let s := sget g i in
      let g1 := match mlookup (g_map g) (st_path s) with
                | Some j => if Nat.eqb i j
                            then {| g_map := mdelete (g_map g) (st_path s); g_streams := g_streams g |} else g
                | None => g
                end in
      (close_stream g1 i, RUnit)
  | GClose i =>
      if negb (i <? length (g_streams g))%nat then (g, RUnit) else (close_stream g i, RUnit)
  | GGet p => (g, RGet (mlookup (g_map g) (canonical_path p)))
  | GCount =>
      (g, RCount (Z.of_nat (length (g_map g)))
                 (fold_left (fun acc e => acc + consumers (sget g (snd e))) (g_map g) 0))
  | GList => (g, RList (sort_paths (map fst (g_map g))))
  | GAttach i flv =>
      let s := sget g i in
      if negb (i <? length (g_streams g))%nat || negb (st_live s) then (g, RUnit) else
      (sset g i {| st_path := st_path s; st_live := true;
                   st_rtp := if flv then st_rtp s else st_rtp s + 1;
                   st_flv := if flv then st_flv s + 1 else st_flv s; st_retire := st_retire s; st_hls := st_hls s;
                   st_att_total := st_att_total s + 1; st_det_total := st_det_total s;
      st_hls_idle := st_hls_idle s; st_segs := st_segs s |}, RUnit)
  | GDetach i flv =>
      let s := sget g i in
      if negb (i <? length (g_streams g))%nat || negb (st_live s) then (g, RUnit) else
      if (if flv then st_flv s else st_rtp s) <=? 0 then (g, RUnit) else
      (sset g i {| st_path := st_path s; st_live := true;
                   st_rtp := if flv then st_rtp s else st_rtp s - 1;
                   st_flv := if flv then st_flv s - 1 else st_flv s; st_retire := st_retire s; st_hls := st_hls s;
                   st_att_total := st_att_total s; st_det_total := st_det_total s + 1;
      st_hls_idle := st_hls_idle s; st_segs := st_segs s |}, RUnit)
  | GIdle i period => idle_task g i period
  | GUnregistAll =>
      (* media.UnregistAll: Range over the registry; each entry is deleted and its stream closed *)
      (fold_left (fun g' e => close_stream {| g_map := mdelete (g_map g') (fst e); g_streams := g_streams g' |} (snd e))
                 (g_map g) g, RUnit)
  | GTick d => ({| g_map := g_map g; g_streams := map (age_strm d) (g_streams g) |}, RUnit)
  | GSeg i =>
      let s := sget g i in
      if negb (i <? length (g_streams g))%nat || negb (hls_usable s) then (g, RUnit) else
      (sset g i (hls_touch s false (st_segs s + 1)), RUnit)
  | GHlsPoll i =>
      (* Playlist.M3u8 *)
      let s := sget g i in
      if negb (i <? length (g_streams g))%nat || negb (hls_usable s) then (g, RHls false) else
      (sset g i (hls_touch s (v_hlsstamp V || servable s) (st_segs s)), RHls (servable s))
  | GHlsSeg i n =>
      (* Playlist.Segment *)
      let s := sget g i in
      if negb (i <? length (g_streams g))%nat || negb (hls_usable s) then (g, RHls false) else
      (sset g i (hls_touch s true (st_segs s)), RHls (seg_found s n))
  | GFire =>
      (* the scheduler runs the retire tasks Regist posted: each is bound to the stream that was replaced
         while it had consumers ([st_retire]) and has the period of 5 minutes = [retire_period] ticks *)
      (fold_left (fun g' i => if st_retire (sget g' i) then fst (idle_task g' i retire_period) else g')
                 (seq 0 (length (g_streams g))) g, RUnit)
  end.

Fixpoint grun (g : rstate) (ops : list gop) : rstate * list gout :=
  match ops with
  | [] => (g, [])
  | o :: ops' =>
      let '(g1, r) := gstep g o in
      let '(g2, rs) := grun g1 ops' in (g2, r :: rs)
  end.

End Reg.
Arguments idle_task V g i period /.

(* ---------- specification, written from the property text ---------- *)
(* The specification keeps, per key, the stream registered most recently (never forgetting it) and
   answers from it filtered by liveness: a path resolves to the most recently registered stream if
   that stream is still live, else to nothing; counts and listings range over exactly those. *)
Record sstate := {
  sp_last : list (bytes * nat);   (* key -> most recently registered stream *)
  sp_streams : list strm
}.
Definition sp_get (g : sstate) (i : nat) : strm := nth i (sp_streams g) strm0.
Definition sp_set (g : sstate) (i : nat) (v : strm) : sstate :=
  {| sp_last := sp_last g; sp_streams := lset (sp_streams g) i v |}.
Definition sp_kill (g : sstate) (i : nat) : sstate :=
  let s := sp_get g i in
  if negb (st_live s) then g else
  sp_set g i {| st_path := st_path s; st_live := false; st_rtp := 0; st_flv := 0; st_retire := false; st_hls := st_hls s;
                st_att_total := st_att_total s; st_det_total := st_det_total s;
      st_hls_idle := st_hls_idle s; st_segs := st_segs s |}.
Definition sp_live (g : sstate) (e : bytes * nat) : bool := st_live (sp_get g (snd e)).
Definition sp_resolve (g : sstate) (k : bytes) : option nat :=
  match mlookup (sp_last g) k with
  | Some i => if st_live (sp_get g i) then Some i else None
  | None => None
  end.

(* closed for idleness only with no consumer of any protocol and no HLS access within the period *)
Definition sp_idle_task (g : sstate) (i : nat) (period : Z) : sstate * gout :=
  let s := sp_get g i in
  if negb (i <? length (sp_streams g))%nat then (g, RIdle false) else
  if (consumers s <=? 0) && negb (hls_recent s period) then (sp_kill g i, RIdle (st_live s)) else (g, RIdle false).

Arguments sp_idle_task g i period /.

Definition sstep (g : sstate) (o : gop) : sstate * gout :=
  match o with
  | GNew p hls =>
      ({| sp_last := sp_last g;
          sp_streams := sp_streams g ++ [{| st_path := canonical_path p; st_live := true; st_rtp := 0;
                                            st_flv := 0; st_retire := false; st_hls := hls;
                                          st_att_total := 0; st_det_total := 0; st_hls_idle := 0; st_segs := 0 |}] |}, RUnit)
  | GRegist i =>
      if negb (i <? length (sp_streams g))%nat then (g, RUnit) else
      let s := sp_get g i in
      let old := sp_resolve g (st_path s) in
      let g1 := {| sp_last := mstore (sp_last g) (st_path s) i; sp_streams := sp_streams g |} in
      match old with
      | Some j => if Nat.eqb i j then (g, RUnit)
                  else if consumers (sp_get g j) <=? 0 then (sp_kill g1 j, RUnit)   (* retired at once *)
                  else (sp_set g1 j (let o := sp_get g j in
                          {| st_path := st_path o; st_live := st_live o; st_rtp := st_rtp o;
                             st_flv := st_flv o; st_retire := true; st_hls := st_hls o;
                             st_att_total := st_att_total o; st_det_total := st_det_total o;
      st_hls_idle := st_hls_idle o; st_segs := st_segs o |}), RUnit)
      | None => (g1, RUnit)
      end
  | GUnregist i | GClose i =>
      if negb (i <? length (sp_streams g))%nat then (g, RUnit) else (sp_kill g i, RUnit)
  | GGet p => (g, RGet (sp_resolve g (canonical_path p)))
  | GCount =>
      let livee := filter (sp_live g) (sp_last g) in
      (g, RCount (Z.of_nat (length livee))
                 (fold_left (fun acc e => acc + consumers (sp_get g (snd e))) livee 0))
  | GList => (g, RList (sort_paths (map fst (filter (sp_live g) (sp_last g)))))
  | GAttach i flv =>
      let s := sp_get g i in
      if negb (i <? length (sp_streams g))%nat || negb (st_live s) then (g, RUnit) else
      (sp_set g i {| st_path := st_path s; st_live := true;
                     st_rtp := if flv then st_rtp s else st_rtp s + 1;
                     st_flv := if flv then st_flv s + 1 else st_flv s; st_retire := st_retire s; st_hls := st_hls s;
                   st_att_total := st_att_total s + 1; st_det_total := st_det_total s;
      st_hls_idle := st_hls_idle s; st_segs := st_segs s |}, RUnit)
  | GDetach i flv =>
      let s := sp_get g i in
      if negb (i <? length (sp_streams g))%nat || negb (st_live s) then (g, RUnit) else
      if (if flv then st_flv s else st_rtp s) <=? 0 then (g, RUnit) else
      (sp_set g i {| st_path := st_path s; st_live := true;
                     st_rtp := if flv then st_rtp s else st_rtp s - 1;
                     st_flv := if flv then st_flv s - 1 else st_flv s; st_retire := st_retire s; st_hls := st_hls s;
                   st_att_total := st_att_total s; st_det_total := st_det_total s + 1;
      st_hls_idle := st_hls_idle s; st_segs := st_segs s |}, RUnit)
  | GIdle i period => sp_idle_task g i period
  | GUnregistAll =>
      (* shutdown: every stream that currently resolves ends *)
      (fold_left (fun g' e => sp_kill g' (snd e)) (filter (sp_live g) (sp_last g)) g, RUnit)
  | GTick d => ({| sp_last := sp_last g; sp_streams := map (age_strm d) (sp_streams g) |}, RUnit)
  | GSeg i =>
      let s := sp_get g i in
      if negb (i <? length (sp_streams g))%nat || negb (hls_usable s) then (g, RUnit) else
      (sp_set g i (hls_touch s false (st_segs s + 1)), RUnit)
  | GHlsPoll i =>
      (* every playlist request is an access; it is served with at least 3 segments *)
      let s := sp_get g i in
      if negb (i <? length (sp_streams g))%nat || negb (hls_usable s) then (g, RHls false) else
      (sp_set g i (hls_touch s true (st_segs s)), RHls (servable s))
  | GHlsSeg i n =>
      (* every segment request is an access; found iff among the last 3 *)
      let s := sp_get g i in
      if negb (i <? length (sp_streams g))%nat || negb (hls_usable s) then (g, RHls false) else
      (sp_set g i (hls_touch s true (st_segs s)), RHls (seg_found s n))
  | GFire =>
      (* a retire task is bound to the stream it was created for: the replaced one *)
      (fold_left (fun g' i => if st_retire (sp_get g' i) then fst (sp_idle_task g' i retire_period) else g')
                 (seq 0 (length (sp_streams g))) g, RUnit)
  end.

Fixpoint srun (g : sstate) (ops : list gop) : list gout :=
  match ops with
  | [] => []
  | o :: ops' => let '(g1, r) := sstep g o in r :: srun g1 ops'
  end.
Definition sinit : sstate := {| sp_last := []; sp_streams := [] |}.
(* the specification's state after a history *)
Fixpoint sexec (g : sstate) (ops : list gop) : sstate :=
  match ops with
  | [] => g
  | o :: ops' => sexec (fst (sstep g o)) ops'
  end.

(* well-formed histories: only a live stream is registered (a publisher registers the stream it
   has just created); tracked along the specification run *)
Fixpoint hist_wf (g : sstate) (ops : list gop) : bool :=
  match ops with
  | [] => true
  | o :: ops' =>
      (match o with
       | GRegist i => (i <? length (sp_streams g))%nat && st_live (sp_get g i)
       | _ => true
       end) && hist_wf (fst (sstep g o)) ops'
  end.

Definition gout_eqb (a b : gout) : bool :=
  match a, b with
  | RUnit, RUnit => true
  | RGet None, RGet None => true
  | RGet (Some x), RGet (Some y) => Nat.eqb x y
  | RCount a1 a2, RCount b1 b2 => (a1 =? b1) && (a2 =? b2)
  | RList x, RList y => (fix eq (x y : list bytes) := match x, y with
                          | [], [] => true | a :: x', b :: y' => bytes_eqb a b && eq x' y' | _, _ => false end) x y
  | RIdle x, RIdle y => Bool.eqb x y
  | RHls x, RHls y => Bool.eqb x y
  | _, _ => false
  end.

Fixpoint gouts_eqb (a b : list gout) : bool :=
  match a, b with
  | [], [] => true
  | x :: a', y :: b' => gout_eqb x y && gouts_eqb a' b'
  | _, _ => false
  end.

(* the oracle applied to the implementation: its answers are the specification's *)
Definition ok_hist_C05 (ops : list gop) (outs : list gout) : bool := gouts_eqb outs (srun sinit ops).

(* ---------- the end of a history: per stream (live, consumers ever attached, consumers whose Close
   has been called) ---------- *)
Definition end_vec (l : list strm) : list (bool * Z * Z) :=
  map (fun s => (st_live s, st_att_total s, released s)) l.

Fixpoint zs_eqb (a b : list Z) : bool :=
  match a, b with
  | [], [] => true
  | x :: a', y :: b' => (x =? y) && zs_eqb a' b'
  | _, _ => false
  end.
Fixpoint end_eqb (a b : list (bool * Z * Z)) : bool :=
  match a, b with
  | [], [] => true
  | (l1, t1, c1) :: a', (l2, t2, c2) :: b' => Bool.eqb l1 l2 && (t1 =? t2) && (c1 =? c2) && end_eqb a' b'
  | _, _ => false
  end.

(* C05's oracle on the whole observation: the answers and the end vector are the specification's *)
Definition ok_hist_end_C05 (ops : list gop) (outs : list gout) (endv : list (bool * Z * Z)) : bool :=
  ok_hist_C05 ops outs && end_eqb endv (end_vec (sp_streams (sexec sinit ops))).

(* C03's oracle on a registry history: for every stream the number of Consumer.Close calls observed
   at the end is [released] of that stream in the specification's end state — every consumer of a
   stream that has ended (closed, unregistered, replaced without consumers, idle-closed, shut down)
   has been closed, and of a live stream exactly the detached ones *)
Definition ok_reg_end_C03 (ops : list gop) (endv : list (bool * Z * Z)) : bool :=
  zs_eqb (map snd endv) (map released (sp_streams (sexec sinit ops))).
