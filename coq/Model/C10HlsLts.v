(* C10 — the concurrent part: segment fetches interleaved with segment rollover.
   A labelled transition system over the sequential model C10Hls.v.

   Threads.  One writer (the muxer goroutine) consumes its input frames in order through
   [write_frame]; when the frame makes [segmentClose] call [Playlist.addSegment] it needs the
   playlist WRITE lock.  Any number of fetchers run [Playlist.Segment(seq)]:
     lookup   take the read lock, search [pl.segments];
     copy     [seg.file.get()] on the segment found (memory: copy of the pooled buffer; disk:
              open the file), release the read lock.
   [locked = true] is the code as it is: the read lock is held from lookup to copy, so the
   writer's rollover step is disabled (the writer blocks) while a fetcher is between the two.
   [locked = false] is the variant in which lookup and copy are not one critical section.

   A frame that closes a segment is two writer steps: "list" (segmentClose up to and including
   addSegment: the segment's store is closed/flushed, then it is appended to the playlist) and
   "finish" (the rest of the frame: segmentOpen, writes into the new, private segment).  Between the
   two the writer holds no lock and fetchers may run.  [l_flushed] records the numbers whose store
   (file / buffer) has been closed; [late = true] is the variant that closes the store only in the
   finish step, i.e. AFTER the listing: in disk mode the file then lacks the bytes still buffered.
   [l_st] already contains the effect of the finish step (it touches nothing a fetcher can see).

   Granularity: apart from that split a frame is atomic.  That is exact for the locked system (everything a fetcher
   can see changes inside addSegment/clearSegments, under the write lock) and is enough to
   exhibit the failure of the unlocked variant.  sync.RWMutex gives a waiting writer
   precedence: a lookup arriving while the writer is blocked would wait for it, such a label
   is a no-op here (the schedule generator/harness do not issue it). *)
From Coq Require Import ZArith List Bool.
From V Require Import Val Bytes C10Hls.
Import ListNotations.
Open Scope Z_scope.

(* what a fetch returns *)
Inductive fres :=
| FNotFound                      (* "Not found TSFile" at lookup *)
| FBytes (fs : list wframe)      (* a reader over the transport stream of these frames *)
| FPanic                         (* memory mode: get() on a deleted file dereferences mf.file = nil *)
| FErr                           (* disk mode: get() on a removed file *)
| FPartial.                      (* disk mode: the file of a listed segment whose store is not yet closed: bytes that
                                    are not the transport stream of the segment (tail missing, last packet torn) *)

Record frec := {
  fr_id : Z;
  fr_seq : Z;                    (* the number asked for *)
  fr_at : option seg;            (* the segment the lookup found *)
  fr_res : option fres           (* None = between lookup and copy *)
}.

Record lts := {
  l_st : st;
  l_in : list frame;             (* writer input still to come *)
  l_blocked : bool;              (* the writer waits for the write lock with the head frame *)
  l_recs : list frec;
  l_mid : bool;                  (* the writer is between "list" and "finish" *)
  l_flushed : list Z;            (* numbers whose store has been closed (bufio flushed, file closed) *)
  l_pend : list Z                (* late variant: numbers listed whose store is closed by the finish step *)
}.

Inductive label :=
| LW                             (* the writer takes its next frame *)
| LLookup (id seq : Z)
| LCopy (id : Z).

(* the frame makes segmentClose call Playlist.addSegment: exactly then [closed] grows *)
Definition takes_wlock (c : cfg) (f : frame) (s : st) : bool :=
  negb (length (closed (write_frame c f s)) =? length (closed s))%nat.

Definition holding (r : frec) : bool :=
  match fr_at r, fr_res r with Some _, None => true | _, _ => false end.
Definition has_holder (l : list frec) : bool := existsb holding l.

(* the segments the frame lists *)
Definition new_closed (c : cfg) (f : frame) (s : st) : list seg :=
  skipn (length (closed s)) (closed (write_frame c f s)).

(* seg.file.get() now, on the segment that carried number [seq] *)
Definition get_now (c : cfg) (flushed : list Z) (seq : Z) (s : st) : fres :=
  match find_seg seq (pl s) with
  | Some g => if c_mem c || mem_z seq flushed then FBytes (s_frames g) else FPartial
  | None => if c_mem c then FPanic else FErr
  end.

(* the writer runs its head frame up to the listing (a frame that lists nothing runs to its end) *)
Definition writer_go (late : bool) (c : cfg) (l : lts) : lts :=
  match l_in l with
  | [] => {| l_st := l_st l; l_in := []; l_blocked := false; l_recs := l_recs l;
             l_mid := false; l_flushed := l_flushed l; l_pend := l_pend l |}
  | f :: rest =>
      let nc := map s_seq (new_closed c f (l_st l)) in
      {| l_st := write_frame c f (l_st l); l_in := rest; l_blocked := false; l_recs := l_recs l;
         l_mid := takes_wlock c f (l_st l);
         l_flushed := if late then l_flushed l else nc ++ l_flushed l;
         l_pend := if late then nc ++ l_pend l else l_pend l |}
  end.

(* the finish step *)
Definition writer_finish (l : lts) : lts :=
  {| l_st := l_st l; l_in := l_in l; l_blocked := l_blocked l; l_recs := l_recs l;
     l_mid := false; l_flushed := l_pend l ++ l_flushed l; l_pend := [] |}.

Definition id_used (id : Z) (l : list frec) : bool := existsb (fun r => fr_id r =? id) l.

Fixpoint copy_rec (c : cfg) (flushed : list Z) (s : st) (id : Z) (l : list frec) : list frec :=
  match l with
  | [] => []
  | r :: t =>
      if (fr_id r =? id) && holding r
      then {| fr_id := fr_id r; fr_seq := fr_seq r; fr_at := fr_at r;
              fr_res := Some (get_now c flushed (match fr_at r with Some g => s_seq g | None => fr_seq r end) s) |} :: t
      else r :: copy_rec c flushed s id t
  end.

Definition set_blocked (b : bool) (l : lts) : lts :=
  {| l_st := l_st l; l_in := l_in l; l_blocked := b; l_recs := l_recs l;
     l_mid := l_mid l; l_flushed := l_flushed l; l_pend := l_pend l |}.
Definition set_recs (recs : list frec) (l : lts) : lts :=
  {| l_st := l_st l; l_in := l_in l; l_blocked := l_blocked l; l_recs := recs;
     l_mid := l_mid l; l_flushed := l_flushed l; l_pend := l_pend l |}.

Definition lstep_gen (locked late : bool) (c : cfg) (l : lts) (a : label) : lts :=
  match a with
  | LW =>
      if l_blocked l then l else
      if l_mid l then writer_finish l else
      match l_in l with
      | [] => l
      | f :: _ =>
          if locked && takes_wlock c f (l_st l) && has_holder (l_recs l)
          then set_blocked true l
          else writer_go late c l
      end
  | LLookup id seq =>
      if l_blocked l || id_used id (l_recs l) then l else
      let r := match find_seg seq (pl (l_st l)) with
               | Some g => {| fr_id := id; fr_seq := seq; fr_at := Some g; fr_res := None |}
               | None => {| fr_id := id; fr_seq := seq; fr_at := None; fr_res := Some FNotFound |}
               end in
      set_recs (l_recs l ++ [r]) l
  | LCopy id =>
      let recs := copy_rec c (l_flushed l) (l_st l) id (l_recs l) in
      let l1 := set_recs recs l in
      (* the last reader to leave wakes the waiting writer, which runs on to the listing *)
      if l_blocked l && negb (has_holder recs) then writer_go late c l1 else l1
  end.

(* the code as it is: the store is closed before the listing *)
Definition lstep (locked : bool) (c : cfg) (l : lts) (a : label) : lts := lstep_gen locked false c l a.

Definition linit (c : cfg) (fs : list frame) : lts :=
  {| l_st := init c; l_in := fs; l_blocked := false; l_recs := []; l_mid := false; l_flushed := []; l_pend := [] |}.

Fixpoint lrun_gen (locked late : bool) (c : cfg) (l : lts) (sched : list label) : lts :=
  match sched with [] => l | a :: t => lrun_gen locked late c (lstep_gen locked late c l a) t end.

Fixpoint lrun (locked : bool) (c : cfg) (l : lts) (sched : list label) : lts :=
  match sched with [] => l | a :: t => lrun locked c (lstep locked c l a) t end.

(* the trace of "writer is blocked" after every label *)
Fixpoint ltrace (locked : bool) (c : cfg) (l : lts) (sched : list label) : list bool :=
  match sched with
  | [] => []
  | a :: t => let l' := lstep locked c l a in l_blocked l' :: ltrace locked c l' t
  end.

(* ------------------------------------------------------------------ specification *)
(* what the property demands of a completed fetch: the transport stream of the segment that carried the number
   when it was looked up, or not-found if the number was not in the window then *)
Definition expected (r : frec) : fres :=
  match fr_at r with Some g => FBytes (s_frames g) | None => FNotFound end.

Definition fres_eqb (a b : fres) : bool :=
  match a, b with
  | FNotFound, FNotFound => true
  | FBytes x, FBytes y => list_eqb wframe_eqb (map strip x) (map strip y)
  | FPanic, FPanic => true
  | FErr, FErr => true
  | FPartial, FPartial => true
  | _, _ => false
  end.

(* every listed segment has a closed store *)
Definition listed_complete (c : cfg) (l : lts) : bool :=
  c_mem c || forallb (fun g => mem_z (s_seq g) (l_flushed l)) (pl (l_st l)).

Definition fetch_ok (r : frec) : bool :=
  match fr_res r with None => true | Some x => fres_eqb x (expected r) end.

(* ------------------------------------------------------------------ the oracle on a replay
   observation: for every fetch, in the order of the lookups, None = still between lookup and copy at the end,
   Some result otherwise; and the blocked trace of the writer *)
Fixpoint results_ok (recs : list frec) (obs : list (option fres)) : bool :=
  match recs, obs with
  | [], [] => true
  | r :: recs', o :: obs' =>
      match fr_res r, o with
      | None, None => true
      | Some _, Some x => fres_eqb x (expected r)
      | _, _ => false
      end && results_ok recs' obs'
  | _, _ => false
  end.

Definition lts_ok (c : cfg) (fs : list frame) (sched : list label) (obs : list (option fres)) (blocked : list bool) : bool :=
  results_ok (l_recs (lrun true c (linit c fs) sched)) obs
  && list_eqb Bool.eqb (ltrace true c (linit c fs) sched) blocked.

Definition lts_model (locked : bool) (c : cfg) (fs : list frame) (sched : list label) : list (option fres) * list bool :=
  (map fr_res (l_recs (lrun locked c (linit c fs) sched)), ltrace locked c (linit c fs) sched).
