(* C13: two goroutines write messages to one connection.
   (1) Session.lockW: the media goroutine writes an interleaved frame as two writes (prefix, data),
       the request goroutine writes a response (several writes and a flush); each holds lockW for
       the whole message.  (2) buffered.Conn.Write/Flush: mixes buffered and direct socket writes. *)
From Coq Require Import ZArith List Bool.
From V Require Import Bytes.
Import ListNotations.
Open Scope Z_scope.

(* ---------- (1) message atomicity under the writer lock ---------- *)
Definition msg := list bytes.             (* the chunks one message is written in *)
Definition msg_bytes (m : msg) : bytes := concat m.

Record wthread := { t_todo : list msg; t_cur : option msg }.
Record wstate := {
  w_lock : option bool;                   (* holder: false = media goroutine, true = request goroutine *)
  w_sink : bytes;                         (* what the client has received *)
  w_a : wthread; w_b : wthread;
  (* ghost *)
  w_done : list (bool * msg);             (* messages in the order their writers entered the section *)
  w_part : bytes                          (* chunks of the current message already written *)
}.

Definition winit (a b : list msg) : wstate :=
  {| w_lock := None; w_sink := []; w_a := {| t_todo := a; t_cur := None |};
     w_b := {| t_todo := b; t_cur := None |}; w_done := []; w_part := [] |}.

Definition get_t (s : wstate) (t : bool) : wthread := if t then w_b s else w_a s.
Definition set_t (s : wstate) (t : bool) (x : wthread) (lock : option bool) (sink : bytes)
           (done : list (bool * msg)) (part : bytes) : wstate :=
  {| w_lock := lock; w_sink := sink; w_a := if t then w_a s else x; w_b := if t then x else w_b s;
     w_done := done; w_part := part |}.

(* [locked]: the code takes lockW around a message; false models the code without the lock *)
Definition wstep (locked : bool) (s : wstate) (t : bool) : option wstate :=
  let th := get_t s t in
  match t_cur th with
  | None =>
      match t_todo th with
      | [] => None
      | m :: rest =>
          if locked then
            match w_lock s with
            | Some _ => None                          (* blocked in lockW.Lock() *)
            | None => Some (set_t s t {| t_todo := rest; t_cur := Some m |} (Some t) (w_sink s)
                                  (w_done s ++ [(t, m)]) [])
            end
          else Some (set_t s t {| t_todo := rest; t_cur := Some m |} (w_lock s) (w_sink s)
                           (w_done s ++ [(t, m)]) (w_part s))
      end
  | Some [] =>                                        (* message complete: Unlock *)
      Some (set_t s t {| t_todo := t_todo th; t_cur := None |} (if locked then None else w_lock s)
                  (w_sink s) (w_done s) [])
  | Some (c :: cs) =>                                 (* one Write call *)
      Some (set_t s t {| t_todo := t_todo th; t_cur := Some cs |} (w_lock s) (w_sink s ++ c)
                  (w_done s) (w_part s ++ c))
  end.

Fixpoint wrun (locked : bool) (sched : list bool) (s : wstate) : wstate :=
  match sched with
  | [] => s
  | t :: r => wrun locked r (match wstep locked s t with Some s' => s' | None => s end)
  end.

Definition wfinished (s : wstate) : bool :=
  match t_todo (w_a s), t_cur (w_a s), t_todo (w_b s), t_cur (w_b s) with
  | [], None, [], None => true
  | _, _, _, _ => false
  end.

(* l is an interleaving of a and b that keeps each one's order *)
Inductive merge {A} : list A -> list A -> list A -> Prop :=
| merge_nil : merge [] [] []
| merge_l x a b l : merge a b l -> merge (x :: a) b (x :: l)
| merge_r x a b l : merge a b l -> merge a (x :: b) (x :: l).

(* ---------- (2) buffered.Conn ---------- *)
Record bconn := { b_size : Z; b_buf : bytes; b_sent : bytes }.

Definition b_flush (b : bconn) : bconn :=
  {| b_size := b_size b; b_buf := []; b_sent := b_sent b ++ b_buf b |}.

(* the `for len(p) > bufferSize-Buffered()` loop; socket writes are complete (net.Conn contract) *)
Fixpoint b_loop (fuel : nat) (b : bconn) (p : bytes) : bconn * bytes :=
  match fuel with
  | O => (b, p)
  | S f =>
      if zlen p >? b_size b - zlen (b_buf b) then
        match b_buf b with
        | [] => b_loop f {| b_size := b_size b; b_buf := []; b_sent := b_sent b ++ p |} []
        | _ =>
            let k := b_size b - zlen (b_buf b) in
            b_loop f (b_flush {| b_size := b_size b; b_buf := b_buf b ++ take k p; b_sent := b_sent b |})
                   (drop k p)
        end
      else (b, p)
  end.

(* Write(p); [buffer_now] is the rate limiter's verdict (true: too soon, keep it in the buffer) *)
Definition b_write (b : bconn) (p : bytes) (buffer_now : bool) : bconn :=
  let '(b1, p1) := b_loop 3 b p in
  if buffer_now then {| b_size := b_size b1; b_buf := b_buf b1 ++ p1; b_sent := b_sent b1 |}
  else match b_buf b1 with
       | [] => {| b_size := b_size b1; b_buf := []; b_sent := b_sent b1 ++ p1 |}
       | _ => b_flush {| b_size := b_size b1; b_buf := b_buf b1 ++ p1; b_sent := b_sent b1 |}
       end.

Inductive bop := BWrite (p : bytes) (buffer_now : bool) | BFlush.
Definition b_step (b : bconn) (o : bop) : bconn :=
  match o with BWrite p v => b_write b p v | BFlush => b_flush b end.
Definition b_written (ops : list bop) : bytes :=
  concat (map (fun o => match o with BWrite p _ => p | BFlush => [] end) ops).
Definition b_init (size : Z) : bconn := {| b_size := size; b_buf := []; b_sent := [] |}.

(* ---------- oracles applied to the implementation ---------- *)
(* the received bytes are the concatenation of the complete messages of an order-preserving
   interleaving of the two writers' message lists (tries both choices at every boundary) *)
Fixpoint ok_sink (fuel : nat) (a b : list bytes) (sink : bytes) : bool :=
  match fuel with
  | O => match a, b, sink with [], [], [] => true | _, _, _ => false end
  | S f =>
      match a, b with
      | [], [] => match sink with [] => true | _ => false end
      | _, _ =>
          (match a with
           | m :: a' => is_prefix m sink && ok_sink f a' b (drop (zlen m) sink)
           | [] => false
           end) ||
          (match b with
           | m :: b' => is_prefix m sink && ok_sink f a b' (drop (zlen m) sink)
           | [] => false
           end)
      end
  end.

(* buffered.Conn: after every operation what reached the socket is a prefix of what was written,
   the rest is exactly what the connection reports as buffered, and the buffer never exceeds its size *)
Fixpoint ok_bconn (size : Z) (written : bytes) (ops : list bop) (obs : list (bytes * Z)) : bool :=
  match ops, obs with
  | [], [] => true
  | o :: ops', (sent, buffered) :: obs' =>
      let w := written ++ (match o with BWrite p _ => p | BFlush => [] end) in
      (0 <=? buffered) && (buffered <=? size) && (zlen sent + buffered =? zlen w) &&
      bytes_eqb sent (take (zlen w - buffered) w) &&
      (match o with BFlush => buffered =? 0 | _ => true end) &&
      ok_bconn size w ops' obs'
  | _, _ => false
  end.

Fixpoint b_trace (b : bconn) (ops : list bop) : list (bytes * Z) :=
  match ops with
  | [] => []
  | o :: ops' => let b' := b_step b o in (b_sent b', zlen (b_buf b')) :: b_trace b' ops'
  end.
