(* C09 — the scratch buffers of WriteMpegtsFrame come from a process-wide sync.Pool shared by
   every mpegts.Writer (one per HLS segment file, several streams at once).  Instance of the
   pool model of C13 (Model/C13Pool.v: the pool is a multiset of buffer identities, a goroutine
   a straight-line program, buffer content shared by identity):

       buf := buffers.Get(); buf.Reset(); defer buffers.Put(buf)     IGet 0 true ... IPut 0 (last)
       buf.Write(frame.Header); buf.Write(frame.Payload)              IWrite 0 hdr; IWrite 0 pay
       for every TS packet: copy(pkt[p:], avdata[pos:pos+n]); w.w.Write(pkt)
                                                                      ISend 0 conn  (one READ of the buffer)

   A "message" of the pool model is here what a writer sees in its buffer when it cuts one
   packet; writer t uses connection t.  The j-th packet of a frame is the j-th packet of the
   packetization of what was read at that moment ([view]: `last` and the slice header were fixed
   when the frame started, so the length stays; the bytes are whatever the array holds).
   No proofs here. *)
From Coq Require Import ZArith List Bool Arith.
From V Require Import Bytes C13Pool C09TsFrame C09TsWriter C09TsDemux.
Import ListNotations.
Close Scope Z_scope.
Open Scope nat_scope.

Definition frame_data (f : tsframe) : bytes := f_hdr f ++ f_pay f.
Definition frame_npk (f : tsframe) : nat := length (fst (ts_frame_packets 0%Z f)).

(* WriteMpegtsFrame as written: Put (deferred) after the last packet *)
Definition frame_prog (conn : wconn) (f : tsframe) : list instr :=
  if has_payload f then
    [IGet 0 true; IWrite 0 (f_hdr f); IWrite 0 (f_pay f)] ++ repeat (ISend 0 conn) (frame_npk f) ++ [IPut 0]
  else [].
(* the variant in which the buffer goes back to the pool before the packets are cut *)
Definition frame_prog_early_put (conn : wconn) (f : tsframe) : list instr :=
  if has_payload f then
    [IGet 0 true; IWrite 0 (f_hdr f); IWrite 0 (f_pay f); IPut 0] ++ repeat (ISend 0 conn) (frame_npk f)
  else [].

Definition writer_prog (conn : wconn) (fs : list tsframe) : list instr := flat_map (frame_prog conn) fs.
Fixpoint writers_progs_from (t : nat) (fss : list (list tsframe)) : list (list instr) :=
  match fss with
  | [] => []
  | fs :: r => writer_prog t fs :: writers_progs_from (S t) r
  end.
Definition writers_progs (fss : list (list tsframe)) : list (list instr) := writers_progs_from 0 fss.

(* what the slice avdata shows when the array now holds [d] *)
Definition view (own d : bytes) : bytes := firstn (length own) (d ++ skipn (length d) own).

(* the frame with its bytes replaced by what was read *)
Definition with_data (f : tsframe) (d : bytes) : tsframe :=
  {| f_pid := f_pid f; f_sid := f_sid f; f_dts := f_dts f; f_pts := f_pts f;
     f_hdr := []; f_pay := d; f_key := f_key f |}.

(* packet j of the frame, cut from what was read at that moment *)
Definition packet_at (st : wstate) (f : tsframe) (j : nat) (d : bytes) : bytes :=
  nth j (fst (ts_write st (with_data f (view (frame_data f) d)))) [].

Fixpoint packets_from (st : wstate) (f : tsframe) (j : nat) (reads : list bytes) : list bytes :=
  match reads with
  | [] => []
  | d :: r => packet_at st f j d :: packets_from st f (S j) r
  end.

(* the output of one writer from the sequence of its buffer reads *)
Fixpoint assemble (st : wstate) (fs : list tsframe) (reads : list bytes) : list bytes :=
  match fs with
  | [] => []
  | f :: fs' =>
      if has_payload f then
        let n := frame_npk f in
        packets_from st f 0 (firstn n reads) ++ assemble (snd (ts_write st f)) fs' (skipn n reads)
      else assemble st fs' reads
  end.

Definition writer_output (s : pstate) (t : nat) (fs : list tsframe) : bytes :=
  concat ([pat_packet; pmt_packet] ++ assemble (0%Z, 0%Z) fs (sent_by t t (ps_out s))).
