(* media/cache: H264Cache / HevcCache / FlvCache at the level of classified packets.
   [CachePack] stores parameter-set packets (returning early, never as key frame) and, when
   cache_gop is on, resets/extends the GOP; packets not on the video channel are ignored by the
   RTP caches.  [PushTo] = [vps] sps pps gop.  The byte-level classifier (getPalyloadType) is in
   Model/CacheClassify.v. *)
From Coq Require Import ZArith List Bool.
From V Require Import StreamLts.
Import ListNotations.
Open Scope Z_scope.

Record rcache := {
  rc_gopon : bool;
  rc_vps : option pkt; rc_sps : option pkt; rc_pps : option pkt;
  rc_gop : list pkt
}.

Definition rc_empty (gopon : bool) : rcache :=
  {| rc_gopon := gopon; rc_vps := None; rc_sps := None; rc_pps := None; rc_gop := [] |}.

Definition rc_add (c : rcache) (p : pkt) : rcache :=
  match p_kind p with
  | 0 => c
  | 5 => {| rc_gopon := rc_gopon c; rc_vps := Some p; rc_sps := rc_sps c; rc_pps := rc_pps c; rc_gop := rc_gop c |}
  | 3 => {| rc_gopon := rc_gopon c; rc_vps := rc_vps c; rc_sps := Some p; rc_pps := rc_pps c; rc_gop := rc_gop c |}
  | 4 => {| rc_gopon := rc_gopon c; rc_vps := rc_vps c; rc_sps := rc_sps c; rc_pps := Some p; rc_gop := rc_gop c |}
  | _ =>
      if rc_gopon c then
        if p_key p then
          {| rc_gopon := true; rc_vps := rc_vps c; rc_sps := rc_sps c; rc_pps := rc_pps c; rc_gop := [p] |}
        else match rc_gop c with
             | [] => c
             | _ => {| rc_gopon := true; rc_vps := rc_vps c; rc_sps := rc_sps c; rc_pps := rc_pps c;
                       rc_gop := rc_gop c ++ [p] |}
             end
      else c
  end.

Definition opt_list {A} (o : option A) : list A := match o with Some a => [a] | None => [] end.

Definition rc_snap (c : rcache) : list pkt :=
  opt_list (rc_vps c) ++ opt_list (rc_sps c) ++ opt_list (rc_pps c) ++ (if rc_gopon c then rc_gop c else []).

(* ---- specification of what a late joiner must be given after the packets [l] ---- *)
Definition is_param (k : Z) (p : pkt) : bool := Z.eqb (p_kind p) k.
Definition last_of (k : Z) (l : list pkt) : option pkt :=
  match filter (is_param k) (rev l) with [] => None | p :: _ => Some p end.

Definition is_media (p : pkt) : bool :=
  negb (Z.eqb (p_kind p) 0) && negb (Z.eqb (p_kind p) 3) && negb (Z.eqb (p_kind p) 4) && negb (Z.eqb (p_kind p) 5).

(* video packets from the most recent key-frame start on (parameter sets excluded) *)
Fixpoint gop_of_acc (acc : list pkt) (l : list pkt) : list pkt :=
  match l with
  | [] => acc
  | p :: l' =>
      if is_media p then
        if p_key p then gop_of_acc [p] l'
        else match acc with [] => gop_of_acc [] l' | _ => gop_of_acc (acc ++ [p]) l' end
      else gop_of_acc acc l'
  end.
Definition gop_of (l : list pkt) : list pkt := gop_of_acc [] l.

Definition spec_snap (gopon : bool) (l : list pkt) : list pkt :=
  opt_list (last_of 5 l) ++ opt_list (last_of 3 l) ++ opt_list (last_of 4 l) ++ (if gopon then gop_of l else []).
