(* C06 — av/format/rtp/h265_depacketizer.go as a [codec] descriptor, and the
   RFC 7798 packetiser (single NAL unit, AP, FU).  No proofs here. *)
From Coq Require Import ZArith List Bool.
From V Require Import Bytes C06Rtp C06NalDepack.
Import ListNotations.
Open Scope Z_scope.

(* Depacketize: len(payload) < 2 -> ignore; naluType := (payload[0]>>1)&0x3f;
   48 AP, 49 FU (needs PayloadHdr + FU header), default single *)
Definition k265 (pl : bytes) : kind :=
  if zlen pl <? 2 then KIgnore
  else match idx pl 0 with
       | None => KIgnore
       | Some h =>
           let t := Z.land (Z.shiftr h 1) 63 in
           if t =? 48 then KAgg
           else if t =? 49 then (if zlen pl <? 3 then KIgnore else KFu)
           else KSingle
       end.

(* frame.Payload[0] = (payload[0] & 0x81) | (fuHeader&0x3f)<<1 ; frame.Payload[1] = payload[1] *)
Definition rebuild265 (pl : bytes) (fuh : Z) : bytes :=
  match idx pl 0, idx pl 1 with
  | Some h0, Some h1 => [Z.lor (Z.land h0 129) (Z.shiftl (Z.land fuh 63) 1); h1]
  | _, _ => []
  end.

Definition write265 (w : wst) (pl : bytes) : option (wst * bool) :=
  match idx pl 0 with
  | None => None
  | Some h =>
      let t := Z.land (Z.shiftr h 1) 63 in
      let w1 := if t =? 32 then mkW (w_ready w) true (w_b w) (w_c w)
                else if t =? 33 then mkW (w_ready w) (w_a w) true (w_c w)
                else if t =? 34 then mkW (w_ready w) (w_a w) (w_b w) true
                else w in
      if w_ready w1 then Some (w1, true)
      else if w_a w1 && w_b w1 && w_c w1 then Some (mkW true (w_a w1) (w_b w1) (w_c w1), true)
      else Some (w1, false)
  end.

Definition c265 : codec :=
  {| c_kind := k265; c_agg_off := 2; c_fu_off := 3; c_start_returns := true;
     c_rebuild := rebuild265; c_write := write265 |}.

Definition keep265 (u : bytes) : bool := true.

(* ---- packetiser, RFC 7798 ---- *)
Definition nth0 (n : nat) (u : bytes) : Z := nth n u 0.
Definition b2z5 (b : bool) : Z := if b then 1 else 0.

(* AP PayloadHdr: type 48, layer id and TID taken from the first unit *)
Definition ap_hdr (us : list bytes) : bytes :=
  match us with
  | u :: _ => [Z.lor (Z.land (nth0 0 u) 129) 96; nth0 1 u]
  | [] => [96; 1]
  end.

(* FU PayloadHdr: the unit's header with type 49; FU header S|E|FuType *)
Definition fu265_hdr (u : bytes) (s e : bool) : bytes :=
  [Z.lor (Z.land (nth0 0 u) 129) 98; nth0 1 u;
   128 * b2z5 s + 64 * b2z5 e + Z.land (Z.shiftr (nth0 0 u) 1) 63].

Definition utype265 (u : bytes) : Z := Z.land (Z.shiftr (nth0 0 u) 1) 63.
Definition single265_ok (u : bytes) : bool :=
  (2 <=? zlen u) && negb (utype265 u =? 48) && negb (utype265 u =? 49).
Definition frag265_ok (u : bytes) : bool := 2 <=? zlen u.

Definition z265 : pkz :=
  {| z_agg_hdr := ap_hdr; z_fu_hdr := fu265_hdr; z_fu_body := drop 2;
     z_single_ok := single265_ok; z_frag_ok := frag265_ok |}.

Definition packetize265 (seq0 : Z) (items : list item) : list packet := packetize z265 seq0 0 items.
Definition depack265 (st : gst) (ps : list packet) := grun c265 st ps.
Definition st265_init : gst := mkG [] (mkW true true true true).
