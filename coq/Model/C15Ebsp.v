(* C15 — emulation prevention.  [escape] is the encoder side of H.264 7.4.1 /
   H.265 7.4.2: within the NAL unit payload a 0x03 is inserted after two zero
   bytes whenever the next byte is 0..3.  [unescape_go] models
   utils.RemoveH264or5EmulationBytes (start-code prefix removed first, then
   every 00 00 03 loses its 03).  No proofs here. *)
From Coq Require Import ZArith List Bool.
Import ListNotations.
Open Scope Z_scope.

(* zc = number of zero bytes just written (0..2) *)
Fixpoint escape_from (zc : Z) (s : list Z) : list Z :=
  match s with
  | [] => []
  | b :: s' =>
    if (zc =? 2) && (b <=? 3)
    then 3 :: b :: escape_from (if b =? 0 then 1 else 0) s'
    else b :: escape_from (if b =? 0 then zc + 1 else 0) s'
  end.
Definition escape (s : list Z) : list Z := escape_from 0 s.

Fixpoint remove03 (s : list Z) : list Z :=
  match s with
  | [] => []
  | a :: t1 =>
    match t1 with
    | b :: (c :: t3) =>
      if (a =? 0) && (b =? 0) && (c =? 3) then 0 :: 0 :: remove03 t3 else a :: remove03 t1
    | _ => a :: remove03 t1
    end
  end.

(* utils.RemoveNaluSeparator *)
Definition remove_separator (s : list Z) : list Z :=
  match s with
  | 0 :: 0 :: 0 :: 1 :: r => r
  | 0 :: 0 :: 1 :: r => r
  | _ => s
  end.

Definition unescape_go (s : list Z) : list Z := remove03 (remove_separator s).
