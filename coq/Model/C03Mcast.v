(* C03 — a reusable per-stream object: the multicast proxy of service/rtsp/multicast_proxy.go.
   It is the stream's single RTP consumer on behalf of all multicast players; it is STARTED by the
   first member (AddMember: socket, StartConsume) and STOPPED when the last member leaves
   (ReleaseMember -> close) or when the stream ends (the delivery goroutine of its consumption runs
   its deferred Consumer.Close -> close, which closes the member sessions).  A proxy lives as long
   as its stream, so it goes through any number of such use cycles, and three pieces of state are
   carried from one cycle to the next: the [closed] flag, the member list, and the delivery
   goroutine of the previous cycle, whose deferred Close runs some time after StopConsume.

   [mspec]/[spec_step] is the release specification over histories (a function of the history only);
   [mst]/[mstep] is the implementation as a state machine, with a [mvar] selecting the code as it is
   now ([mfixed]) or without one of the three things that make a restart sound (the seeded change and
   the two defects found with it).  No proofs here. *)
From Coq Require Import ZArith List Bool Arith.
Import ListNotations.

Inductive mev :=
| MJoin (i : nat)      (* session i: SETUP multicast + PLAY -> AddMember *)
| MLeave (i : nat)     (* session i: TEARDOWN or dropped connection -> ReleaseMember *)
| MPub                 (* one packet published into the stream *)
| MEnd                 (* the stream ends (the current cycle's delivery goroutine exits with it) *)
| MExit.               (* the delivery goroutine of a cycle stopped by the last leave runs its deferred
                          Consumer.Close (any time after the StopConsume) *)

Definition memn (i : nat) (l : list nat) : bool := existsb (Nat.eqb i) l.
Definition remn (i : nat) (l : list nat) : list nat := filter (fun j => negb (Nat.eqb i j)) l.
Fixpoint countn (i : nat) (l : list nat) : Z :=
  match l with [] => 0%Z | j :: l' => ((if Nat.eqb i j then 1 else 0) + countn i l')%Z end.
Definition is_nil {A} (l : list A) : bool := match l with [] => true | _ => false end.

(* ---------------------------------------------------------------- specification *)
Record mspec := {
  sp_alive : bool;
  sp_members : list nat;    (* attached multicast players, in the order they joined *)
  sp_ended : list nat;      (* sessions whose connection has been ended *)
  sp_got : list nat         (* one entry per (packet, receiver) *)
}.
Definition spec0 : mspec := {| sp_alive := true; sp_members := []; sp_ended := []; sp_got := [] |}.

Definition spec_step (s : mspec) (e : mev) : mspec :=
  match e with
  | MJoin i =>
      if sp_alive s
      then {| sp_alive := true; sp_members := sp_members s ++ [i]; sp_ended := sp_ended s; sp_got := sp_got s |}
      else s
  | MLeave i =>
      if memn i (sp_members s)
      then {| sp_alive := sp_alive s; sp_members := remn i (sp_members s); sp_ended := sp_ended s ++ [i];
              sp_got := sp_got s |}
      else s
  | MPub =>
      if sp_alive s
      then {| sp_alive := true; sp_members := sp_members s; sp_ended := sp_ended s;
              sp_got := sp_got s ++ sp_members s |}
      else s
  | MEnd => {| sp_alive := false; sp_members := []; sp_ended := sp_ended s ++ sp_members s; sp_got := sp_got s |}
  | MExit => s
  end.

(* what is seen from outside after an event, for sessions 0..n-1 *)
Record mobs := {
  ob_cc : Z;                (* stream.ConsumerCount(): the proxy is ONE consumer while it has members *)
  ob_sock : bool;           (* the proxy holds its UDP socket *)
  ob_nmem : Z;              (* members the proxy has on record *)
  ob_ended : list bool;     (* per session: its connection has ended *)
  ob_got : list Z           (* per session: packets received *)
}.

Definition spec_obs (n : nat) (s : mspec) : mobs :=
  {| ob_cc := if is_nil (sp_members s) then 0%Z else 1%Z;
     ob_sock := negb (is_nil (sp_members s));
     ob_nmem := Z.of_nat (length (sp_members s));
     ob_ended := map (fun i => memn i (sp_ended s)) (seq 0 n);
     ob_got := map (fun i => countn i (sp_got s)) (seq 0 n) |}.

Fixpoint spec_trace (n : nat) (s : mspec) (h : list mev) : list mobs :=
  match h with
  | [] => []
  | e :: h' => let s' := spec_step s e in spec_obs n s' :: spec_trace n s' h'
  end.

Definition spec_run (h : list mev) : mspec := fold_left spec_step h spec0.

(* well-formed histories: a session joins at most once and only a live stream; only a member leaves *)
Fixpoint mwf (alive : bool) (joined members : list nat) (h : list mev) : bool :=
  match h with
  | [] => true
  | MJoin i :: h' => alive && negb (memn i joined) && mwf alive (i :: joined) (members ++ [i]) h'
  | MLeave i :: h' => memn i members && mwf alive joined (remn i members) h'
  | MEnd :: h' => mwf false joined [] h'
  | _ :: h' => mwf alive joined members h'
  end.
Definition hist_wf (h : list mev) : bool := mwf true [] [] h.

(* ---------------------------------------------------------------- implementation *)
Record mvar := {
  mv_rearm : bool;        (* AddMember sets closed = false when it (re)starts the proxy *)
  mv_record_all : bool;   (* AddMember records every member, not only the one that starts the proxy *)
  mv_gen_close : bool     (* the consumer handed to the stream belongs to one cycle: the deferred Close of an
                             earlier cycle's delivery goroutine does not touch the current cycle *)
}.
Definition mfixed := {| mv_rearm := true; mv_record_all := true; mv_gen_close := true |}.

Record mst := {
  m_alive : bool;            (* media.Get(path) finds the stream *)
  m_closed : bool;           (* proxy.closed *)
  m_members : list nat;      (* proxy.members *)
  m_gen : nat;               (* number of starts so far = the current cycle *)
  m_consumers : list nat;    (* cycles whose consumption is registered on the stream *)
  m_sock : bool;             (* proxy.udpConn != nil *)
  m_pending : list nat;      (* cycles whose delivery goroutine was stopped and has not yet run its deferred Close *)
  m_audience : list nat;     (* ghost: sessions that are playing (joined, connection not ended) *)
  m_ended : list nat;        (* sessions whose connection has ended *)
  m_got : list nat
}.
Definition minit : mst :=
  {| m_alive := true; m_closed := false; m_members := []; m_gen := 0; m_consumers := []; m_sock := false;
     m_pending := []; m_audience := []; m_ended := []; m_got := [] |}.

(* multicastProxy.close(), the lock held *)
Definition close_proxy (s : mst) : mst :=
  if m_closed s then s else
  {| m_alive := m_alive s; m_closed := true; m_members := [];
     m_gen := m_gen s;
     m_consumers := remn (m_gen s) (m_consumers s);                       (* source.StopConsume(cid) *)
     m_sock := false;
     m_pending := if memn (m_gen s) (m_consumers s) then m_pending s ++ [m_gen s] else m_pending s;
     m_audience := filter (fun j => negb (memn j (m_members s))) (m_audience s);
     m_ended := m_ended s ++ m_members s;                                 (* m.Close() for every member *)
     m_got := m_got s |}.

(* Consumer.Close called by the delivery goroutine of cycle g *)
Definition cycle_close (v : mvar) (g : nat) (s : mst) : mst :=
  if mv_gen_close v && negb (Nat.eqb g (m_gen s)) then s else close_proxy s.

Definition add_member (v : mvar) (i : nat) (s : mst) : mst :=
  match m_members s with
  | [] =>
      if m_alive s then
        {| m_alive := true; m_closed := if mv_rearm v then false else m_closed s; m_members := [i];
           m_gen := S (m_gen s); m_consumers := m_consumers s ++ [S (m_gen s)]; m_sock := true;
           m_pending := m_pending s; m_audience := m_audience s ++ [i]; m_ended := m_ended s; m_got := m_got s |}
      else
        {| m_alive := false; m_closed := m_closed s; m_members := []; m_gen := m_gen s;
           m_consumers := m_consumers s; m_sock := m_sock s; m_pending := m_pending s;
           m_audience := m_audience s ++ [i]; m_ended := m_ended s; m_got := m_got s |}
  | _ :: _ =>
      {| m_alive := m_alive s; m_closed := m_closed s;
         m_members := if mv_record_all v then m_members s ++ [i] else m_members s;
         m_gen := m_gen s; m_consumers := m_consumers s; m_sock := m_sock s; m_pending := m_pending s;
         m_audience := m_audience s ++ [i]; m_ended := m_ended s; m_got := m_got s |}
  end.

Definition release_member (i : nat) (s : mst) : mst :=
  let s1 := {| m_alive := m_alive s; m_closed := m_closed s; m_members := remn i (m_members s);
               m_gen := m_gen s; m_consumers := m_consumers s; m_sock := m_sock s; m_pending := m_pending s;
               m_audience := remn i (m_audience s); m_ended := m_ended s ++ [i]; m_got := m_got s |} in
  if is_nil (m_members s1) then close_proxy s1 else s1.

(* every registered consumption of the proxy hands the packet to proxy.Consume *)
Definition deliver (s : mst) : list nat :=
  if negb (m_closed s) && m_sock s then flat_map (fun _ => m_audience s) (m_consumers s) else [].

Definition mstep (v : mvar) (s : mst) (e : mev) : mst :=
  match e with
  | MJoin i => add_member v i s
  | MLeave i => release_member i s
  | MPub =>
      if m_alive s then
        {| m_alive := true; m_closed := m_closed s; m_members := m_members s; m_gen := m_gen s;
           m_consumers := m_consumers s; m_sock := m_sock s; m_pending := m_pending s;
           m_audience := m_audience s; m_ended := m_ended s; m_got := m_got s ++ deliver s |}
      else s
  | MEnd =>
      (* the sweep removes the proxy's consumptions; their delivery goroutines exit at once *)
      let s1 := {| m_alive := false; m_closed := m_closed s; m_members := m_members s; m_gen := m_gen s;
                   m_consumers := []; m_sock := m_sock s; m_pending := m_pending s;
                   m_audience := m_audience s; m_ended := m_ended s; m_got := m_got s |} in
      fold_left (fun s' g => cycle_close v g s') (m_consumers s) s1
  | MExit =>
      match m_pending s with
      | [] => s
      | g :: rest =>
          cycle_close v g
            {| m_alive := m_alive s; m_closed := m_closed s; m_members := m_members s; m_gen := m_gen s;
               m_consumers := m_consumers s; m_sock := m_sock s; m_pending := rest;
               m_audience := m_audience s; m_ended := m_ended s; m_got := m_got s |}
      end
  end.

Definition mobserve (n : nat) (s : mst) : mobs :=
  {| ob_cc := Z.of_nat (length (m_consumers s));
     ob_sock := m_sock s;
     ob_nmem := Z.of_nat (length (m_members s));
     ob_ended := map (fun i => memn i (m_ended s)) (seq 0 n);
     ob_got := map (fun i => countn i (m_got s)) (seq 0 n) |}.

Fixpoint mtrace (v : mvar) (n : nat) (s : mst) (h : list mev) : list mobs :=
  match h with
  | [] => []
  | e :: h' => let s' := mstep v s e in mobserve n s' :: mtrace v n s' h'
  end.

Definition mrun (v : mvar) (h : list mev) : mst := fold_left (mstep v) h minit.

(* ---------------------------------------------------------------- oracle *)
Fixpoint mlist_eqb {A} (eq : A -> A -> bool) (a b : list A) : bool :=
  match a, b with
  | [], [] => true
  | x :: a', y :: b' => eq x y && mlist_eqb eq a' b'
  | _, _ => false
  end.

Definition mobs_eqb (a b : mobs) : bool :=
  Z.eqb (ob_cc a) (ob_cc b) && Bool.eqb (ob_sock a) (ob_sock b) && Z.eqb (ob_nmem a) (ob_nmem b)
  && mlist_eqb Bool.eqb (ob_ended a) (ob_ended b) && mlist_eqb Z.eqb (ob_got a) (ob_got b).

(* the observations after every event are exactly the specification's *)
Definition ok_mcast (n : nat) (h : list mev) (observed : list mobs) : bool :=
  mlist_eqb mobs_eqb (spec_trace n spec0 h) observed.
