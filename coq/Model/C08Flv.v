(* C08 — FLV muxer and writer of av/format/flv (flv.go, tag.go, muxer.go,
   videodata.go, audiodata.go, *_packetizer.go, scriptdata.go), an independent
   FLV reader written from the FLV specification (E.2 header, E.3 body, E.4.1 tag,
   E.4.2 AUDIODATA, E.4.3 VIDEODATA, ISO 14496-15 avcC / hvcC), and the boolean
   oracle that is applied to the implementation's bytes.  No proofs here. *)
From Coq Require Import ZArith List Bool.
From V Require Import Bytes C08Amf0.
Import ListNotations.
Open Scope Z_scope.

(* ------------------------------------------------------------------ inputs *)
Record frame := mkFrame {
  f_kind : Z;        (* codec.MediaType: 0 video, 1 audio, anything else ignored *)
  f_dts : Z;         (* ns, int64 *)
  f_pts : Z;         (* ns, int64 *)
  f_data : bytes }.

Record cfg := mkCfg {
  c_hevc : bool;     (* video codec "H265" (else "H264") *)
  c_sps : bytes; c_pps : bytes; c_vps : bytes;
  c_hvcc : bytes;    (* H.265 only: bytes 1..21 of the hvcC header (profile/tier/level, chroma, bit depths,
                        sub-layers) as computed by the implementation from VPS/SPS — treated as an oracle;
                        any other length = the implementation panicked building the record *)
  c_width : Z; c_height : Z;
  c_fr : Z; c_vdr : Z;          (* float64 bit patterns: frame rate, video data rate *)
  c_aac : bool;      (* audio codec "AAC" *)
  c_asc : bytes;     (* AudioSpecificConfig *)
  c_srate : Z; c_ssize : Z; c_chan : Z;
  c_adr : Z;         (* float64 bit pattern: audio data rate *)
  c_date : bytes }.  (* creation date string (wall clock) *)

Record tag := mkTag { t_type : Z; t_ts : Z; t_data : bytes }.   (* Filter = 0, StreamID = 0 *)

Definition TWO32 : Z := 4294967296.
Definition TWO31 : Z := 2147483648.
Definition TWO24 : Z := 16777216.
Definition u32 (z : Z) : Z := z mod TWO32.
(* Go: ns / int64(time.Millisecond), truncating toward zero *)
Definition ms_of (ns : Z) : Z := Z.quot ns 1000000.

Definition str (l : list Z) : bytes := l.
Definition s_onMetaData : bytes := [111;110;77;101;116;97;68;97;116;97].
Definition s_creator : bytes := [99;114;101;97;116;111;114].
Definition s_creator_val : bytes :=
  [105;112;99;104;117;98;32;115;116;114;101;97;109;32;109;101;100;105;97;32;115;101;114;118;101;114].
Definition s_creationdate : bytes := [99;114;101;97;116;105;111;110;100;97;116;101].
Definition s_audiocodecid : bytes := [97;117;100;105;111;99;111;100;101;99;105;100].
Definition s_audiodatarate : bytes := [97;117;100;105;111;100;97;116;97;114;97;116;101].
Definition s_audiosamplerate : bytes := [97;117;100;105;111;115;97;109;112;108;101;114;97;116;101].
Definition s_audiosamplesize : bytes := [97;117;100;105;111;115;97;109;112;108;101;115;105;122;101].
Definition s_stereo : bytes := [115;116;101;114;101;111].
Definition s_videocodecid : bytes := [118;105;100;101;111;99;111;100;101;99;105;100].
Definition s_videodatarate : bytes := [118;105;100;101;111;100;97;116;97;114;97;116;101].
Definition s_framerate : bytes := [102;114;97;109;101;114;97;116;101].
Definition s_width : bytes := [119;105;100;116;104].
Definition s_height : bytes := [104;101;105;103;104;116].

(* ------------------------------------------------------------------ muxer *)
Definition video_codec_id (c : cfg) : Z := if c_hevc c then 12 else 7.

(* muxMetadataTag *)
Definition meta_props (c : cfg) : list amf_prop :=
  [(s_creator, AStr s_creator_val); (s_creationdate, AStr (c_date c))] ++
  (if c_aac c then
     [(s_audiocodecid, ANum (f64_of_Z 10));
      (s_audiodatarate, ANum (c_adr c));
      (s_audiosamplerate, ANum (f64_of_Z (c_srate c)));
      (s_audiosamplesize, ANum (f64_of_Z (c_ssize c)));
      (s_stereo, ABool (1 <? c_chan c))]
   else []) ++
  [(s_videocodecid, ANum (f64_of_Z (video_codec_id c)));
   (s_videodatarate, ANum (c_vdr c));
   (s_framerate, ANum (c_fr c));
   (s_width, ANum (f64_of_Z (c_width c)));
   (s_height, ANum (f64_of_Z (c_height c)))].

Definition meta_tag (c : cfg) : tag := mkTag 18 0 (script_enc s_onMetaData (meta_props c)).

(* VideoData.Marshal for CodecID 7 / 12 *)
Definition video_data (frametype codec pkt cts : Z) (body : bytes) : bytes :=
  [(frametype * 16 + codec) mod 256; pkt] ++ c08_be24 (cts mod TWO24) ++
  (if pkt =? 1 then c08_be32 (u32 (zlen body)) else []) ++ body.

(* AVCDecoderConfigurationRecord.Marshal; None = index out of range on sps[1..3] *)
Definition avcc (sps pps : bytes) : option bytes :=
  match sps with
  | _ :: p :: c :: l :: _ =>
      Some ([1; p; c; l; 255; 225] ++ c08_be16 (zlen sps mod 65536) ++ sps ++
            [1] ++ c08_be16 (zlen pps mod 65536) ++ pps)
  | _ => None
  end.

Definition hvcc_array (ty : Z) (d : bytes) : bytes :=
  [ty; 0; 1] ++ c08_be16 (zlen d mod 65536) ++ d.
(* HEVCDecoderConfigurationRecord.Marshal with the decoded general fields as input *)
Definition hvcc (opaque vps sps pps : bytes) : option bytes :=
  if (length opaque =? 21)%nat then
    Some ([1] ++ opaque ++ [3] ++ hvcc_array 32 vps ++ hvcc_array 33 sps ++ hvcc_array 34 pps)
  else None.

Definition vseq_tag (c : cfg) : option tag :=
  match (if c_hevc c then hvcc (c_hvcc c) (c_vps c) (c_sps c) (c_pps c)
         else avcc (c_sps c) (c_pps c)) with
  | Some rec => Some (mkTag 9 0 (video_data 1 (video_codec_id c) 0 0 rec))
  | None => None
  end.

(* aacPacketizer.prepareTemplate *)
Definition sound_rate (r : Z) : Z :=
  if r =? 5512 then 0 else if r =? 11025 then 1 else if r =? 22050 then 2 else 3.
Definition audio_flags (c : cfg) : Z :=
  160 + sound_rate (c_srate c) * 4 + (if c_ssize c =? 8 then 0 else 2) + (if 1 <? c_chan c then 1 else 0).
Definition aseq_tag (c : cfg) : tag := mkTag 8 0 ([audio_flags c; 0] ++ c_asc c).

(* NAL types *)
Definition h264_nal_type (b : Z) : Z := b mod 32.
Definition h265_nal_type (b : Z) : Z := (b / 2) mod 64.
Definition is_key (hevc : bool) (b : Z) : bool :=
  if hevc then (16 <=? h265_nal_type b) && (h265_nal_type b <=? 21)
  else h264_nal_type b =? 5.

(* Packetize of one frame: None = the goroutine panics (frame.Payload[0] on an empty payload) *)
Definition packetize (c : cfg) (f : frame) : option (list tag) :=
  if f_kind f =? 0 then
    match f_data f with
    | [] => None
    | b :: _ =>
        let dts := ms_of (f_dts f) in
        let pts := ms_of (f_pts f) in
        Some [mkTag 9 (u32 dts)
                (video_data (if is_key (c_hevc c) b then 1 else 2) (video_codec_id c) 1
                            (u32 (pts - dts)) (f_data f))]
    end
  else if f_kind f =? 1 then
    if c_aac c then Some [mkTag 8 (u32 (ms_of (f_pts f))) ([audio_flags c; 1] ++ f_data f)]
    else Some []
  else Some [].

Fixpoint mux_frames (c : cfg) (fs : list frame) : list tag :=
  match fs with
  | [] => []
  | f :: r => match packetize c f with
              | None => []
              | Some ts => ts ++ mux_frames c r
              end
  end.

(* Muxer.process: at the first frame metadata, video sequence header, audio sequence header;
   a panic ends the goroutine and nothing more is written *)
Definition mux_config (c : cfg) : list tag :=
  meta_tag c ::
  match vseq_tag c with
  | None => []
  | Some v => v :: (if c_aac c then [aseq_tag c] else [])
  end.
(* the video parameter sets the sequence header needs are known (otherwise every frame is dropped
   and nothing is written, not even the metadata tag) *)
Definition sets_known (c : cfg) : bool :=
  if c_hevc c then (0 <? zlen (c_vps c)) && (0 <? zlen (c_sps c)) && (0 <? zlen (c_pps c))
  else (4 <=? zlen (c_sps c)) && (0 <? zlen (c_pps c)).
Definition mux (c : cfg) (fs : list frame) : list tag :=
  match fs with
  | [] => []
  | _ => if sets_known c then
           mux_config c ++
           match vseq_tag c with None => [] | Some _ => mux_frames c fs end
         else []
  end.

(* ------------------------------------------------------------------ writer *)
(* Tag.IsMetadata / IsH2645SequenceHeader / IsAACSequenceHeader *)
Definition nth_byte (s : bytes) (n : nat) : Z := nth n s (-1).
Definition is_metadata (t : tag) : bool :=
  (t_type t =? 18) && is_prefix ([2; 0; 10] ++ s_onMetaData) (t_data t).
Definition is_vseq (t : tag) : bool :=
  (t_type t =? 9) && (2 <=? zlen (t_data t)) &&
  let b := nth_byte (t_data t) 0 in
  ((b mod 16 =? 7) || (b mod 16 =? 12)) && (b / 16 =? 1) && (nth_byte (t_data t) 1 =? 0).
Definition is_aseq (t : tag) : bool :=
  (t_type t =? 8) && (2 <=? zlen (t_data t)) &&
  (nth_byte (t_data t) 0 / 16 =? 10) && (nth_byte (t_data t) 1 =? 0).
Definition is_config (t : tag) : bool := is_metadata t || is_vseq t || is_aseq t.

Record wstate := mkW { w_started : bool; w_last : Z; w_elapsed : Z }.
Definition w_init : wstate := mkW false 0 0.

(* Go int32(uint32 x): the signed reading of a 32-bit value *)
Definition s32 (x : Z) : Z := let m := x mod TWO32 in if TWO31 <=? m then m - TWO32 else m.

(* Writer.WriteFlvTag (repaired): configuration tags carry no media time; the first media tag
   defines the origin; media time advances by the signed 32-bit step from the previous media
   tag (int64 accumulator), and a position before the origin is written as 0, never wrapped *)
Definition rebase (st : wstate) (t : tag) : wstate * Z :=
  let st' :=
    if is_config t then st
    else
      let last := if w_started st then w_last st else t_ts t in
      mkW true (t_ts t) (w_elapsed st + s32 (t_ts t - last)) in
  (st', if 0 <? w_elapsed st' then u32 (w_elapsed st') else 0).

(* writeTag: 11-byte header, data; then PreviousTagSize *)
Definition tag_bytes (t : tag) (ts : Z) : bytes :=
  [t_type t mod 32] ++ c08_be24 (zlen (t_data t) mod TWO24) ++
  c08_be24 (ts mod TWO24) ++ [ts / TWO24 mod 256] ++ [0; 0; 0] ++
  t_data t ++ c08_be32 (u32 (11 + zlen (t_data t))).

Fixpoint write_tags (st : wstate) (l : list tag) : bytes :=
  match l with
  | [] => []
  | t :: r => let '(st', ts) := rebase st t in tag_bytes t ts ++ write_tags st' r
  end.

Definition file_header (flags : Z) : bytes := [70; 76; 86; 1; flags; 0; 0; 0; 9; 0; 0; 0; 0].
Definition type_flags (c : cfg) : Z := if c_aac c then 5 else 4.

Definition flv_write (flags : Z) (l : list tag) : bytes := file_header flags ++ write_tags w_init l.

(* what a client that joins at media tag k receives (media.FlvCache.PushTo): the cached
   configuration tags restamped with t0, then the media tags from k on *)
Definition restamp (t0 : Z) (t : tag) : tag := mkTag (t_type t) t0 (t_data t).
Definition join_tags (l : list tag) (k : nat) (t0 : Z) : list tag :=
  map (restamp t0) (filter is_config l) ++ skipn k (filter (fun t => negb (is_config t)) l).

(* the whole thing: flv.NewMuxer -> flv.Writer *)
Definition flv_bytes (c : cfg) (fs : list frame) (k : nat) (t0 : Z) : bytes :=
  flv_write (type_flags c) (join_tags (mux c fs) k (u32 t0)).

(* pre-fix Writer.WriteFlvTag / writeTag arithmetic, kept for the refutation witness:
   the first tag of any kind sets the origin (sentinel 0xffffffff = "unset") and the
   difference is taken in uint32 *)
Definition rebase_old (delta : Z) (t : tag) : Z * Z :=
  let delta' := if delta =? 4294967295 then t_ts t else delta in
  (delta', (t_ts t - delta') mod TWO32).
Fixpoint write_tags_old (delta : Z) (l : list tag) : bytes :=
  match l with
  | [] => []
  | t :: r => let '(d', ts) := rebase_old delta t in tag_bytes t ts ++ write_tags_old d' r
  end.
Definition flv_write_old (flags : Z) (l : list tag) : bytes :=
  file_header flags ++ write_tags_old 4294967295 l.

(* ------------------------------------------------------------------ independent reader *)
Record ptag := mkP { p_type : Z; p_ts : Z; p_data : bytes }.

Definition all_zero (s : bytes) : bool := forallb (Z.eqb 0) s.

(* E.4.1: TagType(8, reserved and filter bits 0) DataSize(24) Timestamp(24) TimestampExtended(8)
   StreamID(24)=0 Data PreviousTagSize(32) = 11 + DataSize; the body ends exactly after a tag *)
Fixpoint parse_tags (fuel : nat) (s : bytes) : option (list ptag) :=
  match s with
  | [] => Some []
  | ty :: r0 =>
      match fuel with
      | O => None
      | S f =>
          match c08_rd 3 r0 with
          | None => None
          | Some (ds, r1) =>
              match c08_rd 3 r1 with
              | None => None
              | Some (tlo, r2) =>
                  match c08_rd 1 r2 with
                  | None => None
                  | Some (thi, r3) =>
                      match c08_rd 3 r3 with
                      | None => None
                      | Some (sid, r4) =>
                          match c08_rdn ds r4 with
                          | None => None
                          | Some (data, r5) =>
                              match c08_rd 4 r5 with
                              | None => None
                              | Some (prev, r6) =>
                                  if (sid =? 0) && (prev =? 11 + ds) &&
                                     ((ty =? 8) || (ty =? 9) || (ty =? 18)) then
                                    match parse_tags f r6 with
                                    | Some l => Some (mkP ty (thi * TWO24 + tlo) data :: l)
                                    | None => None
                                    end
                                  else None
                              end
                          end
                      end
                  end
              end
          end
      end
  end.

(* E.2: 'F' 'L' 'V' version 1, flags (reserved bits 0), DataOffset 9, PreviousTagSize0 = 0 *)
Definition parse_flv (s : bytes) : option (Z * list ptag) :=
  match c08_rdn 13 s with
  | None => None
  | Some (h, body) =>
      let fl := nth_byte h 4 in
      if bytes_eqb (firstn 4 h) [70; 76; 86; 1] && bytes_eqb (skipn 5 h) [0; 0; 0; 9; 0; 0; 0; 0] &&
         ((fl =? 1) || (fl =? 4) || (fl =? 5)) then
        match parse_tags (length body) body with
        | Some l => Some (fl, l)
        | None => None
        end
      else None
  end.

(* E.4.3.1 VIDEODATA for AVC/HEVC: frame type, codec id, packet type, SI24 composition time;
   packet type 1 must hold exactly one 4-byte-length-prefixed NAL unit *)
Record pvideo := mkPV { v_frametype : Z; v_codec : Z; v_pkt : Z; v_cts : Z; v_body : bytes }.
Definition si24 (v : Z) : Z := if 8388608 <=? v then v - TWO24 else v.
Definition parse_video (d : bytes) : option pvideo :=
  match c08_rd 1 d with
  | None => None
  | Some (b0, r0) =>
      match c08_rd 1 r0 with
      | None => None
      | Some (pk, r1) =>
          match c08_rd 3 r1 with
          | None => None
          | Some (ct, r2) =>
              let codec := b0 mod 16 in
              if (codec =? 7) || (codec =? 12) then
                if pk =? 0 then Some (mkPV (b0 / 16) codec 0 (si24 ct) r2)
                else if pk =? 1 then
                  match c08_rd 4 r2 with
                  | Some (l, nal) => if l =? zlen nal then Some (mkPV (b0 / 16) codec 1 (si24 ct) nal) else None
                  | None => None
                  end
                else None
              else None
          end
      end
  end.

(* ISO 14496-15 5.2.4.1 avcC with one SPS, one PPS and 4-byte NAL lengths: (profile bytes, sps, pps) *)
Definition parse_avcc (s : bytes) : option (bytes * bytes * bytes) :=
  match c08_rdn 4 s with
  | None => None
  | Some (h, r0) =>
      match c08_rd 1 r0 with
      | None => None
      | Some (b4, r1) =>
          match c08_rd 1 r1 with
          | None => None
          | Some (b5, r2) =>
              match c08_rd 2 r2 with
              | None => None
              | Some (sl, r3) =>
                  match c08_rdn sl r3 with
                  | None => None
                  | Some (sps, r4) =>
                      match c08_rd 1 r4 with
                      | None => None
                      | Some (np, r5) =>
                          match c08_rd 2 r5 with
                          | None => None
                          | Some (pl, r6) =>
                              match c08_rdn pl r6 with
                              | Some (pps, []) =>
                                  if (nth_byte h 0 =? 1) && (b4 =? 255) && (b5 =? 225) && (np =? 1)
                                  then Some (skipn 1 h, sps, pps) else None
                              | _ => None
                              end
                          end
                      end
                  end
              end
          end
      end
  end.

(* one hvcC array holding exactly one NAL unit of the given type *)
Definition parse_hvcc_array (ty : Z) (s : bytes) : option (bytes * bytes) :=
  match c08_rd 1 s with
  | None => None
  | Some (t, r0) =>
      match c08_rd 2 r0 with
      | None => None
      | Some (n, r1) =>
          match c08_rd 2 r1 with
          | None => None
          | Some (l, r2) =>
              if (t mod 64 =? ty) && (n =? 1) then c08_rdn l r2 else None
          end
      end
  end.

(* ISO 14496-15 8.3.3.1 hvcC: version 1, 21 bytes of general fields (reserved bits set,
   lengthSizeMinusOne = 3), three arrays VPS, SPS, PPS *)
Definition hvcc_fixed_ok (o : bytes) : bool :=
  (nth_byte o 12 / 16 =? 15) && (nth_byte o 14 / 4 =? 63) && (nth_byte o 15 / 4 =? 63) &&
  (nth_byte o 16 / 8 =? 31) && (nth_byte o 17 / 8 =? 31) && (nth_byte o 20 mod 4 =? 3).
Definition parse_hvcc (s : bytes) : option (bytes * bytes * bytes * bytes) :=
  match c08_rd 1 s with
  | None => None
  | Some (ver, r0) =>
      match c08_rdn 21 r0 with
      | None => None
      | Some (o, r1) =>
          match c08_rd 1 r1 with
          | None => None
          | Some (na, r2) =>
              match parse_hvcc_array 32 r2 with
              | None => None
              | Some (vps, r3) =>
                  match parse_hvcc_array 33 r3 with
                  | None => None
                  | Some (sps, r4) =>
                      match parse_hvcc_array 34 r4 with
                      | Some (pps, []) =>
                          if (ver =? 1) && (na =? 3) && hvcc_fixed_ok o then Some (o, vps, sps, pps) else None
                      | _ => None
                      end
                  end
              end
          end
      end
  end.

(* E.4.2.1 AUDIODATA with SoundFormat 10 (AAC): (low nibble, AACPacketType, body) *)
Definition parse_audio (d : bytes) : option (Z * Z * bytes) :=
  match c08_rd 1 d with
  | None => None
  | Some (b0, r0) =>
      match c08_rd 1 r0 with
      | None => None
      | Some (pk, r1) => if b0 / 16 =? 10 then Some (b0 mod 16, pk, r1) else None
      end
  end.

(* ------------------------------------------------------------------ the oracle *)
(* the frames that produce a tag, in order, up to the first frame the muxer dies on *)
Definition emits (c : cfg) (f : frame) : bool :=
  (f_kind f =? 0) || ((f_kind f =? 1) && c_aac c).
Definition kills (f : frame) : bool :=
  (f_kind f =? 0) && match f_data f with [] => true | _ => false end.
Fixpoint live_frames (c : cfg) (fs : list frame) : list frame :=
  match fs with
  | [] => []
  | f :: r => if kills f then [] else if emits c f then f :: live_frames c r else live_frames c r
  end.

(* the decode time of a frame in ms (AAC frames carry Pts = Dts) *)
Definition frame_ms (f : frame) : Z := ms_of (f_dts f).

(* the timestamp the property demands for decode time t when the origin is t1: the distance,
   0 when the tag is older than the origin, in the 32-bit field *)
Definition spec_ts (t1 t : Z) : Z := u32 (Z.max 0 (t - t1)).

Definition ts_ok (t1 : Z) (f : frame) (p : ptag) : bool := p_ts p =? spec_ts t1 (frame_ms f).

(* one media tag against its source frame *)
Definition media_ok (c : cfg) (f : frame) (p : ptag) : bool :=
  if f_kind f =? 0 then
    (p_type p =? 9) &&
    match parse_video (p_data p) with
    | Some v =>
        (v_codec v =? video_codec_id c) && (v_pkt v =? 1) && bytes_eqb (v_body v) (f_data f) &&
        (v_frametype v =? (if is_key (c_hevc c) (nth_byte (f_data f) 0) then 1 else 2)) &&
        (let d := ms_of (f_pts f) - ms_of (f_dts f) in
         if (-8388608 <=? d) && (d <? 8388608) then v_cts v =? d else true)
    | None => false
    end
  else
    (p_type p =? 8) &&
    match parse_audio (p_data p) with
    | Some (lo, pk, body) => (lo =? audio_flags c mod 16) && (pk =? 1) && bytes_eqb body (f_data f)
    | None => false
    end.

Fixpoint media_all_ok (c : cfg) (t1 : Z) (fs : list frame) (ps : list ptag) : bool :=
  match fs, ps with
  | [], [] => true
  | f :: fs', p :: ps' => media_ok c f p && ts_ok t1 f p && media_all_ok c t1 fs' ps'
  | _, _ => false
  end.

(* metadata: onMetaData with exactly the stream's properties; the creation date may be any string *)
Fixpoint props_ok (want got : list amf_prop) : bool :=
  match want, got with
  | [], [] => true
  | w :: want', g :: got' =>
      (if bytes_eqb (fst w) s_creationdate
       then bytes_eqb (fst g) s_creationdate && match snd g with AStr _ => true | _ => false end
       else amf_prop_eqb w g) && props_ok want' got'
  | _, _ => false
  end.
Definition meta_ok (c : cfg) (p : ptag) : bool :=
  (p_type p =? 18) && (p_ts p =? 0) &&
  match parse_script (p_data p) with
  | Some (name, props) => bytes_eqb name s_onMetaData && props_ok (meta_props c) props
  | None => false
  end.

(* video sequence header: key frame, packet type 0, composition 0, record built from the stream's sets *)
Definition vseq_ok (c : cfg) (p : ptag) : bool :=
  (p_type p =? 9) && (p_ts p =? 0) &&
  match parse_video (p_data p) with
  | Some v =>
      (v_frametype v =? 1) && (v_codec v =? video_codec_id c) && (v_pkt v =? 0) && (v_cts v =? 0) &&
      (if c_hevc c then
         match parse_hvcc (v_body v) with
         | Some (o, vps, sps, pps) =>
             bytes_eqb o (c_hvcc c) && bytes_eqb vps (c_vps c) && bytes_eqb sps (c_sps c) && bytes_eqb pps (c_pps c)
         | None => false
         end
       else
         match parse_avcc (v_body v) with
         | Some (prof, sps, pps) =>
             bytes_eqb prof (firstn 3 (skipn 1 (c_sps c))) && bytes_eqb sps (c_sps c) && bytes_eqb pps (c_pps c)
         | None => false
         end)
  | None => false
  end.

Definition aseq_ok (c : cfg) (p : ptag) : bool :=
  (p_type p =? 8) && (p_ts p =? 0) &&
  match parse_audio (p_data p) with
  | Some (lo, pk, body) => (lo =? audio_flags c mod 16) && (pk =? 0) && bytes_eqb body (c_asc c)
  | None => false
  end.

Definition vseq_dies (c : cfg) : bool := match vseq_tag c with None => true | Some _ => false end.

Definition first_ms (fs : list frame) : Z := match fs with f :: _ => frame_ms f | [] => 0 end.

(* the whole stream a client joining at media tag k must see *)
Definition tags_ok (c : cfg) (fs : list frame) (k : nat) (ps : list ptag) : bool :=
  match fs with
  | [] => match ps with [] => true | _ => false end
  | _ =>
      if negb (sets_known c) then match ps with [] => true | _ => false end else
      match ps with
      | m :: ps1 =>
          meta_ok c m &&
          (if vseq_dies c then match ps1 with [] => true | _ => false end
           else
             match ps1 with
             | v :: ps2 =>
                 vseq_ok c v &&
                 (if c_aac c then
                    match ps2 with
                    | a :: ps3 => aseq_ok c a &&
                                  let live := skipn k (live_frames c fs) in
                                  media_all_ok c (first_ms live) live ps3 || media_all_ok c 0 live ps3
                    | [] => false
                    end
                  else
                    let live := skipn k (live_frames c fs) in
                    media_all_ok c (first_ms live) live ps2 || media_all_ok c 0 live ps2)
             | [] => false
             end)
      | [] => false
      end
  end.

Definition flv_ok (c : cfg) (fs : list frame) (k : nat) (out : bytes) : bool :=
  match parse_flv out with
  | Some (fl, ps) => (fl =? type_flags c) && tags_ok c fs k ps
  | None => false
  end.

(* ------------------------------------------------------------------ well-formed inputs *)
Definition frame_wf (c : cfg) (f : frame) : bool :=
  all_bytes (f_data f) && (zlen (f_data f) <? TWO24 - 9) &&
  (if f_kind f =? 0 then negb (kills f) else true) &&
  (if f_kind f =? 1 then f_pts f =? f_dts f else true).

Definition int_wf (n : Z) : bool := (- 9007199254740992 <? n) && (n <? 9007199254740992).
Definition bits_wf (b : Z) : bool := (0 <=? b) && (b <? 18446744073709551616).

(* consecutive media tags the client receives are less than 2^31 ms (24.8 days) apart *)
Fixpoint steps_ok (prev : Z) (l : list frame) : bool :=
  match l with
  | [] => true
  | f :: r => (- TWO31 <=? frame_ms f - prev) && (frame_ms f - prev <? TWO31) && steps_ok (frame_ms f) r
  end.

Definition cfg_wf (c : cfg) : bool :=
  all_bytes (c_sps c) && all_bytes (c_pps c) && all_bytes (c_vps c) && all_bytes (c_hvcc c) &&
  all_bytes (c_asc c) && all_bytes (c_date c) &&
  (zlen (c_sps c) <? 65536) && (zlen (c_pps c) <? 65536) && (zlen (c_vps c) <? 65536) &&
  (zlen (c_asc c) <? TWO24 - 2) && (zlen (c_date c) <? 65536) &&
  (if c_hevc c then (length (c_hvcc c) =? 21)%nat && hvcc_fixed_ok (c_hvcc c) else 4 <=? zlen (c_sps c)) &&
  sets_known c &&
  bits_wf (c_fr c) && bits_wf (c_vdr c) && bits_wf (c_adr c) &&
  int_wf (c_width c) && int_wf (c_height c) && int_wf (c_srate c) && int_wf (c_ssize c).

Definition case_wf (c : cfg) (fs : list frame) (k : nat) : bool :=
  cfg_wf c && forallb (frame_wf c) fs &&
  (let live := skipn k (live_frames c fs) in steps_ok (first_ms live) live).
