(* C01/C03 — the transport adapters above media.Stream: what a client of each transport
   receives for the list [out] of packets delivered to its consumer (the list the stream-level
   theorems of C01 describe).  Executable model + independent client-side parsers + the boolean
   oracles applied to real clients.  NO proofs here.

   Mirrors service/rtsp/session_roles.go tcpConsumer.Consume / av/format/rtp Packet.Write
   (interleaved frame `$ ch len16 data`, written only when the channel is subscribed, i.e. its
   entry in the transport's channel map is in 0..255), the ws-rtsp and WSP paths (one WebSocket
   message per Consume call: the frame, or nothing when the channel is not subscribed) and
   udpConsumer.Consume (one datagram with the unmodified RTP data to the port of the packet's
   channel, when that port is set). *)
From Coq Require Import ZArith List Bool.
From V Require Import Val Bytes.
Import ListNotations.
Open Scope Z_scope.

Definition pkt := (Z * bytes)%type.          (* channel index 0..3 (video, video rtcp, audio, audio rtcp), RTP data *)

Definition pkt_wf (p : pkt) : bool :=
  (0 <=? fst p) && (fst p <? 4) && (zlen (snd p) <=? 65535) && all_bytes (snd p).

Definition subscribed (chmap : Z -> Z) (p : pkt) : bool :=
  let c := chmap (fst p) in (0 <=? c) && (c <=? 255).

Definition frame_of (c : Z) (d : bytes) : bytes :=
  36 :: c :: (zlen d / 256) :: (zlen d mod 256) :: d.

Definition frame_or_nothing (chmap : Z -> Z) (p : pkt) : bytes :=
  if subscribed chmap p then frame_of (chmap (fst p)) (snd p) else [].

(* RTSP over TCP: the byte stream *)
Definition wire_tcp (chmap : Z -> Z) (out : list pkt) : bytes :=
  concat (map (frame_or_nothing chmap) out).

(* ws-rtsp and the WSP data channel: one message per delivered packet (empty when not subscribed) *)
Definition wire_ws (chmap : Z -> Z) (out : list pkt) : list bytes :=
  map (frame_or_nothing chmap) out.

(* RTSP over UDP: the datagrams arriving at the port of channel [ch] *)
Definition wire_udp (dest : Z -> bool) (out : list pkt) (ch : Z) : list bytes :=
  map snd (filter (fun p => (fst p =? ch) && dest ch) out).

(* what the client is entitled to: the subscribed packets, in order, under their wire channel *)
Definition client_view (chmap : Z -> Z) (out : list pkt) : list pkt :=
  map (fun p => (chmap (fst p), snd p)) (filter (subscribed chmap) out).

(* ---------------------------------------------------------------- independent client-side readers *)
Fixpoint parse_frames (fuel : nat) (s : bytes) : option (list pkt) :=
  match s with
  | [] => Some []
  | _ =>
      match fuel with
      | O => None
      | S f =>
          match s with
          | 36 :: c :: hi :: lo :: rest =>
              let n := hi * 256 + lo in
              if n <=? zlen rest then
                match parse_frames f (drop n rest) with
                | Some l => Some ((c, take n rest) :: l)
                | None => None
                end
              else None
          | _ => None
          end
      end
  end.

(* a WebSocket client: every non-empty message must be exactly one frame *)
Fixpoint parse_messages (ms : list bytes) : option (list pkt) :=
  match ms with
  | [] => Some []
  | [] :: ms' => parse_messages ms'
  | m :: ms' =>
      match parse_frames 1 m, parse_messages ms' with
      | Some [p], Some l => Some (p :: l)
      | _, _ => None
      end
  end.

(* ---------------------------------------------------------------- oracles *)
Definition pkt_eqb (a b : pkt) : bool := (fst a =? fst b) && bytes_eqb (snd a) (snd b).

(* in order, byte-identical, nothing missing, nothing repeated, nothing else *)
Definition ok_wire_stream (expected observed : list pkt) : bool := list_eqb pkt_eqb expected observed.

(* UDP: one socket per channel, so order is observable per channel only *)
Definition on_channel (ch : Z) (l : list pkt) : list pkt := filter (fun p => fst p =? ch) l.
Definition ok_wire_udp (expected observed : list pkt) : bool :=
  forallb (fun ch => list_eqb pkt_eqb (on_channel ch expected) (on_channel ch observed)) [0; 1; 2; 3].

(* transports: 0 rtsp/tcp  1 rtsp/udp  2 ws-rtsp  3 wsp  6 rtsp/multicast (datagrams of the stream's
   multicast proxy, observed like UDP)  (4 http-flv, 5 ws-flv: see ok_flv) *)
Definition is_datagram_kind (kind : Z) : bool := (kind =? 1) || (kind =? 6).
Definition udp_map (dest : Z -> bool) (ch : Z) : Z := if dest ch then ch else -1.

Definition ok_wire (kind : Z) (chmap : Z -> Z) (out observed : list pkt) : bool :=
  if is_datagram_kind kind then ok_wire_udp (client_view chmap out) observed
  else ok_wire_stream (client_view chmap out) observed.

(* the model's client: what the independent reader makes of the model's wire *)
Definition model_client (kind : Z) (chmap : Z -> Z) (out : list pkt) : option (list pkt) :=
  if kind =? 0 then parse_frames (length out) (wire_tcp chmap out)
  else if is_datagram_kind kind then
    Some (concat (map (fun ch => map (fun d => (ch, d)) (wire_udp (fun c => 0 <=? chmap c) out ch)) [0; 1; 2; 3]))
  else parse_messages (wire_ws chmap out).

(* FLV transports: the tags a client parses out of the HTTP / WebSocket body against the tags an
   in-process consumer attached at the same quiescent moment received: (type, timestamp, data) *)
Definition tag := (Z * Z * bytes)%type.
Definition tag_eqb (a b : tag) : bool :=
  (fst (fst a) =? fst (fst b)) && (snd (fst a) =? snd (fst b)) && bytes_eqb (snd a) (snd b).
(* flv.Writer.WriteFlvTag puts every tag on the client's own time line (C08's business, mirrored
   here only as far as the timestamps go): the first media tag is the origin, later media tags advance
   it by their distance to the previous media tag, a tag older than the origin shows 0; metadata
   and sequence-header tags are stamped with the current position *)
Definition tag_ts (t : tag) : Z := snd (fst t).
Definition tag_type (t : tag) : Z := fst (fst t).
Definition is_media_tag (t : tag) : bool :=
  match snd t with
  | b0 :: b1 :: _ =>
      negb ((tag_type t =? 18)
            || ((tag_type t =? 9) && ((b0 mod 16 =? 7) || (b0 mod 16 =? 12)) && (b0 / 16 =? 1) && (b1 =? 0))
            || ((tag_type t =? 8) && (b0 / 16 =? 10) && (b1 =? 0)))
  | _ => negb (tag_type t =? 18)
  end.
Fixpoint flv_times (started : bool) (last elapsed : Z) (reference : list tag) : list Z :=
  match reference with
  | [] => []
  | t :: r =>
      let m := is_media_tag t in
      let elapsed' := if m then (if started then elapsed + (tag_ts t - last) else elapsed) else elapsed in
      let last' := if m then tag_ts t else last in
      Z.max 0 elapsed' :: flv_times (started || m) last' elapsed' r
  end.
Fixpoint retime (ts : list Z) (l : list tag) : list tag :=
  match ts, l with
  | z :: ts', t :: l' => (tag_type t, z, snd t) :: retime ts' l'
  | _, _ => []
  end.
(* what a client of an FLV transport receives when the in-process consumer received [reference] *)
Definition flv_client (reference : list tag) : list tag := retime (flv_times false 0 0 reference) reference.
Definition ok_flv (reference observed : list tag) : bool := list_eqb tag_eqb (flv_client reference) observed.

(* ---------------------------------------------------------------- C03: release, as observed from outside
   a snapshot: consumers on the stream, active rtsp / flv / wsp connections (relative to the values
   before the first attach), and per client whether its connection has ended *)
Record snap := {
  sn_cc : Z;               (* consumers on all streams of the path together *)
  sn_rtsp : Z; sn_flv : Z; sn_wsp : Z;
  sn_closed : list bool;
  sn_gens : list Z;        (* consumers per stream generation: a new publisher registering the path retires the
                              previous stream, which lives on while it has consumers *)
  sn_of : list nat         (* ghost: the generation each client attached to *)
}.

Inductive tev := TPublish | TAttach (i : nat) | TStop (i : nat) | TEnd | TReplace.

(* consumers a client of this transport adds to the stream (the C01 stream pairs every FLV client
   with an in-process reference consumer: [refs]) *)
Definition cons_weight (refs : bool) (kind : Z) : Z :=
  if ((kind =? 4) || (kind =? 5)) && refs then 2 else 1.
Definition is_rtsp_kind (kind : Z) : bool := (kind =? 0) || (kind =? 1) || (kind =? 2) || (kind =? 6).
Definition is_flv_kind (kind : Z) : bool := (kind =? 4) || (kind =? 5).
Definition is_wsp_kind (kind : Z) : bool := kind =? 3.
Definition b2z (b : bool) : Z := if b then 1 else 0.

Fixpoint set_nth {A} (n : nat) (x : A) (l : list A) : list A :=
  match l, n with
  | [], _ => []
  | _ :: t, O => x :: t
  | h :: t, S n' => h :: set_nth n' x t
  end.

Definition add_nth (n : nat) (d : Z) (l : list Z) : list Z := set_nth n (nth n l 0 + d) l.

Definition snap_add (refs : bool) (sign : Z) (kind : Z) (gen : nat) (s : snap) (closed : list bool) (of : list nat) : snap :=
  {| sn_cc := sn_cc s + sign * cons_weight refs kind;
     sn_rtsp := sn_rtsp s + sign * b2z (is_rtsp_kind kind);
     sn_flv := sn_flv s + sign * b2z (is_flv_kind kind);
     sn_wsp := sn_wsp s + sign * b2z (is_wsp_kind kind);
     sn_closed := closed;
     sn_gens := add_nth gen (sign * cons_weight refs kind) (sn_gens s);
     sn_of := of |}.

(* the specification of release: attach adds the client to the stream registered at that moment, stop
   removes exactly that client from ITS stream and ends its connection, a new publisher adds a stream and
   touches nobody, the end removes everybody *)
Definition snap_step (refs : bool) (kinds : list Z) (s : snap) (e : tev) : snap :=
  match e with
  | TPublish => s
  | TAttach i =>
      let g := pred (length (sn_gens s)) in
      snap_add refs 1 (nth i kinds 0) g s (sn_closed s) (set_nth i g (sn_of s))
  | TStop i =>
      if nth i (sn_closed s) true then s
      else snap_add refs (-1) (nth i kinds 0) (nth i (sn_of s) O) s (set_nth i true (sn_closed s)) (sn_of s)
  | TReplace =>
      {| sn_cc := sn_cc s; sn_rtsp := sn_rtsp s; sn_flv := sn_flv s; sn_wsp := sn_wsp s;
         sn_closed := sn_closed s; sn_gens := sn_gens s ++ [0]; sn_of := sn_of s |}
  | TEnd => {| sn_cc := 0; sn_rtsp := 0; sn_flv := 0; sn_wsp := 0; sn_closed := map (fun _ => true) (sn_closed s);
               sn_gens := map (fun _ => 0) (sn_gens s); sn_of := sn_of s |}
  end.

Fixpoint snap_run (refs : bool) (kinds : list Z) (s : snap) (es : list tev) : list snap :=
  match es with
  | [] => []
  | e :: es' => let s' := snap_step refs kinds s e in s' :: snap_run refs kinds s' es'
  end.

Definition snap0 (kinds : list Z) : snap :=
  {| sn_cc := 0; sn_rtsp := 0; sn_flv := 0; sn_wsp := 0; sn_closed := map (fun _ => false) kinds;
     sn_gens := [0]; sn_of := map (fun _ => O) kinds |}.

Definition snap_eqb (a b : snap) : bool :=
  (sn_cc a =? sn_cc b) && (sn_rtsp a =? sn_rtsp b) && (sn_flv a =? sn_flv b) && (sn_wsp a =? sn_wsp b)
  && list_eqb Bool.eqb (sn_closed a) (sn_closed b) && list_eqb Z.eqb (sn_gens a) (sn_gens b).

Definition ok_release (refs : bool) (kinds : list Z) (es : list tev) (observed : list snap) : bool :=
  list_eqb snap_eqb (snap_run refs kinds (snap0 kinds) es) observed.
