(* C12 — the RTSP session automaton of service/rtsp/session.go (TCP and ws-rtsp).
   Executable model + specification monitor (the oracle).  NO proofs here.

   The model mirrors, function by function,
     onRequest / onPreprocess      -> step / legal_go
     onDescribe / onAnnounce       -> do_describe / do_announce
     onSetup + getControlPath      -> do_setup (+ ctl_match)
     RTPTransport.ParseTransport   -> parse_transport  (string level: scan.Semicolon,
                                      scan.EqualPair, parseRange, strconv.Atoi)
     onPlay / onRecord             -> do_play / do_record
     Session.process (deferred cleanup), Close -> release / disconnect
   The environment (which paths carry a live stream, with which SDP, multicastable
   or not; what the SDP parser makes of an SDP text) is a record [env] over which
   every theorem quantifies.  Authentication is off (config default; ws sessions
   always run with auth.NoneAuth).

   The model is the REPAIRED behaviour:
     D25   PLAY while already playing is answered 200 (the original returns
           without writing a response);
     D25b  a PLAY refused with 461 (stream not multicastable) leaves the status
           unchanged (the original set status=playing although nothing was attached).
   [step_orig] keeps the original behaviour for the _refuted witnesses. *)
From Coq Require Import ZArith List Bool.
From Coq Require String Ascii.
From V Require Import Bytes StrGo.
Import ListNotations.
Open Scope Z_scope.

(* ------------------------------------------------------------------ strings *)
Module C12Lit.
Import String Ascii.
Definition bs (s : String.string) : bytes :=
  List.map (fun a => Z.of_nat (Ascii.nat_of_ascii a)) (String.list_ascii_of_string s).

Definition k_unicast : bytes := Eval compute in bs "unicast".
Definition k_multicast : bytes := Eval compute in bs "multicast".
Definition k_append : bytes := Eval compute in bs "append".
Definition k_mode : bytes := Eval compute in bs "mode".
Definition k_record : bytes := Eval compute in bs "record".
Definition k_interleaved : bytes := Eval compute in bs "interleaved".
Definition k_client_port : bytes := Eval compute in bs "client_port".
Definition k_server_port : bytes := Eval compute in bs "server_port".
Definition k_port : bytes := Eval compute in bs "port".
Definition k_avp_tcp : bytes := Eval compute in bs "RTP/AVP/TCP".
Definition k_avp : bytes := Eval compute in bs "RTP/AVP".
Definition k_avp_udp : bytes := Eval compute in bs "RTP/AVP/UDP".
End C12Lit.
Import C12Lit.

(* strings.IndexByte + slicing: the text before / after the first [c] *)
Fixpoint cut (c : Z) (s : bytes) : option (bytes * bytes) :=
  match s with
  | [] => None
  | x :: t =>
      if x =? c then Some ([], t)
      else match cut c t with
           | Some (a, b) => Some (x :: a, b)
           | None => None
           end
  end.

Definition has_suffix (s suf : bytes) : bool := is_prefix (rev suf) (rev s).

(* Go: s == c || (c != "" && strings.LastIndex(s, c) == len(s)-len(c)).
   When c is longer than s, LastIndex is -1, which equals len(s)-len(c) exactly
   when c is one byte longer than s — mirrored. *)
Definition ctl_match (s c : bytes) : bool :=
  bytes_eqb s c ||
  (negb (bytes_eqb c []) &&
   (if (length c <=? length s)%nat then has_suffix s c
    else (length c =? S (length s))%nat)).

(* strconv.Atoi on ASCII: optional sign, at least one digit, int64 range *)
Definition is_digit (b : Z) : bool := (48 <=? b) && (b <=? 57).
Definition digits_val (s : bytes) : Z := fold_left (fun acc d => acc * 10 + (d - 48)) s 0.
Definition atoi (s : bytes) : option Z :=
  let '(neg, d) := match s with
                   | 43 :: t => (false, t)
                   | 45 :: t => (true, t)
                   | _ => (false, s)
                   end in
  match d with
  | [] => None
  | _ => if forallb is_digit d
         then let v := if neg : bool then - digits_val d else digits_val d in
              if (- 9223372036854775808 <=? v) && (v <=? 9223372036854775807) then Some v else None
         else None
  end.

(* parseRange(p): is the first number present, parsable and >= 0 ? *)
Definition range_begin_ok (p : bytes) : bool :=
  let s1 := match cut 45 p with None => p | Some (a, _) => trim_space a end in
  match s1 with
  | [] => false
  | _ => match atoi s1 with Some v => 0 <=? v | None => false end
  end.

(* scan.EqualPair.Scan: key / value around the first '=', trimmed of blanks and quotes *)
Definition sp_or_quote (b : Z) : bool := is_space b || (b =? 34).
Definition pair_scan (tok : bytes) : bytes * bytes :=
  match cut 61 tok with
  | None => (tok, [])
  | Some (k, v) => (trim_fn sp_or_quote k, trim_fn sp_or_quote v)
  end.

(* ------------------------------------------------------------------ types *)
Inductive meth := MOptions | MDescribe | MAnnounce | MSetup | MPlay | MRecord | MTeardown
                | MOther (k : Z).   (* PAUSE, GET_PARAMETER, SET_PARAMETER, REDIRECT, unknown names *)
Inductive status := SInit | SReady | SPlaying | SRecording.
Inductive smode := MdUnknown | MdPlay | MdRecord.
Inductive ttype := TUnknown | TTcp | TUdp | TMcast.

Definition meth_eqb (a b : meth) : bool :=
  match a, b with
  | MOptions, MOptions | MDescribe, MDescribe | MAnnounce, MAnnounce | MSetup, MSetup
  | MPlay, MPlay | MRecord, MRecord | MTeardown, MTeardown => true
  | MOther x, MOther y => x =? y
  | _, _ => false
  end.
Definition status_eqb (a b : status) : bool :=
  match a, b with
  | SInit, SInit | SReady, SReady | SPlaying, SPlaying | SRecording, SRecording => true
  | _, _ => false
  end.
Definition smode_eqb (a b : smode) : bool :=
  match a, b with
  | MdUnknown, MdUnknown | MdPlay, MdPlay | MdRecord, MdRecord => true
  | _, _ => false
  end.
Definition ttype_eqb (a b : ttype) : bool :=
  match a, b with
  | TUnknown, TUnknown | TTcp, TTcp | TUdp, TUdp | TMcast, TMcast => true
  | _, _ => false
  end.

Record transport := { t_mode : smode; t_type : ttype }.

(* a media control attribute after getControlPath: normalised text, or url.Parse failed *)
Inductive ctl := CtlOk (c : bytes) | CtlBad.

(* what parseSdp extracts: the control of the last video / audio media (None: no such media) *)
Record sdpinfo := { si_v : option ctl; si_a : option ctl }.

Record env := {
  e_sdp : Z -> option sdpinfo;           (* SDP id -> None: empty or refused by the SDP parser *)
  e_live : bytes -> option (Z * bool)    (* canonical path -> live stream: (SDP id, multicastable) *)
}.

Record request := {
  q_meth : meth;
  q_cseq : bytes;
  q_url : bytes;        (* request URI as url.URL.String() prints it, port explicit *)
  q_path : bytes;       (* url.URL.Path of it *)
  q_transport : bytes;  (* Transport header *)
  q_ctype_ok : bool;    (* Content-Type: application/sdp *)
  q_sdp : Z             (* id of the SDP text in the body *)
}.

Inductive held := HNone | HCons (p : bytes) | HPub (p : bytes).

Record sess := {
  s_ws : bool;          (* ws-rtsp: path fixed by the websocket URL *)
  s_closed : bool;
  s_status : status;
  s_mode : smode;
  s_path : bytes;
  s_vctl : ctl;
  s_actl : ctl;
  s_tr : transport;
  s_held : held
}.

Record response := { rs_code : Z; rs_cseq : bytes; rs_sess : bool }.

Inductive effect :=
| EAttach (p : bytes)       (* stream.StartConsume / multicast AddMember on the stream at p *)
| ERegister (p : bytes)     (* media.Regist of a new stream at p *)
| ERelease (h : held)       (* consumer.Close / stream.Close: give back what was held *)
| EClose.                   (* connection closed by the server *)

Definition init_sess (ws : bool) (wspath : bytes) : sess :=
  {| s_ws := ws; s_closed := false; s_status := SInit; s_mode := MdUnknown;
     s_path := if ws then wspath else [];
     s_vctl := CtlOk []; s_actl := CtlOk [];
     s_tr := {| t_mode := MdPlay; t_type := TUnknown |}; s_held := HNone |}.

Definition set_status (s : sess) (x : status) : sess :=
  {| s_ws := s_ws s; s_closed := s_closed s; s_status := x; s_mode := s_mode s; s_path := s_path s;
     s_vctl := s_vctl s; s_actl := s_actl s; s_tr := s_tr s; s_held := s_held s |}.
Definition set_mode (s : sess) (x : smode) : sess :=
  {| s_ws := s_ws s; s_closed := s_closed s; s_status := s_status s; s_mode := x; s_path := s_path s;
     s_vctl := s_vctl s; s_actl := s_actl s; s_tr := s_tr s; s_held := s_held s |}.
Definition set_path (s : sess) (x : bytes) : sess :=
  {| s_ws := s_ws s; s_closed := s_closed s; s_status := s_status s; s_mode := s_mode s; s_path := x;
     s_vctl := s_vctl s; s_actl := s_actl s; s_tr := s_tr s; s_held := s_held s |}.
Definition set_ctls (s : sess) (v a : ctl) : sess :=
  {| s_ws := s_ws s; s_closed := s_closed s; s_status := s_status s; s_mode := s_mode s; s_path := s_path s;
     s_vctl := v; s_actl := a; s_tr := s_tr s; s_held := s_held s |}.
Definition set_tr (s : sess) (x : transport) : sess :=
  {| s_ws := s_ws s; s_closed := s_closed s; s_status := s_status s; s_mode := s_mode s; s_path := s_path s;
     s_vctl := s_vctl s; s_actl := s_actl s; s_tr := x; s_held := s_held s |}.
Definition set_held (s : sess) (x : held) : sess :=
  {| s_ws := s_ws s; s_closed := s_closed s; s_status := s_status s; s_mode := s_mode s; s_path := s_path s;
     s_vctl := s_vctl s; s_actl := s_actl s; s_tr := s_tr s; s_held := x |}.
(* Session.process's deferred cleanup: everything back to the initial values, connection gone *)
Definition closed_of (s : sess) : sess :=
  {| s_ws := s_ws s; s_closed := true; s_status := SInit; s_mode := s_mode s; s_path := s_path s;
     s_vctl := s_vctl s; s_actl := s_actl s; s_tr := s_tr s; s_held := HNone |}.

(* ------------------------------------------------------------------ ParseTransport *)
Definition tok_step (acc : transport * bool) (tok : bytes) : transport * bool :=
  let '(t, err) := acc in
  if bytes_eqb tok k_unicast && ttype_eqb (t_type t) TMcast
  then ({| t_mode := t_mode t; t_type := TUdp |}, err)
  else if bytes_eqb tok k_multicast && ttype_eqb (t_type t) TTcp then (t, true)
  else if bytes_eqb tok k_append then (t, err)
  else
    let '(k, v) := pair_scan tok in
    if bytes_eqb k k_mode
    then ({| t_mode := if bytes_eqb v k_record then MdRecord else MdPlay; t_type := t_type t |}, err)
    else if bytes_eqb k k_interleaved || bytes_eqb k k_client_port
            || bytes_eqb k k_server_port || bytes_eqb k k_port
    then (t, err || negb (range_begin_ok v))
    else (t, err).

(* returns the transport as ParseTransport leaves it (also on error) and whether it failed *)
Definition parse_transport (t0 : transport) (ts : bytes) : transport * bool :=
  let t := match t_mode t0 with
           | MdUnknown => {| t_mode := MdPlay; t_type := t_type t0 |}
           | _ => t0
           end in
  match cut 59 ts with
  | None => (t, true)
  | Some (spec0, rest) =>
      let spec := trim_space spec0 in
      let toks := List.map trim_space (split_on 59 rest) in
      if bytes_eqb spec k_avp_tcp
      then fold_left tok_step toks ({| t_mode := t_mode t; t_type := TTcp |}, false)
      else if bytes_eqb spec k_avp || bytes_eqb spec k_avp_udp
      then fold_left tok_step toks ({| t_mode := t_mode t; t_type := TMcast |}, false)
      else (t, true)
  end.

(* the specification of Transport-header validity, independent of the order of the parameters:
   no transport spec, an unknown spec, "multicast" on RTP/AVP/TCP, or ANY parameter
   interleaved / client_port / server_port / port whose first number is missing, not a number or
   negative — whatever precedes or follows it *)
Definition is_range_key (k : bytes) : bool :=
  bytes_eqb k k_interleaved || bytes_eqb k k_client_port || bytes_eqb k k_server_port || bytes_eqb k k_port.
Definition tok_bad (tcp : bool) (tok : bytes) : bool :=
  if bytes_eqb tok k_multicast && tcp then true
  else if bytes_eqb tok k_append then false
  else let '(k, v) := pair_scan tok in is_range_key k && negb (range_begin_ok v).
Definition transport_invalid (ts : bytes) : bool :=
  match cut 59 ts with
  | None => true
  | Some (spec0, rest) =>
      let spec := trim_space spec0 in
      let toks := List.map trim_space (split_on 59 rest) in
      if bytes_eqb spec k_avp_tcp then existsb (tok_bad true) toks
      else if bytes_eqb spec k_avp || bytes_eqb spec k_avp_udp then existsb (tok_bad false) toks
      else true
  end.

(* ------------------------------------------------------------------ the handlers *)
Definition resp (code : Z) (q : request) : response :=
  {| rs_code := code; rs_cseq := q_cseq q; rs_sess := true |}.

Definition upd_ctls (s : sess) (si : sdpinfo) : sess :=
  set_ctls s (match si_v si with Some c => c | None => s_vctl s end)
             (match si_a si with Some c => c | None => s_actl s end).

Definition live (e : env) (p : bytes) : option (Z * bool) := e_live e (canonical_path p).

Definition do_describe (e : env) (s : sess) (q : request) : sess * Z :=
  let s1 := if s_ws s then s else set_path s (canonical_path (q_path q)) in
  match live e (s_path s1) with
  | None => (s1, 404)
  | Some (sid, _) =>
      match e_sdp e sid with
      | None => (s1, 404)
      | Some si => (set_mode (upd_ctls s1 si) MdPlay, 200)
      end
  end.

Definition do_announce (e : env) (s : sess) (q : request) : sess * Z :=
  if negb (q_ctype_ok q) then (s, 400)
  else
    let s1 := set_path s (canonical_path (q_path q)) in
    match e_sdp e (q_sdp q) with
    | None => (s1, 400)
    | Some si => (set_mode (upd_ctls s1 si) MdRecord, 200)
    end.

Definition ready_of (s : sess) : sess :=
  match s_status s with SInit => set_status s SReady | _ => s end.

Definition do_setup (e : env) (s : sess) (q : request) : sess * Z :=
  match s_vctl s, s_actl s with
  | CtlBad, _ => (s, 500)
  | _, CtlBad => (s, 500)
  | CtlOk v, CtlOk a =>
      if ctl_match (q_url q) a || ctl_match (q_url q) v then
        let '(t, err) := parse_transport (s_tr s) (q_transport q) in
        let s1 := set_tr s t in
        if err then (s1, 451)
        else
          let s2 := match s_mode s1 with MdUnknown => set_mode s1 (t_mode t) | _ => s1 end in
          if negb (smode_eqb (s_mode s2) (t_mode t)) then (s2, 451)
          else match s_mode s2 with
               | MdRecord =>
                   if ttype_eqb (t_type t) TTcp then (ready_of s2, 200) else (s2, 461)
               | _ =>
                   if ttype_eqb (t_type t) TMcast then
                     match live e (s_path s2) with
                     | None => (s2, 404)
                     | Some (_, false) => (s2, 461)
                     | Some (_, true) => (ready_of s2, 200)
                     end
                   else (ready_of s2, 200)
               end
      else (s, 500)
  end.

(* [fixed] selects the repaired behaviour (the model) or the original one *)
Definition do_play (fixed : bool) (e : env) (s : sess) (q : request)
  : sess * list response * list effect :=
  match s_status s with
  | SPlaying => (s, if fixed then [resp 200 q] else [], [])
  | _ =>
      if negb (smode_eqb (s_mode s) MdPlay) || ttype_eqb (t_type (s_tr s)) TUnknown
      then (s, [resp 455 q], [])
      else match live e (s_path s) with
           | None => (s, [resp 404 q], [])
           | Some (_, mc) =>
               if ttype_eqb (t_type (s_tr s)) TMcast && negb mc
               then (if fixed then s else set_status s SPlaying, [resp 461 q], [])
               else (set_held (set_status s SPlaying) (HCons (canonical_path (s_path s))),
                     [resp 200 q], [EAttach (canonical_path (s_path s))])
           end
  end.

Definition do_record (s : sess) (q : request) : sess * list response * list effect :=
  match s_status s with
  | SRecording => (s, [resp 200 q], [])
  | _ =>
      if negb (smode_eqb (s_mode s) MdRecord) || negb (ttype_eqb (t_type (s_tr s)) TTcp)
      then (s, [resp 455 q], [])
      else (set_held (set_status s SRecording) (HPub (canonical_path (s_path s))),
            [resp 200 q], [ERegister (canonical_path (s_path s))])
  end.

(* the status table of onPreprocess (OPTIONS and TEARDOWN are answered before it) *)
Definition legal_go (st : status) (m : meth) : bool :=
  match st with
  | SReady => match m with MSetup | MPlay | MRecord => true | _ => false end
  | SPlaying => match m with MPlay => true | _ => false end
  | SRecording => match m with MRecord => true | _ => false end
  | SInit => match m with MPlay | MRecord => false | _ => true end
  end.

Definition step_gen (fixed : bool) (e : env) (s : sess) (q : request)
  : sess * list response * list effect :=
  if s_closed s then (s, [], [])
  else match q_meth q with
  | MOptions => (s, [resp 200 q], [])
  | MTeardown => (closed_of s, [resp 200 q], [ERelease (s_held s); EClose])
  | m =>
      if negb (legal_go (s_status s) m) then (s, [resp 455 q], [])
      else match m with
           | MDescribe => let '(s', c) := do_describe e s q in (s', [resp c q], [])
           | MAnnounce => let '(s', c) := do_announce e s q in (s', [resp c q], [])
           | MSetup => let '(s', c) := do_setup e s q in (s', [resp c q], [])
           | MRecord => do_record s q
           | MPlay => do_play fixed e s q
           | _ => (s, [resp 455 q], [])
           end
  end.

Definition step := step_gen true.        (* the model: repaired behaviour *)
Definition step_orig := step_gen false.  (* the code before the fix: commits *)

(* the client goes away: process()'s deferred cleanup *)
Definition disconnect (s : sess) : sess * list effect :=
  if s_closed s then (s, []) else (closed_of s, [ERelease (s_held s); EClose]).

(* ------------------------------------------------------------------ runs and observations *)
(* the registry as the harness sees it: which external (pre-published) streams are still
   registered (a RECORD onto their path replaces them) *)
Definition bytes_in (p : bytes) (l : list bytes) : bool := existsb (bytes_eqb p) l.
Definition apply_effect (ext : list bytes) (f : effect) : list bytes :=
  match f with
  | ERegister p => filter (fun x => negb (bytes_eqb x p)) ext
  | _ => ext
  end.
Definition apply_effects (ext : list bytes) (fs : list effect) : list bytes :=
  fold_left apply_effect fs ext.

(* per watched path: 0 absent / 1 the external stream / 2 a stream published by this session,
   and the number of consumers this session has on it *)
Definition reg_entry (ext : list bytes) (h : held) (p : bytes) : Z * Z :=
  let own := match h with HPub x => bytes_eqb x p | _ => false end in
  let cons := match h with HCons x => bytes_eqb x p | _ => false end in
  (if own then 2 else if bytes_in p ext then 1 else 0,
   if cons && bytes_in p ext then 1 else 0).
Definition registry (ext : list bytes) (h : held) (watch : list bytes) : list (Z * Z) :=
  List.map (reg_entry ext h) watch.

Record obs_step := {
  o_resps : list response;
  o_eof : bool;                 (* the server closed the connection *)
  o_reg : list (Z * Z);
  o_media : bool                (* media for this session was seen by the client so far *)
}.

Fixpoint run_gen (fixed : bool) (e : env) (watch ext : list bytes) (s : sess) (qs : list request)
  : list obs_step * (list bytes * sess) :=
  match qs with
  | [] => ([], (ext, s))
  | q :: qs' =>
      let '(s', rs, fs) := step_gen fixed e s q in
      let ext' := apply_effects ext fs in
      let o := {| o_resps := rs; o_eof := s_closed s'; o_reg := registry ext' (s_held s') watch;
                  o_media := false |} in
      let '(os, fin) := run_gen fixed e watch ext' s' qs' in
      (o :: os, fin)
  end.

(* a whole case: the request sequence, then the client disconnects *)
Definition run_case (fixed : bool) (e : env) (watch ext : list bytes) (s0 : sess) (qs : list request)
  : list obs_step * list (Z * Z) :=
  let '(os, (ext', s')) := run_gen fixed e watch ext s0 qs in
  let '(s'', _) := disconnect s' in
  (os, registry ext' (s_held s'') watch).

(* ------------------------------------------------------------------ the specification monitor
   The property, stated on what a client and the registry can observe, independent of the
   model above.  [legal] is the method table of the property. *)
Definition legal (st : status) (m : meth) : bool :=
  match m with
  | MOptions | MTeardown => true
  | MOther _ => false
  | _ => match st with
         | SInit => match m with MDescribe | MAnnounce | MSetup => true | _ => false end
         | SReady => match m with MSetup | MPlay | MRecord => true | _ => false end
         | SPlaying => match m with MPlay => true | _ => false end
         | SRecording => match m with MRecord => true | _ => false end
         end
  end.

Definition code_class (c : Z) : Z :=
  if (200 <=? c) && (c <? 300) then 2
  else if c =? 455 then 455
  else if (400 <=? c) && (c <? 500) then 4
  else if (500 <=? c) && (c <? 600) then 5
  else 0.
Definition is_2xx (c : Z) : bool := code_class c =? 2.

Record mon := {
  m_phase : status;
  m_desc : bool;      (* a DESCRIBE was answered 2xx *)
  m_ann : bool;       (* an ANNOUNCE was answered 2xx *)
  m_via_d : bool;     (* ... and a SETUP was answered 2xx after it *)
  m_via_a : bool;
  m_played : bool;    (* a PLAY was answered 2xx in state ready *)
  m_closed : bool;
  m_reg : list (Z * Z)   (* registry after the previous step *)
}.

Definition mon0 (reg0 : list (Z * Z)) : mon :=
  {| m_phase := SInit; m_desc := false; m_ann := false; m_via_d := false; m_via_a := false;
     m_played := false; m_closed := false; m_reg := reg0 |}.

Definition pair_eqb (a b : Z * Z) : bool := (fst a =? fst b) && (snd a =? snd b).
Fixpoint reg_eqb (a b : list (Z * Z)) : bool :=
  match a, b with
  | [], [] => true
  | x :: a', y :: b' => pair_eqb x y && reg_eqb a' b'
  | _, _ => false
  end.
(* no stream published by the session, no consumer of the session anywhere *)
Definition reg_no_self (r : list (Z * Z)) : bool :=
  forallb (fun x => negb (fst x =? 2) && (snd x =? 0)) r.
Definition reg_has_cons (r : list (Z * Z)) : bool := existsb (fun x => 0 <? snd x) r.
Definition reg_has_own (r : list (Z * Z)) : bool := existsb (fun x => fst x =? 2) r.

Definition set_mreg (m : mon) (r : list (Z * Z)) : mon :=
  {| m_phase := m_phase m; m_desc := m_desc m; m_ann := m_ann m; m_via_d := m_via_d m;
     m_via_a := m_via_a m; m_played := m_played m; m_closed := m_closed m; m_reg := r |}.

(* the monitor's next state on a 2xx answer; None = the answer is not allowed there *)
Definition mon_accept (m : mon) (me : meth) : option mon :=
  match me with
  | MDescribe => Some {| m_phase := m_phase m; m_desc := true; m_ann := m_ann m; m_via_d := m_via_d m;
                         m_via_a := m_via_a m; m_played := m_played m; m_closed := false; m_reg := m_reg m |}
  | MAnnounce => Some {| m_phase := m_phase m; m_desc := m_desc m; m_ann := true; m_via_d := m_via_d m;
                         m_via_a := m_via_a m; m_played := m_played m; m_closed := false; m_reg := m_reg m |}
  | MSetup => Some {| m_phase := match m_phase m with SInit => SReady | x => x end;
                      m_desc := m_desc m; m_ann := m_ann m;
                      m_via_d := m_via_d m || m_desc m; m_via_a := m_via_a m || m_ann m;
                      m_played := m_played m; m_closed := false; m_reg := m_reg m |}
  | MPlay => match m_phase m with
             | SPlaying => Some m
             | SReady => if m_via_d m
                         then Some {| m_phase := SPlaying; m_desc := m_desc m; m_ann := m_ann m;
                                      m_via_d := m_via_d m; m_via_a := m_via_a m; m_played := true;
                                      m_closed := false; m_reg := m_reg m |}
                         else None     (* playing not reached through DESCRIBE, SETUP *)
             | _ => None
             end
  | MRecord => match m_phase m with
               | SRecording => Some m
               | SReady => if m_via_a m
                           then Some {| m_phase := SRecording; m_desc := m_desc m; m_ann := m_ann m;
                                        m_via_d := m_via_d m; m_via_a := m_via_a m; m_played := m_played m;
                                        m_closed := false; m_reg := m_reg m |}
                           else None
               | _ => None
               end
  | MTeardown => Some {| m_phase := m_phase m; m_desc := m_desc m; m_ann := m_ann m; m_via_d := m_via_d m;
                         m_via_a := m_via_a m; m_played := m_played m; m_closed := true; m_reg := m_reg m |}
  | _ => Some m
  end.

Definition is_play_or_record (me : meth) : bool :=
  match me with MPlay | MRecord => true | _ => false end.
Definition is_teardown (me : meth) : bool := match me with MTeardown => true | _ => false end.

Definition mon_step (m : mon) (q : request) (o : obs_step) : option mon :=
  if m_closed m then
    (* the connection is gone: nothing is answered and nothing of the session reappears *)
    match o_resps o with
    | [] => if o_eof o && reg_no_self (o_reg o) && (negb (o_media o) || m_played m)
            then Some (set_mreg m (o_reg o)) else None
    | _ => None
    end
  else
    match o_resps o with
    | [r] =>
        let c := code_class (rs_code r) in
        let me := q_meth q in
        (* exactly one response, CSeq echoed, session id present, a real status code *)
        if negb (bytes_eqb (rs_cseq r) (q_cseq q) && rs_sess r && negb (c =? 0)) then None
        else if negb (legal (m_phase m) me) then
          (* not legal in the current state: 455, nothing changes, still usable *)
          if (c =? 455) && reg_eqb (o_reg o) (m_reg m) && negb (o_eof o)
             && (negb (o_media o) || m_played m)
          then Some m else None
        else if (c =? 455) && negb (status_eqb (m_phase m) SReady && is_play_or_record me) then None
        else if (c =? 2) && meth_eqb me MSetup && transport_invalid (q_transport q) then
          None   (* a SETUP whose Transport header is invalid must be refused, wherever the fault is *)
        else if c =? 2 then
          match mon_accept m me with
          | None => None
          | Some m' =>
              let r' := o_reg o in
              if (negb (reg_has_cons r') || status_eqb (m_phase m') SPlaying)
                 && (negb (reg_has_own r') || status_eqb (m_phase m') SRecording)
                 && (negb (o_media o) || m_played m')
                 && (if m_closed m' then o_eof o && reg_no_self r' else negb (o_eof o))
              then Some (set_mreg m' r') else None
          end
        else
          (* refused: the connection stays usable and the registry is untouched;
             a refused TEARDOWN is not allowed (it must release) *)
          if negb (is_teardown me) && negb (o_eof o) && reg_eqb (o_reg o) (m_reg m)
             && (negb (o_media o) || m_played m)
          then Some m else None
    | _ => None
    end.

Fixpoint mon_run (m : mon) (qs : list request) (os : list obs_step) : option mon :=
  match qs, os with
  | [], [] => Some m
  | q :: qs', o :: os' =>
      match mon_step m q o with
      | Some m' => mon_run m' qs' os'
      | None => None
      end
  | _, _ => None
  end.

(* the oracle: applied to the model (theorem C12_model_passes) and to the implementation *)
Definition c12_ok (reg0 : list (Z * Z)) (qs : list request) (obs : list obs_step * list (Z * Z)) : bool :=
  match mon_run (mon0 reg0) qs (fst obs) with
  | Some _ => reg_no_self (snd obs)
  | None => false
  end.

Definition req_wf (q : request) : bool := negb (bytes_eqb (q_url q) []).

(* ------------------------------------------------------------------ client-visible events
   (used to state "only through DESCRIBE then SETUP then PLAY") *)
Definition ev_of (q : request) (o : obs_step) : list (meth * Z) :=
  match o_resps o with
  | [r] => [(q_meth q, code_class (rs_code r))]
  | _ => []
  end.
Fixpoint events (qs : list request) (os : list obs_step) : list (meth * Z) :=
  match qs, os with
  | q :: qs', o :: os' => ev_of q o ++ events qs' os'
  | _, _ => []
  end.
(* the methods [ms] were answered 2xx, in this order (not necessarily adjacent) *)
Fixpoint subseq (ms : list meth) (tr : list (meth * Z)) {struct tr} : Prop :=
  match ms with
  | [] => True
  | m :: ms' =>
      match tr with
      | [] => False
      | x :: tr' => (meth_eqb (fst x) m = true /\ snd x = 2 /\ subseq ms' tr') \/ subseq (m :: ms') tr'
      end
  end.
