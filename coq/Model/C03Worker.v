(* Labelled transition system for one conversion goroutine of a stream:
     rtp.Demuxer.process      (av/format/rtp/demuxer.go)      k = 1
     flv.Muxer.process        (av/format/flv/muxer.go)        k = 2
     mpegts.Muxer.process     (av/format/mpegts/muxer.go)     k = 3
   The three are the same program:

     process:  for !closed { Point("worker.pop"); x := recvQueue.Pop(); Point("worker.got")
                             if x == nil { continue }; work(x) }
               (deferred) recvQueue.Reset()
     Close:    if closed { return }; closed = true; recvQueue.Push(nil)      -- repaired code
                                                    recvQueue.Signal()       -- before 951ebeb
     producer: recvQueue.Push(x)            (WriteRtpPacket / WriteFrame)

   over cnotch/queue.SyncQueue (a slice guarded by a mutex with one sync.Cond):
     Pop:    lock; if len = 0 { cond.Wait() }; take the head, or nil when still empty; unlock
     Push:   lock; append; cond.Signal(); unlock
     Signal: cond.Signal()                  -- a Signal with no waiter is lost

   Three threads: the worker, one closer, one producer with a list of items to push.  The atomic
   steps of the worker are the code segments between the two schedule points; the wake-up of a
   waiting worker is split in two (signalled -> re-acquires the mutex and takes the head), so other
   pushes may slip in between, as in sync.Cond.Wait.  The closer's two statements are two steps.
   [push] selects the repaired Close (true) or the one with the bare Signal (false).

   Modelled, not verified: the plain [closed] flag is sequentially consistent; sync.Cond has no
   spurious wake-ups; the length test and the registration as a waiter inside Pop are one step
   (a bare Signal in between is lost exactly like one that arrives just before Pop).

   No proofs in this file. *)
From Coq Require Import ZArith List Bool Arith.
Import ListNotations.

Inductive wpc :=
| WStart                     (* goroutine spawned, loop condition not evaluated yet *)
| WPop                       (* parked at worker.pop: tested closed = false, about to Pop *)
| WWait                      (* blocked in sync.Cond.Wait inside Pop (the queue was empty) *)
| WWoken                     (* signalled: has to re-acquire the mutex and take the head *)
| WGot (x : option Z)        (* parked at worker.got: Pop returned x (None = nil) *)
| WDone.                     (* loop left, deferred Reset done, goroutine ended *)

Inductive wkpc := WK0 | WK1 | WKDone.     (* closer: Close not begun / flag set / Close returned *)

Inductive wtid := TW | TK | TP.           (* worker, closer, producer *)

Record wst := {
  w_closed : bool;                 (* the converter's closed flag *)
  w_q : list (option Z);           (* recvQueue, oldest first; None = nil element *)
  w_pc : wpc;
  w_out : list Z;                  (* items handed to the conversion, oldest first *)
  w_kpc : wkpc;
  w_todo : list Z;                 (* items the producer has still to push *)
  w_pushed : list Z                (* ghost: items pushed so far, oldest first *)
}.

Definition winit (items : list Z) : wst :=
  {| w_closed := false; w_q := []; w_pc := WStart; w_out := []; w_kpc := WK0;
     w_todo := items; w_pushed := [] |}.

Definition set_wpc (s : wst) (pc : wpc) : wst :=
  {| w_closed := w_closed s; w_q := w_q s; w_pc := pc; w_out := w_out s; w_kpc := w_kpc s;
     w_todo := w_todo s; w_pushed := w_pushed s |}.
Definition set_wq (s : wst) (q : list (option Z)) : wst :=
  {| w_closed := w_closed s; w_q := q; w_pc := w_pc s; w_out := w_out s; w_kpc := w_kpc s;
     w_todo := w_todo s; w_pushed := w_pushed s |}.
Definition set_wout (s : wst) (o : list Z) : wst :=
  {| w_closed := w_closed s; w_q := w_q s; w_pc := w_pc s; w_out := o; w_kpc := w_kpc s;
     w_todo := w_todo s; w_pushed := w_pushed s |}.
Definition set_wk (s : wst) (closed : bool) (k : wkpc) : wst :=
  {| w_closed := closed; w_q := w_q s; w_pc := w_pc s; w_out := w_out s; w_kpc := k;
     w_todo := w_todo s; w_pushed := w_pushed s |}.
Definition set_wprod (s : wst) (todo pushed : list Z) : wst :=
  {| w_closed := w_closed s; w_q := w_q s; w_pc := w_pc s; w_out := w_out s; w_kpc := w_kpc s;
     w_todo := todo; w_pushed := pushed |}.

(* cond.Signal(): wakes the worker when it waits; otherwise nothing happens (the signal is lost) *)
Definition wsignal (s : wst) : wst :=
  match w_pc s with WWait => set_wpc s WWoken | _ => s end.

(* SyncQueue.Push *)
Definition wpush (s : wst) (x : option Z) : wst := wsignal (set_wq s (w_q s ++ [x])).

(* the loop condition [!closed]; leaving the loop runs the deferred recvQueue.Reset() *)
Definition wloop_test (s : wst) : wst :=
  if w_closed s then set_wpc (set_wq s []) WDone else set_wpc s WPop.

(* the second half of Pop: [e, _ := q.queue.Pop()] — nil when the queue is empty *)
Definition wtake (s : wst) : wst :=
  match w_q s with
  | [] => set_wpc s (WGot None)
  | x :: q' => set_wpc (set_wq s q') (WGot x)
  end.

Definition wstep_worker (s : wst) : wst :=
  match w_pc s with
  | WStart => wloop_test s
  | WPop => match w_q s with [] => set_wpc s WWait | _ => wtake s end
  | WWait => s
  | WWoken => wtake s
  | WGot None => wloop_test s
  | WGot (Some i) => wloop_test (set_wout s (w_out s ++ [i]))
  | WDone => s
  end.

Definition wstep_closer (push : bool) (s : wst) : wst :=
  match w_kpc s with
  | WK0 => if w_closed s then set_wk s (w_closed s) WKDone else set_wk s true WK1
  | WK1 => let s' := set_wk s (w_closed s) WKDone in
           if push then wpush s' None else wsignal s'
  | WKDone => s
  end.

Definition wstep_prod (s : wst) : wst :=
  match w_todo s with
  | [] => s
  | i :: r => wpush (set_wprod s r (w_pushed s ++ [i])) (Some i)
  end.

(* a step of a thread that cannot move leaves the state unchanged *)
Definition wstep (push : bool) (s : wst) (t : wtid) : wst :=
  match t with TW => wstep_worker s | TK => wstep_closer push s | TP => wstep_prod s end.

Definition wrun (push : bool) (sched : list wtid) (s : wst) : wst := fold_left (wstep push) sched s.

(* ---- what the statements speak about ---- *)

(* can the worker take a step? (not when it waits inside Pop, not when it has ended) *)
Definition worker_can_move (s : wst) : bool :=
  match w_pc s with WWait | WDone => false | _ => true end.

Definition winflight (pc : wpc) : list Z := match pc with WGot (Some i) => [i] | _ => [] end.

Fixpoint wsomes (q : list (option Z)) : list Z :=
  match q with [] => [] | Some i :: r => i :: wsomes r | None :: r => wsomes r end.

Fixpoint count_tw (sched : list wtid) : nat :=
  match sched with [] => 0 | TW :: r => S (count_tw r) | _ :: r => count_tw r end.

(* ---- the granularity of the replay harness (harness/c03worker) ----
   There the closer has no schedule point inside Close, and a woken worker runs on to worker.got
   inside the step that woke it (the controller waits until every goroutine is parked or blocked);
   the worker is adopted at its first worker.pop.  Every such run is a run of the LTS above
   (Proofs/C03WorkerProofs.v, [hrun_is_wrun]). *)
Definition heager (s : wst) : wst := match w_pc s with WWoken => wstep_worker s | _ => s end.

Definition hstep (push : bool) (s : wst) (t : wtid) : wst :=
  match t with
  | TW => wstep_worker s
  | TK => heager (wstep_closer push (wstep_closer push s))
  | TP => heager (wstep_prod s)
  end.

Definition hinit (items : list Z) : wst := wstep_worker (winit items).
Definition hrun (push : bool) (hs : list wtid) (items : list Z) : wst :=
  fold_left (hstep push) hs (hinit items).

(* the observation: worker position (1 worker.pop, 2 worker.got, 3 blocked in Wait, 5 ended;
   0 and 4 do not occur at harness granularity), items processed, closer position (0 / 5),
   number of items not pushed yet *)
Record wobs := { o_pc : Z; o_out : list Z; o_kpc : Z; o_todo : nat }.

Definition wpc_code (pc : wpc) : Z :=
  match pc with WStart => 0 | WPop => 1 | WGot _ => 2 | WWait => 3 | WWoken => 4 | WDone => 5 end%Z.
Definition wkpc_code (k : wkpc) : Z := match k with WK0 => 0 | WK1 => 1 | WKDone => 5 end%Z.

Definition wobserve (s : wst) : wobs :=
  {| o_pc := wpc_code (w_pc s); o_out := w_out s; o_kpc := wkpc_code (w_kpc s);
     o_todo := length (w_todo s) |}.

Fixpoint zprefixb (a b : list Z) : bool :=
  match a, b with
  | [], _ => true
  | x :: a', y :: b' => Z.eqb x y && zprefixb a' b'
  | _ :: _, [] => false
  end.

Fixpoint zlist_eqb (a b : list Z) : bool :=
  match a, b with
  | [], [] => true
  | x :: a', y :: b' => Z.eqb x y && zlist_eqb a' b'
  | _, _ => false
  end.

(* the oracle: boolean form of the theorems on an observation
   (a) not (Close returned and the worker waits)
   (b) Close returned and the worker cannot move  ->  the worker has ended
   (c) the processed items are a prefix of the pushed ones; with Close not begun and the worker
       waiting nothing pushed is left unprocessed *)
Definition ok_worker (items : list Z) (o : wobs) : bool :=
  let pushed := firstn (length items - o_todo o) items in
  let kdone := Z.eqb (o_kpc o) 5 in
  let at_rest := Z.eqb (o_pc o) 3 || Z.eqb (o_pc o) 5 in
  (o_todo o <=? length items)
  && negb (kdone && Z.eqb (o_pc o) 3)
  && (if kdone && at_rest then Z.eqb (o_pc o) 5 else true)
  && zprefixb (o_out o) pushed
  && (if Z.eqb (o_kpc o) 0 && Z.eqb (o_pc o) 3 then zlist_eqb (o_out o) pushed else true).
