(* C16 — permission patterns.  Executable model of
     provider/auth/path_matcher.go  (NewPathMatcher, pathMacher.Match, partCount)
     provider/auth/user.go          (initMatchers, User.init admin default, ValidatePermission)
     utils/scan/scanner.go          (Scanner.Scan with unicode.IsSpace trimming)
   and, independently, the documented pattern language over segment lists
   (docs/config.md §3.2 and the property statement).  No proofs here. *)
From Coq Require Import ZArith List Bool.
From V Require Import Bytes StrGo.
Import ListNotations.
Open Scope Z_scope.

Definition STAR : Z := 42.   (* '*' *)
Definition PLUS : Z := 43.   (* '+' *)
Definition SEMI : Z := 59.   (* ';' *)

(* ------------------------------------------------------------------ *)
(* Go side                                                             *)

(* strings.IndexRune(str, d) + the two slices str[:i], str[i+1:] *)
Fixpoint cut (d : Z) (s : bytes) : option (bytes * bytes) :=
  match s with
  | [] => None
  | c :: s' =>
      if Z.eqb c d then Some ([], s')
      else match cut d s' with
           | None => None
           | Some (a, b) => Some (c :: a, b)
           end
  end.

(* scan.Scanner{delim d, trimFunc unicode.IsSpace}.Scan : (advance, token, continueScan) *)
Definition scan (d : Z) (s : bytes) : bytes * bytes * bool :=
  match cut d s with
  | None => ([], trim_space s, false)
  | Some (a, b) => (trim_space b, trim_space a, true)
  end.

(* partCount: number of '/' in s (the IndexByte loop) *)
Fixpoint part_count (s : bytes) : Z :=
  match s with
  | [] => 0
  | c :: s' => (if Z.eqb c SLASH then 1 else 0) + part_count s'
  end.

Inductive matcher : Type :=
| Always                                        (* alwaysMatcher{} *)
| Parts (parts : list bytes) (wild : bool).     (* &pathMacher{parts, wildcardEnd} *)

(* strings.Split(strings.ToLower(strings.Trim(pathMask, "/")), "/") *)
Definition mask_parts (mask : bytes) : list bytes :=
  split_on SLASH (to_lower (trim_byte SLASH mask)).

(* the tail of NewPathMatcher: trailing "*" becomes the flag *)
Definition finish_matcher (parts : list bytes) : matcher :=
  let wild := bytes_eqb (last parts []) [STAR] in
  Parts (if wild then removelast parts else parts) wild.

(* NewPathMatcher as repaired (fix for D31: every pattern segment is trimmed
   exactly as the scanner trims the path's segments) *)
Definition compile (mask : bytes) : matcher :=
  if bytes_eqb (trim_space mask) [STAR] then Always
  else finish_matcher (map trim_space (mask_parts mask)).

(* NewPathMatcher before the repair: pattern segments keep their blanks *)
Definition compile_prefix (mask : bytes) : matcher :=
  if bytes_eqb (trim_space mask) [STAR] then Always
  else finish_matcher (mask_parts mask).

(* the for-loop of pathMacher.Match; [ok] is the scanner's continueScan flag *)
Fixpoint match_loop (parts : list bytes) (advance : bytes) (ok : bool) : bool :=
  match parts with
  | [] => true
  | p :: ps =>
      if ok then
        let '(adv, tok, ok') := scan SLASH advance in
        if bytes_eqb p [PLUS] then match_loop ps adv ok'
        else if bytes_eqb tok p then match_loop ps adv ok'
        else false
      else true
  end.

Definition match_go (m : matcher) (path0 : bytes) : bool :=
  match m with
  | Always => true
  | Parts parts wild =>
      let path := to_lower (trim_byte SLASH path0) in
      let count := part_count path + 1 in
      let n := Z.of_nat (length parts) in
      if count <? n then false
      else if (n <? count) && negb wild then false
      else match_loop parts path true
  end.

(* initMatchers: loop over scan.Semicolon; empty items are skipped.  The loop
   runs while continueScan; [fuel] only makes the recursion structural (each
   round consumes at least the delimiter) — see init_matchers below. *)
Fixpoint init_loop (mk : bytes -> matcher) (fuel : nat) (advance : bytes) : list matcher :=
  match fuel with
  | O => []
  | S fuel' =>
      let '(adv, mask, cont) := scan SEMI advance in
      let rest := if cont then init_loop mk fuel' adv else [] in
      match mask with
      | [] => rest
      | _ => mk mask :: rest
      end
  end.
Definition init_matchers (mk : bytes -> matcher) (access : bytes) : list matcher :=
  init_loop mk (S (length access)) access.

(* User.init: an administrator's empty right becomes "*" *)
Definition admin_default (admin : bool) (access : bytes) : bytes :=
  if admin then match access with [] => [STAR] | _ => access end else access.

(* User.init + ValidatePermission for one right (push or pull) *)
Definition validate_with (mk : bytes -> matcher) (admin : bool) (access path : bytes) : bool :=
  let ms := init_matchers mk (admin_default admin access) in
  match ms with
  | [] => false                                   (* matchers == nil *)
  | _ => let p := trim_space path in existsb (fun m => match_go m p) ms
  end.
Definition validate_go := validate_with compile.
Definition validate_go_prefix := validate_with compile_prefix.

(* ------------------------------------------------------------------ *)
(* Specification: the documented language, over segment lists           *)

(* A segment is taken case-insensitively and without surrounding white space. *)
Definition norm_seg (s : bytes) : bytes := to_lower (trim_space s).

(* Leading and trailing '/' do not count; what is between two '/' is a segment
   (so a doubled slash is an empty segment, and "" / "/" is one empty segment). *)
Definition segments (s : bytes) : list bytes :=
  map norm_seg (split_on SLASH (trim_byte SLASH s)).

Definition is_star (s : bytes) : bool := bytes_eqb s [STAR].
Definition is_plus (s : bytes) : bool := bytes_eqb s [PLUS].

(* pattern segments against path segments *)
Fixpoint seg_match (pat path : list bytes) : bool :=
  match pat with
  | [] => match path with [] => true | _ => false end
  | p :: pat' =>
      if is_star p && (match pat' with [] => true | _ => false end)
      then true                                   (* trailing '*': zero or more remaining segments *)
      else match path with
           | [] => false
           | x :: path' =>
               (is_plus p || bytes_eqb p x)       (* '+' one arbitrary segment / a literal matches itself *)
               && seg_match pat' path'
           end
  end.

(* one pattern against one path, as strings (NewPathMatcher(mask).Match(path)) *)
Definition spec_pattern (mask path : bytes) : bool :=
  seg_match (segments mask) (segments path).

(* the items of a right: ';'-separated, blanks around an item are not part of it, empty items do not count *)
Definition spec_items (right : bytes) : list bytes :=
  filter (fun it => negb (bytes_eqb it [])) (map trim_space (split_on SEMI right)).

(* the right as it counts: an administrator's empty right is "*" *)
Definition spec_right (admin : bool) (right : bytes) : bytes :=
  if admin && bytes_eqb right [] then [STAR] else right.

Definition spec_permit (admin : bool) (right path : bytes) : bool :=
  existsb (fun item => spec_pattern item (trim_space path)) (spec_items (spec_right admin right)).

(* relational reading of the statement, used only to say what seg_match means *)
Inductive Matches : list bytes -> list bytes -> Prop :=
| M_end : Matches [] []
| M_star : forall rest, Matches [[STAR]] rest
| M_plus : forall pat x path, Matches pat path -> Matches ([PLUS] :: pat) (x :: path)
| M_lit : forall p pat path, Matches pat path -> Matches (p :: pat) (p :: path).

(* ------------------------------------------------------------------ *)
(* The stored user: auth.Save of a new / an existing name               *)

Inductive access_right : Type := PullRight | PushRight.

(* auth.User: the exported fields that matter here and the two compiled matcher lists *)
Record user : Type := mkUser {
  u_admin : bool;
  u_pw : bytes;
  u_push : bytes;
  u_pull : bytes;
  u_pushm : list matcher;
  u_pullm : list matcher
}.

(* the argument of auth.Save(src, updatePassword) *)
Record save : Type := mkSave {
  s_admin : bool;
  s_pw : bytes;
  s_push : bytes;
  s_pull : bytes;
  s_updpw : bool
}.

(* initMatchers(access, &dest): appends to whatever dest holds *)
Definition init_matchers_into (dest : list matcher) (access : bytes) : list matcher :=
  dest ++ init_matchers compile access.

(* User.init: administrator default on the access strings (with the flag the
   struct holds at that moment), matcher lists reset, then rebuilt *)
Definition user_init (u : user) : user :=
  let pull := admin_default (u_admin u) (u_pull u) in
  let push := admin_default (u_admin u) (u_push u) in
  let pushm := [] in                              (* u.pushMatchers = nil *)
  let pullm := [] in                              (* u.pullMatchers = nil *)
  mkUser (u_admin u) (u_pw u) push pull
         (init_matchers_into pushm push) (init_matchers_into pullm pull).

(* User.CopyFrom(src, withPassword): password rule, admin flag, access strings, then init *)
Definition copy_from (u src : user) (with_pw : bool) : user :=
  user_init (mkUser (u_admin src) (if with_pw then u_pw src else u_pw u)
                    (u_push src) (u_pull src) (u_pushm u) (u_pullm u)).

(* manager.Save for one name: newu.init(); existing name -> CopyFrom, new name -> the struct itself *)
Definition save_go (st : option user) (s : save) : option user :=
  let newu := user_init (mkUser (s_admin s) (s_pw s) (s_push s) (s_pull s) [] []) in
  match st with
  | Some u => Some (copy_from u newu (s_updpw s))
  | None => Some newu
  end.

(* User.ValidatePermission on the stored matchers *)
Definition validate_user (u : user) (r : access_right) (path : bytes) : bool :=
  let ms := match r with PushRight => u_pushm u | PullRight => u_pullm u end in
  match ms with
  | [] => false
  | _ => let p := trim_space path in existsb (fun m => match_go m p) ms
  end.

(* what the statement says about a user as currently saved *)
Definition spec_save (s : save) (r : access_right) (path : bytes) : bool :=
  spec_permit (s_admin s) (match r with PushRight => s_push s | PullRight => s_pull s end) path.

Definition last_save (saves : list save) : option save :=
  match rev saves with s :: _ => Some s | [] => None end.

(* ------------------------------------------------------------------ *)
(* Cases and the oracle applied to the implementation                   *)

(* a case asks one compiled right / pattern / stored user about many paths *)
Inductive c16case : Type :=
| CUser (admin : bool) (right : bytes) (paths : list bytes)   (* auth.User + ValidatePermission *)
| CPattern (mask : bytes) (paths : list bytes)                (* NewPathMatcher(mask).Match *)
| CHist (saves : list save) (paths : list bytes).             (* auth.Save of one name, repeatedly; then Get + ValidatePermission: push, pull per path *)

Definition both_rights (f : access_right -> bytes -> bool) (paths : list bytes) : list bool :=
  flat_map (fun p => [f PushRight p; f PullRight p]) paths.

Definition run_case (c : c16case) : list bool :=
  match c with
  | CUser admin rt paths => map (validate_go admin rt) paths
  | CPattern mask paths => let m := compile mask in map (match_go m) paths
  | CHist saves paths =>
      match fold_left save_go saves None with
      | Some u => both_rights (validate_user u) paths
      | None => both_rights (fun _ _ => false) paths          (* auth.Get(name) == nil *)
      end
  end.

Definition run_case_prefix (c : c16case) : list bool :=
  match c with
  | CUser admin rt paths => map (validate_go_prefix admin rt) paths
  | CPattern mask paths => let m := compile_prefix mask in map (match_go m) paths
  | CHist _ _ => run_case c
  end.

Definition spec_case (c : c16case) : list bool :=
  match c with
  | CUser admin rt paths => map (spec_permit admin rt) paths
  | CPattern mask paths => map (spec_pattern mask) paths
  | CHist saves paths =>
      match last_save saves with
      | Some s => both_rights (spec_save s) paths             (* the user as currently saved, nothing else *)
      | None => both_rights (fun _ _ => false) paths
      end
  end.

(* answers on the wire: one byte per path, 1 permitted / 0 refused (the harness
   writes 2 when the push and the pull right of the same string disagree) *)
Definition enc_answers (l : list bool) : bytes := map (fun b : bool => if b then 1 else 0) l.

(* the oracle: the observed answers are exactly what the documented language says *)
Definition ok_case (c : c16case) (observed : bytes) : bool :=
  bytes_eqb (enc_answers (spec_case c)) observed.

(* the class D31 is about: some pattern segment of the right has a blank edge *)
Definition blank_edged (s : bytes) : bool := negb (bytes_eqb (trim_space s) s).
Definition item_blank_edges (item : bytes) : bool :=
  existsb blank_edged (split_on SLASH (trim_byte SLASH item)).
Definition right_blank_edges (right : bytes) : bool :=
  existsb item_blank_edges (spec_items right).
