(* C18: what both managers (auth.manager, route.routetable) do around the table
   itself: the pending saves/removes lists, Flush (the full list goes to the
   provider only when something is pending), and a restart (a fresh Reset on
   what the provider has on disk).  The disk is seen here through the JSON law
   of Model/C18CrashFs.v: [None] = no file, [Some l] = a file that decodes to l.
   The table operations themselves are a parameter ([tops]); they are
   instantiated with Model/C18Users.v and Model/Route.v below.  No proofs. *)
From Coq Require Import ZArith List Bool.
From V Require Import Bytes StrGo Route C18Users.
Import ListNotations.
Open Scope Z_scope.

Record tops (E X : Type) := {
  t_xkey : X -> option bytes;            (* canonical key of a Save argument; None = Save returns an error *)
  t_save : list E -> X -> list E;
  t_ckey : bytes -> bytes;               (* canonicalisation of a Del/Get argument *)
  t_del : list E -> bytes -> list E;     (* takes the raw argument *)
  t_look : list E -> bytes -> option E;  (* lookup by canonical key *)
  t_reinit : E -> option E;              (* what Reset does with a loaded entry; None = skipped *)
  t_default : list E;                    (* LoadAll when the file is missing *)
  t_eqb : E -> E -> bool }.
Arguments t_xkey {E X}. Arguments t_save {E X}. Arguments t_ckey {E X}. Arguments t_del {E X}.
Arguments t_look {E X}. Arguments t_reinit {E X}. Arguments t_default {E X}. Arguments t_eqb {E X}.

Record mstate (E : Type) := { m_tab : list E; m_saves : list bytes; m_removes : list bytes }.
Arguments m_tab {E}. Arguments m_saves {E}. Arguments m_removes {E}.
Arguments Build_mstate {E}.

Definition kmem (k : bytes) (l : list bytes) : bool := existsb (bytes_eqb k) l.
(* for i, x := range l { if x == k { l = append(l[:i], l[i+1:]...); break } } *)
Fixpoint remove_first (k : bytes) (l : list bytes) : list bytes :=
  match l with
  | [] => []
  | x :: l' => if bytes_eqb k x then l' else x :: remove_first k l'
  end.

Definition is_some {A} (o : option A) : bool := match o with Some _ => true | None => false end.

Fixpoint filter_map {A B} (f : A -> option B) (l : list A) : list B :=
  match l with
  | [] => []
  | a :: l' => match f a with Some b => b :: filter_map f l' | None => filter_map f l' end
  end.

Definition pend_empty {E} (st : mstate E) : bool :=
  match m_saves st, m_removes st with [], [] => true | _, _ => false end.

Inductive mop (X : Type) :=
| MSave (x : X) | MDel (k : bytes) | MGet (k : bytes) | MAll | MFlush | MRestart.
Arguments MSave {X}. Arguments MDel {X}. Arguments MGet {X}. Arguments MAll {X}.
Arguments MFlush {X}. Arguments MRestart {X}.

Definition fcall (E : Type) := option (list E * list bytes * list bytes)%type.
Inductive mout (E : Type) :=
| OSaved (ok : bool)
| ODeleted
| OGot (o : option E)
| OAllIs (t : list E)
| OFlushed (call : fcall E) (disk_after : option (list E))   (* provider.Flush arguments (if called); what LoadAll sees afterwards *)
| ORestarted (t : list E).                                    (* the table right after the restart *)
Arguments OSaved {E}. Arguments ODeleted {E}. Arguments OGot {E}. Arguments OAllIs {E}.
Arguments OFlushed {E}. Arguments ORestarted {E}.

Section Mgr.
  Context {E X : Type}.
  Variable M : tops E X.

  Definition disk := option (list E).

  (* Reset(provider): LoadAll, init every entry, skip the ones that fail *)
  Definition load (d : disk) : list E :=
    filter_map (t_reinit M) (match d with None => t_default M | Some l => l end).
  Definition restart (d : disk) : mstate E := {| m_tab := load d; m_saves := []; m_removes := [] |}.

  Definition do_save (st : mstate E) (x : X) : mstate E * bool :=
    match t_xkey M x with
    | None => (st, false)
    | Some k =>
        let tab' := t_save M (m_tab st) x in
        if is_some (t_look M (m_tab st) k) then
          ({| m_tab := tab';
              m_saves := if kmem k (m_saves st) then m_saves st else m_saves st ++ [k];
              m_removes := m_removes st |}, true)
        else
          ({| m_tab := tab'; m_saves := m_saves st ++ [k]; m_removes := remove_first k (m_removes st) |}, true)
    end.

  Definition do_del (st : mstate E) (k0 : bytes) : mstate E :=
    let k := t_ckey M k0 in
    if is_some (t_look M (m_tab st) k) then
      {| m_tab := t_del M (m_tab st) k0; m_saves := remove_first k (m_saves st); m_removes := m_removes st ++ [k] |}
    else st.

  Definition flush_call (st : mstate E) : fcall E :=
    if pend_empty st then None else Some (m_tab st, m_saves st, m_removes st).

  (* manager.Flush with the JSON provider: the whole list replaces the file *)
  Definition do_flush (st : mstate E) (d : disk) : mstate E * disk :=
    if pend_empty st then (st, d)
    else ({| m_tab := m_tab st; m_saves := []; m_removes := [] |}, Some (m_tab st)).

  Definition mstep (sd : mstate E * disk) (o : mop X) : (mstate E * disk) * mout E :=
    let '(st, d) := sd in
    match o with
    | MSave x => let '(st', ok) := do_save st x in ((st', d), OSaved ok)
    | MDel k => ((do_del st k, d), ODeleted)
    | MGet k => (sd, OGot (t_look M (m_tab st) (t_ckey M k)))
    | MAll => (sd, OAllIs (m_tab st))
    | MFlush => let '(st', d') := do_flush st d in ((st', d'), OFlushed (flush_call st) d')
    | MRestart => ((restart d, d), ORestarted (load d))
    end.

  Fixpoint mrun (sd : mstate E * disk) (ops : list (mop X)) : (mstate E * disk) * list (mout E) :=
    match ops with
    | [] => (sd, [])
    | o :: ops' =>
        let '(sd1, out) := mstep sd o in
        let '(sd2, outs) := mrun sd1 ops' in
        (sd2, out :: outs)
    end.

  (* ---- the oracle applied to the implementation's answers ----
     It follows the table through the history and states the property:
     Get/All show the table; a Flush hands the full table to the provider (if it calls
     it at all) and with something pending the file afterwards holds exactly the table; a restart with
     nothing pending (i.e. after a flush) shows exactly the table the server had. *)
  Definition opt_eqb {A} (e : A -> A -> bool) (a b : option A) : bool :=
    match a, b with Some x, Some y => e x y | None, None => true | _, _ => false end.
  Fixpoint leqb {A} (e : A -> A -> bool) (a b : list A) : bool :=
    match a, b with
    | [], [] => true
    | x :: a', y :: b' => e x y && leqb e a' b'
    | _, _ => false
    end.
  Definition tab_eqb := leqb (t_eqb M).
  Definition keys_eqb := leqb bytes_eqb.
  (* the pending lists matter to the property only through "is anything pending"; their content is
     compared with the model by the check but not judged *)
  Definition call_full_ok (c : fcall E) (t : list E) : bool :=
    match c with Some x => tab_eqb (fst (fst x)) t | None => true end.

  Definition ok_step (sd : mstate E * disk) (o : mop X) (out : mout E) : bool :=
    let '(st, d) := sd in
    match o, out with
    | MSave x, OSaved ok => Bool.eqb ok (is_some (t_xkey M x))
    | MDel _, ODeleted => true
    | MGet k, OGot got => opt_eqb (t_eqb M) got (t_look M (m_tab st) (t_ckey M k))
    | MAll, OAllIs got => tab_eqb got (m_tab st)
    | MFlush, OFlushed call after =>
        call_full_ok call (m_tab st) &&
        (if pend_empty st && negb (is_some call) then opt_eqb tab_eqb after d
         else opt_eqb tab_eqb after (Some (m_tab st)))
    | MRestart, ORestarted got =>
        if pend_empty st then tab_eqb got (m_tab st) else tab_eqb got (load d)
    | _, _ => false
    end.

  Fixpoint ok_hist (sd : mstate E * disk) (ops : list (mop X)) (outs : list (mout E)) : bool :=
    match ops, outs with
    | [], [] => true
    | o :: ops', out :: outs' => ok_step sd o out && ok_hist (fst (mstep sd o)) ops' outs'
    | _, _ => false
    end.
End Mgr.

(* ---- the two instances ---- *)
Definition user_ops : tops user (user * bool) :=
  {| t_xkey := fun x => Some (to_lower (u_name (fst x)));
     t_save := fun t x => usave t (fst x) (snd x);
     t_ckey := to_lower;
     t_del := udel;
     t_look := ulookup;
     t_reinit := fun u => Some (uinit u);
     t_default := [default_admin];
     t_eqb := user_eqb |}.

(* Route.init: CanonicalPath on the pattern; url.Parse (oracle [url_ok]) must accept the URL *)
Definition rinit (url_ok : bytes -> bool) (r : route) : option route :=
  if url_ok (r_url r)
  then Some {| r_pat := canonical_path (r_pat r); r_url := r_url r; r_keep := r_keep r |}
  else None.

Definition route_ops (url_ok : bytes -> bool) : tops route route :=
  {| t_xkey := fun r => if url_ok (r_url r) then Some (canonical_path (r_pat r)) else None;
     t_save := save url_ok;
     t_ckey := canonical_path;
     t_del := del;
     t_look := lookup;
     t_reinit := rinit url_ok;
     t_default := [];
     t_eqb := route_eqb |}.

(* Reset runs init (CanonicalPath) again on loaded entries, so a stored pattern must be stable
   under it.  Before the repair of CanonicalPath ("/a /b/.." -> "/a " -> "/a") this was a guard
   of the route theorems; now it holds for every pattern (C18TableProofs.canon_stable_all). *)
Definition canon_stable (p : bytes) : bool :=
  bytes_eqb (canonical_path (canonical_path p)) (canonical_path p).

Definition uop_wf (o : mop (user * bool)) : bool := true.
Definition rop_wf (o : mop route) : bool :=
  match o with MSave r => canon_stable (r_pat r) | _ => true end.
