(* C20: two overlapping first requests for one routed path where consumers attach BEFORE, DURING or
   AFTER the other registration, and the cameras end later.  Built on the registry specification of
   Model/Registry.v (C05/C03): streams 0 and 1 are the streams of the two pull clients; a pull
   client registers its stream when playStream starts (GRegist) and unregisters-and-closes it when
   its camera ends (GUnregist); a consumer attaches with GAttach.  In the registry specification an
   attach to a stream that is not live changes nothing; in the code (Stream.startConsume re-checks
   the status after adding) such a consumer is released at once: [late_count] counts those attaches,
   and [attached_total] / [closed_total] are the consumers that ever joined a stream (live or not)
   and those whose Close must have been called.  NO proofs here.

   Scenario of the replay (harness command C20repl): stream 0 is registered first; its consumer
   attaches [WEarly] = before the second registration's decision (before it starts, or between its
   swap and its look at the consumer count), or [WLate] = after stream 0 has been closed as replaced
   (right after its status changed, or after the second registration has finished); stream 1
   registers and replaces stream 0 (closing it at once when it has no consumer, else only scheduling
   the retire task) and, if [attach2], gets a consumer; a packet on every connection makes a pull
   client whose stream is already closed go away; then the cameras end, the one of stream
   [if end2first then 1 else 0] first. *)
From Coq Require Import ZArith List Bool.
From V Require Import Bytes Registry.
Import ListNotations.
Open Scope Z_scope.

(* attaches to stream [i] made when it was not live (released at once), along the history *)
Fixpoint late_count (i : nat) (sp : sstate) (ops : list gop) : Z :=
  match ops with
  | [] => 0
  | o :: ops' =>
      (match o with
       | GAttach j _ => if Nat.eqb i j && (j <? length (sp_streams sp))%nat && negb (st_live (sp_get sp j))
                        then 1 else 0
       | _ => 0
       end) + late_count i (fst (sstep sp o)) ops'
  end.
Definition attached_total (i : nat) (h : list gop) : Z :=
  st_att_total (sp_get (sexec sinit h) i) + late_count i sinit h.
Definition closed_total (i : nat) (h : list gop) : Z :=
  released (sp_get (sexec sinit h) i) + late_count i sinit h.

Inductive when := WNone | WEarly | WLate.
Definition attached (w : when) : bool := match w with WNone => false | _ => true end.

Definition repl_path : bytes := [47; 99; 50; 48; 47; 99; 97; 109].   (* "/c20/cam" *)

Definition repl_base (attach1 : when) (attach2 : bool) : list gop :=
  [GNew repl_path false; GNew repl_path false; GRegist 0] ++
  (match attach1 with WEarly => [GAttach 0 false] | _ => [] end) ++ [GRegist 1] ++
  (match attach1 with WLate => [GAttach 0 false] | _ => [] end) ++
  (if attach2 then [GAttach 1 false] else []).

(* after the packet: the pull client of a stream that is no longer live has ended *)
Definition repl_phase1 (attach1 : when) (attach2 : bool) : list gop :=
  let h := repl_base attach1 attach2 in
  if st_live (sp_get (sexec sinit h) 0) then h else h ++ [GUnregist 0].
Definition repl_phase2 (attach1 : when) (attach2 end2first : bool) : list gop :=
  repl_phase1 attach1 attach2 ++ [GUnregist (if end2first then 1 else 0)%nat].
Definition repl_phase3 (attach1 : when) (attach2 end2first : bool) : list gop :=
  repl_phase2 attach1 attach2 end2first ++ [GUnregist (if end2first then 0 else 1)%nat].

(* the pull clients still running after a history: those whose GUnregist has not happened *)
Definition unregistered (i : nat) (h : list gop) : bool :=
  existsb (fun o => match o with GUnregist j => Nat.eqb i j | _ => false end) h.
Definition running (h : list gop) : Z :=
  (if unregistered 0 h then 0 else 1) + (if unregistered 1 h then 0 else 1).

(* observation at one point: Close calls seen by the consumer of stream 0 / 1, ConsumerCount of
   both, which stream the path resolves to (0 none, 1 = stream 0, 2 = stream 1), and the number of
   pull clients (= connections = stats counter = goroutines) *)
Record pobs := {
  po_closed1 : Z; po_closed2 : Z; po_cc1 : Z; po_cc2 : Z; po_reg : Z; po_running : Z
}.
Definition observe (h : list gop) : pobs :=
  let sp := sexec sinit h in
  {| po_closed1 := closed_total 0 h; po_closed2 := closed_total 1 h;
     po_cc1 := consumers (sp_get sp 0); po_cc2 := consumers (sp_get sp 1);
     po_reg := match sp_resolve sp repl_path with Some O => 1 | Some _ => 2 | None => 0 end;
     po_running := running h |}.

Definition repl_model (attach1 : when) (attach2 end2first : bool) : list pobs :=
  [observe (repl_phase1 attach1 attach2); observe (repl_phase2 attach1 attach2 end2first);
   observe (repl_phase3 attach1 attach2 end2first)].

(* what the property demands of the three observations:
   - while both cameras are up there is one registered stream, the second one;
   - a pull whose camera has ended has all its consumers closed (exactly once) and none attached;
   - a consumer that joined a stream which had already been replaced is closed (it is never attached);
   - the consumer of the registered stream whose camera is still up is not closed;
   - at the end: nothing registered, no pull client (connection, counter, goroutine) left, every
     attached consumer closed exactly once *)
Definition b2z (b : bool) : Z := if b then 1 else 0.
Definition ok_repl (attach1 attach2 end2first : bool) (os : list pobs) : bool :=
  match os with
  | [o1; o2; o3] =>
      (po_reg o1 =? 2) && (po_closed2 o1 =? 0) && (po_cc2 o1 =? b2z attach2) &&
      (po_closed1 o1 + po_cc1 o1 =? b2z attach1) && (po_running o1 =? 1 + po_cc1 o1) &&
      (* first end *)
      (if end2first
       then (po_closed2 o2 =? b2z attach2) && (po_cc2 o2 =? 0) && (po_reg o2 =? 0) &&
            (po_closed1 o2 + po_cc1 o2 =? b2z attach1) && (po_running o2 =? po_cc1 o2)
       else (po_closed1 o2 =? b2z attach1) && (po_cc1 o2 =? 0) && (po_reg o2 =? 2) &&
            (po_closed2 o2 =? 0) && (po_cc2 o2 =? b2z attach2) && (po_running o2 =? 1)) &&
      (* the end *)
      (po_closed1 o3 =? b2z attach1) && (po_closed2 o3 =? b2z attach2) &&
      (po_cc1 o3 =? 0) && (po_cc2 o3 =? 0) && (po_reg o3 =? 0) && (po_running o3 =? 0)
  | _ => false
  end.
