(* C11 — authorisation on every entry point, following the rights currently saved.
   Executable model of
     provider/auth/user.go, manager.go   (Save / Del / Get, User.init, CopyFrom, ValidatePermission)
     provider/auth/token.go              (NewToken, Refresh, AccessCheck; explicit clock)
     provider/security/id.go             (the process-wide id counter behind session ids, nonces, channel ids)
     service/apis.go, streamapis.go      (authInterceptor, roleInterceptor, streamInterceptor, permissionInterceptor)
     service/rtsp/session.go             (onPreprocess, checkAuth, checkPermission, the five handlers)
     service/wsp/wsp.go, session.go      (control channel, data channel join)
     service/flv, service/hls            (what is served once the interceptors let a request through)
   as repaired (D20 matchers rebuilt, D21 ws-rtsp permission check, D22 data channel bound to its
   control channel, D23 segment path, D24 random tokens, digest challenge after a failure), with the
   behaviour before the repairs selectable by [fixed := false] for the refutation witnesses,
   and, independently, a reference monitor: who the caller is ([identity]), what the rights table
   says now ([rights_now], [spec_allows] over the documented pattern language of C16), and which
   tokens are valid as a function of the login / refresh / clock history ([grants]).
   Token values are symbolic ([TA k] / [TR k]: the access / refresh token of the k-th issue); the
   entropy oracle only renders them for their holder ([render]).  No proofs here. *)
From Coq Require Import ZArith List Bool.
From V Require Import Bytes StrGo C16PathMatch.
Import ListNotations.
Open Scope Z_scope.

(* ------------------------------------------------------------------ *)
(* users                                                               *)

Record user := { u_name : bytes; u_pw : bytes; u_admin : bool; u_push : bytes; u_pull : bytes }.
Definition utable := list user.

Definition name_is (n : bytes) (u : user) : bool := bytes_eqb (u_name u) n.

(* manager.Get: the name is lower-cased *)
Definition find_user (t : utable) (name : bytes) : option user := find (name_is (to_lower name)) t.

(* User.init: lower-case name; an administrator's empty right is "*" *)
Definition norm_user (u : user) : user :=
  {| u_name := to_lower (u_name u); u_pw := u_pw u; u_admin := u_admin u;
     u_push := admin_default (u_admin u) (u_push u); u_pull := admin_default (u_admin u) (u_pull u) |}.

(* User.CopyFrom (+ init): everything but the name; the password only on request *)
Definition copy_from (old nu : user) (upd_pw : bool) : user :=
  {| u_name := u_name old; u_pw := if upd_pw then u_pw nu else u_pw old; u_admin := u_admin nu;
     u_push := admin_default (u_admin nu) (u_push nu); u_pull := admin_default (u_admin nu) (u_pull nu) |}.

(* manager.Save *)
Definition save_user (t : utable) (u : user) (upd_pw : bool) : utable :=
  let nu := norm_user u in
  if existsb (name_is (u_name nu)) t
  then map (fun x => if name_is (u_name nu) x then copy_from x nu upd_pw else x) t
  else t ++ [nu].

(* manager.Del *)
Definition del_user (t : utable) (name : bytes) : utable :=
  filter (fun x => negb (name_is (to_lower name) x)) t.

(* AccessRight *)
Definition PULL : Z := 1.
Definition PUSH : Z := 2.
Definition access_of (u : user) (right : Z) : bytes := if right =? PUSH then u_push u else u_pull u.

(* User.ValidatePermission on the matchers built from the access strings as they are now *)
Definition user_validate (u : user) (right : Z) (path : bytes) : bool :=
  validate_go (u_admin u) (access_of u right) path.

(* the implementation's check for a named user: auth.Get + ValidatePermission *)
Definition perm_go (t : utable) (name : bytes) (right : Z) (path : bytes) : bool :=
  match find_user t name with
  | None => false
  | Some u => user_validate u right path
  end.

(* reference side: the rights as last saved, and what they permit in the documented language *)
Definition rights_now (t : utable) (name : bytes) : option (bool * bytes * bytes) :=
  match find_user t name with
  | None => None
  | Some u => Some (u_admin u, u_push u, u_pull u)
  end.

Definition permits (r : bool * bytes * bytes) (right : Z) (path : bytes) : bool :=
  let '(admin, push, pull) := r in spec_permit admin (if right =? PUSH then push else pull) path.

Inductive action := APull | APush | AAdmin | AApiRead.

(* the reference monitor: may [name] do [act] on [path], by the table as it is now *)
Definition spec_allows (t : utable) (name : bytes) (act : action) (path : bytes) : bool :=
  match act with
  | AApiRead => true                       (* any authenticated caller: documented in roleInterceptor *)
  | _ =>
    match rights_now t name with
    | None => false
    | Some r =>
        match act with
        | APull => permits r PULL path
        | APush => permits r PUSH path
        | _ => let '(admin, _, _) := r in admin
        end
    end
  end.

(* D20, before the repair: init appended to the matchers of the previous rights *)
Definition matchers_after_saves (accesses : list bytes) : list matcher :=
  flat_map (init_matchers compile) accesses.
Definition validate_matchers (ms : list matcher) (path : bytes) : bool :=
  match ms with
  | [] => false
  | _ => let p := trim_space path in existsb (fun m => match_go m p) ms
  end.

(* ------------------------------------------------------------------ *)
(* tokens                                                              *)

Inductive tokv := TNone | TA (k : nat) | TR (k : nat) | TRaw (b : bytes).

Definition tokv_eqb (a b : tokv) : bool :=
  match a, b with
  | TNone, TNone => true
  | TA i, TA j => Nat.eqb i j
  | TR i, TR j => Nat.eqb i j
  | TRaw x, TRaw y => bytes_eqb x y
  | _, _ => false
  end.

(* what the holder of the k-th issue receives: two draws from the entropy oracle *)
Definition render (rnd : nat -> bytes) (t : tokv) : bytes :=
  match t with
  | TNone => []
  | TA k => rnd (2 * k)%nat
  | TR k => rnd (2 * k + 1)%nat
  | TRaw b => b
  end.

Definition A_LIFE : Z := 7200.      (* 2 h *)
Definition R_LIFE : Z := 604800.    (* 7 d *)

(* auth.Token; both map entries of an issue hold the same record *)
Record tokrec := { tr_user : bytes; tr_k : nat; tr_aexp : Z; tr_rexp : Z }.
Definition tokmap := list (tokv * tokrec).

Fixpoint tm_load (m : tokmap) (key : tokv) : option tokrec :=
  match m with
  | [] => None
  | (k, r) :: m' => if tokv_eqb k key then Some r else tm_load m' key
  end.
Definition tm_delete (m : tokmap) (key : tokv) : tokmap :=
  filter (fun e => negb (tokv_eqb (fst e) key)) m.
Definition tm_store (m : tokmap) (key : tokv) (r : tokrec) : tokmap := (key, r) :: tm_delete m key.

(* reference side: the k-th issue, when, for whom, and whether its refresh token has been used *)
Record grant := { g_user : bytes; g_t0 : Z; g_dead : bool }.

Definition spec_access (gs : list grant) (now : Z) (t : tokv) : option bytes :=
  match t with
  | TA k =>
      match nth_error gs k with
      | Some g => if g_dead g then None else if now <? g_t0 g + A_LIFE then Some (g_user g) else None
      | None => None
      end
  | _ => None
  end.

Definition kill (gs : list grant) (k : nat) : list grant :=
  firstn k gs ++ match nth_error gs k with
                 | Some g => [{| g_user := g_user g; g_t0 := g_t0 g; g_dead := true |}]
                 | None => []
                 end ++ skipn (S k) gs.

(* ------------------------------------------------------------------ *)
(* sessions and the whole state                                         *)

(* connection kinds *)
Definition K_RTSP : Z := 0.
Definition K_WSRTSP : Z := 1.
Definition K_WSP : Z := 2.
Definition K_DEAD : Z := 3.

Record conn := {
  c_kind : Z;
  c_user : bytes;          (* ws: the user the HTTP upgrade verified *)
  c_wspath : bytes;        (* ws: the stream path of the upgrade URL *)
  c_path : bytes;          (* Session.path *)
  c_status : Z;            (* 0 init, 1 ready, 2 playing, 3 recording *)
  c_mode : Z;              (* Session.mode: 0 unknown, 1 play, 2 record *)
  c_tmode : Z;             (* transport.Mode: 1 play, 2 record *)
  c_ttype : Z;             (* transport.Type: 0 unknown, 1 tcp unicast *)
  c_sdp : bool;            (* the controls of an SDP are known *)
  c_rot : bool;            (* the first nonce has been replaced *)
  c_stale : bool;          (* before the repair: the client's last challenge names a retired nonce *)
  c_src : option (bytes * Z);   (* consuming: registry key and owner of the stream instance *)
  c_data : bool            (* wsp: the client's data channel is attached *)
}.

Definition conn0 (kind : Z) (user wspath : bytes) : conn :=
  {| c_kind := kind; c_user := user; c_wspath := wspath; c_path := wspath; c_status := 0; c_mode := 0;
     c_tmode := 1; c_ttype := 0; c_sdp := false; c_rot := false; c_stale := false; c_src := None; c_data := false |}.
Definition dead_conn : conn := conn0 K_DEAD [] [].

Definition registry := list (bytes * Z).     (* canonical path -> owner: 1 pre-published, 2+k connection k *)
Fixpoint reg_get (r : registry) (p : bytes) : option Z :=
  match r with
  | [] => None
  | (q, o) :: r' => if bytes_eqb q p then Some o else reg_get r' p
  end.
Definition reg_put (r : registry) (p : bytes) (o : Z) : registry :=
  (p, o) :: filter (fun e => negb (bytes_eqb (fst e) p)) r.
(* media.Get *)
Definition live (r : registry) (path : bytes) : option Z := reg_get r (canonical_path path).

Record state := {
  users : utable;
  toks : tokmap;            (* TokenManager.tokens *)
  grants : list grant;      (* reference side *)
  now : Z;
  conns : list conn;
  reg : registry;
  ctr : Z                   (* ids drawn from security.NewID since the start *)
}.

Definition set_users (s : state) (t : utable) : state :=
  {| users := t; toks := toks s; grants := grants s; now := now s; conns := conns s; reg := reg s; ctr := ctr s |}.
Definition set_toks (s : state) (m : tokmap) (gs : list grant) : state :=
  {| users := users s; toks := m; grants := gs; now := now s; conns := conns s; reg := reg s; ctr := ctr s |}.
Definition set_now (s : state) (t : Z) : state :=
  {| users := users s; toks := toks s; grants := grants s; now := t; conns := conns s; reg := reg s; ctr := ctr s |}.
Definition set_conns (s : state) (cs : list conn) (r : registry) (n : Z) : state :=
  {| users := users s; toks := toks s; grants := grants s; now := now s; conns := cs; reg := r; ctr := n |}.

Fixpoint set_nth {A} (l : list A) (n : nat) (x : A) : list A :=
  match l, n with
  | [], _ => []
  | _ :: l', O => x :: l'
  | y :: l', S n' => y :: set_nth l' n' x
  end.
Definition get_conn (s : state) (k : nat) : conn := nth k (conns s) dead_conn.

(* ------------------------------------------------------------------ *)
(* token manager                                                        *)

(* TokenManager.NewToken *)
Definition new_token (s : state) (uname : bytes) : state :=
  let k := length (grants s) in
  let r := {| tr_user := uname; tr_k := k; tr_aexp := now s + A_LIFE; tr_rexp := now s + R_LIFE |} in
  set_toks s (tm_store (tm_store (toks s) (TA k) r) (TR k) r)
           (grants s ++ [{| g_user := uname; g_t0 := now s; g_dead := false |}]).

(* TokenManager.AccessCheck (the lazy removal of an expired entry is not observable and left out) *)
Definition access_check (s : state) (t : tokv) : option bytes :=
  match tm_load (toks s) t with
  | Some r => if tokv_eqb (TA (tr_k r)) t && (now s <? tr_aexp r) then Some (tr_user r) else None
  | None => None
  end.

(* TokenManager.Refresh : new state and whether a new token was issued *)
Definition refresh (s : state) (t : tokv) : state * bool :=
  match tm_load (toks s) t with
  | Some r =>
      if tokv_eqb (TR (tr_k r)) t then
        let s1 := set_toks s (tm_delete (tm_delete (toks s) (TA (tr_k r))) (TR (tr_k r))) (kill (grants s) (tr_k r)) in
        if now s <? tr_rexp r then (new_token s1 (tr_user r), true) else (s1, false)
      else (s, false)
  | None => (s, false)
  end.

Definition is_none (t : tokv) : bool := match t with TNone => true | TRaw [] => true | _ => false end.

(* authInterceptor: 401 or the user name of the token *)
Definition auth_gate (s : state) (t : tokv) : option bytes :=
  if is_none t then None else access_check s t.

(* The interceptors hand the verified user name on in a request header (usernameHeaderKey =
   "user_name_in_token"); the request may already carry headers of the client's choosing.
   http.Header: keys are canonical MIME keys, Get returns the first value, Set replaces all values,
   Add appends. *)
Definition hdr := (bytes * bytes)%type.
Definition is_lower_b (c : Z) : bool := (97 <=? c) && (c <=? 122).
Definition is_upper_b (c : Z) : bool := (65 <=? c) && (c <=? 90).
Fixpoint canon_from (up : bool) (k : bytes) : bytes :=
  match k with
  | [] => []
  | c :: k' =>
      let c' := if up then (if is_lower_b c then c - 32 else c) else (if is_upper_b c then c + 32 else c) in
      c' :: canon_from (c =? 45) k'
  end.
(* textproto.CanonicalMIMEHeaderKey on keys made of token characters *)
Definition canon_key (k : bytes) : bytes := canon_from true k.
(* "user_name_in_token" *)
Definition USERHDR_RAW : bytes := [117;115;101;114;95;110;97;109;101;95;105;110;95;116;111;107;101;110].
Definition USERHDR : bytes := canon_key USERHDR_RAW.
(* the header map of a received request *)
Definition canon_hdrs (hs : list hdr) : list hdr := map (fun kv => (canon_key (fst kv), snd kv)) hs.
Fixpoint hdr_get (hs : list hdr) (k : bytes) : bytes :=
  match hs with
  | [] => []
  | (k', v) :: hs' => if bytes_eqb k' k then v else hdr_get hs' k
  end.
Definition hdr_set (hs : list hdr) (k v : bytes) : list hdr :=
  filter (fun kv => negb (bytes_eqb (fst kv) k)) hs ++ [(k, v)].
Definition hdr_add (hs : list hdr) (k v : bytes) : list hdr := hs ++ [(k, v)].

(* the user name the later interceptors and the WebSocket upgrade read after authInterceptor recorded
   the token's user: with Set (the code) / with Add (the slip the refutation is about) *)
Definition ident_hdr (addmode : bool) (hdrs : list hdr) (tokuser : bytes) : bytes :=
  let h := canon_hdrs hdrs in
  hdr_get (if addmode then hdr_add h USERHDR tokuser else hdr_set h USERHDR tokuser) USERHDR.

(* streamInterceptor = authInterceptor then permissionInterceptor on the stream path
   ([path] is the stream path: for a segment URL the repaired code drops the sequence number,
   before the repair it was part of the path that had to be covered) *)
Definition stream_gate_h (addmode fixed : bool) (s : state) (t : tokv) (path : bytes) (seg : option bytes)
           (hdrs : list hdr) : Z * bytes :=
  match auth_gate s t with
  | None => (401, [])
  | Some tokuser =>
      let uname := ident_hdr addmode hdrs tokuser in
      let checked := match seg with
                     | Some n => if fixed then path else path ++ SLASH :: n
                     | None => path
                     end in
      if perm_go (users s) uname PULL checked then (200, uname) else (403, uname)
  end.
Definition stream_gate := stream_gate_h false.

(* ------------------------------------------------------------------ *)
(* RTSP sessions (plain and over WebSocket)                             *)

Inductive cred := CNone | CDigest (user secret : bytes) (nmode bmode : Z).

Definition M_DESCRIBE : Z := 1.
Definition M_ANNOUNCE : Z := 2.
Definition M_SETUP_PLAY : Z := 3.
Definition M_SETUP_RECORD : Z := 4.
Definition M_PLAY : Z := 5.
Definition M_RECORD : Z := 6.

Definition is_setup (m : Z) : bool := (m =? M_SETUP_PLAY) || (m =? M_SETUP_RECORD).

(* onPreprocess: the methods a state accepts *)
Definition legal (status m : Z) : bool :=
  if status =? 1 then is_setup m || (m =? M_PLAY) || (m =? M_RECORD)
  else if status =? 2 then m =? M_PLAY
  else if status =? 3 then m =? M_RECORD
  else negb ((m =? M_PLAY) || (m =? M_RECORD)).

Definition upd (c : conn) (path : bytes) (status mode tmode ttype : Z) (sdp : bool) (src : option (bytes * Z)) : conn :=
  {| c_kind := c_kind c; c_user := c_user c; c_wspath := c_wspath c; c_path := path; c_status := status;
     c_mode := mode; c_tmode := tmode; c_ttype := ttype; c_sdp := sdp; c_rot := c_rot c; c_stale := c_stale c;
     c_src := src; c_data := c_data c |}.
Definition set_nonce (c : conn) (rot stale : bool) : conn :=
  {| c_kind := c_kind c; c_user := c_user c; c_wspath := c_wspath c; c_path := c_path c; c_status := c_status c;
     c_mode := c_mode c; c_tmode := c_tmode c; c_ttype := c_ttype c; c_sdp := c_sdp c; c_rot := rot; c_stale := stale;
     c_src := c_src c; c_data := c_data c |}.
Definition set_data (c : conn) (d : bool) : conn :=
  {| c_kind := c_kind c; c_user := c_user c; c_wspath := c_wspath c; c_path := c_path c; c_status := c_status c;
     c_mode := c_mode c; c_tmode := c_tmode c; c_ttype := c_ttype c; c_sdp := c_sdp c; c_rot := c_rot c;
     c_stale := c_stale c; c_src := c_src c; c_data := d |}.

(* the handlers behind onPreprocess, for a session of connection [self]; [pm right path] is
   checkPermission; result: session, status code, path published by a successful RECORD *)
Definition rtsp_handle (ws : bool) (pm : Z -> bytes -> bool) (r : registry) (self : Z)
           (c : conn) (m : Z) (urlpath : bytes) : conn * Z * option bytes :=
  if m =? M_DESCRIBE then
    let path := if ws then c_path c else canonical_path urlpath in
    let c1 := upd c path (c_status c) (c_mode c) (c_tmode c) (c_ttype c) (c_sdp c) (c_src c) in
    match live r path with
    | None => (c1, 404, None)
    | Some _ =>
        if pm PULL path then (upd c1 path (c_status c) 1 (c_tmode c) (c_ttype c) true (c_src c), 200, None)
        else (c1, 403, None)
    end
  else if m =? M_ANNOUNCE then
    let path := canonical_path urlpath in
    let c1 := upd c path (c_status c) (c_mode c) (c_tmode c) (c_ttype c) (c_sdp c) (c_src c) in
    if pm PUSH path then (upd c1 path (c_status c) 2 (c_tmode c) (c_ttype c) true (c_src c), 200, None)
    else (c1, 403, None)
  else if is_setup m then
    if negb (c_sdp c) then (c, 500, None)
    else
      let tmode := if m =? M_SETUP_RECORD then 2 else 1 in
      let mode := if c_mode c =? 0 then tmode else c_mode c in
      let c1 := upd c (c_path c) (c_status c) mode tmode 1 (c_sdp c) (c_src c) in
      if negb (mode =? tmode) then (c1, 451, None)
      else if pm (if mode =? 2 then PUSH else PULL) (c_path c)
           then (upd c1 (c_path c) (Z.max (c_status c) 1) mode tmode 1 (c_sdp c) (c_src c), 200, None)
           else (c1, 403, None)
  else if m =? M_PLAY then
    if c_status c =? 2 then (c, 200, None)
    else if negb (c_mode c =? 1) || (c_ttype c =? 0) then (c, 455, None)
    else match live r (c_path c) with
         | None => (c, 404, None)
         | Some o =>
             if pm PULL (c_path c)
             then (upd c (c_path c) 2 (c_mode c) (c_tmode c) (c_ttype c) (c_sdp c)
                       (Some (canonical_path (c_path c), o)), 200, None)
             else (c, 403, None)
         end
  else if m =? M_RECORD then
    if c_status c =? 3 then (c, 200, None)
    else if negb (c_mode c =? 2) || negb (c_ttype c =? 1) then (c, 455, None)
    else if pm PUSH (c_path c)
         then (upd c (c_path c) 3 (c_mode c) (c_tmode c) (c_ttype c) (c_sdp c) (c_src c), 200,
               Some (canonical_path (c_path c)))
         else (c, 403, None)
  else (c, 455, None).

(* checkAuth (digest): the user the request is authenticated as, or a refusal that may retire the nonce.
   MD5 is treated as collision free: a response computed from [secret] verifies iff [secret] is the
   stored password (plain or hashed form, the server tries both). *)
Definition nonce_ok (fixed : bool) (c : conn) (nmode : Z) : bool :=
  if nmode =? 0 then (if fixed then true else negb (c_stale c))
  else if nmode =? 1 then negb (c_rot c)
  else false.

Definition digest_check (fixed : bool) (t : utable) (c : conn) (cr : cred) : option bytes * bool :=
  match cr with
  | CNone => (None, false)
  | CDigest user secret nmode bmode =>
      match user with
      | [] => (None, false)
      | _ =>
        match find_user t user with
        | None => (None, false)
        | Some u =>
            if nonce_ok fixed c nmode && (bmode =? 0) && bytes_eqb secret (u_pw u)
            then (Some (u_name u), false)
            else (None, true)      (* s.nonce = NewID().MD5() *)
        end
      end
  end.

(* wsp.Session: DESCRIBE / SETUP / PLAY of the control channel *)
Definition wsp_handle (fixed : bool) (pm : Z -> bytes -> bool) (r : registry) (c : conn) (m : Z)
  : conn * Z :=
  let legal_w := if c_status c =? 1 then is_setup m || (m =? M_PLAY)
                 else if c_status c =? 2 then m =? M_PLAY
                 else negb ((m =? M_PLAY) || (m =? M_RECORD)) in
  if negb legal_w then (c, 455)
  else if m =? M_DESCRIBE then
    let path := c_wspath c in
    let c1 := upd c path (c_status c) (c_mode c) (c_tmode c) (c_ttype c) (c_sdp c) (c_src c) in
    match live r path with
    | None => (c1, 404)
    | Some _ =>
        if negb fixed || pm PULL path
        then (upd c1 path (c_status c) (c_mode c) (c_tmode c) (c_ttype c) true (c_src c), 200)
        else (c1, 403)
    end
  else if is_setup m then
    if negb (c_sdp c) then (c, 500)
    else
      let tmode := if m =? M_SETUP_RECORD then 2 else 1 in
      let c1 := upd c (c_path c) (c_status c) (c_mode c) tmode 1 (c_sdp c) (c_src c) in
      if negb (tmode =? 1) then (c1, 451)
      else (upd c1 (c_path c) (Z.max (c_status c) 1) (c_mode c) tmode 1 (c_sdp c) (c_src c), 200)
  else if m =? M_PLAY then
    if c_status c =? 2 then (c, 200)
    else match live r (c_path c) with
         | None => (c, 404)
         | Some o =>
             if negb fixed || pm PULL (c_path c)
             then (upd c (c_path c) 2 (c_mode c) (c_tmode c) (c_ttype c) (c_sdp c)
                       (Some (canonical_path (c_path c), o)), 200)
             else (c, 403)
         end
  else (c, 455).

(* media reaches a consuming session as long as its stream instance is the registered one *)
Definition flowing (r : registry) (c : conn) : bool :=
  match c_src c with
  | Some (p, o) => match reg_get r p with Some o' => o' =? o | None => false end
  | None => false
  end.

(* ------------------------------------------------------------------ *)
(* events and observations                                              *)

Inductive event :=
| ESave (u : user) (upd_pw : bool)
| EDel (name : bytes)
| ETick (dt : Z)
| ELogin (name pw : bytes)
| ERefresh (t : tokv)
| ERtspOpen
| ERtsp (k : nat) (m : Z) (path : bytes) (cr : cred)
| EWsOpen (kind : Z) (path : bytes) (t : tokv) (chan : nat) (hdrs : list (bytes * bytes))   (* 0 rtsp, 1 control, 2 data (joins connection chan), 3 flv *)
| EWsRtsp (k : nat) (m : Z) (path : bytes)
| EWsp (k : nat) (m : Z) (path : bytes)
| EHttp (kind : Z) (path : bytes) (t : tokv) (seq : Z) (hdrs : list (bytes * bytes))         (* 0 flv, 1 m3u8, 2 segment *)
| EApi (ep : Z) (t : tokv) (u : user) (upd_pw : bool) (name : bytes) (hdrs : list (bytes * bytes))
| EUrl (url : bytes) (t : tokv) (hdrs : list (bytes * bytes)).   (* GET of an arbitrary URL path under /streams/ *)
(* hdrs: request headers chosen by the client (the interceptors talk to each other through a request header) *)

Record obs := { o_code : Z; o_aux : Z; o_media : bool; o_id : Z; o_reg : list Z }.
Definition ob (code aux : Z) (media : bool) (id : Z) : obs :=
  {| o_code := code; o_aux := aux; o_media := media; o_id := id; o_reg := [] |}.
Definition with_reg (o : obs) (watch : list bytes) (r : registry) : obs :=
  {| o_code := o_code o; o_aux := o_aux o; o_media := o_media o; o_id := o_id o;
     o_reg := map (fun p => match live r p with Some k => k | None => 0 end) watch |}.

(* /api/: which endpoints pass without a token, which need only a valid token *)
Definition EP_STREAMS : Z := 0.
Definition EP_USERS : Z := 1.
Definition EP_SAVE_USER : Z := 2.
Definition EP_DEL_USER : Z := 3.
Definition EP_DEL_STREAM : Z := 4.
Definition EP_ROUTES : Z := 5.
Definition EP_STREAM_INFO : Z := 6.
Definition EP_SERVER : Z := 7.
Definition ep_open (ep : Z) : bool := ep =? EP_SERVER.
Definition ep_read (ep : Z) : bool := (ep =? EP_STREAMS) || (ep =? EP_STREAM_INFO).

Definition api_gate_h (addmode : bool) (s : state) (ep : Z) (t : tokv) (hdrs : list hdr) : Z :=
  if ep_open ep then 2
  else match auth_gate s t with
       | None => 401
       | Some tokuser =>
           if ep_read ep then 2
           else match find_user (users s) (ident_hdr addmode hdrs tokuser) with
                | Some u => if u_admin u then 2 else 403
                | None => 403
                end
       end.
Definition api_gate := api_gate_h false.

(* the segments a primed playlist lists are asked for by index 0..2; anything else does not exist *)
Definition seg_listed (seq : Z) : bool := (0 <=? seq) && (seq <? 3).

Definition put_conn (s : state) (k : nat) (c : conn) (r : registry) (n : Z) : state :=
  set_conns s (set_nth (conns s) k c) r n.

Definition seq_name (seq : Z) : bytes := [48 + seq].   (* the harness's sequence numbers stand for themselves *)

(* which stream an answer came from: the 1-based position in the watch list of the registry key whose
   description (DESCRIBE of a pre-published stream: every one has its own session name) or media (PLAY: every
   stream is fed packets carrying its own SSRC) reached the client; 0 = nothing identifiable *)
Fixpoint key_index (watch : list bytes) (k : bytes) (i : Z) : Z :=
  match watch with
  | [] => 0
  | p :: w => if bytes_eqb (canonical_path p) k then i else key_index w k (i + 1)
  end.
Definition served_index (watch : list bytes) (k : bytes) : Z := key_index watch k 1.
Definition src_aux (watch : list bytes) (m code : Z) (c2 : conn) (r : registry) : Z :=
  if (m =? M_DESCRIBE) && (code =? 200) then
    match live r (c_path c2) with
    | Some o => if o =? 1 then served_index watch (canonical_path (c_path c2)) else 0
    | None => 0
    end
  else if (m =? M_PLAY) && (c_status c2 =? 2) && flowing r c2 then
    match c_src c2 with Some (k, _) => served_index watch k | None => 0 end
  else 0.

(* one event, by kind *)
Definition step_login (s : state) (name pw : bytes) : state * obs :=
  match name, pw with
  | [], _ => (s, ob 403 0 false 0)
  | _, [] => (s, ob 403 0 false 0)
  | _, _ =>
    match find_user (users s) name with
    | Some u => if bytes_eqb pw (u_pw u) then (new_token s (u_name u), ob 200 0 false 0)
                else (s, ob 403 0 false 0)
    | None => (s, ob 403 0 false 0)
    end
  end.

Definition step_refresh (s : state) (t : tokv) : state * obs :=
  if is_none t then (s, ob 401 0 false 0)
  else let '(s1, ok) := refresh s t in (s1, ob (if ok then 200 else 401) 0 false 0).

Definition step_rtsp (fixed : bool) (watch : list bytes) (s : state) (k : nat) (m : Z) (path : bytes) (cr : cred)
  : state * obs :=
  let c := get_conn s k in
  if negb (c_kind c =? K_RTSP) then (s, with_reg (ob (-1) 0 false 0) watch (reg s))
  else if negb (legal (c_status c) m) then
    (put_conn s k (set_nonce c (c_rot c) false) (reg s) (ctr s), with_reg (ob 455 0 false 0) watch (reg s))
  else
    match digest_check fixed (users s) c cr with
    | (None, rot) =>
        (* a wrong response retires the nonce; a refused request does not stop what the session is sending *)
        let c1 := if rot then set_nonce c true true else set_nonce c (c_rot c) false in
        (put_conn s k c1 (reg s) (ctr s + (if rot then 1 else 0)),
         with_reg (ob 401 (src_aux watch m 401 c (reg s)) ((m =? M_PLAY) && (c_status c =? 2) && flowing (reg s) c) 0) watch (reg s))
    | (Some uname, _) =>
        let '(c2, code, pub) := rtsp_handle false (perm_go (users s) uname) (reg s) (2 + Z.of_nat k) c m path in
        let r2 := match pub with Some p => reg_put (reg s) p (2 + Z.of_nat k) | None => reg s end in
        (put_conn s k (set_nonce c2 (c_rot c) false) r2 (ctr s),
         with_reg (ob code (src_aux watch m code c2 r2) ((m =? M_PLAY) && (c_status c2 =? 2) && flowing r2 c2) 0) watch r2)
    end.

(* http.ServeMux answers 301 unless the URL path is its own cleanPath (path.Clean, trailing slash kept);
   the /streams/ URLs the harness builds: /streams<path> for the WebSocket sessions, <path>.flv, <path>.m3u8,
   <path>/<n>.ts.  extractStreamPathAndExt gives back <path> (its last segment has no dot of its own, or is
   "." / ".."), as repaired in its canonical form. *)
Definition STREAMS : bytes := [47;115;116;114;101;97;109;115].   (* "/streams" *)
Definition EXT_FLV : bytes := [46;102;108;118].
Definition EXT_M3U8 : bytes := [46;109;51;117;56].
Definition EXT_TS : bytes := [46;116;115].
Definition mux_clean (u : bytes) : bytes :=
  let np := clean_rooted u in
  if ends_with SLASH u && negb (bytes_eqb np [SLASH]) then np ++ [SLASH] else np.
Definition mux_ok (u : bytes) : bool := bytes_eqb (mux_clean u) u.
Definition ws_url (kind : Z) (path : bytes) : bytes := STREAMS ++ path ++ (if kind =? 3 then EXT_FLV else []).
Definition http_url (kind : Z) (path : bytes) (seq : Z) : bytes :=
  STREAMS ++ path ++ (if kind =? 0 then EXT_FLV else if kind =? 1 then EXT_M3U8 else SLASH :: [48 + seq] ++ EXT_TS).
(* the stream path the interceptors and the WebSocket session are given *)
Definition url_path (fixed : bool) (path : bytes) : bytes := if fixed then canonical_path path else path.

Definition step_wsopen_in (fixed : bool) (s : state) (kind : Z) (path : bytes) (t : tokv) (chan : nat)
           (hdrs : list hdr) : state * obs :=
  let '(code, uname) := stream_gate fixed s t path None hdrs in
  if negb (code =? 200) then
    (if (kind =? 0) || (kind =? 1)
     then set_conns s (conns s ++ [dead_conn]) (reg s) (ctr s) else s, ob code 0 false 0)
  else if kind =? 0 then
    (* newSession draws the session id and the nonce *)
    (set_conns s (conns s ++ [conn0 K_WSRTSP uname path]) (reg s) (ctr s + 2), ob 101 0 false (ctr s + 1))
  else if kind =? 1 then
    (* INIT: channel id, then the session id *)
    (set_conns s (conns s ++ [conn0 K_WSP uname path]) (reg s) (ctr s + 2), ob 101 200 false (ctr s + 1))
  else if kind =? 2 then
    let c := get_conn s chan in
    if (c_kind c =? K_WSP) &&
       (negb fixed || (bytes_eqb path (c_wspath c) && bytes_eqb uname (c_user c)))
    then (put_conn s chan (set_data c true) (reg s) (ctr s),
          ob 101 200 ((c_status c =? 2) && flowing (reg s) c) 0)
    else (s, ob 101 404 false 0)
  else
    (s, ob 101 0 (match live (reg s) path with Some _ => true | None => false end) 0).

Definition step_wsopen (fixed : bool) (s : state) (kind : Z) (path : bytes) (t : tokv) (chan : nat)
           (hdrs : list hdr) : state * obs :=
  if negb (mux_ok (ws_url kind path)) then
    (if (kind =? 0) || (kind =? 1)
     then set_conns s (conns s ++ [dead_conn]) (reg s) (ctr s) else s, ob 301 0 false 0)
  else step_wsopen_in fixed s kind (url_path fixed path) t chan hdrs.

Definition step_wsrtsp (fixed : bool) (watch : list bytes) (s : state) (k : nat) (m : Z) (path : bytes) : state * obs :=
  let c := get_conn s k in
  if negb (c_kind c =? K_WSRTSP) then (s, with_reg (ob (-1) 0 false 0) watch (reg s))
  else if negb (legal (c_status c) m) then (s, with_reg (ob 455 0 false 0) watch (reg s))
  else
    let pm := if fixed then perm_go (users s) (c_user c) else (fun _ _ => true) in
    let '(c2, code, pub) := rtsp_handle true pm (reg s) (2 + Z.of_nat k) c m path in
    let r2 := match pub with Some p => reg_put (reg s) p (2 + Z.of_nat k) | None => reg s end in
    (put_conn s k c2 r2 (ctr s),
     with_reg (ob code (src_aux watch m code c2 r2) ((m =? M_PLAY) && (c_status c2 =? 2) && flowing r2 c2) 0) watch r2).

Definition step_wsp (fixed : bool) (watch : list bytes) (s : state) (k : nat) (m : Z) : state * obs :=
  let c := get_conn s k in
  if negb (c_kind c =? K_WSP) then (s, ob (-1) 0 false 0)
  else
    let '(c2, code) := wsp_handle fixed (perm_go (users s) (c_user c)) (reg s) c m in
    (put_conn s k c2 (reg s) (ctr s),
     ob code (if (m =? M_PLAY) && negb (c_data c2) then 0 else src_aux watch m code c2 (reg s))
        ((m =? M_PLAY) && (c_status c2 =? 2) && c_data c2 && flowing (reg s) c2) 0).

Definition step_http_in (fixed : bool) (watch : list bytes) (s : state) (kind : Z) (path : bytes) (t : tokv) (seq : Z)
           (hdrs : list hdr) : state * obs :=
  let '(code, _) := stream_gate fixed s t path (if kind =? 2 then Some (seq_name seq) else None) hdrs in
  if negb (code =? 200) then (s, ob code 0 false 0)
  else match live (reg s) path with
       | None => (s, ob 404 0 false 0)
       | Some o =>
           (* only the pre-published streams have a primed playlist: a stream published a moment ago
              answers 400 for the playlist (after waiting for segments) and 404 for any segment *)
           if (kind =? 1) && negb (o =? 1) then (s, ob 400 0 false 0)
           else if (kind =? 2) && (negb (o =? 1) || negb (seg_listed seq)) then (s, ob 404 0 false 0)
           else (s, ob 200 (served_index watch (canonical_path path)) true 0)
       end.

Definition step_http (fixed : bool) (watch : list bytes) (s : state) (kind : Z) (path : bytes) (t : tokv) (seq : Z)
           (hdrs : list hdr) : state * obs :=
  if negb (mux_ok (http_url kind path seq)) then (s, ob 301 0 false 0)
  else step_http_in fixed watch s kind (url_path fixed path) t seq hdrs.

(* ---- an arbitrary URL path under /streams/ : the interceptor and the handler each derive what the request is
   about from the URL, by separate code (permissionInterceptor / onStreamsRequest + hls.GetTS) ---- *)

(* path.Ext: from the last '.' of the last element *)
Fixpoint ext_rev (r acc : bytes) : bytes :=
  match r with
  | [] => []
  | c :: r' => if c =? SLASH then [] else if c =? DOT then DOT :: acc else ext_rev r' (c :: acc)
  end.
Definition path_ext (u : bytes) : bytes := ext_rev (rev u) [].
(* the first element of the URL ("streams") *)
Fixpoint take_seg (s : bytes) : bytes :=
  match s with
  | [] => []
  | c :: s' => if c =? SLASH then [] else c :: take_seg s'
  end.
(* extractStreamPathAndExt: requestPath[1+len(token) : len-len(ext)], made canonical (as repaired) *)
Definition extract (fixed : bool) (u : bytes) : bytes * bytes :=
  let ext := path_ext u in
  let start := S (length (take_seg (tl u))) in
  (url_path fixed (firstn (length u - start - length ext) (skipn start u)), ext).
(* strings.LastIndex(p, "/") : p[:i], p[i+1:] *)
Fixpoint split_last_rev (r acc : bytes) : option (bytes * bytes) :=
  match r with
  | [] => None
  | c :: r' => if c =? SLASH then Some (rev r', acc) else split_last_rev r' (c :: acc)
  end.
Definition split_last (p : bytes) : option (bytes * bytes) := split_last_rev (rev p) [].
Definition strip_last (p : bytes) : bytes := match split_last p with Some (q, _) => q | None => p end.
(* strconv.Atoi: optional sign, at least one digit, nothing else *)
Definition is_digit_b (c : Z) : bool := (48 <=? c) && (c <=? 57).
Definition digits_val (d : bytes) : option Z :=
  match d with
  | [] => None
  | _ => if forallb is_digit_b d then Some (fold_left (fun a c => a * 10 + (c - 48)) d 0) else None
  end.
Definition atoi_go (s : bytes) : option Z :=
  match s with
  | 43 :: d => digits_val d
  | 45 :: d => option_map Z.opp (digits_val d)
  | _ => digits_val s
  end.

(* permissionInterceptor: the path the pull right is checked on *)
Definition url_icp (fixed : bool) (u : bytes) : bytes :=
  let '(sp, ext) := extract fixed u in
  if bytes_eqb ext EXT_TS then strip_last sp else sp.

(* onStreamsRequest + GetTS: what is served.  [lower]: dispatch on the lower-cased extension (not the code; the
   slip the refutation is about) *)
Inductive hres := HServe (kind : Z) (p : bytes) (n : Z) | HBad | HNone.
Definition url_handler (lower fixed : bool) (u : bytes) : hres :=
  let '(sp, ext) := extract fixed u in
  let e := if lower then to_lower ext else ext in
  if bytes_eqb e EXT_FLV then HServe 0 sp 0
  else if bytes_eqb e EXT_M3U8 then HServe 1 sp 0
  else if bytes_eqb e EXT_TS then
    match split_last sp with
    | None => HBad
    | Some (p, q) => match atoi_go q with Some n => HServe 2 p n | None => HBad end
    end
  else HNone.

(* the sequence numbers the primed playlist of a pre-published stream lists *)
Definition url_seg_listed (n : Z) : bool := (2 <=? n) && (n <=? 4).

Definition step_url_gen (lower fixed : bool) (watch : list bytes) (s : state) (u : bytes) (t : tokv)
           (hdrs : list hdr) : state * obs :=
  if negb (mux_ok u) then (s, ob 301 0 false 0)
  else
    let '(code, _) := stream_gate fixed s t (url_icp fixed u) None hdrs in
    if negb (code =? 200) then (s, ob code 0 false 0)
    else match url_handler lower fixed u with
         | HNone => (s, ob 404 0 false 0)
         | HBad => (s, ob 400 0 false 0)
         | HServe kind p n =>
             match live (reg s) p with
             | None => (s, ob 404 0 false 0)
             | Some o =>
                 if (kind =? 1) && negb (o =? 1) then (s, ob 400 0 false 0)
                 else if (kind =? 2) && (negb (o =? 1) || negb (url_seg_listed n)) then (s, ob 404 0 false 0)
                 else (s, ob 200 (served_index watch (canonical_path p)) true (kind + 1))
             end
         end.
Definition step_url := step_url_gen false.

Definition step_api (s : state) (ep : Z) (t : tokv) (u : user) (upd_pw : bool) (name : bytes)
           (hdrs : list hdr) : state * obs :=
  let code := api_gate s ep t hdrs in
  let s1 := if code =? 2 then
              (if ep =? EP_SAVE_USER then set_users s (save_user (users s) u upd_pw)
               else if ep =? EP_DEL_USER then set_users s (del_user (users s) name)
               else s)
            else s in
  (s1, ob code 0 false 0).

Definition step_gen (fixed : bool) (watch : list bytes) (s : state) (ev : event) : state * obs :=
  match ev with
  | ESave u upd_pw => (set_users s (save_user (users s) u upd_pw), ob 0 0 false 0)
  | EDel name => (set_users s (del_user (users s) name), ob 0 0 false 0)
  | ETick dt => (set_now s (now s + dt), ob 0 0 false 0)
  | ELogin name pw => step_login s name pw
  | ERefresh t => step_refresh s t
  | ERtspOpen =>
      (* newSession draws the session id and the nonce *)
      (set_conns s (conns s ++ [conn0 K_RTSP [] []]) (reg s) (ctr s + 2), ob 0 0 false (ctr s + 1))
  | ERtsp k m path cr => step_rtsp fixed watch s k m path cr
  | EWsOpen kind path t chan hdrs => step_wsopen fixed s kind path t chan hdrs
  | EWsRtsp k m path => step_wsrtsp fixed watch s k m path
  | EWsp k m path => step_wsp fixed watch s k m
  | EHttp kind path t seq hdrs => step_http fixed watch s kind path t seq hdrs
  | EUrl url t hdrs => step_url fixed watch s url t hdrs
  | EApi ep t u upd_pw name hdrs => step_api s ep t u upd_pw name hdrs
  end.

(* the same request without the headers the client chose *)
Definition strip_hdrs (ev : event) : event :=
  match ev with
  | EWsOpen kind path t chan _ => EWsOpen kind path t chan []
  | EHttp kind path t seq _ => EHttp kind path t seq []
  | EApi ep t u upd_pw name _ => EApi ep t u upd_pw name []
  | EUrl url t _ => EUrl url t []
  | _ => ev
  end.

Definition step := step_gen true.
Definition step_orig := step_gen false.

Definition state0 (users0 : list user) (ext : list bytes) : state :=
  {| users := fold_left (fun t u => save_user t u true) users0 [];
     toks := []; grants := []; now := 0; conns := [];
     reg := fold_left (fun r p => reg_put r (canonical_path p) 1) ext [];
     ctr := 0 |}.

Fixpoint run_gen (fixed : bool) (watch : list bytes) (s : state) (evs : list event) : list obs :=
  match evs with
  | [] => []
  | e :: evs' => let '(s1, o) := step_gen fixed watch s e in o :: run_gen fixed watch s1 evs'
  end.
Definition run := run_gen true.

Fixpoint final (watch : list bytes) (s : state) (evs : list event) : state :=
  match evs with
  | [] => s
  | e :: evs' => final watch (fst (step watch s e)) evs'
  end.

(* ------------------------------------------------------------------ *)
(* the reference monitor applied to an event                            *)

(* who the caller is, by the reference side only (grants, the passwords as last saved, the user the
   upgrade of a WebSocket connection verified) *)
Definition digest_identity (t : utable) (c : conn) (cr : cred) : option bytes :=
  match cr with
  | CNone => None
  | CDigest user secret nmode bmode =>
      match user with
      | [] => None
      | _ => match find_user t user with
             | Some u => if (if nmode =? 0 then true else if nmode =? 1 then negb (c_rot c) else false)
                            && (bmode =? 0) && bytes_eqb secret (u_pw u)
                         then Some (u_name u) else None
             | None => None
             end
      end
  end.

Definition token_identity (s : state) (t : tokv) : option bytes := spec_access (grants s) (now s) t.

Definition identity (s : state) (ev : event) : option bytes :=
  match ev with
  | ERtsp k _ _ cr => digest_identity (users s) (get_conn s k) cr
  | EWsRtsp k _ _ => Some (c_user (get_conn s k))
  | EWsp k _ _ => Some (c_user (get_conn s k))
  | EWsOpen _ _ t _ _ => token_identity s t
  | EHttp _ _ t _ _ => token_identity s t
  | EApi _ t _ _ _ _ => token_identity s t
  | EUrl _ t _ => token_identity s t
  | _ => None
  end.

(* what the event asks for: the action and the path it concerns, read off the session as it is *)
Definition rtsp_target (ws : bool) (c : conn) (m : Z) (urlpath : bytes) : action * bytes :=
  if m =? M_DESCRIBE then (APull, if ws then c_path c else canonical_path urlpath)
  else if m =? M_ANNOUNCE then (APush, canonical_path urlpath)
  else if is_setup m then
    let tmode := if m =? M_SETUP_RECORD then 2 else 1 in
    let mode := if c_mode c =? 0 then tmode else c_mode c in
    (if mode =? 2 then APush else APull, c_path c)
  else if m =? M_RECORD then (APush, c_path c)
  else (APull, c_path c).

Definition target (s : state) (ev : event) : action * bytes :=
  match ev with
  | ERtsp k m path _ => rtsp_target false (get_conn s k) m path
  | EWsRtsp k m path => rtsp_target true (get_conn s k) m path
  | EWsp k m _ => (APull, if m =? M_DESCRIBE then c_wspath (get_conn s k) else c_path (get_conn s k))
  | EWsOpen kind path _ chan _ => (APull, canonical_path path)
  | EHttp _ path _ _ _ => (APull, canonical_path path)
  | EApi ep _ _ _ _ _ => (if ep_read ep then AApiRead else AAdmin, [])
  | EUrl url _ _ => (APull, url_icp true url)
  | _ => (AApiRead, [])
  end.

Definition allowed_chk (s : state) (ev : event) : bool :=
  match identity s ev with
  | Some u => let '(act, p) := target s ev in spec_allows (users s) u act p
  | None => false
  end.

(* does the observation hand something out: a success answer or media.  SETUP hands nothing out by
   itself (the wsp session does not check it, the rtsp session does). *)
Definition hands_out_method (m : Z) : bool := negb (is_setup m).
Definition granted (ev : event) (o : obs) : bool :=
  match ev with
  | ERtsp _ m _ _ | EWsRtsp _ m _ | EWsp _ m _ => hands_out_method m && ((o_code o =? 200) || o_media o)
  | EWsOpen kind _ _ _ _ => (o_code o =? 101) || o_media o
  | EHttp _ _ _ _ _ => (o_code o =? 200) || o_media o
  | EApi ep _ _ _ _ _ => negb (ep_open ep) && (o_code o =? 2)
  | EUrl _ _ _ => (o_code o =? 200) || o_media o
  | _ => false
  end.
(* the request is answered with success *)
Definition accepted (ev : event) (o : obs) : bool :=
  match ev with
  | ERtsp _ _ _ _ | EWsRtsp _ _ _ | EWsp _ _ _ => o_code o =? 200
  | EWsOpen kind _ _ _ _ => o_code o =? 101
  | EHttp _ _ _ _ _ => (o_code o =? 200) && o_media o
  | EApi ep _ _ _ _ _ => o_code o =? 2
  | EUrl _ _ _ => (o_code o =? 200) && o_media o
  | _ => false
  end.

(* requests that continue something already granted on the same session (PLAY while playing, RECORD while
   recording are keep-alives: no new decision, as in the code) *)
Definition keepalive (s : state) (ev : event) : bool :=
  match ev with
  | ERtsp k m _ _ | EWsRtsp k m _ =>
      let c := get_conn s k in ((m =? M_PLAY) && (c_status c =? 2)) || ((m =? M_RECORD) && (c_status c =? 3))
  | EWsp k m _ => (m =? M_PLAY) && (c_status (get_conn s k) =? 2)
  | _ => false
  end.

(* the request would succeed if every authorization question were answered yes: the model with the
   table replaced by an all-permitting one *)
Definition yes_user (name : bytes) : user :=
  {| u_name := name; u_pw := []; u_admin := true; u_push := [STAR]; u_pull := [STAR] |}.

Definition feasible (watch : list bytes) (s : state) (ev : event) : bool :=
  match ev with
  | ERtsp k m path _ =>
      let c := get_conn s k in
      (c_kind c =? K_RTSP) && legal (c_status c) m &&
      (let '(_, code, _) := rtsp_handle false (fun _ _ => true) (reg s) 0 c m path in code =? 200)
  | EWsRtsp k m path =>
      let c := get_conn s k in
      (c_kind c =? K_WSRTSP) && legal (c_status c) m &&
      (let '(_, code, _) := rtsp_handle true (fun _ _ => true) (reg s) 0 c m path in code =? 200)
  | EWsp k m _ =>
      let c := get_conn s k in
      (c_kind c =? K_WSP) && (let '(_, code) := wsp_handle true (fun _ _ => true) (reg s) c m in code =? 200)
  | EWsOpen kind path _ _ _ => mux_ok (ws_url kind path)
  | EHttp kind path _ seq _ =>
      mux_ok (http_url kind path seq) &&
      match live (reg s) (canonical_path path) with
      | Some o => if kind =? 0 then true else (o =? 1) && negb ((kind =? 2) && negb (seg_listed seq))
      | None => false
      end
  | EApi _ _ _ _ _ _ => true
  | EUrl u _ _ =>
      mux_ok u &&
      match url_handler false true u with
      | HServe kind p n =>
          match live (reg s) p with
          | Some o => if kind =? 0 then true else (o =? 1) && negb ((kind =? 2) && negb (url_seg_listed n))
          | None => false
          end
      | _ => false
      end
  | _ => false
  end.

(* the oracle for one event: nothing is handed out unless the monitor allows it (a keep-alive aside),
   the holder of the right is not refused when the request is otherwise in order, a caller that is not
   authenticated is told so (401), and a publication appears in the registry only by a granted RECORD *)
Definition is_request (ev : event) : bool :=
  match ev with
  | ERtsp _ _ _ _ | EWsRtsp _ _ _ | EWsp _ _ _ | EWsOpen _ _ _ _ _ | EHttp _ _ _ _ _ | EUrl _ _ _ => true
  | EApi ep _ _ _ _ _ => negb (ep_open ep)
  | _ => false
  end.

Definition unauth_code (ev : event) (o : obs) : bool :=
  match ev with
  | ERtsp _ _ _ _ => (o_code o =? 401) || (o_code o =? 455) || (o_code o =? (-1))
  | EWsOpen _ _ _ _ _ | EHttp _ _ _ _ _ | EUrl _ _ _ => (o_code o =? 401) || (o_code o =? 301)
  | EApi _ _ _ _ _ _ => o_code o =? 401
  | _ => true
  end.

(* joining a data channel: media of the control channel's stream goes to the joiner, who must be the
   verified user of that control channel and hold the pull right on its path now; the owner is not refused *)
Definition judge_join_chk (s : state) (ev : event) (o : obs) : bool :=
  match ev with
  | EWsOpen kind path _ chan _ =>
      if kind =? 2 then
        let c := get_conn s chan in
        match identity s ev with
        | Some u =>
            let mine := (c_kind c =? K_WSP) && bytes_eqb u (c_user c) && bytes_eqb (canonical_path path) (c_wspath c) in
            implb (o_media o || (o_aux o =? 200)) (mine && spec_allows (users s) u APull (c_path c)) &&
            implb (mux_ok (ws_url kind path) && mine && spec_allows (users s) u APull (canonical_path path)) (o_aux o =? 200)
        | None => negb (o_media o) && negb (o_aux o =? 200)
        end
      else true
  | _ => true
  end.

Definition judge_chk (watch : list bytes) (s : state) (ev : event) (o : obs) : bool :=
  if is_request ev then
    (implb (granted ev o) (allowed_chk s ev || keepalive s ev)) &&
    (implb (allowed_chk s ev && feasible watch s ev) (accepted ev o)) &&
    (match identity s ev with None => unauth_code ev o | Some _ => true end) &&
    judge_join_chk s ev o
  else true.

(* registry part: the owners of the watched paths change only through a granted RECORD of the session
   that then owns the path, and only for the path the session holds *)
Definition reg_view (watch : list bytes) (r : registry) : list Z :=
  map (fun p => match live r p with Some k => k | None => 0 end) watch.

Fixpoint zlist_eqb (a b : list Z) : bool :=
  match a, b with
  | [], [] => true
  | x :: a', y :: b' => (x =? y) && zlist_eqb a' b'
  | _, _ => false
  end.

Definition judge_reg_chk (watch : list bytes) (s : state) (ev : event) (o : obs) : bool :=
  match ev with
  | ERtsp k m _ _ | EWsRtsp k m _ =>
      let before := reg_view watch (reg s) in
      if zlist_eqb (o_reg o) before then true
      else (m =? M_RECORD) && (o_code o =? 200) && allowed_chk s ev
  | _ => true
  end.

Fixpoint ok_run_chk (watch : list bytes) (s : state) (evs : list event) (os : list obs) : bool :=
  match evs, os with
  | [], [] => true
  | e :: evs', o :: os' =>
      judge_chk watch s e o && judge_reg_chk watch s e o && ok_run_chk watch (fst (step watch s e)) evs' os'
  | _, _ => false
  end.


(* The reference monitor decides on the resource that is actually served: the registry key
   canonical_path p of the path p handed to the lookup / the publication, not on the spelling the
   permission check happens to be given. [allowed] is the monitor, [allowed_chk] the same question asked
   about p itself (what the code asks). *)
Definition served_key (p : bytes) : bytes := canonical_path p.

Definition allowed (s : state) (ev : event) : bool :=
  match identity s ev with
  | Some u => let '(act, p) := target s ev in spec_allows (users s) u act (served_key p)
  | None => false
  end.

Definition judge_join_strict (s : state) (ev : event) (o : obs) : bool :=
  match ev with
  | EWsOpen kind path _ chan _ =>
      if kind =? 2 then
        let c := get_conn s chan in
        match identity s ev with
        | Some u =>
            let mine := (c_kind c =? K_WSP) && bytes_eqb u (c_user c) && bytes_eqb (canonical_path path) (c_wspath c) in
            implb (o_media o || (o_aux o =? 200)) (mine && spec_allows (users s) u APull (served_key (c_path c))) &&
            implb (mux_ok (ws_url kind path) && mine && spec_allows (users s) u APull (served_key (canonical_path path))) (o_aux o =? 200)
        | None => negb (o_media o) && negb (o_aux o =? 200)
        end
      else true
  | _ => true
  end.

Definition judge_strict (watch : list bytes) (s : state) (ev : event) (o : obs) : bool :=
  if is_request ev then
    (implb (granted ev o) (allowed s ev || keepalive s ev)) &&
    (implb (allowed s ev && feasible watch s ev) (accepted ev o)) &&
    (match identity s ev with None => unauth_code ev o | Some _ => true end) &&
    judge_join_strict s ev o
  else true.

Definition judge_reg_strict (watch : list bytes) (s : state) (ev : event) (o : obs) : bool :=
  match ev with
  | ERtsp k m _ _ | EWsRtsp k m _ =>
      let before := reg_view watch (reg s) in
      if zlist_eqb (o_reg o) before then true
      else (m =? M_RECORD) && (o_code o =? 200) && allowed s ev
  | _ => true
  end.

Fixpoint ok_run_strict (watch : list bytes) (s : state) (evs : list event) (os : list obs) : bool :=
  match evs, os with
  | [], [] => true
  | e :: evs', o :: os' =>
      judge_strict watch s e o && judge_reg_strict watch s e o && ok_run_strict watch (fst (step watch s e)) evs' os'
  | _, _ => false
  end.


(* The documented pattern language reads a path as its '/'-separated segments, blanks around a segment and
   letter case ignored; the registry reads it through CanonicalPath, which is not idempotent on paths with
   a blank-edged dot segment ("/a/. /x/.." -> "/a/. " -> "/a").  [path_ok p]: both readings of p name the same
   resource.  The class where they differ is the known finding C11 path-check-differs-from-served; the
   oracle is strict inside the class [ev_ok]. *)
Fixpoint blist_eqb (a b : list bytes) : bool :=
  match a, b with
  | [], [] => true
  | x :: a', y :: b' => bytes_eqb x y && blist_eqb a' b'
  | _, _ => false
  end.
Definition same_segs (a b : bytes) : bool := blist_eqb (segments (trim_space a)) (segments (trim_space b)).
Definition path_ok (p : bytes) : bool := same_segs p (served_key p).
Definition ev_ok (s : state) (ev : event) : bool :=
  path_ok (snd (target s ev)) &&
  match ev with
  | EWsOpen kind _ _ chan _ => if kind =? 2 then path_ok (c_path (get_conn s chan)) else true
  | _ => true
  end.

(* the part of ev_ok that is not a consequence of reachability: for a raw URL with a ".ts" extension the
   interceptor checks the stream path without its last element, which is a canonical path cut short *)
Definition url_ok (ev : event) : bool :=
  match ev with
  | EUrl u _ _ => path_ok (url_icp true u)
  | _ => true
  end.

Definition judge (watch : list bytes) (s : state) (ev : event) (o : obs) : bool :=
  if ev_ok s ev then judge_strict watch s ev o else true.
Definition judge_reg (watch : list bytes) (s : state) (ev : event) (o : obs) : bool :=
  if ev_ok s ev then judge_reg_strict watch s ev o else true.

(* what was served is the resource the decision was about: an identifiable description / media stream is that of
   the registry key served_key p of the request's target path p (a session already playing keeps its stream) *)
Definition judge_src (watch : list bytes) (s : state) (ev : event) (o : obs) : bool :=
  match ev with
  | ERtsp _ _ _ _ | EWsRtsp _ _ _ | EWsp _ _ _ =>
      (o_aux o =? 0) || keepalive s ev || (o_aux o =? served_index watch (served_key (snd (target s ev))))
  | EHttp _ _ _ _ _ | EUrl _ _ _ =>
      (o_aux o =? 0) || (o_aux o =? served_index watch (served_key (snd (target s ev))))
  | _ => true
  end.

Fixpoint ok_run (watch : list bytes) (s : state) (evs : list event) (os : list obs) : bool :=
  match evs, os with
  | [], [] => true
  | e :: evs', o :: os' =>
      judge watch s e o && judge_reg watch s e o && judge_src watch s e o &&
      ok_run watch (fst (step watch s e)) evs' os'
  | _, _ => false
  end.

(* ------------------------------------------------------------------ *)
(* what other / unauthenticated clients are shown: the ids drawn from the counter; never a token *)
Definition disclosed (os : list obs) : list Z := map o_id os.

(* what the holder of an issue is shown *)
Definition issued_tokens (rnd : nat -> bytes) (s : state) : list (bytes * bytes) :=
  map (fun k => (render rnd (TA k), render rnd (TR k))) (seq 0 (length (grants s))).

(* everything the server sends: the observation of each event (visible to whoever made the request) and,
   for a successful login / refresh, the two token strings, which only that caller is shown *)
Fixpoint run_out (rnd : nat -> bytes) (watch : list bytes) (s : state) (evs : list event)
  : list (obs * list (bytes * bytes)) :=
  match evs with
  | [] => []
  | e :: evs' =>
      let '(s1, o) := step watch s e in
      (o, skipn (length (grants s)) (issued_tokens rnd s1)) :: run_out rnd watch s1 evs'
  end.
Definition others_view (out : list (obs * list (bytes * bytes))) : list obs := map fst out.

(* D24, before the repair: both tokens of an issue were a public function [h] (MD5 of the varint) of the
   next two values of the very counter the session ids are; [predict] is the attacker's computation *)
Definition tokens_orig (h : Z -> bytes) (ctr_at_login : Z) : bytes * bytes := (h (ctr_at_login + 1), h (ctr_at_login + 2)).
Definition predict (h : Z -> bytes) (disclosed_id : Z) (ids_between : Z) : bytes * bytes :=
  (h (disclosed_id + ids_between + 1), h (disclosed_id + ids_between + 2)).

