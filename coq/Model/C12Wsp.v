(* C12 — the WSP variant: RTSP requests wrapped in the WSP proxy protocol
   (service/wsp/session.go, protocol.go, wsp.go; html5_rtsp_player's server side).
   Executable model + specification monitor (the oracle).  NO proofs here.

   A WSP client opens a websocket "control" channel on the stream's URL, sends INIT
   (answered with a channel id), then WRAP messages that carry one RTSP request
   each; media arrives on a second websocket ("data") that JOINs the channel id.

     Server.handshakeControlChannel      -> wstep, channel not yet established
     Session.process (the WRAP loop)     -> wstep, established; deferred cleanup -> wclosed_of
     Session.onRequest / onPreprocess    -> wrtsp_step / wlegal_go
     onDescribe / onSetup / onPlay / onPause -> wdo_describe / wdo_setup / wdo_play / WmPause
     Server.handshakeDataChannel         -> the CDataJoin case of wstep
     Session.Consume                     -> wflows (does a packet of the stream reach the client?)

   The environment [env] (live paths, what the SDP parser extracts) and the string-level
   functions ([ctl_match], [parse_transport], the same RTPTransport.ParseTransport) are
   those of Model/C12RtspSession.v.  Authentication is off: checkPermission is true.

   The model is the REPAIRED behaviour: in the initial state PAUSE is refused with 455
   like every other method that is not legal there; the original status table let it
   through (blacklist PLAY/RECORD only) and onPause answered 200.  [wstep_orig] keeps
   the original table for the _refuted witness. *)
From Coq Require Import ZArith List Bool.
From V Require Import Bytes StrGo C12RtspSession.
Import ListNotations.
Open Scope Z_scope.

(* ------------------------------------------------------------------ types *)
Inductive wmeth := WmOptions | WmDescribe | WmSetup | WmPlay | WmPause | WmTeardown | WmRecord
                 | WmOther (k : Z).   (* ANNOUNCE, GET_PARAMETER, SET_PARAMETER, REDIRECT, unknown names *)
Inductive wstatus := WInit | WReady | WPlaying.

Definition wmeth_eqb (a b : wmeth) : bool :=
  match a, b with
  | WmOptions, WmOptions | WmDescribe, WmDescribe | WmSetup, WmSetup | WmPlay, WmPlay
  | WmPause, WmPause | WmTeardown, WmTeardown | WmRecord, WmRecord => true
  | WmOther x, WmOther y => x =? y
  | _, _ => false
  end.
Definition wstatus_eqb (a b : wstatus) : bool :=
  match a, b with
  | WInit, WInit | WReady, WReady | WPlaying, WPlaying => true
  | _, _ => false
  end.

(* the RTSP request inside a WRAP message *)
Record wreq := {
  wq_meth : wmeth;
  wq_cseq : bytes;
  wq_url : bytes;        (* request URI as url.URL.String() prints it, port explicit *)
  wq_transport : bytes   (* Transport header *)
}.

(* one WSP message.  The first five arrive on the control channel; a CDataJoin is a new
   data websocket whose first message names this session's channel id ([mine]) or another one *)
Inductive wcmd :=
| CInit | CGetInfo | CSwitch
| CWrap (q : wreq)
| CCtlJoin                       (* JOIN sent on the control channel *)
| CDataJoin (mine : bool).
Record wrequest := { rq_seq : bytes; rq_cmd : wcmd }.

(* a WSP response: status, the echoed seq, and the RTSP response it carries (WRAP only) *)
Record wresponse := { wp_code : Z; wp_seq : bytes; wp_rtsp : option response }.

Record wsess := {
  w_path : bytes;       (* conn.Path(): the stream path of the websocket URL *)
  w_inited : bool;      (* INIT answered: the Session exists and runs process() *)
  w_closed : bool;
  w_status : wstatus;
  w_paused : bool;
  w_joined : bool;      (* a data channel is attached *)
  w_vctl : ctl;
  w_actl : ctl;
  w_tr : transport;
  w_vch : Z;            (* transport.Channels[ChannelVideo]: interleaved channel of the video RTP track, -1 = not set up *)
  w_ach : Z;            (* ... of the audio RTP track *)
  w_held : held
}.

Definition winit_sess (path : bytes) : wsess :=
  {| w_path := path; w_inited := false; w_closed := false; w_status := WInit; w_paused := false;
     w_joined := false; w_vctl := CtlOk []; w_actl := CtlOk [];
     w_tr := {| t_mode := MdPlay; t_type := TUnknown |}; w_vch := -1; w_ach := -1; w_held := HNone |}.

Definition wset_inited (s : wsess) : wsess :=
  {| w_path := w_path s; w_inited := true; w_closed := w_closed s; w_status := w_status s;
     w_paused := w_paused s; w_joined := w_joined s; w_vctl := w_vctl s; w_actl := w_actl s;
     w_tr := w_tr s; w_vch := w_vch s; w_ach := w_ach s; w_held := w_held s |}.
Definition wset_closed (s : wsess) : wsess :=
  {| w_path := w_path s; w_inited := w_inited s; w_closed := true; w_status := w_status s;
     w_paused := w_paused s; w_joined := w_joined s; w_vctl := w_vctl s; w_actl := w_actl s;
     w_tr := w_tr s; w_vch := w_vch s; w_ach := w_ach s; w_held := w_held s |}.
Definition wset_status (s : wsess) (x : wstatus) : wsess :=
  {| w_path := w_path s; w_inited := w_inited s; w_closed := w_closed s; w_status := x;
     w_paused := w_paused s; w_joined := w_joined s; w_vctl := w_vctl s; w_actl := w_actl s;
     w_tr := w_tr s; w_vch := w_vch s; w_ach := w_ach s; w_held := w_held s |}.
Definition wset_paused (s : wsess) (x : bool) : wsess :=
  {| w_path := w_path s; w_inited := w_inited s; w_closed := w_closed s; w_status := w_status s;
     w_paused := x; w_joined := w_joined s; w_vctl := w_vctl s; w_actl := w_actl s;
     w_tr := w_tr s; w_vch := w_vch s; w_ach := w_ach s; w_held := w_held s |}.
Definition wset_joined (s : wsess) (x : bool) : wsess :=
  {| w_path := w_path s; w_inited := w_inited s; w_closed := w_closed s; w_status := w_status s;
     w_paused := w_paused s; w_joined := x; w_vctl := w_vctl s; w_actl := w_actl s;
     w_tr := w_tr s; w_vch := w_vch s; w_ach := w_ach s; w_held := w_held s |}.
Definition wset_ctls (s : wsess) (v a : ctl) : wsess :=
  {| w_path := w_path s; w_inited := w_inited s; w_closed := w_closed s; w_status := w_status s;
     w_paused := w_paused s; w_joined := w_joined s; w_vctl := v; w_actl := a;
     w_tr := w_tr s; w_vch := w_vch s; w_ach := w_ach s; w_held := w_held s |}.
Definition wset_tr (s : wsess) (x : transport) : wsess :=
  {| w_path := w_path s; w_inited := w_inited s; w_closed := w_closed s; w_status := w_status s;
     w_paused := w_paused s; w_joined := w_joined s; w_vctl := w_vctl s; w_actl := w_actl s;
     w_tr := x; w_vch := w_vch s; w_ach := w_ach s; w_held := w_held s |}.
Definition wset_held (s : wsess) (x : held) : wsess :=
  {| w_path := w_path s; w_inited := w_inited s; w_closed := w_closed s; w_status := w_status s;
     w_paused := w_paused s; w_joined := w_joined s; w_vctl := w_vctl s; w_actl := w_actl s;
     w_tr := w_tr s; w_vch := w_vch s; w_ach := w_ach s; w_held := x |}.
(* Session.process's deferred cleanup: channel deleted from the server's table, consumer
   stopped, both websockets closed, status back to init *)
Definition wclosed_of (s : wsess) : wsess :=
  {| w_path := w_path s; w_inited := w_inited s; w_closed := true; w_status := WInit;
     w_paused := false; w_joined := false; w_vctl := w_vctl s; w_actl := w_actl s;
     w_tr := w_tr s; w_vch := w_vch s; w_ach := w_ach s; w_held := HNone |}.

Definition wset_vch (s : wsess) (x : Z) : wsess :=
  {| w_path := w_path s; w_inited := w_inited s; w_closed := w_closed s; w_status := w_status s;
     w_paused := w_paused s; w_joined := w_joined s; w_vctl := w_vctl s; w_actl := w_actl s;
     w_tr := w_tr s; w_vch := x; w_ach := w_ach s; w_held := w_held s |}.
Definition wset_ach (s : wsess) (x : Z) : wsess :=
  {| w_path := w_path s; w_inited := w_inited s; w_closed := w_closed s; w_status := w_status s;
     w_paused := w_paused s; w_joined := w_joined s; w_vctl := w_vctl s; w_actl := w_actl s;
     w_tr := w_tr s; w_vch := w_vch s; w_ach := x; w_held := w_held s |}.

(* ------------------------------------------------------------------ the interleaved channel of a track
   RTPTransport.ParseTransport stores, token by token, the first number of every "interleaved=b-e"
   (parseRange: b >= 0) in Channels[track]; the value stays when a later token is malformed or the
   SETUP is refused, and across SETUPs.  (The rest of ParseTransport is C12RtspSession.parse_transport.) *)
Definition range_begin (p : bytes) : Z :=
  let s1 := match cut 45 p with None => p | Some (a, _) => trim_space a end in
  match s1 with
  | [] => -1
  | _ => match atoi s1 with Some v => v | None => -1 end
  end.
Definition chan_step (ch : Z) (tok : bytes) : Z :=
  let '(k, v) := pair_scan tok in
  if bytes_eqb k C12Lit.k_interleaved
  then let b := range_begin v in if 0 <=? b then b else ch
  else ch.
Definition parse_channel (ch0 : Z) (ts : bytes) : Z :=
  match cut 59 ts with
  | None => ch0
  | Some (spec0, rest) =>
      let spec := trim_space spec0 in
      if bytes_eqb spec C12Lit.k_avp_tcp || bytes_eqb spec C12Lit.k_avp || bytes_eqb spec C12Lit.k_avp_udp
      then fold_left chan_step (List.map trim_space (split_on 59 rest)) ch0
      else ch0
  end.
(* rtp.Packet.Write sends a packet only on a channel 0..255 *)
Definition chan_ok (ch : Z) : bool := (0 <=? ch) && (ch <=? 255).

(* ------------------------------------------------------------------ the RTSP handlers *)
Definition wresp (code : Z) (q : wreq) : response :=
  {| rs_code := code; rs_cseq := wq_cseq q; rs_sess := true |}.

(* onDescribe: the path is the websocket's; the request URI plays no role *)
Definition wdo_describe (e : env) (s : wsess) : wsess * Z :=
  match live e (w_path s) with
  | None => (s, 404)
  | Some (sid, _) =>
      match e_sdp e sid with
      | None => (s, 404)
      | Some si => (wset_ctls s (match si_v si with Some c => c | None => w_vctl s end)
                                (match si_a si with Some c => c | None => w_actl s end), 200)
      end
  end.

Definition wready_of (s : wsess) : wsess :=
  match w_status s with WInit => wset_status s WReady | _ => s end.

(* onSetup: getControlPath gives "" when url.Parse fails; an empty video control is refused
   ("Invalid VControl"); only RTP/AVP/TCP in play mode is accepted *)
Definition wdo_setup (s : wsess) (q : wreq) : wsess * Z :=
  match w_vctl s with
  | CtlBad => (s, 500)
  | CtlOk v =>
      if bytes_eqb v [] then (s, 500)
      else
        let a := match w_actl s with CtlOk a => a | CtlBad => [] end in
        if ctl_match (wq_url q) a || ctl_match (wq_url q) v then
          let '(t, err) := parse_transport (w_tr s) (wq_transport q) in
          (* the audio control is tried first; the matched track's channel is parsed from the header *)
          let s0 := if ctl_match (wq_url q) a
                    then wset_ach s (parse_channel (w_ach s) (wq_transport q))
                    else wset_vch s (parse_channel (w_vch s) (wq_transport q)) in
          let s1 := wset_tr s0 t in
          if err then (s1, 451)
          else if negb (smode_eqb (t_mode t) MdPlay) then (s1, 451)
          else if negb (ttype_eqb (t_type t) TTcp) then (s1, 461)
          else (wready_of s1, 200)
        else (s, 500)
  end.

Definition wset_play (s : wsess) : wsess := wset_paused (wset_status s WPlaying) false.

Definition wdo_play (e : env) (s : wsess) : wsess * Z * list effect :=
  match w_status s with
  | WPlaying => (wset_paused s false, 200, [])
  | _ =>
      match live e (w_path s) with
      | None => (s, 404, [])
      | Some _ =>
          match w_held s with
          | HNone => let p := canonical_path (w_path s) in
                     (wset_play (wset_held s (HCons p)), 200, [EAttach p])
          | _ => (wset_play s, 200, [])
          end
      end
  end.

(* the status table of onPreprocess (OPTIONS and TEARDOWN are answered before it).
   [fixed]: PAUSE is refused in the initial state as well *)
Definition wlegal_go (fixed : bool) (st : wstatus) (m : wmeth) : bool :=
  match st with
  | WReady => match m with WmSetup | WmPlay => true | _ => false end
  | WPlaying => match m with WmPlay | WmPause => true | _ => false end
  | WInit => match m with WmPlay | WmRecord => false | WmPause => negb fixed | _ => true end
  end.

(* Session.onRequest *)
Definition wrtsp_step (fixed : bool) (e : env) (s : wsess) (q : wreq) : wsess * Z * list effect :=
  match wq_meth q with
  | WmOptions => (s, 200, [])
  | WmTeardown => (s, 200, [])          (* process() leaves its loop afterwards: see wstep *)
  | m =>
      if negb (wlegal_go fixed (w_status s) m) then (s, 455, [])
      else match m with
           | WmDescribe => let '(s', c) := wdo_describe e s in (s', c, [])
           | WmSetup => let '(s', c) := wdo_setup s q in (s', c, [])
           | WmPlay => wdo_play e s
           | WmPause => (match w_status s with WPlaying => wset_paused s true | _ => s end, 200, [])
           | _ => (s, 455, [])
           end
  end.

Definition wanswer (code : Z) (rq : wrequest) (r : option response) : wresponse :=
  {| wp_code := code; wp_seq := rq_seq rq; wp_rtsp := r |}.

Definition is_wteardown (m : wmeth) : bool := match m with WmTeardown => true | _ => false end.

Definition wstep_gen (fixed : bool) (e : env) (s : wsess) (rq : wrequest)
  : wsess * list wresponse * list effect :=
  match rq_cmd rq with
  | CDataJoin mine =>
      (* handshakeDataChannel: always answered; attached only to this session's live channel *)
      if mine && w_inited s && negb (w_closed s)
      then (wset_joined s true, [wanswer 200 rq None], [])
      else (s, [wanswer 404 rq None], [])
  | c =>
      if w_closed s then (s, [], [])
      else if negb (w_inited s) then
        (* handshakeControlChannel *)
        match c with
        | CGetInfo => (s, [], [])
        | CInit => (wset_inited s, [wanswer 200 rq None], [])
        | _ => (wset_closed s, [], [EClose])
        end
      else
        (* Session.process *)
        match c with
        | CWrap q =>
            let '(s1, code, fs) := wrtsp_step fixed e s q in
            if is_wteardown (wq_meth q)
            then (wclosed_of s1, [wanswer 200 rq (Some (wresp code q))], fs ++ [ERelease (w_held s1); EClose])
            else (s1, [wanswer 200 rq (Some (wresp code q))], fs)
        | CSwitch => (s, [wanswer 200 rq None], [])
        | _ => (wclosed_of s, [], [ERelease (w_held s); EClose])   (* "must is WRAP or SWITCH command request" *)
        end
  end.

Definition wstep := wstep_gen true.        (* the model: repaired behaviour *)
Definition wstep_orig := wstep_gen false.  (* the status table before the fix: commit *)

(* the messages the protocol answers: INIT on a fresh control channel, WRAP and SWITCH on an
   established one, JOIN on a data channel.  (GET_INFO is consumed silently during the handshake;
   any other message closes the channel without an answer — neither is an RTSP request.) *)
Definition wanswerable (s : wsess) (c : wcmd) : bool :=
  match c with
  | CDataJoin _ => true
  | CInit => negb (w_inited s)
  | CWrap _ | CSwitch => w_inited s
  | CGetInfo | CCtlJoin => false
  end.

(* the client goes away *)
Definition wdisconnect (s : wsess) : wsess * list effect :=
  if w_closed s then (s, [])
  else if w_inited s then (wclosed_of s, [ERelease (w_held s); EClose])
  else (wset_closed s, [EClose]).

(* Session.Consume: packets of the consumed stream are passed on to the data channel ... *)
Definition wflows (s : wsess) : bool :=
  wstatus_eqb (w_status s) WPlaying && negb (w_paused s) && w_joined s && negb (w_closed s).
(* ... those of a track that was set up with an interleaved channel (rtp.Packet.Write writes nothing
   for the others and Consume then sends nothing) *)
Definition wtracks (s : wsess) : bool := chan_ok (w_vch s) || chan_ok (w_ach s).

(* ------------------------------------------------------------------ runs and observations *)
Record wobs_step := {
  wo_resps : list wresponse;
  wo_eof : bool;                 (* the server closed the control channel *)
  wo_reg : list (Z * Z);         (* registry (C12RtspSession.registry) of the watched paths *)
  wo_media : bool                (* an RTP frame arrived on a data channel in this step (a video and an
                                    audio packet are published into every stream after each step) *)
}.

Definition wmedia_of (ext : list bytes) (s : wsess) : bool :=
  wflows s && wtracks s && match w_held s with HCons p => bytes_in p ext | _ => false end.

Fixpoint wrun_gen (fixed : bool) (e : env) (watch ext : list bytes) (s : wsess) (rqs : list wrequest)
  : list wobs_step * wsess :=
  match rqs with
  | [] => ([], s)
  | rq :: rqs' =>
      let '(s', rs, _) := wstep_gen fixed e s rq in
      let o := {| wo_resps := rs; wo_eof := w_closed s'; wo_reg := registry ext (w_held s') watch;
                  wo_media := wmedia_of ext s' |} in
      let '(os, fin) := wrun_gen fixed e watch ext s' rqs' in
      (o :: os, fin)
  end.

Definition wrun_case (fixed : bool) (e : env) (watch ext : list bytes) (s0 : wsess) (rqs : list wrequest)
  : list wobs_step * list (Z * Z) :=
  let '(os, s') := wrun_gen fixed e watch ext s0 rqs in
  let '(s'', _) := wdisconnect s' in
  (os, registry ext (w_held s'') watch).

(* ------------------------------------------------------------------ the specification monitor
   The property on what a WSP client and the registry can observe, independent of the model.
   [wlegal] is the method table of the property for WSP: PAUSE is legal while playing,
   there is no record side. *)
Definition wlegal (st : wstatus) (m : wmeth) : bool :=
  match m with
  | WmOptions | WmTeardown => true
  | WmDescribe => match st with WInit => true | _ => false end
  | WmSetup => match st with WInit | WReady => true | _ => false end
  | WmPlay => match st with WReady | WPlaying => true | _ => false end
  | WmPause => match st with WPlaying => true | _ => false end
  | WmRecord | WmOther _ => false
  end.

Record wmon := {
  wm_chan : bool;       (* INIT was answered 200: the channel is established *)
  wm_phase : wstatus;
  wm_desc : bool;       (* a DESCRIBE was answered 2xx *)
  wm_via_d : bool;      (* ... and a SETUP was answered 2xx after it *)
  wm_played : bool;     (* a PLAY was answered 2xx in state ready *)
  wm_paused : bool;     (* the last of PLAY / PAUSE answered 2xx while playing was a PAUSE *)
  wm_joined : bool;     (* a data channel JOIN was answered 200 *)
  wm_closed : bool;
  wm_reg : list (Z * Z)
}.

Definition wmon0 (reg0 : list (Z * Z)) : wmon :=
  {| wm_chan := false; wm_phase := WInit; wm_desc := false; wm_via_d := false; wm_played := false;
     wm_paused := false; wm_joined := false; wm_closed := false; wm_reg := reg0 |}.

Definition wset_mreg (m : wmon) (r : list (Z * Z)) : wmon :=
  {| wm_chan := wm_chan m; wm_phase := wm_phase m; wm_desc := wm_desc m; wm_via_d := wm_via_d m;
     wm_played := wm_played m; wm_paused := wm_paused m; wm_joined := wm_joined m;
     wm_closed := wm_closed m; wm_reg := r |}.
Definition wset_mchan (m : wmon) : wmon :=
  {| wm_chan := true; wm_phase := wm_phase m; wm_desc := wm_desc m; wm_via_d := wm_via_d m;
     wm_played := wm_played m; wm_paused := wm_paused m; wm_joined := wm_joined m;
     wm_closed := wm_closed m; wm_reg := wm_reg m |}.
Definition wset_mjoined (m : wmon) (x : bool) : wmon :=
  {| wm_chan := wm_chan m; wm_phase := wm_phase m; wm_desc := wm_desc m; wm_via_d := wm_via_d m;
     wm_played := wm_played m; wm_paused := wm_paused m; wm_joined := x;
     wm_closed := wm_closed m; wm_reg := wm_reg m |}.
Definition wset_mclosed (m : wmon) : wmon :=
  {| wm_chan := wm_chan m; wm_phase := wm_phase m; wm_desc := wm_desc m; wm_via_d := wm_via_d m;
     wm_played := wm_played m; wm_paused := wm_paused m; wm_joined := wm_joined m;
     wm_closed := true; wm_reg := wm_reg m |}.

(* the monitor's next state on a 2xx answer; None = the answer is not allowed there *)
Definition wmon_accept (m : wmon) (me : wmeth) : option wmon :=
  match me with
  | WmDescribe => Some {| wm_chan := wm_chan m; wm_phase := wm_phase m; wm_desc := true; wm_via_d := wm_via_d m;
                          wm_played := wm_played m; wm_paused := wm_paused m; wm_joined := wm_joined m;
                          wm_closed := wm_closed m; wm_reg := wm_reg m |}
  | WmSetup => Some {| wm_chan := wm_chan m; wm_phase := match wm_phase m with WInit => WReady | x => x end;
                       wm_desc := wm_desc m; wm_via_d := wm_via_d m || wm_desc m;
                       wm_played := wm_played m; wm_paused := wm_paused m; wm_joined := wm_joined m;
                       wm_closed := wm_closed m; wm_reg := wm_reg m |}
  | WmPlay => match wm_phase m with
              | WPlaying => Some {| wm_chan := wm_chan m; wm_phase := WPlaying; wm_desc := wm_desc m;
                                    wm_via_d := wm_via_d m; wm_played := wm_played m; wm_paused := false;
                                    wm_joined := wm_joined m; wm_closed := wm_closed m; wm_reg := wm_reg m |}
              | WReady => if wm_via_d m
                          then Some {| wm_chan := wm_chan m; wm_phase := WPlaying; wm_desc := wm_desc m;
                                       wm_via_d := wm_via_d m; wm_played := true; wm_paused := false;
                                       wm_joined := wm_joined m; wm_closed := wm_closed m; wm_reg := wm_reg m |}
                          else None     (* playing not reached through DESCRIBE, SETUP *)
              | WInit => None
              end
  | WmPause => match wm_phase m with
               | WPlaying => Some {| wm_chan := wm_chan m; wm_phase := WPlaying; wm_desc := wm_desc m;
                                     wm_via_d := wm_via_d m; wm_played := wm_played m; wm_paused := true;
                                     wm_joined := wm_joined m; wm_closed := wm_closed m; wm_reg := wm_reg m |}
               | _ => None
               end
  | WmTeardown => Some (wset_mclosed m)
  | _ => Some m
  end.

Definition is_none {A} (x : option A) : bool := match x with None => true | Some _ => false end.

(* media may be seen only after a successful PLAY, not while paused, and on a joined data channel *)
Definition wmedia_ok (m : wmon) (o : wobs_step) : bool :=
  negb (wo_media o) || (wm_played m && negb (wm_paused m) && wm_joined m && negb (wm_closed m)).

(* a bare WSP answer (no RTSP part) with the seq echoed *)
Definition wbare (rq : wrequest) (r : wresponse) : bool :=
  bytes_eqb (wp_seq r) (rq_seq rq) && is_none (wp_rtsp r).

(* a message the protocol does not allow at this point (WRAP before INIT, INIT twice, JOIN on the
   control channel ...).  It is not an RTSP request and the property leaves the reaction open:
   no success answer; the channel is either closed — then nothing of the session remains — or
   unchanged *)
Definition wmon_violation (m : wmon) (rq : wrequest) (o : wobs_step) : option wmon :=
  if match wo_resps o with
     | [] => true
     | [r] => wbare rq r && negb (is_2xx (wp_code r))
     | _ => false
     end && negb (wo_media o)
  then if wo_eof o
       then if reg_no_self (wo_reg o) then Some (wset_mreg (wset_mclosed m) (wo_reg o)) else None
       else if reg_eqb (wo_reg o) (wm_reg m) then Some m else None
  else None.

(* a WRAP on an established channel: the RTSP part of the property *)
Definition wmon_wrap (m : wmon) (rq : wrequest) (q : wreq) (o : wobs_step) : option wmon :=
  match wo_resps o with
  | [r] =>
      match wp_rtsp r with
      | None => None
      | Some rr =>
          let c := code_class (rs_code rr) in
          let me := wq_meth q in
          (* exactly one response: WSP 200 with the seq echoed, carrying an RTSP response with the
             CSeq echoed, the session id and a real status code *)
          if negb ((wp_code r =? 200) && bytes_eqb (wp_seq r) (rq_seq rq)
                   && bytes_eqb (rs_cseq rr) (wq_cseq q) && rs_sess rr && negb (c =? 0)) then None
          else if negb (wlegal (wm_phase m) me) then
            (* not legal in the current state: 455, nothing changes, still usable *)
            if (c =? 455) && reg_eqb (wo_reg o) (wm_reg m) && negb (wo_eof o) && wmedia_ok m o
            then Some m else None
          else if c =? 455 then None       (* 455 is for illegal methods only *)
          else if (c =? 2) && wmeth_eqb me WmSetup && transport_invalid (wq_transport q) then
            None   (* a SETUP whose Transport header is invalid must be refused, wherever the fault is *)
          else if c =? 2 then
            match wmon_accept m me with
            | None => None
            | Some m' =>
                let r' := wo_reg o in
                if (negb (reg_has_cons r') || wstatus_eqb (wm_phase m') WPlaying)
                   && negb (reg_has_own r')
                   && wmedia_ok m' o
                   && (if wm_closed m' then wo_eof o && reg_no_self r' else negb (wo_eof o))
                then Some (wset_mreg m' r') else None
            end
          else
            (* refused: the channel stays usable and the registry is untouched;
               a refused TEARDOWN is not allowed (it must release) *)
            if negb (is_wteardown me) && negb (wo_eof o) && reg_eqb (wo_reg o) (wm_reg m) && wmedia_ok m o
            then Some m else None
      end
  | _ => None
  end.

Definition wmon_step (m : wmon) (rq : wrequest) (o : wobs_step) : option wmon :=
  match rq_cmd rq with
  | CDataJoin mine =>
      (* a data channel: answered exactly once with the seq echoed; accepted iff it names this
         session's live channel; the control channel and the registry are untouched *)
      match wo_resps o with
      | [r] =>
          let ok := is_2xx (wp_code r) in
          let may := mine && wm_chan m && negb (wm_closed m) in
          let m' := wset_mjoined m (wm_joined m || ok) in
          if wbare rq r && Bool.eqb ok may && Bool.eqb (wo_eof o) (wm_closed m)
             && reg_eqb (wo_reg o) (wm_reg m) && wmedia_ok m' o
          then Some m' else None
      | _ => None
      end
  | c =>
      if wm_closed m then
        (* the channel is gone: nothing is answered and nothing of the session reappears *)
        match wo_resps o with
        | [] => if wo_eof o && reg_no_self (wo_reg o) && negb (wo_media o)
                then Some (wset_mreg m (wo_reg o)) else None
        | _ => None
        end
      else if negb (wm_chan m) then
        match c with
        | CInit =>
            match wo_resps o with
            | [r] => if wbare rq r && (wp_code r =? 200) && negb (wo_eof o)
                        && reg_eqb (wo_reg o) (wm_reg m) && negb (wo_media o)
                     then Some (wset_mchan m) else None
            | _ => None
            end
        | CGetInfo =>
            (* not an RTSP request; the server keeps silent, an answer would not be wrong *)
            if match wo_resps o with [] => true | [r] => wbare rq r | _ => false end
               && negb (wo_eof o) && reg_eqb (wo_reg o) (wm_reg m) && negb (wo_media o)
            then Some m else None
        | _ => wmon_violation m rq o
        end
      else
        match c with
        | CWrap q => wmon_wrap m rq q o
        | CSwitch =>
            match wo_resps o with
            | [r] => if wbare rq r && (wp_code r =? 200) && negb (wo_eof o)
                        && reg_eqb (wo_reg o) (wm_reg m) && wmedia_ok m o
                     then Some m else None
            | _ => None
            end
        | _ => wmon_violation m rq o
        end
  end.

Fixpoint wmon_run (m : wmon) (rqs : list wrequest) (os : list wobs_step) : option wmon :=
  match rqs, os with
  | [], [] => Some m
  | rq :: rqs', o :: os' =>
      match wmon_step m rq o with
      | Some m' => wmon_run m' rqs' os'
      | None => None
      end
  | _, _ => None
  end.

(* the oracle: applied to the model (theorem C12_wsp_model_passes) and to the implementation *)
Definition c12w_ok (reg0 : list (Z * Z)) (rqs : list wrequest) (obs : list wobs_step * list (Z * Z)) : bool :=
  match wmon_run (wmon0 reg0) rqs (fst obs) with
  | Some _ => reg_no_self (snd obs)
  | None => false
  end.

(* ------------------------------------------------------------------ client-visible events *)
Definition wev_of (rq : wrequest) (o : wobs_step) : list (wmeth * Z) :=
  match rq_cmd rq, wo_resps o with
  | CWrap q, [r] => match wp_rtsp r with
                    | Some rr => [(wq_meth q, code_class (rs_code rr))]
                    | None => []
                    end
  | _, _ => []
  end.
Fixpoint wevents (rqs : list wrequest) (os : list wobs_step) : list (wmeth * Z) :=
  match rqs, os with
  | rq :: rqs', o :: os' => wev_of rq o ++ wevents rqs' os'
  | _, _ => []
  end.
(* the methods [ms] were answered 2xx, in this order (not necessarily adjacent) *)
Fixpoint wsubseq (ms : list wmeth) (tr : list (wmeth * Z)) {struct tr} : Prop :=
  match ms with
  | [] => True
  | m :: ms' =>
      match tr with
      | [] => False
      | x :: tr' => (wmeth_eqb (fst x) m = true /\ snd x = 2 /\ wsubseq ms' tr') \/ wsubseq (m :: ms') tr'
      end
  end.
