(* C14 — the RTSP wire codec: av/format/rtsp/{header,request,response}.go,
   av/format/rtp/packet.go (ReadPacket / Packet.Write) and the dispatcher
   service/rtsp/io.go `receive`.

   The model works on the unread input as a byte list.  A bufio.Reader over a
   connection delivers that same byte sequence whatever the chunking, so the
   chunking does not appear here (it is tested by the correspondence, not
   proved).  Every Go index / slice expression is a checked access ([idx],
   [slice]) whose failure is the explicit outcome [Panic]; the theorems show it
   never arises.

   External behaviour: net/url's parser (url.ParseRequestURI) is the Section variable
   [url_parse : bytes -> option gourl]; nothing is assumed about it except, for the
   round-trip theorems, the law  url_parse (URL.String() of the emitted URL) = that URL.
   What ipchub itself does to the parsed URL (dropping a dangling ':' after the host) is
   modelled ([fix_host]), and so are URL.String / Hostname / Port on the URL grammar
   ([gourl_string], [split_host_port]); URLs as structured values are [surl].

   This is the REPAIRED behaviour (D26): a line longer than [max_line] or a
   Content-Length above [max_body] is an error, a body cut short is an error,
   and a panic inside pion's RTP header parser is an error.  The behaviour
   before the repair is kept as [read_line_lim None], [read_body_lim None true]
   and [read_packet_gen false] for the `_refuted` witnesses. *)
From Coq Require Import ZArith List Bool.
From Coq Require String Ascii.
From V Require Import Val Bytes StrGo.
Import ListNotations.
Open Scope Z_scope.

(* ---- the limits (constants of the fix in av/format/rtsp/header.go) ---- *)
Definition max_line : Z := 16384.      (* maxLineLength = 16 * 1024 *)
Definition max_body : Z := 1048576.    (* maxBodyLength = 1024 * 1024 *)

(* ---- string literals ---- *)
Definition b_of_string (s : String.string) : bytes :=
  map (fun c => Z.of_nat (Ascii.nat_of_ascii c)) (String.list_ascii_of_string s).

Module C14Lits.
  Import String.
  Local Open Scope string_scope.
  (* header.go: the Field* constants *)
  Definition key_names : list string := [
  "Accept"; "Accept-Encoding"; "Accept-Language"; "Allow"; "Authorization"; "Bandwidth";
  "Blocksize"; "Cache-Control"; "Conference"; "Connection"; "Content-Base";
  "Content-Encoding"; "Content-Language"; "Content-Length"; "Content-Location";
  "Content-Type"; "CSeq"; "Date"; "Expires"; "From"; "If-Modified-Since"; "Last-Modified";
  "Proxy-Authenticate"; "Proxy-Require"; "Public"; "Range"; "Referer"; "Require";
  "Retry-After"; "RTP-Info"; "Scale"; "Session"; "Server"; "Speed"; "Transport";
  "Unsupported"; "User-Agent"; "Via"; "WWW-Authenticate"].
  (* response.go: statusText *)
  Definition status_names : list (Z * string) := [
  (100, "Continue"); (200, "OK"); (201, "Created"); (250, "Low on Storage Space");
  (300, "Multiple Choices"); (301, "Moved Permanently"); (302, "Moved Temporarily");
  (303, "See Other"); (304, "Not Modified"); (305, "Use Proxy");
  (400, "Bad Request"); (401, "Unauthorized"); (402, "Payment Required"); (403, "Forbidden");
  (404, "Not Found"); (405, "Method Not Allowed"); (406, "Not Acceptable");
  (407, "Proxy Authentication Required"); (408, "Request Timeout"); (410, "Gone");
  (411, "Length Required"); (412, "Precondition Failed"); (413, "Request Entity Too Large");
  (414, "Request URI Too Long"); (415, "Unsupported Media Type"); (451, "Invalid para" ++ "meter");
  (452, "Illegal Conference Identifier"); (453, "Not Enough Bandwidth"); (454, "Session Not Found");
  (455, "Method Not Valid In This State"); (456, "Header Field Not Valid"); (457, "Invalid Range");
  (458, "Para" ++ "meter Is Read-Only"); (459, "Aggregate Operation Not Allowed");
  (460, "Only Aggregate Operation Allowed"); (461, "Unsupported Transport");
  (462, "Destination Unreachable"); (500, "Internal Server Error"); (501, "Not Implemented");
  (502, "Bad Gateway"); (503, "Service Unavailable"); (504, "Gateway Timeout");
  (505, "RTSP Version Not Supported"); (551, "Option not support")].
  Definition status_code_ : string := "status code ".
End C14Lits.

Definition SP : Z := 32.
Definition CR : Z := 13.
Definition LF : Z := 10.
Definition COLON : Z := 58.
Definition DOLLAR : Z := 36.
Definition CRLF : bytes := [13; 10].
Definition COLON_SP : bytes := [58; 32].
Definition COMMA_SP : bytes := [44; 32].
Definition RTSP10 : bytes := [82; 84; 83; 80; 47; 49; 46; 48].          (* "RTSP/1.0" *)
Definition OPTIONS : bytes := [79; 80; 84; 73; 79; 78; 83].             (* "OPTIONS" *)
Definition STAR : bytes := [42].
Definition CONTENT_LENGTH : bytes :=                                     (* "Content-Length" *)
  [67; 111; 110; 116; 101; 110; 116; 45; 76; 101; 110; 103; 116; 104].

(* ---- outcomes ---- *)
Inductive err :=
| EEof            (* nothing (or fewer than the 4 peeked bytes) left *)
| EShort          (* stream ended inside a frame or a body *)
| ELineTooLong
| EBodyTooBig
| EMalformed      (* request line / status line / header line syntax *)
| EUrl            (* net/url refused the Request-URI *)
| EFuel.          (* loop fuel exhausted: excluded by [*_fuel] lemmas *)

Inductive res (A : Type) : Type :=
| Ok (a : A) (rest : bytes)
| Err (e : err)
| Panic.
Arguments Ok {A} a rest.
Arguments Err {A} e.
Arguments Panic {A}.

(* ---- Go string helpers ---- *)
Fixpoint index_from (c : Z) (s : bytes) (i : Z) : Z :=
  match s with
  | [] => -1
  | x :: s' => if x =? c then i else index_from c s' (i + 1)
  end.
(* strings.IndexByte / strings.Index with a one-byte needle *)
Definition index_byte (c : Z) (s : bytes) : Z := index_from c s 0.

Definition upper_byte (b : Z) : Z := if (97 <=? b) && (b <=? 122) then b - 32 else b.
Definition to_upper (s : bytes) : bytes := map upper_byte s.

(* strings.TrimSpace on ASCII, linear *)
Fixpoint trim_right_sp (s : bytes) : bytes :=
  match s with
  | [] => []
  | c :: s' =>
      match trim_right_sp s' with
      | [] => if is_space c then [] else [c]
      | t => c :: t
      end
  end.
Definition trim_sp (s : bytes) : bytes := trim_right_sp (trim_left is_space s).

(* headerNewlineToSpace + TrimSpace *)
Definition nl_to_sp (b : Z) : Z := if (b =? LF) || (b =? CR) then SP else b.
Definition canonical_kv (s : bytes) : bytes := trim_sp (map nl_to_sp s).

(* decimal numbers: strconv.Atoi / ParseInt base 10 (optional sign, >= 1 digit) *)
Definition is_digit (b : Z) : bool := (48 <=? b) && (b <=? 57).
Fixpoint digits_val (acc : Z) (s : bytes) : Z :=
  match s with [] => acc | d :: s' => digits_val (acc * 10 + (d - 48)) s' end.
Definition parse_udec (s : bytes) : option Z :=
  match s with
  | [] => None
  | _ => if forallb is_digit s then Some (digits_val 0 s) else None
  end.
Definition parse_dec (s : bytes) : option Z :=
  match s with
  | 43 :: s' => parse_udec s'
  | 45 :: s' => match parse_udec s' with Some n => Some (- n) | None => None end
  | _ => parse_udec s
  end.

(* strconv.Itoa for n >= 0 *)
Fixpoint itoa_fuel (f : nat) (n : Z) : bytes :=
  match f with
  | O => []
  | S f' => if n <? 10 then [48 + n] else itoa_fuel f' (n / 10) ++ [48 + n mod 10]
  end.
Definition itoa (n : Z) : bytes := itoa_fuel (S (Z.to_nat (Z.log2 n))) n.

(* ---- header.go ---- *)
Definition canonical_keys : list bytes := Eval vm_compute in map b_of_string C14Lits.key_names.

(* canonicalKeys[strings.ToUpper(key)], else the key as it came *)
Definition canon_key (k : bytes) : bytes :=
  match find (fun ck => bytes_eqb (to_upper ck) (to_upper k)) canonical_keys with
  | Some ck => ck
  | None => k
  end.

(* Header = map[string][]string, kept as an association list in first-insertion order;
   only key-indexed access ([hvals]) and the key-sorted view ([hsort]) are observable *)
Definition header := list (bytes * list bytes).

Fixpoint hvals (h : header) (k : bytes) : list bytes :=
  match h with
  | [] => []
  | (k', vs) :: h' => if bytes_eqb k' k then vs else hvals h' k
  end.
(* Header.get *)
Definition hget (h : header) (k : bytes) : bytes := hd [] (hvals h k).

(* h[key] = append(h[key], value) *)
Fixpoint hadd (h : header) (k v : bytes) : header :=
  match h with
  | [] => [(k, [v])]
  | (k', vs) :: h' => if bytes_eqb k' k then (k', vs ++ [v]) :: h' else (k', vs) :: hadd h' k v
  end.

Definition hremove (h : header) (k : bytes) : header :=
  filter (fun e => negb (bytes_eqb (fst e) k)) h.

(* Go string order *)
Fixpoint bytes_ltb (a b : bytes) : bool :=
  match a, b with
  | [], [] => false
  | [], _ :: _ => true
  | _ :: _, [] => false
  | x :: a', y :: b' => if x <? y then true else if y <? x then false else bytes_ltb a' b'
  end.
Fixpoint hinsert (e : bytes * list bytes) (h : header) : header :=
  match h with
  | [] => [e]
  | e' :: h' => if bytes_ltb (fst e') (fst e) then e' :: hinsert e h' else e :: h
  end.
Definition hsort (h : header) : header := fold_right hinsert [] h.

(* Header.Int(FieldContentLength): ParseInt(v, 10, 32), errors and negatives give 0 *)
Definition content_length (h : header) : Z :=
  match parse_dec (hget h CONTENT_LENGTH) with
  | Some n => if (0 <=? n) && (n <=? 2147483647) then n else 0
  | None => 0
  end.

(* bufio.Reader.ReadLine as used by readLine: up to the first LF *)
Fixpoint split_lf (s : bytes) : option (bytes * bytes) :=
  match s with
  | [] => None
  | c :: s' =>
      if c =? LF then Some ([], s')
      else match split_lf s' with
           | Some (l, r) => Some (c :: l, r)
           | None => None
           end
  end.
(* drop one CR in front of the LF *)
Fixpoint strip_cr (l : bytes) : bytes :=
  match l with
  | [] => []
  | c :: l' => match l' with
               | [] => if c =? CR then [] else [c]
               | _ => c :: strip_cr l'
               end
  end.

(* readLine.  [lim = None] is the code before the repair. *)
Definition read_line_lim (lim : option Z) (s : bytes) : res bytes :=
  match s with
  | [] => Err EEof
  | _ =>
      let '(l, rest) := match split_lf s with
                        | Some (raw, rest) => (strip_cr raw, rest)
                        | None => (s, [])          (* last line ended by EOF *)
                        end in
      match lim with
      | Some m => if zlen l >? m then Err ELineTooLong else Ok l rest
      | None => Ok l rest
      end
  end.
Definition read_line : bytes -> res bytes := read_line_lim (Some max_line).

(* one header line: "key: value" *)
Inductive hline := HLSkip | HLField (k v : bytes).
Definition parse_header_line (kv : bytes) : res hline :=
  let i := index_byte COLON kv in
  if i <? 0 then Err EMalformed else
  match slice kv 0 i, slice kv (i + 1) (zlen kv) with
  | Some k0, Some v0 =>
      let key := canonical_kv k0 in
      if zlen key =? 0 then Ok HLSkip [] else Ok (HLField (canon_key key) (canonical_kv v0)) []
  | _, _ => Panic
  end.

(* ReadHeader: the loop runs once per line; fuel = S (length s) always suffices *)
Fixpoint read_header_f (f : nat) (s : bytes) (h : header) : res header :=
  match f with
  | O => Err EFuel
  | S f' =>
      match read_line s with
      | Err e => Err e
      | Panic => Panic
      | Ok kv rest =>
          if zlen kv =? 0 then Ok h rest else
          match parse_header_line kv with
          | Err e => Err e
          | Panic => Panic
          | Ok HLSkip _ => read_header_f f' rest h
          | Ok (HLField k v) _ => read_header_f f' rest (hadd h k v)
          end
      end
  end.
Definition read_header (s : bytes) : res header := read_header_f (S (length s)) s [].

(* linear firstn *)
Fixpoint take_rev (n : nat) (s acc : bytes) : bytes :=
  match n, s with
  | S n', c :: s' => take_rev n' s' (c :: acc)
  | _, _ => acc
  end.
Definition take_n (n : nat) (s : bytes) : bytes := rev_append (take_rev n s []) [].

(* readBody.  [lim = None, pad = true] is the code before the repair: no limit, and a
   short read returned the zero-filled buffer without an error. *)
Definition read_body_lim (lim : option Z) (pad : bool) (h : header) (s : bytes) : res bytes :=
  let cl := content_length h in
  if cl <=? 0 then Ok [] s else
  if match lim with Some m => cl >? m | None => false end then Err EBodyTooBig else
  if zlen s <? cl then
    (if pad then Ok (s ++ repeat_byte 0 (cl - zlen s)) [] else Err EShort)
  else Ok (take_n (Z.to_nat cl) s) (skipn (Z.to_nat cl) s).
Definition read_body : header -> bytes -> res bytes := read_body_lim (Some max_body) false.

(* ---- URLs ---- *)
(* the fields of a parsed url.URL that RTSP uses; g_user is URL.User.String() when a userinfo
   is present, g_query is RawQuery when a '?' is present (ForceQuery for an empty one) *)
Record gourl := { g_scheme : bytes; g_user : option bytes; g_host : bytes; g_path : bytes;
                  g_query : option bytes }.

Definition RBRACK : Z := 93.
Definition LBRACK : Z := 91.
Definition PERCENT : Z := 37.

(* strings.LastIndex with a one-byte needle *)
Fixpoint last_index_from (c : Z) (s : bytes) (i acc : Z) : Z :=
  match s with
  | [] => acc
  | x :: s' => last_index_from c s' (i + 1) (if x =? c then i else acc)
  end.
Definition last_index (c : Z) (s : bytes) : Z := last_index_from c s 0 (-1).

(* strings.TrimSuffix(h, ":") *)
Fixpoint trim_suffix_colon (h : bytes) : bytes :=
  match h with
  | [] => []
  | c :: h' => match h' with
               | [] => if c =? COLON then [] else [c]
               | _ => c :: trim_suffix_colon h'
               end
  end.

(* request.go, ReadRequest:
     if strings.LastIndex(Host, ":") > strings.LastIndex(Host, "]") { Host = strings.TrimSuffix(Host, ":") } *)
Definition fix_host (h : bytes) : bytes :=
  if last_index COLON h >? last_index RBRACK h then trim_suffix_colon h else h.
Definition fix_url (g : gourl) : gourl :=
  {| g_scheme := g_scheme g; g_user := g_user g; g_host := fix_host (g_host g); g_path := g_path g;
     g_query := g_query g |}.

(* net/url on the grammar: URL.String().  The only byte of a host of the grammar that is
   escaped is the '%' in front of an IPv6 zone. *)
Definition escape_host (h : bytes) : bytes :=
  flat_map (fun c => if c =? PERCENT then [37; 50; 53] else [c]) h.
Definition is_nil {A} (l : list A) : bool := match l with [] => true | _ => false end.
Definition gourl_string (g : gourl) : bytes :=
  (if is_nil (g_scheme g) then [] else g_scheme g ++ [COLON]) ++
  (if negb (is_nil (g_scheme g)) || negb (is_nil (g_host g)) || (match g_user g with Some _ => true | None => false end)
   then (if negb (is_nil (g_host g)) || negb (is_nil (g_path g)) || (match g_user g with Some _ => true | None => false end)
         then [SLASH; SLASH] else []) ++
        (match g_user g with Some ui => ui ++ [64] | None => [] end) ++ escape_host (g_host g)
   else []) ++
  (match g_path g with
   | c :: _ => if negb (c =? SLASH) && negb (is_nil (g_host g)) then [SLASH] else []
   | [] => []
   end) ++ g_path g ++
  (match g_query g with Some q => 63 :: q | None => [] end).

(* net/url: validOptionalPort, splitHostPort = (URL.Hostname(), URL.Port()) *)
Definition valid_optional_port (p : bytes) : bool :=
  match p with
  | [] => true
  | c :: ds => (c =? COLON) && forallb is_digit ds
  end.
Definition strip_brackets (h : bytes) : bytes :=
  match h with
  | c :: h' => if (c =? LBRACK) && ends_with RBRACK h then removelast h' else h
  | [] => h
  end.
Definition split_host_port (hp : bytes) : bytes * bytes :=
  let colon := last_index COLON hp in
  let '(h, p) := if negb (colon =? -1) && valid_optional_port (drop colon hp)
                 then (take colon hp, drop (colon + 1) hp) else (hp, []) in
  (strip_brackets h, p).

(* URLs as structured values: what a client can put on the request line *)
Inductive shost :=
| HName (n : bytes)                         (* reg-name or IPv4 *)
| HV6 (addr : bytes) (zone : option bytes). (* "[" addr [ "%25" zone ] "]" *)
Record sauth := { a_user : option (bytes * option bytes); a_host : shost; a_port : option bytes }.
Inductive surl :=
| SStar
| SPath (path : bytes) (query : option bytes)
| SAbs (scheme : bytes) (au : sauth) (path : bytes) (query : option bytes).

(* url.URL.Host of the parsed authority: the IPv6 literal keeps its brackets, the zone is unescaped *)
Definition host_bytes (h : shost) : bytes :=
  match h with
  | HName n => n
  | HV6 a z => LBRACK :: a ++ (match z with Some z => PERCENT :: z | None => [] end) ++ [RBRACK]
  end.
Definition go_host (au : sauth) : bytes :=
  host_bytes (a_host au) ++ match a_port au with Some p => COLON :: p | None => [] end.
Definition userinfo_bytes (u : bytes * option bytes) : bytes :=
  fst u ++ match snd u with Some pw => COLON :: pw | None => [] end.
Definition gourl_of (u : surl) : gourl :=
  match u with
  | SStar => {| g_scheme := []; g_user := None; g_host := []; g_path := [42]; g_query := None |}
  | SPath p q => {| g_scheme := []; g_user := None; g_host := []; g_path := p; g_query := q |}
  | SAbs sc au p q =>
      {| g_scheme := sc; g_user := option_map userinfo_bytes (a_user au); g_host := go_host au;
         g_path := p; g_query := q |}
  end.
Definition surl_print (u : surl) : bytes := gourl_string (gourl_of u).

(* the one thing ReadRequest may change: an empty port (dangling ':') is dropped *)
Definition drop_empty_port_au (au : sauth) : sauth :=
  match a_port au with
  | Some [] => {| a_user := a_user au; a_host := a_host au; a_port := None |}
  | _ => au
  end.
Definition drop_empty_port (u : surl) : surl :=
  match u with
  | SAbs sc au p q => SAbs sc (drop_empty_port_au au) p q
  | _ => u
  end.
(* what Hostname() and Port() of the parsed request have to answer *)
Definition host_text (h : shost) : bytes :=
  match h with
  | HName n => n
  | HV6 a z => a ++ (match z with Some z => PERCENT :: z | None => [] end)
  end.
Definition port_text (au : sauth) : bytes := match a_port au with Some p => p | None => [] end.

(* character classes of the grammar *)
Definition is_alnum (c : Z) : bool :=
  is_digit c || ((65 <=? c) && (c <=? 90)) || ((97 <=? c) && (c <=? 122)).
Definition is_unreserved (c : Z) : bool := is_alnum c || (c =? 45) || (c =? 46) || (c =? 95) || (c =? 126).
Definition is_v6char (c : Z) : bool :=
  is_digit c || ((65 <=? c) && (c <=? 70)) || ((97 <=? c) && (c <=? 102)) || (c =? COLON) || (c =? 46).
Definition host_wf (h : shost) : bool :=
  match h with
  | HName n => negb (is_nil n) && forallb is_unreserved n
  | HV6 a z => negb (is_nil a) && forallb is_v6char a &&
               match z with Some z => negb (is_nil z) && forallb is_unreserved z | None => true end
  end.
Definition auth_wf (au : sauth) : bool :=
  host_wf (a_host au) &&
  match a_port au with Some p => forallb is_digit p | None => true end &&
  match a_user au with
  | Some (u, pw) => forallb is_unreserved u &&
                    match pw with Some pw => forallb is_unreserved pw | None => true end
  | None => true
  end.

Definition surl_wf (u : surl) : bool :=
  match u with
  | SAbs sc au p q => auth_wf au
  | _ => true
  end.

Definition gourl_eqb (a b : gourl) : bool :=
  let oeq x y := match x, y with
                 | Some x, Some y => bytes_eqb x y
                 | None, None => true
                 | _, _ => false
                 end in
  bytes_eqb (g_scheme a) (g_scheme b) && oeq (g_user a) (g_user b) && bytes_eqb (g_host a) (g_host b) &&
  bytes_eqb (g_path a) (g_path b) && oeq (g_query a) (g_query b).

(* ---- service/rtsp/pull_client.go NewPullClient: the URL the pull client keeps for its requests ----
   port := url.Port(); if port == "" { url.Host = net.JoinHostPort(url.Hostname(), "554") }; url.User = nil.
   [brackets = false] is the code before the repair: url.Hostname() + ":554". *)
Definition PORT554 : bytes := [53; 53; 52].
Definition join_host_port (h p : bytes) : bytes :=
  if existsb (Z.eqb COLON) h then LBRACK :: h ++ RBRACK :: COLON :: p else h ++ COLON :: p.
Definition pull_host_gen (brackets : bool) (hp : bytes) : bytes :=
  let '(hn, port) := split_host_port hp in
  if is_nil port then (if brackets then join_host_port hn PORT554 else hn ++ COLON :: PORT554) else hp.
Definition pull_url (g : gourl) : gourl :=
  {| g_scheme := g_scheme g; g_user := None; g_host := pull_host_gen true (g_host g); g_path := g_path g;
     g_query := g_query g |}.
(* what that is on the structure: no userinfo, the default port where there was none or an empty one *)
Definition pull_norm_au (au : sauth) : sauth :=
  {| a_user := None; a_host := a_host au;
     a_port := match a_port au with None | Some [] => Some PORT554 | Some p => Some p end |}.
Definition pull_norm (u : surl) : surl :=
  match u with SAbs sc au p q => SAbs sc (pull_norm_au au) p q | _ => u end.
(* an IPv6 literal has a ':' *)
Definition v6_colon (h : shost) : bool :=
  match h with HV6 a _ => existsb (Z.eqb COLON) a | HName _ => true end.
Definition pull_wf (u : surl) : bool :=
  match u with SAbs sc au p q => auth_wf au && v6_colon (a_host au) | _ => false end.
(* oracle of the pull-client stream: the URL the client keeps, and the URL of its first request
   read back by ReadRequest, are the configured URL normalised as above *)
Definition ok_pull (u : surl) (kept readback : gourl) : bool :=
  negb (pull_wf u) ||
  (gourl_eqb kept (gourl_of (pull_norm u)) && gourl_eqb readback (gourl_of (pull_norm u))).

(* oracle for the URL stream: net/url printed and parsed the structured URL as the grammar says,
   and the URL of the request read back differs from it only by a dropped empty port *)
Definition ok_url (u : surl) (printed : bytes) (parsed fixed : gourl) : bool :=
  negb (surl_wf u) ||
  (bytes_eqb printed (surl_print u) && gourl_eqb parsed (gourl_of u) &&
   gourl_eqb fixed (gourl_of (drop_empty_port u))).

(* ---- request.go / response.go ---- *)
Record request := { q_method : bytes; q_url : gourl; q_proto : bytes; q_hdr : header; q_body : bytes }.
(* the Request-URI as Request.Write prints it *)
Definition url_str (q : request) : bytes := gourl_string (q_url q).
Record response := { p_proto : bytes; p_code : Z; p_status : bytes; p_hdr : header; p_body : bytes }.

Section WithUrl.
(* url.ParseRequestURI *)
Variable url_norm : bytes -> option gourl.

Definition parse_request_line (line : bytes) : res (bytes * gourl * bytes) :=
  let s1 := index_byte SP line in
  match slice line (s1 + 1) (zlen line) with
  | None => Panic
  | Some tail =>
      let s2 := index_byte SP tail in
      if (s1 <? 0) || (s2 <? 0) then Err EMalformed else
      let s2 := s2 + s1 + 1 in
      match slice line 0 s1, slice line (s1 + 1) s2, slice line (s2 + 1) (zlen line) with
      | Some a, Some b, Some c =>
          let method := trim_sp a in
          let rurl := trim_sp b in
          let proto := trim_sp c in
          if zlen method =? 0 then Err EMalformed else
          match idx method 0 with
          | None => Panic
          | Some m0 =>
              if m0 =? DOLLAR then Err EMalformed else
              if negb (bytes_eqb method OPTIONS) && bytes_eqb rurl STAR then Err EMalformed else
              match url_norm rurl with
              | None => Err EUrl
              | Some g => Ok (method, fix_url g, proto) []     (* the dangling-':' host fix *)
              end
          end
      | _, _, _ => Panic
      end
  end.

Definition read_request (s : bytes) : res request :=
  match read_line s with
  | Err e => Err e
  | Panic => Panic
  | Ok line s1 =>
      match parse_request_line line with
      | Err e => Err e
      | Panic => Panic
      | Ok (m, u, p) _ =>
          match read_header s1 with
          | Err e => Err e
          | Panic => Panic
          | Ok h s2 =>
              match read_body h s2 with
              | Err e => Err e
              | Panic => Panic
              | Ok body s3 =>
                  Ok {| q_method := m; q_url := u; q_proto := p; q_hdr := h; q_body := body |} s3
              end
          end
      end
  end.

End WithUrl.

Definition parse_status_line (line : bytes) : res (bytes * Z * bytes) :=
  let i := index_byte SP line in
  if i <? 0 then Err EMalformed else
  match slice line 0 i, slice line (i + 1) (zlen line) with
  | Some proto, Some st0 =>
      let status := trim_left (Z.eqb SP) st0 in
      let j := index_byte SP status in
      match (if j <? 0 then Some status else slice status 0 j) with
      | None => Panic
      | Some code_str =>
          if negb (zlen code_str =? 3) then Err EMalformed else
          match parse_dec code_str with
          | None => Err EMalformed
          | Some code => if code <? 0 then Err EMalformed else Ok (proto, code, status) []
          end
      end
  | _, _ => Panic
  end.

Definition read_response (s : bytes) : res response :=
  match read_line s with
  | Err e => Err e
  | Panic => Panic
  | Ok line s1 =>
      match parse_status_line line with
      | Err e => Err e
      | Panic => Panic
      | Ok (proto, code, status) _ =>
          match read_header s1 with
          | Err e => Err e
          | Panic => Panic
          | Ok h s2 =>
              match read_body h s2 with
              | Err e => Err e
              | Panic => Panic
              | Ok body s3 =>
                  Ok {| p_proto := proto; p_code := code; p_status := status; p_hdr := h; p_body := body |} s3
              end
          end
      end
  end.

(* ---- writers ---- *)
Fixpoint join_vals (vs : list bytes) : bytes :=      (* strings.Join(values, ", ") *)
  match vs with
  | [] => []
  | [v] => v
  | v :: vs' => v ++ COMMA_SP ++ join_vals vs'
  end.

Definition write_field (e : bytes * list bytes) : bytes :=
  fst e ++ COLON_SP ++ join_vals (snd e) ++ CRLF.
Fixpoint write_fields (l : header) : bytes :=
  match l with [] => [] | e :: l' => write_field e ++ write_fields l' end.
(* Header.Write: keys sorted *)
Definition write_header (h : header) : bytes := write_fields (hsort h) ++ CRLF.

(* Request.Write / Response.Write first fix up Content-Length (exact key only) *)
Definition set_cl (h : header) (body : bytes) : header :=
  match body with
  | [] => hremove h CONTENT_LENGTH
  | _ => (CONTENT_LENGTH, [itoa (zlen body)]) :: hremove h CONTENT_LENGTH
  end.

Definition write_request (q : request) : bytes :=
  q_method q ++ SP :: url_str q ++ SP :: RTSP10 ++ CRLF ++
  write_header (set_cl (q_hdr q) (q_body q)) ++ q_body q.

Definition status_table : list (Z * bytes) := Eval vm_compute in
  map (fun p => (fst p, b_of_string (snd p))) C14Lits.status_names.

Definition STATUS_CODE_ : bytes := Eval vm_compute in b_of_string C14Lits.status_code_.

(* strings.TrimPrefix *)
Definition trim_prefix (p s : bytes) : bytes :=
  if is_prefix p s then skipn (length p) s else s.

(* the reason phrase Response.Write puts after the code *)
Definition status_text (p : response) : bytes :=
  match p_status p with
  | [] => match find (fun e => fst e =? p_code p) status_table with
          | Some e => snd e
          | None => STATUS_CODE_ ++ itoa (p_code p)
          end
  | st => trim_prefix (itoa (p_code p) ++ [SP]) st
  end.

Definition write_response (p : response) : bytes :=
  RTSP10 ++ SP :: itoa (p_code p) ++ SP :: status_text p ++ CRLF ++
  write_header (set_cl (p_hdr p) (p_body p)) ++ p_body p.

(* what a written message reads back as: repeated values joined, keys canonical,
   Content-Length as written *)
Definition norm_step (acc : header) (e : bytes * list bytes) : header :=
  hadd acc (canon_key (fst e)) (join_vals (snd e)).
Definition norm_hdr (h : header) (body : bytes) : header :=
  fold_left norm_step (hsort (set_cl h body)) [].
Definition norm_request (q : request) : request :=
  {| q_method := q_method q; q_url := fix_url (q_url q); q_proto := RTSP10;
     q_hdr := norm_hdr (q_hdr q) (q_body q); q_body := q_body q |}.
Definition norm_response (p : response) : response :=
  {| p_proto := RTSP10; p_code := p_code p;
     p_status := itoa (p_code p) ++ SP :: status_text p;
     p_hdr := norm_hdr (p_hdr p) (p_body p); p_body := p_body p |}.

(* ---- rtp/packet.go ---- *)
(* pion/rtp v1.6.2 Header.Unmarshal, as far as success / error / panic goes *)
Inductive hres := HOk | HErr | HPanic | HFuel.

Definition be16_at (d : bytes) (i : Z) : option Z :=
  match idx d i, idx d (i + 1) with
  | Some a, Some b => Some (a * 256 + b)
  | _, _ => None
  end.

(* RFC 8285 one-byte extension elements *)
Fixpoint ext_onebyte (f : nat) (d : bytes) (curr endp : Z) : hres :=
  match f with
  | O => HFuel
  | S f' =>
      if curr <? endp then
        match idx d curr with
        | None => HPanic
        | Some b =>
            if b =? 0 then ext_onebyte f' d (curr + 1) endp else
            let extid := b / 16 in
            let l := b mod 16 + 1 in
            let curr := curr + 1 in
            if extid =? 15 then HOk else
            if curr + l <=? zlen d then ext_onebyte f' d (curr + l) endp else HPanic
        end
      else HOk
  end.
(* two-byte extension elements *)
Fixpoint ext_twobyte (f : nat) (d : bytes) (curr endp : Z) : hres :=
  match f with
  | O => HFuel
  | S f' =>
      if curr <? endp then
        match idx d curr with
        | None => HPanic
        | Some b =>
            if b =? 0 then ext_twobyte f' d (curr + 1) endp else
            match idx d (curr + 1) with
            | None => HPanic
            | Some l =>
                if curr + 2 + l <=? zlen d then ext_twobyte f' d (curr + 2 + l) endp else HPanic
            end
        end
      else HOk
  end.

Definition rtp_hdr_check (d : bytes) : hres :=
  let n := zlen d in
  if n <? 4 then HErr else
  match idx d 0 with
  | None => HPanic
  | Some b0 =>
      let curr := 12 + 4 * (b0 mod 16) in
      if n <? curr then HErr else
      if (b0 / 16) mod 2 =? 0 then HOk else
      if n <? curr + 4 then HErr else
      match be16_at d curr, be16_at d (curr + 2) with
      | Some profile, Some w =>
          let curr := curr + 4 in
          let endp := curr + w * 4 in
          if n <? endp then HErr else
          if profile =? 48862 then ext_onebyte (S (length d)) d curr endp       (* 0xBEDE *)
          else if profile =? 4096 then ext_twobyte (S (length d)) d curr endp    (* 0x1000 *)
          else HOk
      | _, _ => HPanic
      end
  end.

(* index of the wire channel in the session's channel table *)
Fixpoint find_chan (cfg : list Z) (ch : Z) (i : Z) : option Z :=
  match cfg with
  | [] => None
  | v :: cfg' => if v =? ch then Some i else find_chan cfg' ch (i + 1)
  end.

Inductive event :=
| EvReq (q : request)
| EvResp (p : response)
| EvPack (ch : Z) (data : bytes)
| EvSkip.         (* a whole frame consumed and dropped: channel not in the session's table, or the
                     RTP header of a media-channel frame does not parse (ReadPacket returns the
                     packet together with an error; receive logs it and goes on) *)

(* ReadPacket.  [recoverp = false] is the code before the repair. *)
Definition read_packet_gen (recoverp : bool) (cfg : list Z) (s : bytes) : res event :=
  match s with
  | b0 :: b1 :: b2 :: b3 :: s' =>
      if negb (b0 =? DOLLAR) then Err EMalformed else
      let n := b2 * 256 + b3 in
      if zlen s' <? n then Err EShort else
      let data := take_n (Z.to_nat n) s' in
      let rest := skipn (Z.to_nat n) s' in
      match find_chan cfg b1 0 with
      | None => Ok EvSkip rest
      | Some i =>
          let ch := i mod 256 in
          if (ch =? 0) || (ch =? 2) then
            match rtp_hdr_check data with
            | HOk => Ok (EvPack ch data) rest
            | HErr => Ok EvSkip rest
            | HFuel => Err EFuel
            | HPanic => if recoverp then Ok EvSkip rest else Panic
            end
          else Ok (EvPack ch data) rest
      end
  | _ => Err EShort
  end.
Definition read_packet : list Z -> bytes -> res event := read_packet_gen true.

(* Packet.Write for a channel index < 4 whose table entry is a byte; longer payloads
   than 65535 have their length truncated by the uint16 conversion *)
Definition write_packet (cfg : list Z) (ch : Z) (data : bytes) : bytes :=
  match nth_error cfg (Z.to_nat ch) with
  | Some w =>
      if (w <? 0) || (w >? 255) then [] else
      let n := zlen data mod 65536 in
      DOLLAR :: w :: n / 256 :: n mod 256 :: data
  | None => []
  end.

(* ---- service/rtsp/io.go receive ---- *)
Definition map_res {A B} (f : A -> B) (r : res A) : res B :=
  match r with Ok a rest => Ok (f a) rest | Err e => Err e | Panic => Panic end.

Section Receive.
Variable url_norm : bytes -> option gourl.

Definition receive (cfg : list Z) (s : bytes) : res event :=
  if zlen s <? 4 then Err EEof else                       (* r.Peek(4) *)
  match idx s 0, idx s 1, idx s 2, idx s 3 with
  | Some c0, Some c1, Some c2, Some c3 =>
      if c0 =? DOLLAR then read_packet cfg s else
      if (c0 =? 82) && (c1 =? 84) && (c2 =? 83) && (c3 =? 80)
      then map_res EvResp (read_response s)
      else map_res EvReq (read_request url_norm s)
  | _, _, _, _ => Panic
  end.

End Receive.

(* what a stream is made of *)
Inductive item :=
| IReq (q : request)
| IResp (p : response)
| IPack (ch : Z) (data : bytes).

Definition encode (cfg : list Z) (it : item) : bytes :=
  match it with
  | IReq q => write_request q
  | IResp p => write_response p
  | IPack ch d => write_packet cfg ch d
  end.
Definition norm_item (it : item) : event :=
  match it with
  | IReq q => EvReq (norm_request q)
  | IResp p => EvResp (norm_response p)
  | IPack ch d => EvPack ch d
  end.

(* ---- well-formedness of emitted messages (boolean, used as theorem guards) ---- *)
Definition no_byte (c : Z) (s : bytes) : bool := forallb (fun x => negb (x =? c)) s.
Definition fixed_kv (s : bytes) : bool := bytes_eqb (canonical_kv s) s.

(* a field as Header.Write prints it reads back as itself *)
Definition field_wf (e : bytes * list bytes) : bool :=
  let k := fst e in let v := join_vals (snd e) in
  fixed_kv k && negb (zlen k =? 0) && no_byte COLON k && fixed_kv v &&
  (zlen k + 2 + zlen v <=? max_line).

(* no other spelling of Content-Length than the one Write maintains *)
Definition cl_wf (e : bytes * list bytes) : bool :=
  bytes_eqb (fst e) CONTENT_LENGTH || negb (bytes_eqb (canon_key (fst e)) CONTENT_LENGTH).

Definition hdr_wf (h : header) : bool := forallb field_wf h && forallb cl_wf h.

Definition token_wf (s : bytes) : bool :=
  negb (zlen s =? 0) && forallb (fun c => negb (is_space c)) s.

Definition RTSP_ : bytes := [82; 84; 83; 80].

Definition request_wf (url_norm : bytes -> option gourl) (q : request) : bool :=
  token_wf (q_method q) && token_wf (url_str q) &&
  negb (match q_method q with c :: _ => c =? DOLLAR | [] => true end) &&
  negb (is_prefix RTSP_ (q_method q)) &&
  (bytes_eqb (q_method q) OPTIONS || negb (bytes_eqb (url_str q) STAR)) &&
  match url_norm (url_str q) with Some g => gourl_eqb g (q_url q) | None => false end &&
  (zlen (q_method q) + zlen (url_str q) + 10 <=? max_line) &&
  hdr_wf (q_hdr q) && (zlen (q_body q) <=? max_body).

Definition response_wf (p : response) : bool :=
  (100 <=? p_code p) && (p_code p <=? 999) &&
  no_byte LF (status_text p) && no_byte CR (status_text p) &&
  (zlen (status_text p) + 13 <=? max_line) &&
  hdr_wf (p_hdr p) && (zlen (p_body p) <=? max_body).

(* channel index ch < 4 is carried on wire channel cfg[ch], which must be a byte and
   not occur earlier in the table; media channels (0, 2) carry a parsable RTP header *)
Definition pack_wf (cfg : list Z) (ch : Z) (data : bytes) : bool :=
  (0 <=? ch) && (ch <? 4) && (zlen data <=? 65535) &&
  match nth_error cfg (Z.to_nat ch) with
  | Some w => (0 <=? w) && (w <=? 255) &&
              match find_chan cfg w 0 with Some i => i =? ch | None => false end
  | None => false
  end &&
  (if (ch =? 0) || (ch =? 2) then match rtp_hdr_check data with HOk => true | _ => false end else true).

Definition item_wf (url_norm : bytes -> option gourl) (cfg : list Z) (it : item) : bool :=
  match it with
  | IReq q => request_wf url_norm q
  | IResp p => response_wf p
  | IPack ch d => pack_wf cfg ch d
  end.

(* ---- sizes, for the boundedness theorem ---- *)
Fixpoint vals_size (k : bytes) (vs : list bytes) : Z :=
  match vs with [] => 0 | v :: vs' => zlen k + zlen v + vals_size k vs' end.
Fixpoint hsize (h : header) : Z :=
  match h with [] => 0 | (k, vs) :: h' => vals_size k vs + hsize h' end.
Fixpoint hcount (h : header) : Z :=
  match h with [] => 0 | (_, vs) :: h' => Z.of_nat (length vs) + hcount h' end.

(* the Request-URI is held by net/url (a copy of at most one line of input), not counted here *)
Definition request_size (q : request) : Z :=
  zlen (q_method q) + zlen (q_proto q) + hsize (q_hdr q) + zlen (q_body q).
Definition response_size (p : response) : Z :=
  zlen (p_proto p) + zlen (p_status p) + hsize (p_hdr p) + zlen (p_body p).

(* ---- the generic read loop (receive, or one reader called repeatedly) ---- *)
Inductive final := FDone | FErr (e : err) | FPanic | FFuel.

Fixpoint read_all (step : bytes -> res event) (f : nat) (s : bytes) : list (event * bytes) * final :=
  match f with
  | O => ([], FFuel)
  | S f' =>
      match s with
      | [] => ([], FDone)
      | _ =>
          match step s with
          | Ok ev rest => let '(evs, fin) := read_all step f' rest in ((ev, rest) :: evs, fin)
          | Err e => ([], FErr e)
          | Panic => ([], FPanic)
          end
      end
  end.
Definition read_stream (step : bytes -> res event) (s : bytes) := read_all step (S (length s)) s.

(* kind 0: the dispatcher; 1..3: ReadRequest / ReadResponse / ReadPacket called directly *)
Definition stepper (url_norm : bytes -> option gourl) (kind : Z) (cfg : list Z) (s : bytes) : res event :=
  if kind =? 1 then map_res EvReq (read_request url_norm s)
  else if kind =? 2 then map_res EvResp (read_response s)
  else if kind =? 3 then read_packet cfg s
  else receive url_norm cfg s.

(* ---- the decidable oracle applied to the implementation's observations ---- *)
(* One run of the read loop is observed as: the events, each with the absolute number of
   bytes consumed after it; how the loop ended ([OUrlErr]: with an error of net/url); the
   number of bytes pulled from the connection. *)
Inductive ofinal := ODone | OErr | OUrlErr | OBad.

Definition url_accept (u : bytes) : option gourl :=
  Some {| g_scheme := []; g_user := None; g_host := []; g_path := u; g_query := None |}.
Definition url_reject (u : bytes) : option gourl := @None gourl.

Definition field_eqb (x y : bytes * list bytes) : bool :=
  bytes_eqb (fst x) (fst y) && list_eqb bytes_eqb (snd x) (snd y).
Definition hdr_eqb (a b : header) : bool := list_eqb field_eqb (hsort a) (hsort b).

(* [with_url = false]: the Request-URI is net/url's business and is not compared *)
Definition event_eqb (with_url : bool) (a b : event) : bool :=
  match a, b with
  | EvReq x, EvReq y =>
      bytes_eqb (q_method x) (q_method y) && (negb with_url || gourl_eqb (q_url x) (q_url y)) &&
      bytes_eqb (q_proto x) (q_proto y) && hdr_eqb (q_hdr x) (q_hdr y) && bytes_eqb (q_body x) (q_body y)
  | EvResp x, EvResp y =>
      bytes_eqb (p_proto x) (p_proto y) && (p_code x =? p_code y) && bytes_eqb (p_status x) (p_status y) &&
      hdr_eqb (p_hdr x) (p_hdr y) && bytes_eqb (p_body x) (p_body y)
  | EvPack c d, EvPack c' d' => (c =? c') && bytes_eqb d d'
  | EvSkip, EvSkip => true
  | _, _ => false
  end.

(* walk the observed events along the model run from the input [s] at offset [pos]; the
   URL oracle is left open: wherever the implementation reports a net/url error the model
   must be at the URL check of a request, wherever it reports a request the rest of the
   request must be what the model reads *)
Fixpoint ok_walk (kind : Z) (cfg : list Z) (s : bytes) (pos : Z) (evs : list (event * Z)) (fin : ofinal) : bool :=
  match evs with
  | [] =>
      match fin with
      | ODone => match s with [] => true | _ => false end
      | OErr => match s with
                | [] => false
                | _ => match stepper url_accept kind cfg s with Err _ => true | _ => false end
                end
      | OUrlErr => match s with
                   | [] => false
                   | _ => match stepper url_reject kind cfg s with Err EUrl => true | _ => false end
                   end
      | OBad => false
      end
  | (ev, off) :: evs' =>
      match s with
      | [] => false
      | _ =>
          match stepper url_accept kind cfg s with
          | Ok ev' rest =>
              event_eqb false ev' ev && (off =? pos + (zlen s - zlen rest)) &&
              ok_walk kind cfg rest (pos + (zlen s - zlen rest)) evs' fin
          | _ => false
          end
      end
  end.

(* raw stream: the walk, and the connection was not read further than the materialised
   input plus what bufio may hold ([slack]) *)
Definition ok_raw (kind : Z) (cfg : list Z) (s : bytes) (slack : Z)
           (evs : list (event * Z)) (fin : ofinal) (pulled : Z) : bool :=
  ok_walk kind cfg s 0 evs fin && (pulled <=? zlen s + slack).

(* the model's own observation *)
Definition obs_final (f : final) : ofinal :=
  match f with FDone => ODone | FErr EUrl => OUrlErr | FErr _ => OErr | _ => OBad end.
Fixpoint obs_events (pos : Z) (s : bytes) (l : list (event * bytes)) : list (event * Z) :=
  match l with
  | [] => []
  | (ev, rest) :: l' =>
      let pos' := pos + (zlen s - zlen rest) in (ev, pos') :: obs_events pos' rest l'
  end.
Definition model_obs (url_norm : bytes -> option gourl) (kind : Z) (cfg : list Z) (s : bytes)
  : list (event * Z) * ofinal :=
  let '(l, f) := read_stream (stepper url_norm kind cfg) s in (obs_events 0 s l, obs_final f).

(* stream written from items, plus a tail of arbitrary bytes: the written bytes agree, the
   walk succeeds, and if every item is well-formed the first events are exactly the items *)
Fixpoint concat_items (cfg : list Z) (items : list item) : bytes :=
  match items with [] => [] | it :: l => encode cfg it ++ concat_items cfg l end.

Fixpoint events_match (evs : list (event * Z)) (want : list event) : bool :=
  match want, evs with
  | [], _ => true
  | w :: want', (ev, _) :: evs' => event_eqb true ev w && events_match evs' want'
  | _ :: _, [] => false
  end.

Definition ok_items (url : bytes -> option gourl) (cfg : list Z) (items : list item) (tail : bytes) (slack : Z)
           (wire : bytes) (evs : list (event * Z)) (fin : ofinal) (pulled : Z) : bool :=
  let s := concat_items cfg items ++ tail in
  bytes_eqb wire s && ok_raw 0 cfg s slack evs fin pulled &&
  (if forallb (item_wf url cfg) items
   then events_match evs (map norm_item items) &&
        match tail with [] => match fin with ODone => true | _ => false end | _ => true end
   else true).
