(* C07 — containment: what is required of a stream that carries arbitrary
   packets (garbage) followed by a legal packetisation.  The depacketiser /
   demuxer models are those of C06 (Model/C06*.v); this file adds the event
   well-formedness used by the totality theorems and the oracle that is
   applied to the implementation.  No proofs here. *)
From Coq Require Import ZArith List Bool.
From V Require Import Val Bytes C06Rtp C06NalDepack C06H264Depack C06H265Depack C06AacDepack C06SyncClock C06Demux.
Import ListNotations.
Open Scope Z_scope.

(* what arrives is a string of bytes, whatever they are *)
Definition ev_ok (e : ev) : bool :=
  match e with EData p => all_bytes (p_pl p) | ESr d => all_bytes d end.

(* depacketiser state invariant (every buffered fragment can be sliced) *)
Definition dst_ok (c : cd) (st : dst) : bool :=
  match c with
  | CH264 => gst_wf c264 (d_g st)
  | CH265 => gst_wf c265 (d_g st)
  | CAAC => true
  end.
Definition dst_ready (st : dst) : bool := w_ready (g_w (d_g st)).

(* a legal, loss-free suffix *)
Definition suffix_ok (c : cd) (items : list item) : bool :=
  forallb (fun it => data_ok c it && no_ts_wrap_item c it) items.
Definition suffix_events (c : cd) (seq0 k : Z) (items : list item) : list ev :=
  tevents c seq0 k (map TData items).
Definition suffix_frames (c : cd) (clock base : Z) (items : list item) : list oframe :=
  map (to_oframe c clock base) (flat_map (true_frames c) items).

(* oracle: the stream did not die and its output ends with exactly the frames
   of the legal suffix; presentation times are compared when the clock base
   was pinned by a leading sender report *)
Definition oframe_eqb_nopts (a b : oframe) : bool :=
  Z.eqb (o_mt a) (o_mt b) && bytes_eqb (o_pl a) (o_pl b).
Definition ends_with_frames (e : oframe -> oframe -> bool) (obs want : list oframe) : bool :=
  (length want <=? length obs)%nat && list_eqb e (skipn (length obs - length want) obs) want.
Definition ok_suffix (c : cd) (clock : Z) (pinned : bool) (base : Z) (items : list item)
           (obs : list oframe) (dead : bool) : bool :=
  negb dead &&
  ends_with_frames (if pinned then oframe_eqb else oframe_eqb_nopts) obs (suffix_frames c clock base items).
