(* C18, user half: provider/auth/manager.go + user.go (User.init, CopyFrom).
   The table is the insertion-ordered list [l]; the Go map [m] holds the same
   entries keyed by the lower-cased name.  Path matchers are not part of this
   property (C16).  No proofs in this file. *)
From Coq Require Import ZArith List Bool.
From V Require Import Bytes StrGo.
Import ListNotations.
Open Scope Z_scope.

Record user := { u_name : bytes; u_pw : bytes; u_admin : bool; u_push : bytes; u_pull : bytes }.
Definition utable := list user.

Definition STAR : bytes := [42].
(* the access string after User.init: an administrator with no list gets "*" *)
Definition fill (admin : bool) (a : bytes) : bytes :=
  match a with [] => if admin then STAR else [] | _ => a end.

(* User.init *)
Definition uinit (u : user) : user :=
  {| u_name := to_lower (u_name u); u_pw := u_pw u; u_admin := u_admin u;
     u_push := fill (u_admin u) (u_push u); u_pull := fill (u_admin u) (u_pull u) |}.

Definition uhas_key (k : bytes) (u : user) : bool := bytes_eqb (u_name u) k.
Definition ulookup (t : utable) (k : bytes) : option user := find (uhas_key k) t.

(* User.CopyFrom(src, withPassword) followed by its init(); src has been through init *)
Definition ucopy (old src : user) (with_pw : bool) : user :=
  uinit {| u_name := u_name old; u_pw := if with_pw then u_pw src else u_pw old;
           u_admin := u_admin src; u_push := u_push src; u_pull := u_pull src |}.

(* manager.Save *)
Definition usave (t : utable) (u0 : user) (with_pw : bool) : utable :=
  let u := uinit u0 in
  let k := u_name u in
  match ulookup t k with
  | Some _ => map (fun x => if uhas_key k x then ucopy x u with_pw else x) t
  | None => t ++ [u]
  end.

(* manager.Del *)
Definition udel (t : utable) (name : bytes) : utable :=
  let k := to_lower name in
  filter (fun x => negb (uhas_key k x)) t.

(* manager.Get *)
Definition uget (t : utable) (name : bytes) : option user := ulookup t (to_lower name).

(* ---- specification: a finite map from canonical names ---- *)
Definition uval := (bytes * bool * bytes * bytes)%type.     (* password, admin, push, pull *)
Definition uamap := bytes -> option uval.
Definition uaempty : uamap := fun _ => None.
Definition uaupd (m : uamap) (k : bytes) (v : option uval) : uamap :=
  fun k' => if bytes_eqb k k' then v else m k'.
Definition uval_of (u : user) : uval := (u_pw u, u_admin u, u_push u, u_pull u).
Definition uabs (t : utable) : uamap :=
  fun k => match ulookup t k with Some u => Some (uval_of u) | None => None end.

(* what a Save means, in the property's words: the name is lower-cased; the
   password is kept unless the caller asks to change it (or the user is new);
   admin flag and access lists are replaced *)
Definition usave_spec (m : uamap) (u : user) (with_pw : bool) : uamap :=
  let k := to_lower (u_name u) in
  let pw := match m k with
            | Some (old_pw, _, _, _) => if with_pw then u_pw u else old_pw
            | None => u_pw u
            end in
  uaupd m k (Some (pw, u_admin u, fill (u_admin u) (u_push u), fill (u_admin u) (u_pull u))).
Definition udel_spec (m : uamap) (name : bytes) : uamap := uaupd m (to_lower name) None.

(* ---- equality tests used by the oracles ---- *)
Definition user_eqb (a b : user) : bool :=
  bytes_eqb (u_name a) (u_name b) && bytes_eqb (u_pw a) (u_pw b) && Bool.eqb (u_admin a) (u_admin b) &&
  bytes_eqb (u_push a) (u_push b) && bytes_eqb (u_pull a) (u_pull b).

Fixpoint uuniq_keys (t : utable) : bool :=
  match t with
  | [] => true
  | u :: t' => negb (existsb (uhas_key (u_name u)) t') && uuniq_keys t'
  end.

(* an entry that init leaves alone (true for everything a table holds) *)
Definition ustable (u : user) : bool := user_eqb (uinit u) u.

(* jsonProvider.LoadAll with the file missing *)
Definition default_admin : user :=
  {| u_name := [97;100;109;105;110]; u_pw := [97;100;109;105;110]; u_admin := true; u_push := []; u_pull := [] |}.
