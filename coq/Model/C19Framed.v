(* C19: what the service makes of the connection it was handed.  The RTSP
   session (service/rtsp: Session.process -> receive -> ReadRequest) and the
   HTTP server read through a bufio.Reader on top of the listener's Conn; each
   Read of the Conn returns one *chunk* (C19Sniffer: conn_read), and which
   chunks arrive depends on the segmentation of the client's writes.  The
   reader frames messages as  header block (up to the first CRLF CRLF) +
   Content-Length bytes of body.

   [full = true]  : the body is taken with io.ReadFull (as /repo does): chunks
                    are pulled until Content-Length bytes are there.
   [full = false] : the body is taken with a single bufio Read: what is
                    buffered at that moment (or one chunk when nothing is),
                    the rest of the body buffer stays zero — kept only to show
                    what the independence theorem excludes.

   [clen] (header block -> Content-Length) is a parameter: the theorems hold
   for every such function; Run/RunC19.v instantiates it for the generator's
   spelling "Content-Length: n". *)
From Coq Require Import ZArith List Bool.
From V Require Import Bytes C19PTree C19Sniffer.
Import ListNotations.
Open Scope Z_scope.

Definition CRLFCRLF : bytes := [13; 10; 13; 10].

(* index just after the first CRLF CRLF *)
Fixpoint find_end (s : bytes) : option nat :=
  if is_prefix CRLFCRLF s then Some 4%nat
  else match s with
       | [] => None
       | _ :: s' => option_map S (find_end s')
       end.

Inductive fin := FinEOF | FinTrunc | FinFuel.

Inductive hres := HFound (h rest : bytes) (chunks : list bytes) | HEnd (pend : bytes).

(* bufio.ReadSlice/ReadLine until the blank line: pull chunks until the block is complete *)
Fixpoint get_hdr (chunks : list bytes) (pend : bytes) : hres :=
  match find_end pend with
  | Some k => HFound (firstn k pend) (skipn k pend) chunks
  | None => match chunks with
            | [] => HEnd pend
            | c :: cs => get_hdr cs (pend ++ c)
            end
  end.

Inductive bres := BFound (body rest : bytes) (chunks : list bytes) | BTrunc.

(* io.ReadFull(r, body) *)
Fixpoint get_body_full (cl : nat) (chunks : list bytes) (rest : bytes) : bres :=
  if Nat.leb cl (length rest) then BFound (firstn cl rest) (skipn cl rest) chunks
  else match chunks with
       | [] => BTrunc
       | c :: cs => get_body_full cl cs (rest ++ c)
       end.

Definition pad_to (cl : nat) (b : bytes) : bytes := b ++ repeat 0 (cl - length b).

(* r.Read(body): one copy out of the buffer, or one read of the connection when the buffer is empty *)
Definition get_body_once (cl : nat) (chunks : list bytes) (rest : bytes) : bres :=
  match cl with
  | O => BFound [] rest chunks
  | _ =>
      match rest with
      | [] => match chunks with
              | [] => BTrunc
              | c :: cs => BFound (pad_to cl (firstn cl c)) (skipn cl c) cs
              end
      | _ => BFound (pad_to cl (firstn cl rest)) (skipn cl rest) chunks
      end
  end.

Definition msg : Type := (bytes * bytes)%type.      (* header block, body *)

Fixpoint read_msgs (full : bool) (clen : bytes -> nat) (fuel : nat)
                   (chunks : list bytes) (pend : bytes) : list msg * fin :=
  match fuel with
  | O => ([], FinFuel)
  | S f =>
      match get_hdr chunks pend with
      | HEnd p => ([], if is_nil p then FinEOF else FinTrunc)
      | HFound h rest cs =>
          match (if full then get_body_full else get_body_once) (clen h) cs rest with
          | BTrunc => ([], FinTrunc)
          | BFound body rest' cs' =>
              let (ms, e) := read_msgs full clen f cs' rest' in ((h, body) :: ms, e)
          end
      end
  end.

(* every message consumes at least the four bytes of its CRLF CRLF *)
Definition msgs_fuel (chunks : list bytes) (pend : bytes) : nat := S (length pend + length (concat chunks)).

(* the reader on the whole stream in one piece = the framing of the client's bytes *)
Definition frames (clen : bytes -> nat) (st : bytes) : list msg * fin :=
  read_msgs true clen (msgs_fuel [] st) [] st.

(* what the handler-side reader yields from the chunks the service's reads returned *)
Definition handler_msgs (full : bool) (clen : bytes -> nat) (rs : list sres) : list msg * fin :=
  let chunks := map sres_data rs in read_msgs full clen (msgs_fuel chunks []) chunks [].

(* projection observed on the implementation: method token and body of each message *)
Fixpoint upto_sp (s : bytes) : bytes :=
  match s with
  | [] => []
  | c :: s' => if Z.eqb c 32 then [] else c :: upto_sp s'
  end.
Definition msg_view (m : msg) : bytes * bytes := (upto_sp (fst m), snd m).

Definition fin_code (e : fin) : Z := match e with FinEOF => 0 | FinTrunc => 1 | FinFuel => 2 end.

Fixpoint views_eqb (a b : list (bytes * bytes)) : bool :=
  match a, b with
  | [], [] => true
  | (m1, b1) :: a', (m2, b2) :: b' => bytes_eqb m1 m2 && bytes_eqb b1 b2 && views_eqb a' b'
  | _, _ => false
  end.

(* oracle: the messages the service-side reader produced are the framing of the bytes the client wrote *)
Definition ok_msgs (clen : bytes -> nat) (st : bytes) (obs : list (bytes * bytes)) (code : Z) : bool :=
  let (ms, e) := frames clen st in
  views_eqb (map msg_view ms) obs && Z.eqb (fin_code e) code.

(* the generator's Content-Length spelling *)
Definition CL_KEY : bytes := [67;111;110;116;101;110;116;45;76;101;110;103;116;104;58;32]. (* "Content-Length: " *)
Fixpoint digits (acc : nat) (fuel : nat) (s : bytes) : nat :=
  match fuel, s with
  | S f, c :: s' => if (48 <=? c) && (c <=? 57) then digits (acc * 10 + Z.to_nat (c - 48)) f s' else acc
  | _, _ => acc
  end.
Fixpoint clen_simple (h : bytes) : nat :=
  if is_prefix CL_KEY h then digits O 6 (skipn 16 h)
  else match h with
       | [] => O
       | _ :: h' => clen_simple h'
       end.

(* -------- stream "messages": a connection through Listener.serve, then the
   handler-side reader on the connection the service was given *)
From V Require Import C19Mux.

Definition svc_plenty (sc : script) : list nat :=
  repeat 4096%nat (length (stream sc) + length sc).

Definition CODE_UNROUTED : Z := 3.

Definition msgs_run (clen : bytes -> nat) (tables : list (list bytes)) (sc : script)
  : decision * list (bytes * bytes) * Z :=
  let '(d, _, rs) := mux_run true tables sc (svc_plenty sc) in
  match d with
  | DSvc _ => let (m, e) := handler_msgs true clen rs in (d, map msg_view m, fin_code e)
  | _ => (d, [], CODE_UNROUTED)
  end.

Definition errfree (sc : script) : bool := forallb (fun it => Z.eqb (it_err it) 0) sc.

Definition ok_msgs_case (clen : bytes -> nat) (tables : list (list bytes)) (sc : script)
                        (d : decision) (views : list (bytes * bytes)) (code : Z) : bool :=
  decision_eqb d (classify tables (stream sc)) &&
  match d with
  | DSvc _ => ok_msgs clen (stream sc) views code
  | DNone => is_nil views && Z.eqb code CODE_UNROUTED
  | _ => false
  end.
