(* C12 — several sessions at once.  Each session runs the automaton of Model/C12RtspSession.v; the
   sessions of one server share nothing but the environment (the stream registry behind [env]).
   Executable multi-session run, the per-session projection, and the oracle applied to real
   concurrent sessions.  NO proofs here. *)
From Coq Require Import ZArith List Bool.
From V Require Import Val Bytes StrGo C12RtspSession.
Import ListNotations.
Open Scope Z_scope.

Fixpoint upd {A} (n : nat) (x : A) (l : list A) : list A :=
  match l, n with
  | [], _ => []
  | _ :: t, O => x :: t
  | h :: t, S n' => h :: upd n' x t
  end.

Definition sess_dflt : sess := init_sess false [].

(* an interleaved history: which session sends which request, in the order the server handles them *)
Fixpoint mrun (e : env) (ss : list sess) (h : list (nat * request)) : list (nat * list response) :=
  match h with
  | [] => []
  | (i, q) :: h' =>
      let '(s', rs, _) := step e (nth i ss sess_dflt) q in
      (i, rs) :: mrun e (upd i s' ss) h'
  end.

Definition own {A} (i : nat) (h : list (nat * A)) : list A :=
  map snd (filter (fun x => Nat.eqb (fst x) i) h).

(* one session alone *)
Fixpoint srun (e : env) (s : sess) (qs : list request) : list (list response) :=
  match qs with
  | [] => []
  | q :: qs' => let '(s', rs, _) := step e s q in rs :: srun e s' qs'
  end.

(* ---------------------------------------------------------------- what a client of session i sees *)
Record mresp := {
  mr_class : Z;        (* status class *)
  mr_cseq : bytes;     (* all CSeq header values, comma separated *)
  mr_sid : bytes;      (* all Session header values, comma separated *)
  mr_body : bool       (* Content-Type: application/sdp and a body of Content-Length bytes that is the stream's SDP *)
}.

(* the model's prediction for one response: the session's own id, a body exactly for DESCRIBE 2xx *)
Definition expect_resp (sid : bytes) (q : request) (r : response) : mresp :=
  {| mr_class := code_class (rs_code r); mr_cseq := rs_cseq r; mr_sid := sid;
     mr_body := meth_eqb (q_meth q) MDescribe && is_2xx (rs_code r) |}.

Fixpoint expect_session (sid : bytes) (qs : list request) (rss : list (list response)) : list mresp :=
  match qs, rss with
  | q :: qs', rs :: rss' => map (expect_resp sid q) rs ++ expect_session sid qs' rss'
  | _, _ => []
  end.

Definition mresp_eqb (a b : mresp) : bool :=
  (mr_class a =? mr_class b) && bytes_eqb (mr_cseq a) (mr_cseq b) && bytes_eqb (mr_sid a) (mr_sid b)
  && Bool.eqb (mr_body a) (mr_body b).

Fixpoint distinct (l : list bytes) : bool :=
  match l with
  | [] => true
  | x :: t => negb (existsb (bytes_eqb x) t) && distinct t
  end.

(* the oracle: every session's responses are the single-session run of ITS OWN requests (status class,
   CSeq echoed, its own session id on every response, an SDP body exactly on DESCRIBE 2xx), whatever
   the other sessions do in between; session ids are non-empty and pairwise different *)
Fixpoint ok_sessions (e : env) (i : nat) (ss : list sess) (sids : list bytes) (h : list (nat * request))
                     (obs : list (list mresp)) : bool :=
  match ss, sids, obs with
  | [], [], [] => true
  | s :: ss', sid :: sids', o :: obs' =>
      list_eqb mresp_eqb (expect_session sid (own i h) (srun e s (own i h))) o
      && ok_sessions e (S i) ss' sids' h obs'
  | _, _, _ => false
  end.

Definition ok_multi (e : env) (ss : list sess) (sids : list bytes) (h : list (nat * request))
                    (obs : list (list mresp)) : bool :=
  distinct sids && forallb (fun x => negb (bytes_eqb x [])) sids && ok_sessions e 0 ss sids h obs.

(* the model's multi-session observation: the interleaved run, projected per session *)
Fixpoint mexpect (sids : list bytes) (h : list (nat * request)) (out : list (nat * list response)) (i : nat) : list mresp :=
  match h, out with
  | (j, q) :: h', (_, rs) :: out' =>
      (if Nat.eqb j i then map (expect_resp (nth i sids []) q) rs else []) ++ mexpect sids h' out' i
  | _, _ => []
  end.

Definition mobserve (e : env) (ss : list sess) (sids : list bytes) (h : list (nat * request)) : list (list mresp) :=
  map (mexpect sids h (mrun e ss h)) (seq 0 (length ss)).
