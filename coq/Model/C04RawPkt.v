(* C04 — packets given by their bytes.
   The stream LTS (Model/StreamLts.v) sees a packet as (id, kind); the kind is what the pack cache's
   CachePack makes of the packet, and kind 2 (key-frame start) is the flag that consumption.send
   uses to begin and end dropping.  Here a case may give a packet by its channel and its complete
   RTP payload instead; its kind is then the classification of Model/C02Classify.v (the model of
   H264Cache / HevcCache.CachePack, proved total there).  Packets on the audio channel or on the
   RTCP channels get kind 0 whatever their bytes look like.

   wire: packet = (id kind)                 as before (the harness builds a packet of that kind)
                | (id _ channel xPAYLOAD)   channel 0 video, 1 video RTCP, 2 audio, 3 audio RTCP;
                                            PAYLOAD = the bytes after the 12-byte RTP header
   No proofs here (Proofs/C04RawPktProofs.v). *)
From Coq Require Import ZArith List Bool.
From V Require Import Val StreamLts Cache C02Classify LtsWire.
Import ListNotations.
Open Scope Z_scope.

Definition raw_kind (c : codec) (ch : Z) (payload : list Z) : Z :=
  match classify c ch payload with CK k => k | CPanic | CFuel => 1 end.

Definition raw_pkt (c : codec) (i ch : Z) (payload : list Z) : pkt :=
  {| p_id := i; p_kind := raw_kind c ch payload |}.

Definition norm_pkt (c : codec) (v : val) : val :=
  match as_list v with
  | i :: _ :: ch :: pl :: _ => VL [VI (as_int i); VI (raw_kind c (as_int ch) (as_bytes pl))]
  | _ => v
  end.

Fixpoint map_nth {A} (f : A -> A) (n : nat) (l : list A) : list A :=
  match l with
  | [] => []
  | x :: l' => match n with O => f x :: l' | S n' => x :: map_nth f n' l' end
  end.

(* field 10 of a case: HEVC stream; field 4: the packets *)
Definition case_codec (v : val) : codec := if as_bool (nthv 10 v) then H265 else H264.
Definition norm_case (v : val) : val :=
  VL (map_nth (fun pk => VL (map (norm_pkt (case_codec v)) (as_list pk))) 4 (as_list v)).
