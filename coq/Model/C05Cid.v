(* C05 — consumer ids.  media.NewCID(type, &seed): the stream's 32-bit sequence seed is incremented (wrapping at
   2^32), reset to 1 when it reaches maxConsumerSequence = 2^30 - 1, and the id is  type<<30 | sequence  on 32 bits.
   The registry of a stream files a consumer under Type(cid) (RTP set / FLV set) and StopConsume looks it up there,
   so an id whose type bits are not the type it was created for can never be removed.  No proofs here. *)
From Coq Require Import ZArith List Bool.
From V Require Import Val.
Import ListNotations.
Open Scope Z_scope.

Definition MAXSEQ : Z := 1073741823.                 (* 0x3fff_ffff *)
Definition W32c : Z := 4294967296.

(* (id, new seed) *)
Definition new_cid (t seed : Z) : Z * Z :=
  let l := (seed + 1) mod W32c in
  let l' := if MAXSEQ <=? l then 1 else l in
  ((t * (MAXSEQ + 1) + Z.land l' MAXSEQ) mod W32c, if MAXSEQ <=? l then 1 else l).
Definition cid_type (id : Z) : Z := Z.land (Z.shiftr id 30) 3.
Definition cid_seq (id : Z) : Z := Z.land id MAXSEQ.

(* what the registry needs of an id created for type t (0 = RTP, 1 = FLV) from any seed *)
Definition cid_ok (t seed : Z) (obs : Z * Z * Z) : bool :=
  let '(ty, sq, seed') := obs in
  (ty =? t) && (1 <=? sq) && (sq <? MAXSEQ) && (seed' =? sq).
Definition cid_model (t seed : Z) : Z * Z * Z :=
  let '(id, s') := new_cid t seed in (cid_type id, cid_seq id, s').

(* ids handed out by k consecutive calls on one stream *)
Fixpoint cid_run (t : Z) (k : nat) (seed : Z) : list Z :=
  match k with
  | O => []
  | S k' => let '(id, s') := new_cid t seed in id :: cid_run t k' s'
  end.
