(* C03 — acquire / release pairing of a transport adapter on its early-exit and error paths.
   Every adapter above media.Stream (RTSP session, ws-rtsp, WSP channel, HTTP-FLV, ws-FLV) is a small
   Go function of the same kind: it counts itself into its protocol's active-connection counter
   (stats.XxxConns.Add), goes through steps that can fail (stream lookup, permission, handshake
   requests, the FLV header write, every later read or write), registers a consumer on the stream
   (StartConsume), serves, and leaves through a deferred cleanup (StopConsume, Release).  Here such a
   function is a list of instructions with a fault possible at every fallible step: a fault ends the
   function at that step and runs whatever cleanup has been deferred so far.  No proofs here. *)
From Coq Require Import ZArith List Bool Arith.
Import ListNotations.

Inductive op := OAdd | ORelease | OStart | OStop.
Inductive instr :=
| IOp (o : op)
| IFallible                 (* a step that may fail: the function returns here *)
| IDefer (d : list op).     (* defer func() { d }() *)

Record ast := {
  a_conns : Z;      (* the protocol's active-connection counter *)
  a_cons : Z;       (* consumers registered on the stream *)
  a_cid : bool;     (* this adapter holds a consumer id *)
  a_low : Z         (* lowest value the counter has had *)
}.

Definition apply_op (o : op) (s : ast) : ast :=
  match o with
  | OAdd => {| a_conns := a_conns s + 1; a_cons := a_cons s; a_cid := a_cid s; a_low := a_low s |}
  | ORelease => {| a_conns := a_conns s - 1; a_cons := a_cons s; a_cid := a_cid s;
                   a_low := Z.min (a_low s) (a_conns s - 1) |}
  | OStart => {| a_conns := a_conns s; a_cons := a_cons s + 1; a_cid := true; a_low := a_low s |}
  | OStop =>      (* StopConsume(cid): nothing happens for the zero id *)
      if a_cid s then {| a_conns := a_conns s; a_cons := a_cons s - 1; a_cid := false; a_low := a_low s |} else s
  end.

Definition run_ops (l : list op) (s : ast) : ast := fold_left (fun s o => apply_op o s) l s.

(* run the function; the f-th fallible step (counted from 0) fails; D = cleanup deferred so far (runs last-in first-out) *)
Fixpoint exec (f : nat) (p : list instr) (D : list op) (s : ast) : ast :=
  match p with
  | [] => run_ops D s
  | IOp o :: r => exec f r D (apply_op o s)
  | IDefer d :: r => exec f r (d ++ D) s
  | IFallible :: r => match f with O => run_ops D s | S f' => exec f' r D s end
  end.

(* entered with counter c0 and n0 consumers on the stream: back to exactly that, and never below *)
Definition settled (c0 n0 : Z) (s : ast) : bool :=
  Z.eqb (a_conns s) c0 && Z.eqb (a_cons s) n0 && Z.leb c0 (a_low s) && negb (a_cid s).

(* symbolic check of every exit of the function *)
Fixpoint safe (c0 n0 : Z) (p : list instr) (D : list op) (s : ast) : bool :=
  match p with
  | [] => settled c0 n0 (run_ops D s)
  | IOp o :: r => safe c0 n0 r D (apply_op o s)
  | IDefer d :: r => safe c0 n0 r (d ++ D) s
  | IFallible :: r => settled c0 n0 (run_ops D s) && safe c0 n0 r D s
  end.

Definition enter (c0 n0 : Z) : ast := {| a_conns := c0; a_cons := n0; a_cid := false; a_low := c0 |}.

(* the shape all five adapters have: [a] fallible steps before anything is held (they return without
   cleanup), the deferred cleanup, Add, [b] fallible steps (handshake / header), StartConsume, serving *)
Definition adapter_prog (a : nat) (d : list op) (b : nat) : list instr :=
  repeat IFallible a ++ [IDefer d; IOp OAdd] ++ repeat IFallible b ++ [IOp OStart; IFallible].

(* the seeded shape: Add moved behind the fallible steps it used to precede *)
Definition late_add_prog (a : nat) (d : list op) (b : nat) : list instr :=
  repeat IFallible a ++ [IDefer d] ++ repeat IFallible b ++ [IOp OAdd; IOp OStart; IFallible].

(* transports: 0 RTSP/TCP, 1 RTSP/UDP, 2 ws-rtsp, 3 WSP, 4 HTTP-FLV, 5 ws-FLV, 6 multicast *)
Definition proto_of (kind : Z) : nat :=    (* 0 rtsp, 1 flv, 2 wsp *)
  if (kind =? 4)%Z || (kind =? 5)%Z then 1 else if (kind =? 3)%Z then 2 else 0.
Definition prog_of (kind : Z) (nreq : nat) : list instr :=
  if (kind =? 4)%Z || (kind =? 5)%Z then adapter_prog 2 [OStop; ORelease] 1     (* lookup, flv flags | header write *)
  else if (kind =? 3)%Z then adapter_prog 0 [OStop; ORelease] nreq               (* wsp.Session.process *)
  else adapter_prog 0 [ORelease; OStop] nreq.                                    (* rtsp.Session.process *)

(* ---- a run: viewers attached throughout (background) and a sequence of attempts with faults ---- *)
Record fst := { f_rtsp : Z; f_flv : Z; f_wsp : Z; f_cc : Z; f_low : Z (* lowest counter value relative to its start *) }.

Definition get_proto (p : nat) (s : fst) : Z := match p with 0 => f_rtsp s | 1 => f_flv s | _ => f_wsp s end.
Definition set_proto (p : nat) (v : Z) (s : fst) (cc low : Z) : fst :=
  match p with
  | 0 => {| f_rtsp := v; f_flv := f_flv s; f_wsp := f_wsp s; f_cc := cc; f_low := low |}
  | 1 => {| f_rtsp := f_rtsp s; f_flv := v; f_wsp := f_wsp s; f_cc := cc; f_low := low |}
  | _ => {| f_rtsp := f_rtsp s; f_flv := f_flv s; f_wsp := v; f_cc := cc; f_low := low |}
  end.

Definition attach_bg (s : fst) (kind : Z) : fst :=
  let p := proto_of kind in set_proto p (get_proto p s + 1) s (f_cc s + 1) (f_low s).

(* one attempt: (kind, number of handshake requests, fault point) *)
Definition attempt (progf : Z -> nat -> list instr) (s : fst) (a : Z * nat * nat) : fst :=
  let '(kind, nreq, f) := a in
  let p := proto_of kind in
  let c0 := get_proto p s in
  let r := exec f (progf kind nreq) [] (enter c0 (f_cc s)) in
  set_proto p (a_conns r) s (a_cons r) (Z.min (f_low s) (a_low r - c0)).

Definition fobs := (Z * Z * Z * Z)%type.     (* rtsp flv wsp consumers *)
Definition fobserve (s : fst) : fobs := (f_rtsp s, f_flv s, f_wsp s, f_cc s).

Fixpoint attempts_trace (progf : Z -> nat -> list instr) (s : fst) (l : list (Z * nat * nat)) : list fobs :=
  match l with
  | [] => []
  | a :: l' => let s' := attempt progf s a in fobserve s' :: attempts_trace progf s' l'
  end.

Definition f0 : fst := {| f_rtsp := 0; f_flv := 0; f_wsp := 0; f_cc := 0; f_low := 0 |}.
Definition with_bg (bg : list Z) : fst := fold_left attach_bg bg f0.

(* the model's observations: after every attempt, and after the end of the stream (everything back to the start) *)
Definition faults_run (progf : Z -> nat -> list instr) (bg : list Z) (l : list (Z * nat * nat)) : list fobs :=
  attempts_trace progf (with_bg bg) l ++ [(0, 0, 0, 0)%Z].

(* the specification: an attempt that ends — by a fault at any step or by leaving — changes nothing *)
Definition faults_spec (bg : list Z) (l : list (Z * nat * nat)) : list fobs :=
  map (fun _ => fobserve (with_bg bg)) l ++ [(0, 0, 0, 0)%Z].

Definition fobs_eqb (a b : fobs) : bool :=
  let '(a1, a2, a3, a4) := a in let '(b1, b2, b3, b4) := b in
  Z.eqb a1 b1 && Z.eqb a2 b2 && Z.eqb a3 b3 && Z.eqb a4 b4.
Fixpoint flist_eqb (a b : list fobs) : bool :=
  match a, b with
  | [], [] => true
  | x :: a', y :: b' => fobs_eqb x y && flist_eqb a' b'
  | _, _ => false
  end.
Definition ok_faults (bg : list Z) (l : list (Z * nat * nat)) (observed : list fobs) : bool :=
  flist_eqb (faults_spec bg l) observed.
