(* C10 — disk-mode segment file names across streams.
   In disk mode every stream writes its segments into ONE directory (config hls path) as
       <murmur32(stream path)>_<n>.ts                      (segmentgenerator.go: reapSegment)
   so what keeps two streams' segments apart is the hash of the stream path.  This file models
   utils/murmur.Of / OfString (MurmurHash3 x86_32, seed 37, result byte-swapped) on byte strings with explicit
   32-bit wrap-around, the file name as the pair (hash, number), and the shared directory on which several
   streams act.  No proofs here. *)
From Coq Require Import ZArith List Bool.
From V Require Import Val Bytes.
Import ListNotations.
Open Scope Z_scope.

Definition W32 : Z := 4294967296.
Definition u32 (x : Z) : Z := x mod W32.
Definition rotl32 (x r : Z) : Z := u32 (Z.lor (Z.shiftl x r) (Z.shiftr x (32 - r))).
Definition C1 : Z := 3432918353.       (* 0xcc9e2d51 *)
Definition C2 : Z := 461845907.        (* 0x1b873593 *)

Definition mix_k (k : Z) : Z := u32 (rotl32 (u32 (k * C1)) 15 * C2).
Definition mix_h (h k : Z) : Z := u32 (rotl32 (Z.lxor h (mix_k k)) 13 * 5 + 3864292196).   (* 0xe6546b64 *)

(* little-endian 32-bit word of four bytes (the code reads a uint32 through the pointer) *)
Definition le32 (a b c d : Z) : Z := a + 256 * b + 65536 * c + 16777216 * d.

Fixpoint body (h : Z) (l : list Z) (n : Z) : Z :=       (* n = length of the whole input, carried to the end *)
  match l with
  | a :: b :: c :: d :: t => body (mix_h h (le32 a b c d)) t n
  | [a; b; c] => Z.lxor (Z.lxor h (mix_k (Z.lxor (Z.lxor (Z.shiftl c 16) (Z.shiftl b 8)) a))) n
  | [a; b] => Z.lxor (Z.lxor h (mix_k (Z.lxor (Z.shiftl b 8) a))) n
  | [a] => Z.lxor (Z.lxor h (mix_k a)) n
  | [] => Z.lxor h n
  end.

Definition fmix (h : Z) : Z :=
  let h := Z.lxor h (Z.shiftr h 16) in
  let h := u32 (h * 2246822507) in     (* 0x85ebca6b *)
  let h := Z.lxor h (Z.shiftr h 13) in
  let h := u32 (h * 3266489909) in     (* 0xc2b2ae35 *)
  Z.lxor h (Z.shiftr h 16).

(* the code returns the four bytes of the hash in reverse order *)
Definition bswap32 (h : Z) : Z :=
  u32 (Z.lor (Z.lor (Z.lor (Z.shiftl h 24) (Z.land (Z.shiftl (Z.shiftr h 8) 16) 16711680))
                     (Z.land (Z.shiftl (Z.shiftr h 16) 8) 65280)) (Z.shiftr h 24)).

Definition murmur (data : bytes) : Z := bswap32 (fmix (body 37 data (Z.of_nat (length data)))).

(* ---- file names and the shared directory ------------------------------------------------------------- *)
Definition fname := (Z * Z)%type.                         (* "%d_%d.ts" of (hash, sequence number) *)
Definition seg_name (path : bytes) (n : Z) : fname := (murmur path, n).
Definition fname_eqb (a b : fname) : bool := (fst a =? fst b) && (snd a =? snd b).

(* a directory maps a name to who wrote the file last (stream id) and what (an opaque content id) *)
Definition dir := list (fname * (Z * Z)).
Fixpoint lookup (d : dir) (k : fname) : option (Z * Z) :=
  match d with
  | [] => None
  | (k', v) :: t => if fname_eqb k' k then Some v else lookup t k
  end.
Definition remove (d : dir) (k : fname) : dir := filter (fun p => negb (fname_eqb (fst p) k)) d.

(* what a stream does to the directory: create/truncate+write a segment file, delete one *)
Inductive dev :=
| DWrite (stream : Z) (n : Z) (content : Z)
| DDelete (stream : Z) (n : Z).

Section Streams.
  Variable path_of : Z -> bytes.                          (* stream id -> stream path *)
  Definition dstep (d : dir) (e : dev) : dir :=
    match e with
    | DWrite s n c => (seg_name (path_of s) n, (s, c)) :: d
    | DDelete s n => remove d (seg_name (path_of s) n)
    end.
  Definition drun (es : list dev) : dir := fold_left dstep es [].
  (* stream s fetches its segment n: os.Open of its own name *)
  Definition dfetch (d : dir) (s n : Z) : option (Z * Z) := lookup d (seg_name (path_of s) n).
  (* what s wrote last under number n and has not deleted since, by its own history alone *)
  Fixpoint own (es : list dev) (s n : Z) (cur : option Z) : option Z :=
    match es with
    | [] => cur
    | DWrite s' n' c :: t => own t s n (if (s' =? s) && (n' =? n) then Some c else cur)
    | DDelete s' n' :: t => own t s n (if (s' =? s) && (n' =? n) then None else cur)
    end.
End Streams.

(* the two-stream scenario of the harness: streams 0 and 1 with paths pa, pb write segments 1..k alternately
   (B after A for every number), then each fetches all of its numbers.  Observation:
   ( hash_a hash_b a_reads_own b_reads_own ) *)
Definition two_path (pa pb : bytes) (s : Z) : bytes := if s =? 0 then pa else pb.
Fixpoint two_events (k : nat) (n : Z) : list dev :=
  match k with
  | O => []
  | S k' => DWrite 0 n (2 * n) :: DWrite 1 n (2 * n + 1) :: two_events k' (n + 1)
  end.
Fixpoint reads_own (d : dir) (pa pb : bytes) (s : Z) (k : nat) (n : Z) : bool :=
  match k with
  | O => true
  | S k' =>
      match dfetch (two_path pa pb) d s n with
      | Some (s', c) => (s' =? s) && (c =? 2 * n + s)
      | None => false
      end && reads_own d pa pb s k' (n + 1)
  end.
Definition two_model (pa pb : bytes) (k : nat) : Z * Z * bool * bool :=
  let d := drun (two_path pa pb) (two_events k 1) in
  (murmur pa, murmur pb, reads_own d pa pb 0 k 1, reads_own d pa pb 1 k 1).

(* the oracle: the implementation's hashes are the model's, and when they differ both streams read their own *)
Definition two_ok (pa pb : bytes) (obs : Z * Z * bool * bool) : bool :=
  let '(ha, hb, oa, ob) := obs in
  (ha =? murmur pa) && (hb =? murmur pb) && (if murmur pa =? murmur pb then true else oa && ob).
