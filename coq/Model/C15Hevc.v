(* C15 — H.265 sequence and video parameter sets.
   [std_h265_sps], [std_h265_vps] : ITU-T H.265 7.3.2.2 / 7.3.2.1, 7.3.3 (profile_tier_level),
       7.3.4 (scaling_list_data), 7.3.7 (st_ref_pic_set), E.2.1 (vui), E.2.2/E.2.3 (hrd) with the
       ranges of 7.4 / E.3 / A.4.
   [go_h265_sps], [go_h265_vps]   : av/codec/hevc/sps.go, vps.go as repaired (D29).
   The 43 constraint/reserved bits and the inbld/reserved bit of profile_tier_level have the
   same length in every branch of the standard and of the Go code (which stores some of
   them and skips the others); they are kept as two opaque fields.
   No proofs here. *)
From Coq Require Import ZArith List Bool.
From V Require Import C15BitFmt C15Ebsp C15H264.
Import ListNotations.
Open Scope Z_scope.

(* ------------------------------------------------------------ field ids (100+) *)
Definition h_nal_type := K 101 0.
Definition h_layer_id := K 102 0.
Definition h_tid := K 103 0.
Definition h_vps_id := K 104 0.
Definition h_max_sub := K 105 0.
Definition h_nesting := K 106 0.
(* profile_tier_level, general part: s = 0; sub-layer i: s = i + 1 *)
Definition h_ptl_space (s : Z) := K 110 s.
Definition h_ptl_tier (s : Z) := K 111 s.
Definition h_ptl_idc (s : Z) := K 112 s.
Definition h_ptl_compat (s : Z) := K 113 s.
Definition h_ptl_src4 (s : Z) := K 114 s.
Definition h_ptl_43 (s : Z) := K 115 s.
Definition h_ptl_inbld (s : Z) := K 116 s.
Definition h_ptl_level (s : Z) := K 117 s.
Definition h_sl_profile_present (i : Z) := K 118 i.
Definition h_sl_level_present (i : Z) := K 119 i.
Definition h_sps_id := K 120 0.
Definition h_chroma := K 121 0.
Definition h_sep_plane := K 122 0.
Definition h_width := K 123 0.
Definition h_height := K 124 0.
Definition h_conf_flag := K 125 0.
Definition h_conf_left := K 126 0.
Definition h_conf_right := K 127 0.
Definition h_conf_top := K 128 0.
Definition h_conf_bottom := K 129 0.
Definition h_bd_luma := K 130 0.
Definition h_bd_chroma := K 131 0.
Definition h_log2_poc := K 132 0.
Definition h_slo_present := K 133 0.
Definition h_max_dec (i : Z) := K 134 i.
Definition h_max_reorder (i : Z) := K 135 i.
Definition h_max_latency (i : Z) := K 136 i.
Definition h_log2_min_cb := K 137 0.
Definition h_log2_diff_cb := K 138 0.
Definition h_log2_min_tb := K 139 0.
Definition h_log2_diff_tb := K 140 0.
Definition h_depth_inter := K 141 0.
Definition h_depth_intra := K 142 0.
Definition h_scaling_enabled := K 143 0.
Definition h_scaling_present := K 144 0.
Definition h_sl_pred_mode (s m : Z) := K 145 (s * 8 + m).
Definition h_sl_pred_delta (s m : Z) := K 146 (s * 8 + m).
Definition h_sl_dc (s m : Z) := K 147 (s * 8 + m).
Definition h_sl_coef (s m i : Z) := K 148 ((s * 8 + m) * 64 + i).
Definition h_amp := K 149 0.
Definition h_sao := K 150 0.
Definition h_pcm := K 151 0.
Definition h_pcm_bd_luma := K 152 0.
Definition h_pcm_bd_chroma := K 153 0.
Definition h_pcm_log2_min := K 154 0.
Definition h_pcm_log2_diff := K 155 0.
Definition h_pcm_loop := K 156 0.
Definition h_num_st_rps := K 157 0.
Definition h_rps_inter (r : Z) := K 158 r.
Definition h_rps_sign (r : Z) := K 159 r.
Definition h_rps_abs (r : Z) := K 160 r.
Definition h_rps_used (r j : Z) := K 161 (r * 32 + j).
Definition h_rps_use_delta (r j : Z) := K 162 (r * 32 + j).
Definition h_rps_neg (r : Z) := K 163 r.
Definition h_rps_pos (r : Z) := K 164 r.
Definition h_rps_s0 (r i : Z) := K 165 (r * 32 + i).
Definition h_rps_s0_used (r i : Z) := K 166 (r * 32 + i).
Definition h_rps_s1 (r i : Z) := K 167 (r * 32 + i).
Definition h_rps_s1_used (r i : Z) := K 168 (r * 32 + i).
Definition h_lt_present := K 169 0.
Definition h_num_lt := K 170 0.
Definition h_lt_poc (i : Z) := K 171 i.
Definition h_lt_used (i : Z) := K 172 i.
Definition h_tmvp := K 173 0.
Definition h_strong_intra := K 174 0.
Definition h_vui_present := K 175 0.
Definition h_ext_present := K 176 0.
Definition h_ext_flags := K 177 0.
(* VUI *)
Definition v_aspect_present := K 180 0.
Definition v_aspect_idc := K 181 0.
Definition v_sar_w := K 182 0.
Definition v_sar_h := K 183 0.
Definition v_overscan_present := K 184 0.
Definition v_overscan_appropriate := K 185 0.
Definition v_signal_present := K 186 0.
Definition v_format := K 187 0.
Definition v_full_range := K 188 0.
Definition v_colour_present := K 189 0.
Definition v_primaries := K 190 0.
Definition v_transfer := K 191 0.
Definition v_matrix := K 192 0.
Definition v_chroma_loc_present := K 193 0.
Definition v_chroma_loc_top := K 194 0.
Definition v_chroma_loc_bottom := K 195 0.
Definition v_neutral := K 196 0.
Definition v_field_seq := K 197 0.
Definition v_frame_field := K 198 0.
Definition v_ddw := K 199 0.
Definition v_ddw_off (i : Z) := K 200 i.
Definition v_timing_present := K 201 0.
Definition v_nut := K 202 0.
Definition v_ts := K 203 0.
Definition v_poc_prop := K 204 0.
Definition v_num_ticks := K 205 0.
Definition v_hrd_present := K 206 0.
Definition v_restriction := K 207 0.
Definition v_tiles_fixed := K 208 0.
Definition v_mvs_over := K 209 0.
Definition v_restricted_lists := K 210 0.
Definition v_min_spatial := K 211 0.
Definition v_max_bytes := K 212 0.
Definition v_max_bits := K 213 0.
Definition v_log2_mv_h := K 214 0.
Definition v_log2_mv_v := K 215 0.
(* hrd_parameters instance q (0 = SPS VUI, 1 + i = VPS hrd i) *)
Definition r_nal (q : Z) := K 220 q.
Definition r_vcl (q : Z) := K 221 q.
Definition r_subpic (q : Z) := K 222 q.
Definition r_tick_div (q : Z) := K 223 q.
Definition r_du_len (q : Z) := K 224 q.
Definition r_subpic_sei (q : Z) := K 225 q.
Definition r_dpb_du_len (q : Z) := K 226 q.
Definition r_bit_rate_scale (q : Z) := K 227 q.
Definition r_cpb_size_scale (q : Z) := K 228 q.
Definition r_cpb_du_scale (q : Z) := K 229 q.
Definition r_init_len (q : Z) := K 230 q.
Definition r_au_len (q : Z) := K 231 q.
Definition r_dpb_len (q : Z) := K 232 q.
Definition r_fixed_general (q i : Z) := K 233 (q * 8 + i).
Definition r_fixed_cvs (q i : Z) := K 234 (q * 8 + i).
Definition r_elemental (q i : Z) := K 235 (q * 8 + i).
Definition r_low_delay (q i : Z) := K 236 (q * 8 + i).
Definition r_cpb_cnt (q i : Z) := K 237 (q * 8 + i).
(* sub_layer_hrd: t = 0 NAL / 1 VCL *)
Definition r_sl (f q i t c : Z) := K (240 + f) ((((q * 8) + i) * 2 + t) * 64 + c).
(* VPS *)
Definition p_base_internal := K 260 0.
Definition p_base_available := K 261 0.
Definition p_max_layers := K 262 0.
Definition p_max_layer_id := K 263 0.
Definition p_num_layer_sets := K 264 0.
Definition p_included (i j : Z) := K 265 (i * 64 + j).
Definition p_timing_present := K 266 0.
Definition p_nut := K 267 0.
Definition p_ts := K 268 0.
Definition p_poc_prop := K 269 0.
Definition p_num_ticks := K 270 0.
Definition p_num_hrd := K 271 0.
Definition p_hrd_set_idx (i : Z) := K 272 i.
Definition p_cprms (i : Z) := K 273 i.
Definition p_ext := K 274 0.

Definition isf (k v : Z) (a : env) : bool := get a k =? v.

(* ------------------------------------------------------------ shared pieces *)
(* 88 bits of a general / sub-layer profile *)
Definition ptl_profile (s : Z) : fmt :=
  U 2 8 (h_ptl_space s) ;; U 1 8 (h_ptl_tier s) ;; U 5 8 (h_ptl_idc s) ;;
  U 32 64 (h_ptl_compat s) ;; U 4 8 (h_ptl_src4 s) ;; U 43 64 (h_ptl_43 s) ;; U 1 8 (h_ptl_inbld s).

(* profile_tier_level(1, maxNumSubLayersMinus1) — identical in both descriptions: only
   fixed-width fields *)
Definition ptl : fmt :=
  ptl_profile 0 ;; U 8 8 (h_ptl_level 0) ;;
  Repeat (fun a => get a h_max_sub) (fun i =>
    Flag (h_sl_profile_present i) ;; Flag (h_sl_level_present i)) ;;
  When (fun a => 0 <? get a h_max_sub)
    (Repeat (fun a => 8 - get a h_max_sub) (fun _ => Skip 2 0)) ;;
  Repeat (fun a => get a h_max_sub) (fun i =>
    When (isf (h_sl_profile_present i) 1) (ptl_profile (i + 1)) ;;
    When (isf (h_sl_level_present i) 1) (U 8 8 (h_ptl_level (i + 1)))).

(* sub_layer_hrd_parameters: [wb] = cast width of the ue(v) reads, [hi] = legal maximum *)
Definition sub_layer_hrd (q i t : Z) : fmt :=
  Repeat (fun a => get a (r_cpb_cnt q i) + 1) (fun c =>
    Assert (fun _ => c <? 32) ;;
    UE (r_sl 0 q i t c) UE_MAX 32 ;; UE (r_sl 1 q i t c) UE_MAX 32 ;;
    When (isf (r_subpic q) 1) (UE (r_sl 2 q i t c) UE_MAX 32 ;; UE (r_sl 3 q i t c) UE_MAX 32) ;;
    Flag (r_sl 4 q i t c)).

(* hrd_parameters(common, max_sub); hi_el / hi_cnt / w16 / w8 distinguish the two descriptions *)
Definition hrd_gen (hi_el w16 hi_cnt w8 : Z) (q : Z) (common : env -> bool) : fmt :=
  If common
    (Flag (r_nal q) ;; Flag (r_vcl q) ;;
     When (fun a => isf (r_nal q) 1 a || isf (r_vcl q) 1 a)
       (Flag (r_subpic q) ;;
        When (isf (r_subpic q) 1)
          (U 8 8 (r_tick_div q) ;; U 5 8 (r_du_len q) ;; Flag (r_subpic_sei q) ;; U 5 8 (r_dpb_du_len q)) ;;
        U 4 8 (r_bit_rate_scale q) ;; U 4 8 (r_cpb_size_scale q) ;;
        When (isf (r_subpic q) 1) (U 4 8 (r_cpb_du_scale q)) ;;
        U 5 8 (r_init_len q) ;; U 5 8 (r_au_len q) ;; U 5 8 (r_dpb_len q)))
    Nop ;;
  Repeat (fun a => get a h_max_sub + 1) (fun i =>
    Assert (fun _ => i <? 7) ;;
    Flag (r_fixed_general q i) ;;
    If (isf (r_fixed_general q i) 0) (Flag (r_fixed_cvs q i)) (Set_ (r_fixed_cvs q i) (fun _ => 1)) ;;
    If (isf (r_fixed_cvs q i) 1)
      (UE (r_elemental q i) hi_el w16 ;; Set_ (r_low_delay q i) (fun _ => 0))
      (Flag (r_low_delay q i)) ;;
    If (isf (r_low_delay q i) 0) (UE (r_cpb_cnt q i) hi_cnt w8) (Set_ (r_cpb_cnt q i) (fun _ => 0)) ;;
    When (isf (r_nal q) 1) (sub_layer_hrd q i 0) ;;
    When (isf (r_vcl q) 1) (sub_layer_hrd q i 1)).

Definition std_hrd265 := hrd_gen 2047 32 31 32.
Definition go_hrd265 := hrd_gen UE_MAX 16 UE_MAX 8.

(* sub-layer ordering info: for (i = present ? 0 : max; i <= max; i++) *)
Definition slo_gen (hi w8 : Z) (present : Z) : fmt :=
  Repeat (fun a => get a h_max_sub + 1) (fun i =>
    When (fun a => isf present 1 a || (i =? get a h_max_sub))
      (Assert (fun _ => i <? 7) ;;
       UE (h_max_dec i) hi w8 ;; UE (h_max_reorder i) hi w8 ;; UE (h_max_latency i) UE_MAX 32)).

(* 7.3.4 scaling_list_data *)
Definition scaling_gen (hi_d w8 lo_dc hi_dc w16 lo_c hi_c : Z) : fmt :=
  Repeat (fun _ => 4) (fun s =>
    Repeat (fun _ => 6) (fun m =>
      When (fun _ => (s <? 3) || (m mod 3 =? 0))
        (Flag (h_sl_pred_mode s m) ;;
         If (isf (h_sl_pred_mode s m) 0)
           (UE (h_sl_pred_delta s m) (if hi_d <? 0 then UE_MAX else (if s =? 3 then Z.min 1 (m / 3) else Z.min 5 m)) w8)
           (When (fun _ => 1 <? s) (SE (h_sl_dc s m) lo_dc hi_dc w16) ;;
            Repeat (fun _ => Z.min 64 (2 ^ (4 + 2 * s))) (fun i =>
              SE (h_sl_coef s m i) lo_c hi_c 8))))).
Definition std_scaling265 := scaling_gen 0 32 (-7) 247 32 (-128) 127.
Definition go_scaling265 := scaling_gen (-1) 8 (- S31) S31 16 (- S31) S31.

(* 7.3.7 st_ref_pic_set(r) inside the SPS (so delta_idx_minus1 is absent, RefRpsIdx = r - 1) *)
Definition count_use_delta (a : env) (r n : Z) : Z :=
  fold_left (fun acc j => acc + (if get a (h_rps_use_delta r (Z.of_nat j)) =? 1 then 1 else 0))
            (seq 0 (Z.to_nat n)) 0.
Definition num_delta_pocs (a : env) (r : Z) : Z := (get a (h_rps_neg r) + get a (h_rps_pos r)) mod 256.

Definition rps_explicit (hi_n w8 hi_d w16 : Z) (r : Z) : fmt :=
  UE (h_rps_neg r) hi_n w8 ;; UE (h_rps_pos r) hi_n w8 ;;
  Repeat (fun a => get a (h_rps_neg r)) (fun i =>
    Assert (fun _ => i <? 16) ;; UE (h_rps_s0 r i) hi_d w16 ;; Flag (h_rps_s0_used r i)) ;;
  Repeat (fun a => get a (h_rps_pos r)) (fun i =>
    Assert (fun _ => i <? 16) ;; UE (h_rps_s1 r i) hi_d w16 ;; Flag (h_rps_s1_used r i)).

(* the standard: inter prediction is outside the modelled fragment (guard no_inter_rps) *)
Definition std_rps (r : Z) : fmt :=
  When (fun _ => negb (r =? 0)) (Flag (h_rps_inter r)) ;;
  Assert (isf (h_rps_inter r) 0) ;;
  rps_explicit 16 32 32767 32 r.

(* H265RawSTRefPicSet.decode: with inter prediction the reconstruction loops run a uint8
   counter below zero and index out of range (D30) — an error for every input, except that
   the "too many pictures" error return is ignored by the caller *)
Definition go_rps (r : Z) : fmt :=
  When (fun _ => negb (r =? 0)) (Flag (h_rps_inter r)) ;;
  If (isf (h_rps_inter r) 1)
    (Flag (h_rps_sign r) ;; UE (h_rps_abs r) UE_MAX 16 ;;
     Repeat (fun a => num_delta_pocs a (r - 1) + 1) (fun j =>
       Assert (fun _ => j <? 16) ;;
       Flag (h_rps_used r j) ;;
       If (isf (h_rps_used r j) 0) (Flag (h_rps_use_delta r j)) (Set_ (h_rps_use_delta r j) (fun _ => 1))) ;;
     Assert (fun a => 16 <=? count_use_delta a r (num_delta_pocs a (r - 1) + 1)))
    (rps_explicit UE_MAX 8 UE_MAX 16 r).

Definition vui_gen (w8 w16 : Z) (hi5 hi16 hi4095 hiw : Z) (hrd : fmt) : fmt :=
  Flag v_aspect_present ;;
  When (isf v_aspect_present 1)
    (U 8 8 v_aspect_idc ;; When (isf v_aspect_idc 255) (U 16 16 v_sar_w ;; U 16 16 v_sar_h)) ;;
  Flag v_overscan_present ;;
  When (isf v_overscan_present 1) (Flag v_overscan_appropriate) ;;
  Flag v_signal_present ;;
  When (isf v_signal_present 1)
    (U 3 8 v_format ;; Flag v_full_range ;; Flag v_colour_present ;;
     When (isf v_colour_present 1) (U 8 8 v_primaries ;; U 8 8 v_transfer ;; U 8 8 v_matrix)) ;;
  Flag v_chroma_loc_present ;;
  When (isf v_chroma_loc_present 1) (UE v_chroma_loc_top hi5 w8 ;; UE v_chroma_loc_bottom hi5 w8) ;;
  Flag v_neutral ;; Flag v_field_seq ;; Flag v_frame_field ;;
  Flag v_ddw ;;
  When (isf v_ddw 1)
    (UE (v_ddw_off 0) hiw w16 ;; UE (v_ddw_off 1) hiw w16 ;; UE (v_ddw_off 2) hiw w16 ;; UE (v_ddw_off 3) hiw w16) ;;
  Flag v_timing_present ;;
  When (isf v_timing_present 1)
    (U 32 32 v_nut ;; U 32 32 v_ts ;; Flag v_poc_prop ;;
     When (isf v_poc_prop 1) (UE v_num_ticks UE_MAX 32) ;;
     Flag v_hrd_present ;;
     When (isf v_hrd_present 1) hrd) ;;
  Flag v_restriction ;;
  When (isf v_restriction 1)
    (Flag v_tiles_fixed ;; Flag v_mvs_over ;; Flag v_restricted_lists ;;
     UE v_min_spatial hi4095 w16 ;; UE v_max_bytes hi16 w8 ;; UE v_max_bits hi16 w8 ;;
     UE v_log2_mv_h hi16 w8 ;; UE v_log2_mv_v hi16 w8).

Definition std_vui265 := vui_gen 32 32 5 16 4095 16888 (std_hrd265 0 (fun _ => true)).
Definition go_vui265 := vui_gen 8 16 UE_MAX UE_MAX UE_MAX UE_MAX (go_hrd265 0 (fun _ => true)).

(* MinCbSizeY divides the picture size; the Go code shifts a uint16 by a uint8 sum *)
Definition min_cb_ok (a : env) : bool :=
  let sh := (get a h_log2_min_cb + 3) mod 256 in
  (sh <? 16) && (get a h_width mod 2 ^ sh =? 0) && (get a h_height mod 2 ^ sh =? 0).

Definition sub_width_c265 (a : env) : Z :=
  if ((get a h_chroma =? 1) || (get a h_chroma =? 2)) && (get a h_sep_plane =? 0) then 2 else 1.
Definition sub_height_c265 (a : env) : Z :=
  if (get a h_chroma =? 1) && (get a h_sep_plane =? 0) then 2 else 1.
Definition conf_ok (a : env) : bool :=
  (sub_width_c265 a * (get a h_conf_left + get a h_conf_right) <? get a h_width) &&
  (sub_height_c265 a * (get a h_conf_top + get a h_conf_bottom) <? get a h_height).

Definition nal_header265 (t : Z) : fmt :=
  Skip 1 0 ;; U 6 8 h_nal_type ;; U 6 8 h_layer_id ;; U 3 8 h_tid ;; Assert (isf h_nal_type t).

(* parameterised SPS body: the two descriptions differ in ranges / casts / sub-pieces only *)
Definition sps_gen (hi15 hi3 hiw hi8 hi12 hi64 hi32 w8 w16 : Z)
    (slo scaling : fmt) (rps : Z -> fmt) (vui : fmt) (std_checks : bool) : fmt :=
  nal_header265 33 ;;
  U 4 8 h_vps_id ;; U 3 8 h_max_sub ;; Flag h_nesting ;;
  (if std_checks then Assert (fun a => get a h_max_sub <=? 6) else Nop) ;;
  ptl ;;
  UE h_sps_id hi15 w8 ;;
  UE h_chroma hi3 w8 ;;
  When (isf h_chroma 3) (Flag h_sep_plane) ;;
  UE h_width hiw w16 ;; UE h_height hiw w16 ;;
  Flag h_conf_flag ;;
  When (isf h_conf_flag 1)
    (UE h_conf_left hiw w16 ;; UE h_conf_right hiw w16 ;; UE h_conf_top hiw w16 ;; UE h_conf_bottom hiw w16) ;;
  (if std_checks then Assert conf_ok else Nop) ;;
  UE h_bd_luma hi8 w8 ;; UE h_bd_chroma hi8 w8 ;;
  UE h_log2_poc hi12 w8 ;;
  Flag h_slo_present ;;
  slo ;;
  UE h_log2_min_cb hi3 w8 ;; UE h_log2_diff_cb hi3 w8 ;;
  Assert min_cb_ok ;;
  UE h_log2_min_tb hi3 w8 ;; UE h_log2_diff_tb hi3 w8 ;;
  UE h_depth_inter hi8 w8 ;; UE h_depth_intra hi8 w8 ;;
  Flag h_scaling_enabled ;;
  When (isf h_scaling_enabled 1)
    (Flag h_scaling_present ;; When (isf h_scaling_present 1) scaling) ;;
  Flag h_amp ;; Flag h_sao ;;
  Flag h_pcm ;;
  When (isf h_pcm 1)
    (U 4 8 h_pcm_bd_luma ;; U 4 8 h_pcm_bd_chroma ;; UE h_pcm_log2_min hi3 w8 ;; UE h_pcm_log2_diff hi3 w8 ;;
     Flag h_pcm_loop) ;;
  UE h_num_st_rps hi64 w8 ;;
  Repeat (fun a => get a h_num_st_rps) rps ;;
  Flag h_lt_present ;;
  When (isf h_lt_present 1)
    (UE h_num_lt hi32 w8 ;;
     Repeat (fun a => get a h_num_lt) (fun i =>
       Assert (fun _ => i <? 32) ;;
       UV (fun a => (get a h_log2_poc + 4) mod 256) 16 (h_lt_poc i) ;; Flag (h_lt_used i))) ;;
  Flag h_tmvp ;; Flag h_strong_intra ;;
  Flag h_vui_present ;;
  When (isf h_vui_present 1) vui ;;
  Flag h_ext_present ;;
  When (isf h_ext_present 1) (U 8 8 h_ext_flags).

Definition std_h265_sps : fmt :=
  sps_gen 15 3 16888 8 12 64 32 32 32 (slo_gen 16 32 h_slo_present) std_scaling265 std_rps std_vui265 true.
Definition go_h265_sps : fmt :=
  sps_gen UE_MAX UE_MAX UE_MAX UE_MAX UE_MAX UE_MAX UE_MAX 8 16
          (slo_gen UE_MAX 8 h_slo_present) go_scaling265 go_rps go_vui265 false.
(* before the repair of D29 the ordering-info loop started at max when the flag was SET *)
Definition slo_d29 : fmt :=
  Repeat (fun a => get a h_max_sub + 1) (fun i =>
    When (fun a => isf h_slo_present 0 a || (i =? get a h_max_sub))
      (Assert (fun _ => i <? 7) ;;
       UE (h_max_dec i) UE_MAX 8 ;; UE (h_max_reorder i) UE_MAX 8 ;; UE (h_max_latency i) UE_MAX 32)).
Definition go_h265_sps_d29 : fmt :=
  sps_gen UE_MAX UE_MAX UE_MAX UE_MAX UE_MAX UE_MAX UE_MAX 8 16
          slo_d29 go_scaling265 go_rps go_vui265 false.

(* derived values, 7.4.3.2.1: the conformance cropping window *)
Definition spec_width265 (a : env) : Z :=
  get a h_width - sub_width_c265 a * (get a h_conf_left + get a h_conf_right).
Definition spec_height265 (a : env) : Z :=
  get a h_height - sub_height_c265 a * (get a h_conf_top + get a h_conf_bottom).
(* E.3.1: time_scale / num_units_in_tick clock ticks per second (one tick per picture) *)
Definition spec_fps265 (a : env) : Z * Z :=
  if (get a v_timing_present =? 1) && (0 <? get a v_nut) then (get a v_ts, get a v_nut) else (0, 1).

(* H265RawSPS.Width / Height / FrameRate / IsFixedFrameRate *)
Definition go_width265 (a : env) : Z :=
  if get a h_conf_flag =? 1
  then get a h_width - sub_width_c265 a * (get a h_conf_right + get a h_conf_left)
  else get a h_width.
Definition go_height265 (a : env) : Z :=
  if get a h_conf_flag =? 1
  then get a h_height - sub_height_c265 a * (get a h_conf_bottom + get a h_conf_top)
  else get a h_height.
Definition go_fps265 (a : env) : Z * Z :=
  if get a v_nut =? 0 then (0, 1) else (get a v_ts, get a v_nut).
(* IsFixedFrameRate is "FrameRate() > 0" (marked TODO in the source) *)
Definition go_fixed265 (a : env) : bool :=
  negb (get a v_nut =? 0) && negb (get a v_ts =? 0).

Definition go_h265_decode_with (f : fmt) (data : list Z) : vobs :=
  match nal_bits data with
  | None => None
  | Some bs =>
    match parse f env0 bs with
    | Some (a, _) => Some (go_width265 a, go_height265 a, fps_bits (go_fps265 a), go_fixed265 a)
    | None => None
    end
  end.
Definition go_h265_obs := go_h265_decode_with go_h265_sps.

(* the fixed-rate flag the implementation reports is not the standard's
   (fixed_pic_rate_general_flag of the HRD): the oracle compares width, height and rate *)
Definition spec_h265_obs (a : env) : Z * Z * Z :=
  (spec_width265 a, spec_height265 a, fps_bits (spec_fps265 a)).

Definition h265_ranges (a : env) : bool :=
  (if get a v_timing_present =? 1 then 0 <? get a v_nut else get a v_nut =? 0) &&
  (if get a h_conf_flag =? 1 then true
   else (get a h_conf_left =? 0) && (get a h_conf_right =? 0) && (get a h_conf_top =? 0) && (get a h_conf_bottom =? 0)).

Definition ok_h265 (rec : env) (nal : list Z) (o : vobs) : bool :=
  match emit std_h265_sps rec env0 with
  | Some (b, a) =>
    if h265_ranges a && zlist_eqb nal (nal_of_bits b) && nal_shape_ok nal
    then match o with
         | Some (w, h, f, _) =>
           let '(sw, sh, sf) := spec_h265_obs a in (w =? sw) && (h =? sh) && (f =? sf)
         | None => false
         end
    else true
  | None => true
  end.

(* ------------------------------------------------------------ VPS *)
Definition vps_gen (hi1023 w16 : Z) (slo : fmt) (hrd : Z -> (env -> bool) -> fmt) (std_checks : bool) : fmt :=
  nal_header265 32 ;;
  U 4 8 h_vps_id ;; Flag p_base_internal ;; Flag p_base_available ;;
  U 6 8 p_max_layers ;; U 3 8 h_max_sub ;; Flag h_nesting ;;
  Assert (fun a => negb ((get a h_max_sub =? 0) && negb (get a h_nesting =? 1))) ;;
  (if std_checks then Assert (fun a => get a h_max_sub <=? 6) else Nop) ;;
  Skip 16 65535 ;;
  ptl ;;
  Flag h_slo_present ;;
  slo ;;
  U 6 8 p_max_layer_id ;;
  UE p_num_layer_sets hi1023 w16 ;;
  Repeat (fun a => get a p_num_layer_sets) (fun i =>
    Repeat (fun a => get a p_max_layer_id + 1) (fun j =>
      Assert (fun _ => j <? 63) ;; Flag (p_included (i + 1) j))) ;;
  Assert (fun a => get a p_max_layer_id <? 63) ;;
  Flag p_timing_present ;;
  When (isf p_timing_present 1)
    (U 32 32 p_nut ;; U 32 32 p_ts ;; Flag p_poc_prop ;;
     When (isf p_poc_prop 1) (UE p_num_ticks UE_MAX 32) ;;
     UE p_num_hrd hi1023 w16 ;;
     Repeat (fun a => get a p_num_hrd) (fun i =>
       UE (p_hrd_set_idx i) hi1023 w16 ;;
       If (fun _ => 0 <? i) (Flag (p_cprms i)) (Set_ (p_cprms i) (fun _ => 1)) ;;
       (if std_checks then Assert (isf (p_cprms i) 1) else Nop) ;;
       hrd (i + 1) (isf (p_cprms i) 1))) ;;
  Flag p_ext.

Definition std_h265_vps : fmt := vps_gen 1023 32 (slo_gen 16 32 h_slo_present) std_hrd265 true.
Definition go_h265_vps : fmt := vps_gen UE_MAX 16 (slo_gen UE_MAX 8 h_slo_present) go_hrd265 false.

(* observed from a VPS: decodes, and the timing it carries *)
Definition pobs := option (Z * Z * Z).
Definition vps_view (a : env) : Z * Z * Z := (get a h_max_sub, get a p_nut, get a p_ts).
Definition go_vps_obs (data : list Z) : pobs :=
  match nal_bits data with
  | None => None
  | Some bs =>
    match parse go_h265_vps env0 bs with Some (a, _) => Some (vps_view a) | None => None end
  end.
Definition pobs_eqb (x y : pobs) : bool :=
  match x, y with
  | None, None => true
  | Some (a, b, c), Some (a', b', c') => (a =? a') && (b =? b') && (c =? c')
  | _, _ => false
  end.
Definition ok_vps (rec : env) (nal : list Z) (o : pobs) : bool :=
  match emit std_h265_vps rec env0 with
  | Some (b, a) =>
    if zlist_eqb nal (nal_of_bits b) && nal_shape_ok nal then pobs_eqb o (Some (vps_view a)) else true
  | None => true
  end.

(* ------------------------------------------------------------ D30: inter RPS prediction *)
(* 7.3.7 with inter_ref_pic_set_prediction_flag = 1, for the last set of the SPS (its derived
   NumDeltaPocs is then never needed to parse anything): the standard's syntax that the Go
   decoder cannot read.  Used for the replayed witness only. *)
Definition std_rps_i (r : Z) : fmt :=
  When (fun _ => negb (r =? 0)) (Flag (h_rps_inter r)) ;;
  If (isf (h_rps_inter r) 1)
    (Assert (fun a => r =? get a h_num_st_rps - 1) ;;
     Assert (isf (h_rps_inter (r - 1)) 0) ;;
     Flag (h_rps_sign r) ;; UE (h_rps_abs r) 32767 32 ;;
     Repeat (fun a => get a (h_rps_neg (r - 1)) + get a (h_rps_pos (r - 1)) + 1) (fun j =>
       Flag (h_rps_used r j) ;; When (isf (h_rps_used r j) 0) (Flag (h_rps_use_delta r j))))
    (rps_explicit 16 32 32767 32 r).
Definition std_h265_sps_i : fmt :=
  sps_gen 15 3 16888 8 12 64 32 32 32 (slo_gen 16 32 h_slo_present) std_scaling265 std_rps_i std_vui265 true.
Definition uses_inter_rps (a : env) : bool :=
  get a (h_rps_inter (get a h_num_st_rps - 1)) =? 1.
Definition ok_h265_i (rec : env) (nal : list Z) (o : vobs) : bool :=
  match emit std_h265_sps_i rec env0 with
  | Some (b, a) =>
    if h265_ranges a && zlist_eqb nal (nal_of_bits b) && nal_shape_ok nal
    then match o with
         | Some (w, h, f, _) =>
           let '(sw, sh, sf) := spec_h265_obs a in (w =? sw) && (h =? sh) && (f =? sf)
         | None => false
         end
    else true
  | None => true
  end.
