(* C07 — the converters behind the demuxer: the FLV muxer loop with its
   packetisers (av/format/flv/muxer.go process, h264_packetizer.go,
   h265_packetizer.go, aac_packetizer.go) and the TS packetisers
   (av/format/mpegts/h264_packetizer.go, aac_packetizer.go, frame.go), as thin
   total wrappers around the step functions of the C08 / C09 models, which
   already carry an explicit failure outcome:
     C08Flv.packetize  : None    = frame.Payload[0] on an empty video payload
     C08Flv.vseq_tag   : None    = sps[1..3] of a short SPS / a panic while building the hvcC record
     C09TsFrame.packetize_h264 : PkPanic = frame.Payload[0] on an empty payload
   What this file adds: the muxer's start condition after fix 5e372a9 (nothing
   is written until the video parameter sets are known), the TS AAC packetizer's
   undecodable-config state after fix 82835bd, runs over frame lists, and the
   glue from demuxer output (oframe) to converter input.  No proofs here. *)
From Coq Require Import ZArith List Bool.
From V Require Import Bytes C06Rtp C06Demux C07Cache.
From V Require C08Flv C09Adts C09TsFrame.
Import ListNotations.
Open Scope Z_scope.

Definition is_nil {A} (l : list A) : bool := match l with [] => true | _ => false end.

(* Muxer.parameterSetsKnown *)
Definition psets_known (c : C08Flv.cfg) : bool :=
  if C08Flv.c_hevc c
  then negb (is_nil (C08Flv.c_vps c)) && negb (is_nil (C08Flv.c_sps c)) && negb (is_nil (C08Flv.c_pps c))
  else (4 <=? zlen (C08Flv.c_sps c)) && negb (is_nil (C08Flv.c_pps c)).

(* metadata tag, video sequence header, AAC sequence header *)
Definition flv_headers (c : C08Flv.cfg) : option (list C08Flv.tag) :=
  match C08Flv.vseq_tag c with
  | None => None
  | Some v => Some (C08Flv.meta_tag c :: v :: (if C08Flv.c_aac c then [C08Flv.aseq_tag c] else []))
  end.

(* one round of Muxer.process for a frame; [c] is the live metadata at that
   moment; state = packSequenceHeader; None = the goroutine panics *)
Definition flv_step (c : C08Flv.cfg) (started : bool) (f : C08Flv.frame) : option (bool * list C08Flv.tag) :=
  if started then
    match C08Flv.packetize c f with Some ts => Some (true, ts) | None => None end
  else if negb (psets_known c) then Some (false, [])          (* the frame is dropped *)
  else match flv_headers c, C08Flv.packetize c f with
       | Some h, Some ts => Some (true, h ++ ts)
       | _, _ => None
       end.

Fixpoint flv_run (c : C08Flv.cfg) (started : bool) (fs : list C08Flv.frame) : option (bool * list C08Flv.tag) :=
  match fs with
  | [] => Some (started, [])
  | f :: r =>
      match flv_step c started f with
      | None => None
      | Some (st, ts) =>
          match flv_run c st r with
          | None => None
          | Some (st', ts') => Some (st', ts ++ ts')
          end
      end
  end.

(* TS muxer: video -> h264Packetizer, audio -> aacPacketizer; [a] = what
   prepareAsc obtained from the AudioSpecificConfig (None = undecodable or
   object type NULL / ESCAPE: the frame is refused with an error) *)
Inductive ts_out :=
| TsFrame (f : C09TsFrame.tsframe)
| TsSkip
| TsErr
| TsPanic.

Definition ts_step (sps pps : bytes) (a : option C09Adts.asc) (c : C09TsFrame.cframe) : ts_out :=
  if C09TsFrame.c_video c then
    match C09TsFrame.packetize_h264 sps pps c with
    | C09TsFrame.PkFrame f => TsFrame f
    | C09TsFrame.PkSkip => TsSkip
    | C09TsFrame.PkPanic => TsPanic
    end
  else match a with
       | None => TsErr
       | Some a' =>
           match C09TsFrame.packetize_aac a' c with
           | C09TsFrame.PkFrame f => TsFrame f
           | C09TsFrame.PkSkip => TsSkip
           | C09TsFrame.PkPanic => TsPanic
           end
       end.

Definition ts_frames_of (o : ts_out) : list C09TsFrame.tsframe :=
  match o with TsFrame f => [f] | _ => [] end.

Fixpoint ts_run (sps pps : bytes) (a : option C09Adts.asc) (cs : list C09TsFrame.cframe)
  : option (list C09TsFrame.tsframe) :=
  match cs with
  | [] => Some []
  | c :: r =>
      match ts_step sps pps a c with
      | TsPanic => None
      | o => match ts_run sps pps a r with
             | None => None
             | Some fs => Some (ts_frames_of o ++ fs)
             end
      end
  end.

(* what the converters produce for a frame list when nothing can go wrong: used to state exactness *)
Definition ts_spec (sps pps : bytes) (a : option C09Adts.asc) (cs : list C09TsFrame.cframe) : list C09TsFrame.tsframe :=
  flat_map (fun c => ts_frames_of (ts_step sps pps a c)) cs.

(* demuxer output -> converter input; the decoding time stamp is whatever the
   depacketiser's clock gave (wall clock or frame counter): any value *)
Definition to_flv_frame (d : Z) (o : oframe) : C08Flv.frame :=
  C08Flv.mkFrame (o_mt o) d (o_pts o) (o_pl o).
Definition to_ts_frame (d : Z) (o : oframe) : C09TsFrame.cframe :=
  {| C09TsFrame.c_video := o_mt o =? 0; C09TsFrame.c_dts := d; C09TsFrame.c_pts := o_pts o; C09TsFrame.c_pay := o_pl o |}.
Definition flv_in (ds : list Z) (fs : list oframe) : list C08Flv.frame :=
  map (fun x => to_flv_frame (fst x) (snd x)) (combine ds fs).
Definition ts_in (ds : list Z) (fs : list oframe) : list C09TsFrame.cframe :=
  map (fun x => to_ts_frame (fst x) (snd x)) (combine ds fs).

(* stage 0: the GOP cache classifies every packet of the media channel in the
   publisher's goroutine (both classifiers; the stream uses the one of its codec) *)
Definition classify_ev (e : ev) : bool :=
  match e with
  | EData p => match classify264 (p_pl p), classify265 (p_pl p) with Some _, Some _ => true | _, _ => false end
  | ESr _ => true
  end.
