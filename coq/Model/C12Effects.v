(* C12 — the session's effects on the stream registry as an observable.  A publishing session creates
   streams ([ERegister]) and gives them back ([ERelease (HPub _)]); the harness reports, after every
   request, how many streams the session has created so far, how many of them are still live and how
   many consumers are attached to them, and after the disconnect that all of them are closed and their
   consumers released.  NO proofs here. *)
From Coq Require Import ZArith List Bool.
From V Require Import Val Bytes StrGo C12RtspSession.
Import ListNotations.
Open Scope Z_scope.

Definition is_reg (f : effect) : bool := match f with ERegister _ => true | _ => false end.
Definition is_pub_release (f : effect) : bool := match f with ERelease (HPub _) => true | _ => false end.
Definition regs (fs : list effect) : Z := Z.of_nat (length (filter is_reg fs)).
Definition rels (fs : list effect) : Z := Z.of_nat (length (filter is_pub_release fs)).

(* all effects of a history *)
Fixpoint effects_of (e : env) (s : sess) (qs : list request) : list effect * sess :=
  match qs with
  | [] => ([], s)
  | q :: qs' =>
      let '(s', _, fs) := step e s q in
      let '(fs', s'') := effects_of e s' qs' in (fs ++ fs', s'')
  end.

(* per request: (streams created so far, of which live, consumers on them) — [n] consumers are attached
   by the harness to a stream of the session as soon as it appears *)
Fixpoint eff_run (e : env) (n : Z) (s : sess) (created live : Z) (qs : list request) : list (Z * Z * Z) * (sess * Z * Z) :=
  match qs with
  | [] => ([], (s, created, live))
  | q :: qs' =>
      let '(s', _, fs) := step e s q in
      let created' := created + regs fs in
      let live' := live + regs fs - rels fs in
      let '(os, fin) := eff_run e n s' created' live' qs' in
      ((created', live', if 0 <? live' then n else 0) :: os, fin)
  end.

Record eff_final := {
  ef_live : Z;         (* streams of the session still live after the disconnect *)
  ef_cons : Z;         (* consumers still attached to them *)
  ef_attached : Z;     (* consumers the harness attached *)
  ef_released : Z      (* of which: Close called / connection ended *)
}.

Definition triple_eqb (a b : Z * Z * Z) : bool :=
  (fst (fst a) =? fst (fst b)) && (snd (fst a) =? snd (fst b)) && (snd a =? snd b).

(* the oracle: after every request the registry shows exactly the model's effects; after the disconnect
   every stream the session ever created is closed and every consumer of it released *)
Definition ok_effects (e : env) (n : Z) (s0 : sess) (qs : list request)
                      (obs : list (Z * Z * Z)) (fin : eff_final) : bool :=
  let '(exp, (s', created, live)) := eff_run e n s0 0 0 qs in
  let live_end := live - rels (snd (disconnect s')) in
  list_eqb triple_eqb exp obs
  && (live_end =? 0) && (ef_live fin =? 0) && (ef_cons fin =? 0)
  && (ef_attached fin =? (if 0 <? created then n else 0)) && (ef_released fin =? ef_attached fin).
