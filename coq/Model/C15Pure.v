(* C15 — parsers are pure.  The parameter-set parsers are handed the stream's stored
   parameter sets (VideoMeta.Sps/Vps, AudioMeta.Sps, the relayed payload): a call must leave the
   caller's buffer — the bytes up to its capacity — untouched, and a second call on the same
   buffer must report the same values.  The implementation is observed as
   (first result, backing array after both calls, second result); [twice f] is what a function
   looks like through that observation.  No proofs here. *)
From Coq Require Import ZArith List Bool.
From V Require Import C15H264.
Import ListNotations.
Open Scope Z_scope.

(* the harness puts the input in front of 8 guard bytes 0xA5 inside one backing array *)
Definition GUARD : list Z := [165; 165; 165; 165; 165; 165; 165; 165].

Definition twice {O : Type} (f : list Z -> O) (data : list Z) : O * list Z * O :=
  (f data, data ++ GUARD, f data).

(* buffer unchanged /\ second result = first result /\ the first result is acceptable *)
Definition pure_ok {O : Type} (eqb : O -> O -> bool) (ok : O -> bool) (data : list Z)
  (t : O * list Z * O) : bool :=
  let '(o1, buf, o2) := t in zlist_eqb buf (data ++ GUARD) && eqb o1 o2 && ok o1.
