(* C07 — the RTP payload classifiers of the GOP caches
   (media/cache/h264cache.go, hevccache.go: getPalyloadType), after the
   bounds-check fixes.  Only their robustness belongs to C07; what the caches
   do with the classification belongs to C02.  Every index is a checked access;
   None = Go would panic.  No proofs here. *)
From Coq Require Import ZArith List Bool.
From V Require Import Bytes.
Import ListNotations.
Open Scope Z_scope.

Record cls := mkCls { k_vps : bool; k_sps : bool; k_pps : bool; k_key : bool }.
Definition cls0 : cls := mkCls false false false false.

(* H264Cache.nalType *)
Definition nal264 (t : Z) (a : cls) : cls :=
  if t =? 7 then mkCls (k_vps a) true (k_pps a) (k_key a)
  else if t =? 8 then mkCls (k_vps a) (k_sps a) true (k_key a)
  else if t =? 5 then mkCls (k_vps a) (k_sps a) (k_pps a) true
  else a.

(* HevcCache.nalType: BLA_W_LP (16) .. CRA_NUT (21) are key pictures *)
Definition nal265 (t : Z) (a : cls) : cls :=
  if (16 <=? t) && (t <=? 21) then mkCls (k_vps a) (k_sps a) (k_pps a) true
  else if t =? 32 then mkCls true (k_sps a) (k_pps a) (k_key a)
  else if t =? 33 then mkCls (k_vps a) true (k_pps a) (k_key a)
  else if t =? 34 then mkCls (k_vps a) (k_sps a) true (k_key a)
  else a.

(* the aggregation scan; rest = payload[off:]; typ extracts the NAL type from a header byte *)
Fixpoint agg_scan (typ : Z -> Z) (nal : Z -> cls -> cls) (fuel : nat) (rest : bytes) (a : cls) : option cls :=
  match fuel with
  | O => None
  | S f =>
    match rest with
    | hi :: lo :: rest1 =>                       (* off+2 <= len(payload) *)
        let n := hi * 256 + lo in
        if n <? 1 then Some a
        else match rest1 with
             | [] => Some a                      (* off >= len(payload): size field without a unit *)
             | h :: _ =>
                 let a' := nal (typ h) a in
                 if zlen rest1 <=? n then Some a'          (* off += nalSize; off >= len: done *)
                 else agg_scan typ nal f (drop n rest1) a'
             end
    | _ => Some a                                (* truncated size field *)
    end
  end.

Definition classify264 (pl : bytes) : option cls :=
  if zlen pl <? 3 then Some cls0
  else match idx pl 0 with
       | None => None
       | Some h =>
           let t := Z.land h 31 in
           if (24 <=? t) && (t <=? 27) then agg_scan (fun b => Z.land b 31) nal264 (S (length pl)) (drop 1 pl) cls0
           else if (t =? 28) || (t =? 29) then
             match idx pl 1 with
             | None => None
             | Some fuh => if Z.land (Z.shiftr fuh 7) 1 =? 1 then Some (nal264 (Z.land fuh 31) cls0) else Some cls0
             end
           else Some (nal264 t cls0)
       end.

Definition classify265 (pl : bytes) : option cls :=
  if zlen pl <? 3 then Some cls0
  else match idx pl 0 with
       | None => None
       | Some h =>
           let t := Z.land (Z.shiftr h 1) 63 in
           if t =? 48 then agg_scan (fun b => Z.land (Z.shiftr b 1) 63) nal265 (S (length pl)) (drop 2 pl) cls0
           else if t =? 49 then
             match idx pl 2 with
             | None => None
             | Some fuh => if Z.land (Z.shiftr fuh 7) 1 =? 1 then Some (nal265 (Z.land fuh 63) cls0) else Some cls0
             end
           else Some (nal265 t cls0)
       end.
