(* Oracles of C01, C03, C04 over the wire observation of a stream-LTS case (Model/LtsWire.v):
   the boolean functions that bin/check applies to what the real media.Stream did on a schedule,
   and that Proofs/LtsOracleProofs.v proves the model passes ([Cxx_model_passes]).
   Definitions only.

   observation = ( (cons_0 … cons_{n-1}) count ok pp todo kp )
   cons_i      = ( out_ids closes pc reg qlen disc att stp intact )
   codes: pc  0 CNone 1 CPop 2 CGot 3 CWait 4 CExitLoaded 5 CDone;  att 0 A0 3 A0W 1 A1 2 A2 5 ADone;
          stp 0 S0 1 S1 5 SDone;  kp 0 K0 1 K1 2 K2 5 KDone;  qlen = -1, disc = 0 when not registered *)
From Coq Require Import ZArith List Bool Arith.
From V Require Import Val StreamLts Cache LtsWire.
Import ListNotations.
Local Open Scope Z_scope.

(* ---------- the observation, decoded ---------- *)
Record cobs := {
  o_out : list Z;      (* ids handed to Consumer.Consume, oldest first *)
  o_closes : Z;        (* calls of Consumer.Close *)
  o_pc : Z;            (* goroutine position *)
  o_reg : bool;        (* present in the consumptions map *)
  o_qlen : Z;          (* queue length if registered, else -1 *)
  o_disc : Z;          (* discarding (0/1) if registered, else 0 *)
  o_att : Z;           (* attacher position *)
  o_stp : Z;           (* stopper position *)
  o_intact : bool      (* every delivered packet byte-identical to the published one *)
}.
Record obs := {
  o_cons : list cobs; o_count : Z; o_ok : bool; o_pp : Z; o_todo : Z; o_kp : Z
}.

Definition dec_cobs (v : val) : cobs :=
  {| o_out := map as_int (as_list (nthv 0 v)); o_closes := as_int (nthv 1 v); o_pc := as_int (nthv 2 v);
     o_reg := as_bool (nthv 3 v); o_qlen := as_int (nthv 4 v); o_disc := as_int (nthv 5 v);
     o_att := as_int (nthv 6 v); o_stp := as_int (nthv 7 v); o_intact := as_bool (nthv 8 v) |}.
Definition dec_obs (v : val) : obs :=
  {| o_cons := map dec_cobs (as_list (nthv 0 v)); o_count := as_int (nthv 1 v);
     o_ok := as_bool (nthv 2 v); o_pp := as_int (nthv 3 v); o_todo := as_int (nthv 4 v);
     o_kp := as_int (nthv 5 v) |}.

(* the observation of a model state, without the detour through the wire *)
Definition cobs_of (s : lstate) (c : nat) : cobs :=
  let k := s_cs _ s c in
  {| o_out := map p_id (c_out k); o_closes := Z.of_nat (c_closes k); o_pc := cpc_code (c_pc k);
     o_reg := c_reg k;
     o_qlen := if c_reg k then Z.of_nat (length (c_q k)) else -1;
     o_disc := if c_reg k then (if c_disc k then 1 else 0) else 0;
     o_att := apc_code (s_att _ s c); o_stp := spc_code (s_stp _ s c); o_intact := true |}.
Definition obs_of_state (n : nat) (s : lstate) : obs :=
  {| o_cons := map (cobs_of s) (seq 0 n); o_count := s_count _ s; o_ok := s_ok _ s;
     o_pp := ppc_code (s_pp _ s); o_todo := Z.of_nat (length (s_todo _ s));
     o_kp := kpc_code (s_kp _ s) |}.

(* ---------- helpers ---------- *)
Definition cobs_dflt : cobs :=
  {| o_out := []; o_closes := 0; o_pc := 0; o_reg := false; o_qlen := -1; o_disc := 0;
     o_att := 0; o_stp := 0; o_intact := false |}.

(* [f i k] for every observed consumer k with its index i *)
Definition forall_cons (f : nat -> cobs -> bool) (l : list cobs) : bool :=
  forallb (fun i => f i (nth i l cobs_dflt)) (seq 0 (length l)).

Definition sumz (l : list Z) : Z := fold_right Z.add 0 l.

(* the consumer's goroutine has no enabled step: not started, blocked in Wait, or finished *)
Definition pc_rest (pc : Z) : bool := (pc =? 0) || (pc =? 3) || (pc =? 5).
(* goroutine finished, Consumer.Close called exactly once, out of the map *)
Definition released (k : cobs) : bool := (o_pc k =? 5) && (o_closes k =? 1) && negb (o_reg k).

(* ---------- C03 ---------- *)
Definition ok_C03 (c : lcase) (o : obs) : bool :=
  Nat.eqb (length (o_cons o)) (l_n c) &&
  (* (a) the counter is never negative *)
  (0 <=? o_count o) &&
  forall_cons (fun i k =>
     (* (b) Consumer.Close at most once *)
     (o_closes k <=? 1) &&
     (* (c) stream closed, attach returned, goroutine and stopper at rest => released *)
     (if (o_kp o =? 5) && (o_att k =? 5) && pc_rest (o_pc k) && (o_stp k =? 5)
      then released k else true) &&
     (* (d) the case has a stopper for i, it ran to completion, goroutine at rest => released *)
     (if nth i (l_stop c) false && (o_att k =? 5) && (o_stp k =? 5) && pc_rest (o_pc k)
      then released k else true))
    (o_cons o) &&
  (* (e) no removal in flight => counter = number of registered consumers *)
  (if forallb (fun k => negb (o_stp k =? 1) && negb (o_pc k =? 4)) (o_cons o)
   then o_count o =? sumz (map (fun k => if o_reg k then 1 else 0) (o_cons o))
   else true).

(* ---------- C01 ---------- *)
Definition memZ (x : Z) (l : list Z) : bool := existsb (Z.eqb x) l.
Fixpoint nodupZ (l : list Z) : bool :=
  match l with [] => true | x :: l' => negb (memZ x l') && nodupZ l' end.
(* [a] is a subsequence of [b] (greedy matching) *)
Fixpoint subseqZ (a b : list Z) : bool :=
  match b with
  | [] => match a with [] => true | _ :: _ => false end
  | y :: b' =>
      match a with
      | [] => true
      | x :: a' => if x =? y then subseqZ a' b' else subseqZ a b'
      end
  end.
(* position of the first occurrence ([length l] when absent) *)
Fixpoint posZ (x : Z) (l : list Z) : nat :=
  match l with [] => O | y :: l' => if x =? y then O else S (posZ x l') end.

(* kind of the published packet with id [x] (-1 when there is none) *)
Definition kind_of (pkts : list pkt) (x : Z) : Z :=
  match find (fun p => p_id p =? x) pkts with Some p => p_kind p | None => -1 end.
(* drop one leading id whose packet has kind [k] *)
Definition strip_kind (pkts : list pkt) (k : Z) (l : list Z) : list Z :=
  match l with
  | [] => []
  | x :: l' => if kind_of pkts x =? k then l' else l
  end.
Definition mediaZ (k : Z) : bool := negb (k =? 0) && negb (k =? 3) && negb (k =? 4) && negb (k =? 5).
(* the published ids strictly between positions i and j *)
Definition between (ids : list Z) (i j : nat) : list Z := firstn (j - S i) (skipn (S i) ids).
(* consecutive ids of [l] have only packets that are not on the video channel's GOP (audio/RTCP,
   parameter sets) published between them *)
Fixpoint contig_ok (pkts : list pkt) (ids l : list Z) : bool :=
  match l with
  | [] => true
  | x :: l' =>
      match l' with
      | [] => true
      | y :: _ =>
          forallb (fun z => negb (mediaZ (kind_of pkts z))) (between ids (posZ x ids) (posZ y ids)) &&
          contig_ok pkts ids l'
      end
  end.
(* the GOP part of a join replay: only with the GOP cache on; starts with a key-frame start, goes
   on with video packets none of which starts a key frame, in published order, and leaves out no
   video packet published in between *)
Definition gop_ok (pkts : list pkt) (gopon : bool) (ids g : list Z) : bool :=
  match g with
  | [] => true
  | x :: g' =>
      gopon && (kind_of pkts x =? 2) &&
      forallb (fun y => mediaZ (kind_of pkts y) && negb (kind_of pkts y =? 2)) g' &&
      subseqZ g ids && contig_ok pkts ids g
  end.
(* a (partly delivered) join replay: [VPS] [SPS] [PPS] then the GOP part *)
Definition replay_ok (pkts : list pkt) (gopon : bool) (ids pre : list Z) : bool :=
  gop_ok pkts gopon ids (strip_kind pkts 4 (strip_kind pkts 3 (strip_kind pkts 5 pre))).

(* out = pre ++ live at split point j: the replayed part has the shape of a join replay, the live
   part is a subsequence of the published ids, and every id of the replayed part was published
   before every id of the live part *)
Definition split_ok (pkts : list pkt) (gopon : bool) (ids out : list Z) (j : nat) : bool :=
  let pre := firstn j out in
  let live := skipn j out in
  replay_ok pkts gopon ids pre &&
  subseqZ live ids &&
  forallb (fun x => forallb (fun y => (posZ x ids <? posZ y ids)%nat) live) pre.

Definition ok_stream (pkts : list pkt) (gopon : bool) (ids out : list Z) : bool :=
  nodupZ out && forallb (fun x => memZ x ids) out &&
  existsb (split_ok pkts gopon ids out) (seq 0 (S (length out))).

Definition ok_C01 (c : lcase) (o : obs) : bool :=
  let ids := map p_id (l_pkts c) in
  Nat.eqb (length (o_cons o)) (l_n c) &&
  (if nodupZ ids
   then forallb (fun k => o_intact k && ok_stream (l_pkts c) (l_gop c) ids (o_out k)) (o_cons o)
   else true).

(* ---------- C04 ---------- *)
(* longest run of packets without a key-frame start, counting [n] such packets before [l] *)
Fixpoint gap_need (n : nat) (l : list pkt) : nat :=
  match l with
  | [] => O
  | p :: l' => if p_key p then gap_need O l' else Nat.max (S n) (gap_need (S n) l')
  end.
(* the least G >= 1 with [gap_ok G pkts] (LtsBacklogProofs): every G consecutive published
   packets contain a key-frame start; [length pkts + 1] when there is no key packet at all *)
Definition gap_least (pkts : list pkt) : nat := S (gap_need O pkts).

Definition backlog_limit (maxq G : nat) : nat := (Nat.max maxq (3 + G) + G + 1)%nat.

(* drops end only at a key-frame start: two consecutive delivered ids of the live part whose
   published positions are not adjacent had something broadcast in between that was dropped for
   backlog, so the second one starts a key frame *)
Fixpoint gaps_ok (pkts : list pkt) (ids l : list Z) : bool :=
  match l with
  | [] => true
  | x :: l' =>
      match l' with
      | [] => true
      | y :: _ =>
          (if (S (posZ x ids) <? posZ y ids)%nat then kind_of pkts y =? 2 else true) &&
          gaps_ok pkts ids l'
      end
  end.
(* the split of the C01 oracle (replayed part ++ live part), with the drop clause on its live part *)
Definition split_ok4 (pkts : list pkt) (gopon : bool) (ids out : list Z) (j : nat) : bool :=
  split_ok pkts gopon ids out j && gaps_ok pkts ids (skipn j out).

Definition ok_C04 (c : lcase) (o : obs) : bool :=
  let ids := map p_id (l_pkts c) in
  let G := gap_least (l_pkts c) in
  let lim := Z.of_nat (backlog_limit (l_maxq c) G) in
  Nat.eqb (length (o_cons o)) (l_n c) &&
  forall_cons (fun i k =>
     (* backlog: limit, one GOP, the join replay ([VPS] SPS PPS + one GOP), the nil of Close *)
     (if o_reg k then o_qlen k <=? lim else true) &&
     (* a consumer scripted to panic in its pa-th Consume call is never handed more; once the call
        happened its goroutine is on the exit path or done and it is out of the map *)
     (let pa := nth i (l_panic c) O in
      if (0 <? pa)%nat
      then (length (o_out k) <=? pa)%nat &&
           (if (pa <=? length (o_out k))%nat
            then ((o_pc k =? 4) || (o_pc k =? 5)) && negb (o_reg k) else true)
      else true))
    (o_cons o) &&
  (* drops are GOP-aligned (published ids pairwise distinct, as for ok_C01) *)
  (if nodupZ ids
   then forallb (fun k => existsb (split_ok4 (l_pkts c) (l_gop c) ids (o_out k))
                                  (seq 0 (S (length (o_out k))))) (o_cons o)
   else true).

(* ---------- C02 ---------- *)
Definition is_close (t : tid) : bool := match t with TClose => true | _ => false end.
(* [a] is a prefix of [b] *)
Fixpoint prefixZ (a b : list Z) : bool :=
  match a with
  | [] => true
  | x :: a' => match b with [] => false | y :: b' => (x =? y) && prefixZ a' b' end
  end.
(* the joiner was handed (the beginning of) the join replay after some number r of published
   packets - the specification [spec_snap] of Model/Cache.v applied to the first r packets -
   followed by the published packets from index r on, one after the other: no gap, no repeat *)
Definition join_ok (pkts : list pkt) (gopon : bool) (ids out : list Z) : bool :=
  existsb (fun r => prefixZ out (map p_id (spec_snap gopon (firstn r pkts)) ++ skipn r ids))
          (seq 0 (S (length pkts))).

(* guards: the stream is not closed during the schedule (hypothesis of C02_join_contiguous) and the
   queue limit is so large that nothing can be dropped for backlog *)
Definition ok_C02 (c : lcase) (o : obs) : bool :=
  let ids := map p_id (l_pkts c) in
  Nat.eqb (length (o_cons o)) (l_n c) &&
  (if forallb (fun t => negb (is_close t)) (l_sched c) &&
      (2 * length (l_pkts c) + 4 <=? l_maxq c)%nat
   then forallb (fun k => join_ok (l_pkts c) (l_gop c) ids (o_out k)) (o_cons o)
   else true).
