(* C06 — av/format/rtp/syncclock.go: RelativeNtp's binary64 arithmetic, exactly,
   and Decode (RTCP sender report).  No proofs here.

   Go:  RTPTimeUnit = float64(time.Second) / float64(clockRate)
        RelativeNtp(ts) = int64(float64(int64(ts) - int64(RTPTime)) * RTPTimeUnit)
        pts = RelativeNtp(ts) + ptsDelay            (ptsDelay = 0.5 s)

   binary64 values are represented as integers scaled by 2^-121: for every
   clock rate in 1 .. 2^31-1 the quotient 1e9/clock lies in (2^-2, 2^30), so its
   53-bit significand is a multiple of 2^-54 >= 2^-121, and so is every product
   with an integer.  No overflow, underflow or subnormal can occur in that
   range; |diff| < 2^32 is exact in binary64; the product is < 2^63. *)
From Coq Require Import ZArith List Bool.
From V Require Import Bytes.
Import ListNotations.
Open Scope Z_scope.

(* round a non-negative integer to 53 significant bits, ties to even *)
Definition round53 (n : Z) : Z :=
  let l := Z.log2 n + 1 in
  if l <=? 53 then n
  else
    let sh := l - 53 in
    let q := Z.shiftr n sh in
    let r := n - Z.shiftl q sh in
    let half := Z.shiftl 1 (sh - 1) in
    let q' := if (half <? r) || ((r =? half) && Z.odd q) then q + 1 else q in
    Z.shiftl q' sh.

Definition FIX : Z := 121.

(* float64(1e9) / float64(clock), in units of 2^-121: the exact quotient is
   first cut to an integer with a sticky bit (far below the rounding position),
   then rounded once *)
Definition unit_fix (clock : Z) : Z :=
  let num := 1000000000 * 2 ^ 120 in
  let q := num / clock in
  let sticky := if num mod clock =? 0 then 0 else 1 in
  round53 (2 * q + sticky).

(* int64(float64(d) * unit): one rounding of the exact product, then truncation toward zero *)
Definition scale (clock d : Z) : Z :=
  Z.sgn d * Z.shiftr (round53 (Z.abs d * unit_fix clock)) FIX.

Definition PTS_DELAY : Z := 500000000.
Definition pts_of (clock base ts : Z) : Z := scale clock (ts - base) + PTS_DELAY.

(* SyncClock.Decode (after the length fix): only RTPTime matters for presentation times *)
Inductive cres := CNo | CSet (rt : Z) | CPanic.
Definition sr_decode (data : bytes) : cres :=
  if zlen data <? 20 then CNo
  else match idx data 1 with
       | None => CPanic
       | Some t =>
           if t =? 200 then
             match slice data 8 12, slice data 12 16, slice data 16 20 with
             | Some _, Some _, Some b => CSet (be_decode b)
             | _, _, _ => CPanic
             end
           else CNo
       end.
