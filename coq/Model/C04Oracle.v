(* C04 — the oracle of the check, [ok_C04] of Model/LtsOracle.v plus the clause that a drop also
   BEGINS only at a key-frame start: for two consecutive delivered ids of the live part whose
   published positions are not adjacent, the packet published right after the first one (the first
   packet that was dropped) starts a key frame.  Definitions only (Proofs/C04OracleProofs.v). *)
From Coq Require Import ZArith List Bool Arith.
From V Require Import Val StreamLts Cache LtsWire LtsOracle.
Import ListNotations.
Local Open Scope Z_scope.

Fixpoint gapsb_ok (pkts : list pkt) (ids l : list Z) : bool :=
  match l with
  | [] => true
  | x :: l' =>
      match l' with
      | [] => true
      | y :: _ =>
          (if (S (posZ x ids) <? posZ y ids)%nat
           then kind_of pkts (nth (S (posZ x ids)) ids 0) =? 2 else true) &&
          gapsb_ok pkts ids l'
      end
  end.

Definition split_ok5 (pkts : list pkt) (gopon : bool) (ids out : list Z) (j : nat) : bool :=
  split_ok4 pkts gopon ids out j && gapsb_ok pkts ids (skipn j out).

(* THE SEAM between the join replay and the live part.  The consumer registered after r published
   packets: what it was handed starts with (a prefix of) the replay of the first r packets
   ([spec_snap], Model/Cache.v); if something follows and the first live id is not packet r itself,
   then the packets from r up to it were dropped for backlog: packet r (the first one broadcast to the
   consumer) starts a key frame - a consumer never starts out discarding, however long its replay is
   compared to the limit - and so does the first live one;
   and the live part (for the same r) has its gaps aligned at both ends. *)
Definition first_ok (pkts : list pkt) (ids : list Z) (r : nat) (live : list Z) : bool :=
  match live with
  | [] => true
  | y :: _ => if (r <? posZ y ids)%nat
              then (kind_of pkts (nth r ids 0) =? 2) && (kind_of pkts y =? 2) else true
  end.
Definition seam_ok (pkts : list pkt) (gopon : bool) (ids out : list Z) : bool :=
  existsb (fun r =>
     let snap := map p_id (spec_snap gopon (firstn r pkts)) in
     if (length out <=? length snap)%nat then prefixZ out snap
     else let live := skipn (length snap) out in
          prefixZ snap out && first_ok pkts ids r live && gaps_ok pkts ids live && gapsb_ok pkts ids live)
    (seq 0 (S (length pkts))).

Definition ok_C04x (c : lcase) (o : obs) : bool :=
  ok_C04 c o &&
  (let ids := map p_id (l_pkts c) in
   if nodupZ ids
   then forallb (fun k => existsb (split_ok5 (l_pkts c) (l_gop c) ids (o_out k))
                                  (seq 0 (S (length (o_out k))))) (o_cons o)
   else true) &&
  (* the stream is not closed during the schedule (hypothesis of C02's join theorems) *)
  (let ids := map p_id (l_pkts c) in
   if nodupZ ids && forallb (fun t => negb (is_close t)) (l_sched c)
   then forallb (fun k => seam_ok (l_pkts c) (l_gop c) ids (o_out k)) (o_cons o)
   else true).
