(* C04 — the oracle of the check, [ok_C04] of Model/LtsOracle.v plus the clause that a drop also
   BEGINS only at a key-frame start: for two consecutive delivered ids of the live part whose
   published positions are not adjacent, the packet published right after the first one (the first
   packet that was dropped) starts a key frame.  Definitions only (Proofs/C04OracleProofs.v). *)
From Coq Require Import ZArith List Bool Arith.
From V Require Import Val StreamLts Cache LtsWire LtsOracle.
Import ListNotations.
Local Open Scope Z_scope.

Fixpoint gapsb_ok (pkts : list pkt) (ids l : list Z) : bool :=
  match l with
  | [] => true
  | x :: l' =>
      match l' with
      | [] => true
      | y :: _ =>
          (if (S (posZ x ids) <? posZ y ids)%nat
           then kind_of pkts (nth (S (posZ x ids)) ids 0) =? 2 else true) &&
          gapsb_ok pkts ids l'
      end
  end.

Definition split_ok5 (pkts : list pkt) (gopon : bool) (ids out : list Z) (j : nat) : bool :=
  split_ok4 pkts gopon ids out j && gapsb_ok pkts ids (skipn j out).

Definition ok_C04x (c : lcase) (o : obs) : bool :=
  ok_C04 c o &&
  (let ids := map p_id (l_pkts c) in
   if nodupZ ids
   then forallb (fun k => existsb (split_ok5 (l_pkts c) (l_gop c) ids (o_out k))
                                  (seq 0 (S (length (o_out k))))) (o_cons o)
   else true).
