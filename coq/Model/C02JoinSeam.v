(* C02 — oracle for the seam between the replayed part and the live part of a late joiner when the
   consumer's queue limit is SMALL compared to the replay (Model/LtsOracle.v's ok_C02 is guarded by
   a limit so large that nothing can ever be dropped).  What the implementation may not do, whatever
   the limit: lose live packets of the GOP it has just replayed.  The registration index r of each
   consumer is the model's (a function of the case: the schedule fixes where the joiner registers).
   No proofs here (Proofs/C02JoinSeamProofs.v). *)
From Coq Require Import ZArith List Bool Arith.
From V Require Import Val StreamLts Cache LtsWire LtsOracle.
Import ListNotations.

(* the packets broadcast while registered, and their key-free prefix = the rest of the replayed GOP
   (the same functions as jwindow / nk of Proofs/LtsJoinProofs.v) *)
Definition swindow (sent : list pkt) (r : nat) (u : option nat) : list pkt :=
  skipn r (match u with Some n => firstn n sent | None => sent end).
Fixpoint snk (w : list pkt) : list pkt :=
  match w with [] => [] | p :: w' => if p_key p then [] else p :: snk w' end.

Definition variant_fixed (v : variant) : bool := v_lock v && v_recheck v && v_push v && v_atomic v.

Definition cobs0 : cobs :=
  {| o_out := []; o_closes := 0; o_pc := 0; o_reg := false; o_qlen := -1; o_disc := 0;
     o_att := 0; o_stp := 0; o_intact := true |}.

(* one consumer: what it has been handed so far is consistent with  replay ++ rest of that GOP
   (one is a prefix of the other), and while no key start has been broadcast since it registered it
   is not in discarding mode *)
Definition seam_cons_ok (gopon : bool) (s : lstate) (i : nat) (o : cobs) : bool :=
  let k := s_cs _ s i in
  match c_regat k with
  | None => true
  | Some r =>
      let sent := s_sent _ s in
      let w := swindow sent r (c_unregat k) in
      let exp := map p_id (spec_snap gopon (firstn r sent)) ++ map p_id (snk w) in
      (prefixZ (o_out o) exp || prefixZ exp (o_out o)) &&
      (if o_reg o && (length (snk w) =? length w)%nat then Z.eqb (o_disc o) 0 else true)
  end.

Definition seam_ok (c : lcase) (o : obs) : bool :=
  if variant_fixed (l_var c) && forallb (fun t => negb (is_close t)) (l_sched c)
  then forallb (fun i => seam_cons_ok (l_gop c) (lrun c) i (nth i (o_cons o) cobs0)) (seq 0 (l_n c))
  else true.
