(* C07 — the stream's shared codec.VideoMeta as state: the update rule of
   h264_depacketizer.go / h265_depacketizer.go writeFrame (a parameter set found in
   band is recorded only while the stream has none: set once), and the variant that
   follows every in-band set (seeded change C07-r7).  No proofs here. *)
From Coq Require Import ZArith List Bool.
From V Require Import Bytes.
Import ListNotations.
Open Scope Z_scope.

Record vmeta := mkM { m_vps : bytes; m_sps : bytes; m_pps : bytes }.
Definition is_empty (b : bytes) : bool := match b with [] => true | _ => false end.

(* writeFrame's switch on the NAL type of a frame payload *)
Definition meta_update264 (m : vmeta) (nal : bytes) : vmeta :=
  match nal with
  | [] => m
  | h :: _ =>
      let t := Z.land h 31 in
      if (t =? 7) && is_empty (m_sps m) then mkM (m_vps m) nal (m_pps m)
      else if (t =? 8) && is_empty (m_pps m) then mkM (m_vps m) (m_sps m) nal
      else m
  end.
Definition meta_update265 (m : vmeta) (nal : bytes) : vmeta :=
  match nal with
  | [] => m
  | h :: _ =>
      let t := Z.land (Z.shiftr h 1) 63 in
      if (t =? 32) && is_empty (m_vps m) then mkM nal (m_sps m) (m_pps m)
      else if (t =? 33) && is_empty (m_sps m) then mkM (m_vps m) nal (m_pps m)
      else if (t =? 34) && is_empty (m_pps m) then mkM (m_vps m) (m_sps m) nal
      else m
  end.
Definition meta_update (hevc : bool) := if hevc then meta_update265 else meta_update264.
Definition meta_run (hevc : bool) (m : vmeta) (nals : list bytes) : vmeta := fold_left (meta_update hevc) nals m.

(* the seeded variant: every in-band SPS / PPS replaces the stream's *)
Definition meta_follow264 (m : vmeta) (nal : bytes) : vmeta :=
  match nal with
  | [] => m
  | h :: _ =>
      let t := Z.land h 31 in
      if t =? 7 then mkM (m_vps m) nal (m_pps m)
      else if t =? 8 then mkM (m_vps m) (m_sps m) nal
      else m
  end.

Definition sets_known (hevc : bool) (m : vmeta) : bool :=
  negb (is_empty (m_sps m)) && negb (is_empty (m_pps m)) && (negb hevc || negb (is_empty (m_vps m))).

Definition bytes_eq := bytes_eqb.
Definition vmeta_eqb (a b : vmeta) : bool :=
  bytes_eqb (m_vps a) (m_vps b) && bytes_eqb (m_sps a) (m_sps b) && bytes_eqb (m_pps a) (m_pps b).
