(* C17 (and the route half of C18): provider/route/routetable.go.
   The table is the insertion-ordered list [l]; the Go map [m] holds the same
   entries keyed by pattern, and is iterated in an arbitrary order by Match —
   the model iterates an arbitrary permutation [order] of the list. *)
From Coq Require Import ZArith List Bool.
From V Require Import Bytes StrGo.
Import ListNotations.
Open Scope Z_scope.

Record route := { r_pat : bytes; r_url : bytes; r_keep : bool }.
Definition table := list route.

Definition has_key (k : bytes) (r : route) : bool := bytes_eqb (r_pat r) k.
Definition lookup (t : table) (k : bytes) : option route := find (has_key k) t.

(* Route.init + routetable.Save; url.Parse is an oracle: [url_ok] *)
Definition save (url_ok : bytes -> bool) (t : table) (r0 : route) : table :=
  if negb (url_ok (r_url r0)) then t else
  let pat := canonical_path (r_pat r0) in
  let r := {| r_pat := pat; r_url := r_url r0; r_keep := r_keep r0 |} in
  match lookup t pat with
  | Some _ => map (fun x => if has_key pat x then r else x) t
  | None => t ++ [r]
  end.

Definition del (t : table) (pat0 : bytes) : table :=
  let pat := canonical_path pat0 in
  filter (fun x => negb (has_key pat x)) t.

Definition get (t : table) (pat0 : bytes) : option route := lookup t (canonical_path pat0).

(* pathMatch *)
Definition path_match (pat path : bytes) : bool :=
  match pat with
  | [] => false
  | _ => if ends_with SLASH pat then is_prefix pat path else bytes_eqb pat path
  end.

(* the body of `for k, v := range t.m` *)
Definition pick (path : bytes) (acc : option route * Z) (r : route) : option route * Z :=
  if path_match (r_pat r) path then
    match fst acc with
    | None => (Some r, zlen (r_pat r))
    | Some _ => if zlen (r_pat r) >? snd acc then (Some r, zlen (r_pat r)) else acc
    end
  else acc.

Inductive outcome := Found (r : route) | NotFound | Panic.

Definition join_url (r : route) (path : bytes) : outcome :=
  match last_byte (r_url r) with
  | None => Panic                                   (* r.URL[len(r.URL)-1] on "" *)
  | Some c =>
      let n := zlen (r_pat r) in
      let rest := if c =? SLASH then drop n path else drop (n - 1) path in
      Found {| r_pat := path; r_url := r_url r ++ rest; r_keep := r_keep r |}
  end.

(* [order]: the order in which Go's map iteration visits the entries *)
Definition match_go (order : table) (path0 : bytes) : outcome :=
  let path := canonical_path path0 in
  if ends_with SLASH path then NotFound else
  match lookup order path with
  | Some r => Found r
  | None =>
      match fst (fold_left (pick path) order (None, 0)) with
      | None => NotFound
      | Some r => join_url r path
      end
  end.

(* ---- specification, written from the property text ---- *)
Definition is_dir_cand (path : bytes) (r : route) : bool :=
  ends_with SLASH (r_pat r) && is_prefix (r_pat r) path.

Definition is_longest (t : table) (path : bytes) (r : route) : bool :=
  is_dir_cand path r &&
  forallb (fun r' => negb (is_dir_cand path r') || (zlen (r_pat r') <=? zlen (r_pat r))) t.

(* remainder joined with exactly one '/' *)
Definition spec_url (r : route) (path : bytes) : bytes :=
  let rest := drop (zlen (r_pat r)) path in
  if ends_with SLASH (r_url r) then r_url r ++ rest else r_url r ++ SLASH :: rest.

Definition spec_match (t : table) (path0 : bytes) : outcome :=
  let path := canonical_path path0 in
  if ends_with SLASH path then NotFound else
  match find (has_key path) t with
  | Some r => Found r
  | None =>
      match find (is_longest t path) t with
      | None => NotFound
      | Some r => Found {| r_pat := path; r_url := spec_url r path; r_keep := r_keep r |}
      end
  end.

(* ---- histories ---- *)
Inductive rop :=
| RSave (r : route) | RDel (pat : bytes) | RMatch (path : bytes) | RGet (pat : bytes) | RAll.

Inductive rout :=
| OUnit | OMatch (o : outcome) | OGet (o : option route) | OAll (t : table).

Definition rstep (url_ok : bytes -> bool) (t : table) (o : rop) : table * rout :=
  match o with
  | RSave r => (save url_ok t r, OUnit)
  | RDel p => (del t p, OUnit)
  | RMatch p => (t, OMatch (match_go t p))
  | RGet p => (t, OGet (get t p))
  | RAll => (t, OAll t)
  end.

Fixpoint rrun (url_ok : bytes -> bool) (t : table) (ops : list rop) : table * list rout :=
  match ops with
  | [] => (t, [])
  | o :: ops' =>
      let '(t1, out) := rstep url_ok t o in
      let '(t2, outs) := rrun url_ok t1 ops' in
      (t2, out :: outs)
  end.

(* abstract specification of the table: a finite map as a function *)
Definition amap := bytes -> option (bytes * bool).
Definition aempty : amap := fun _ => None.
Definition aupd (m : amap) (k : bytes) (v : option (bytes * bool)) : amap :=
  fun k' => if bytes_eqb k k' then v else m k'.
Definition astep (url_ok : bytes -> bool) (m : amap) (o : rop) : amap :=
  match o with
  | RSave r => if url_ok (r_url r) then aupd m (canonical_path (r_pat r)) (Some (r_url r, r_keep r)) else m
  | RDel p => aupd m (canonical_path p) None
  | _ => m
  end.
Definition abs (t : table) : amap :=
  fun k => match lookup t k with Some r => Some (r_url r, r_keep r) | None => None end.

Definition route_eqb (a b : route) : bool :=
  bytes_eqb (r_pat a) (r_pat b) && bytes_eqb (r_url a) (r_url b) && Bool.eqb (r_keep a) (r_keep b).
Definition outcome_eqb (a b : outcome) : bool :=
  match a, b with
  | Found x, Found y => route_eqb x y
  | NotFound, NotFound => true
  | Panic, Panic => true
  | _, _ => false
  end.

(* keys are unique and canonical: the invariant of every reachable table *)
Fixpoint uniq_keys (t : table) : bool :=
  match t with
  | [] => true
  | r :: t' => negb (existsb (has_key (r_pat r)) t') && uniq_keys t'
  end.
Definition urls_nonempty (t : table) : bool :=
  forallb (fun r => match r_url r with [] => false | _ => true end) t.

Fixpoint list_eqb_route (a b : table) : bool :=
  match a, b with
  | [], [] => true
  | x :: a', y :: b' => route_eqb x y && list_eqb_route a' b'
  | _, _ => false
  end.

(* oracle applied to the implementation's answers: for every Match in the
   history the answer equals [spec_match] on the table the operations built
   (computed by the specification-level fold), and Get/All agree with it. *)
Fixpoint ok_hist (url_ok : bytes -> bool) (t : table) (ops : list rop) (outs : list rout) : bool :=
  match ops, outs with
  | [], [] => true
  | o :: ops', out :: outs' =>
      let t1 := fst (rstep url_ok t o) in
      (match o, out with
       | RMatch p, OMatch got => outcome_eqb got (spec_match t p)
       | RGet p, OGet got =>
           match got, lookup t (canonical_path p) with
           | Some a, Some b => route_eqb a b
           | None, None => true
           | _, _ => false
           end
       | RAll, OAll got => list_eqb_route got t
       | RSave _, OUnit => true
       | RDel _, OUnit => true
       | _, _ => false
       end) && ok_hist url_ok t1 ops' outs'
  | _, _ => false
  end.
