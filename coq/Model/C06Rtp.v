(* C06 — common vocabulary of the RTP depacketiser models: packets as the
   depacketisers see them (sequence number, RTP timestamp, marker, payload =
   Data[PayloadOffset:]), the frames handed to writeFrame, step results with an
   explicit Panic outcome, 16-bit sequence arithmetic, loss masks and the
   fragment chunking used by the independent packetisers.  No proofs here. *)
From Coq Require Import ZArith List Bool.
From V Require Import Bytes.
Import ListNotations.
Open Scope Z_scope.

Record packet := mkP { p_seq : Z; p_ts : Z; p_mark : bool; p_pl : bytes }.

(* a unit handed to writeFrame: the RTP timestamp of the packet that completed it + payload *)
Record uframe := mkU { u_ts : Z; u_pl : bytes }.

Inductive res :=
| ROk (fs : list uframe)        (* err == nil; frames written, in order *)
| RErr (fs : list uframe)       (* an error was returned after writing fs *)
| RPanic.                       (* Go would panic (index / slice out of range) *)

Definition res_frames (r : res) : list uframe :=
  match r with ROk f => f | RErr f => f | RPanic => [] end.
Definition res_cons (f : list uframe) (r : res) : res :=
  match r with ROk fs => ROk (f ++ fs) | RErr fs => RErr (f ++ fs) | RPanic => RPanic end.
Definition is_rpanic (r : res) : bool := match r with RPanic => true | _ => false end.

(* uint16 arithmetic on sequence numbers *)
Definition seq_at (seq0 k : Z) : Z := (seq0 + k) mod 65536.
Definition seq_prev (s : Z) : Z := (s - 1) mod 65536.      (* packet.SequenceNumber-1 *)
(* uint32 RTP timestamp *)
Definition ts32 (t : Z) : Z := t mod 4294967296.

(* loss pattern: mask(i) = true iff packet i survives *)
Fixpoint select {A} (mask : list bool) (l : list A) : list A :=
  match mask, l with
  | b :: m, x :: r => if b then x :: select m r else select m r
  | _, _ => []
  end.
Definition all_true (m : list bool) : bool := forallb (fun b => b) m.

(* arbitrary rearrangement (loss, duplication, reordering): indices into l *)
Fixpoint pick {A} (ix : list nat) (l : list A) : list A :=
  match ix with
  | [] => []
  | i :: r => match nth_error l i with Some x => x :: pick r l | None => pick r l end
  end.

(* split a fragmented unit's body: one chunk per size, the rest in a final chunk *)
Fixpoint chunk_by (sizes : list Z) (b : bytes) : list bytes :=
  match sizes with
  | [] => [b]
  | s :: r => take s b :: chunk_by r (drop s b)
  end.

(* equality of frames *)
Definition uframe_eqb (a b : uframe) : bool := Z.eqb (u_ts a) (u_ts b) && bytes_eqb (u_pl a) (u_pl b).
