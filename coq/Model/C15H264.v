(* C15 — H.264 sequence parameter set.
   [std_h264_sps]  : ITU-T H.264 7.3.2.1.1 (seq_parameter_set_data), 7.3.2.1.1.1
                     (scaling_list), E.1.1 (vui_parameters), E.1.2 (hrd_parameters)
                     with the value ranges of 7.4.2.1.1 / E.2.1 / Table A-1.
   [go_h264_sps]   : av/codec/h264/sps.go RawSPS.Decode as repaired (D27, D28).
   [spec_*]        : the standard's derived values (7-13 .. 7-19, E-? frame cropping rectangle).
   [go_*]          : RawSPS.Width/Height/FrameRate/IsFixedFrameRate.
   No proofs here. *)
From Coq Require Import ZArith List Bool.
From V Require Import C15BitFmt C15Ebsp.
Import ListNotations.
Open Scope Z_scope.

(* ------------------------------------------------------------ field ids *)
Definition k_forbidden := K 1 0.
Definition k_nal_ref_idc := K 2 0.
Definition k_nal_type := K 3 0.
Definition k_profile := K 4 0.
Definition k_cs (i : Z) := K 5 i.
Definition k_reserved2 := K 6 0.
Definition k_level := K 7 0.
Definition k_sps_id := K 8 0.
Definition k_chroma := K 9 0.
Definition k_sep_plane := K 10 0.
Definition k_bd_luma := K 11 0.
Definition k_bd_chroma := K 12 0.
Definition k_qpprime := K 13 0.
Definition k_scaling_matrix := K 14 0.
Definition k_scaling_list_present (i : Z) := K 15 i.
Definition k_delta_scale (i j : Z) := K 16 (i * 64 + j).
Definition k_log2_max_frame_num := K 17 0.
Definition k_poc_type := K 18 0.
Definition k_log2_max_poc_lsb := K 19 0.
Definition k_delta_pic_order_always_zero := K 20 0.
Definition k_offset_non_ref := K 21 0.
Definition k_offset_top_bottom := K 22 0.
Definition k_num_ref_in_cycle := K 23 0.
Definition k_offset_ref_frame (i : Z) := K 24 i.
Definition k_max_num_ref_frames := K 25 0.
Definition k_gaps := K 26 0.
Definition k_width_mbs := K 27 0.
Definition k_height_map_units := K 28 0.
Definition k_frame_mbs_only := K 29 0.
Definition k_mbaff := K 30 0.
Definition k_direct8x8 := K 31 0.
Definition k_cropping := K 32 0.
Definition k_crop_left := K 33 0.
Definition k_crop_right := K 34 0.
Definition k_crop_top := K 35 0.
Definition k_crop_bottom := K 36 0.
Definition k_vui_present := K 37 0.
(* VUI *)
Definition k_aspect_present := K 40 0.
Definition k_aspect_idc := K 41 0.
Definition k_sar_w := K 42 0.
Definition k_sar_h := K 43 0.
Definition k_overscan_present := K 44 0.
Definition k_overscan_appropriate := K 45 0.
Definition k_video_signal_present := K 46 0.
Definition k_video_format := K 47 0.
Definition k_full_range := K 48 0.
Definition k_colour_desc_present := K 49 0.
Definition k_colour_primaries := K 50 0.
Definition k_transfer := K 51 0.
Definition k_matrix := K 52 0.
Definition k_chroma_loc_present := K 53 0.
Definition k_chroma_loc_top := K 54 0.
Definition k_chroma_loc_bottom := K 55 0.
Definition k_timing_present := K 56 0.
Definition k_num_units_in_tick := K 57 0.
Definition k_time_scale := K 58 0.
Definition k_fixed_frame_rate := K 59 0.
Definition k_nal_hrd_present := K 60 0.
Definition k_vcl_hrd_present := K 61 0.
Definition k_low_delay_hrd := K 62 0.
Definition k_pic_struct_present := K 63 0.
Definition k_bitstream_restriction := K 64 0.
Definition k_mv_over_pic_boundaries := K 65 0.
Definition k_max_bytes_per_pic_denom := K 66 0.
Definition k_max_bits_per_mb_denom := K 67 0.
Definition k_log2_max_mv_h := K 68 0.
Definition k_log2_max_mv_v := K 69 0.
Definition k_max_num_reorder := K 70 0.
Definition k_max_dec_frame_buffering := K 71 0.
(* HRD: h = 0 (NAL) / 1 (VCL) *)
Definition k_cpb_cnt (h : Z) := K 80 h.
Definition k_bit_rate_scale (h : Z) := K 81 h.
Definition k_cpb_size_scale (h : Z) := K 82 h.
Definition k_bit_rate_value (h i : Z) := K 83 (h * 256 + i).
Definition k_cpb_size_value (h i : Z) := K 84 (h * 256 + i).
Definition k_cbr (h i : Z) := K 85 (h * 256 + i).
Definition k_initial_cpb_len (h : Z) := K 86 h.
Definition k_cpb_removal_len (h : Z) := K 87 h.
Definition k_dpb_output_len (h : Z) := K 88 h.
Definition k_time_offset_len (h : Z) := K 89 h.
(* auxiliary variable of the scaling-list process *)
Definition k_next_scale := K 1000 0.

Definition is (k v : Z) (a : env) : bool := get a k =? v.
Definition isnt (k v : Z) (a : env) : bool := negb (get a k =? v).

(* ------------------------------------------------------------ the standard *)
Definition S31 : Z := 2 ^ 31 - 1.

(* 7.3.2.1.1: profiles that carry the chroma / bit-depth / scaling-matrix fields *)
Definition std_high_profile (a : env) : bool :=
  let p := get a k_profile in
  (p =? 100) || (p =? 110) || (p =? 122) || (p =? 244) || (p =? 44) || (p =? 83) ||
  (p =? 86) || (p =? 118) || (p =? 128) || (p =? 138) || (p =? 139) || (p =? 134) || (p =? 135).

(* guard: profiles whose SPS the decoder is meant to read (MVC stereo / depth /
   multi-resolution profiles travel in subset SPS NAL units the decoder rejects);
   183 is not a profile of the standard (FFmpeg-internal) *)
Definition supported_profile (a : env) : bool :=
  let p := get a k_profile in
  negb ((p =? 128) || (p =? 138) || (p =? 139) || (p =? 134) || (p =? 135) || (p =? 183)).

(* 7.3.2.1.1.1 scaling_list: lastScale = nextScale as long as nextScale <> 0, so
   one variable is kept; reading stops for good once nextScale = 0 *)
Definition std_scaling_list (i size : Z) : fmt :=
  Set_ k_next_scale (fun _ => 8) ;;
  Repeat (fun _ => size) (fun j =>
    When (isnt k_next_scale 0)
      (SE (k_delta_scale i j) (-128) 127 32 ;;
       Set_ k_next_scale (fun a => (get a k_next_scale + get a (k_delta_scale i j) + 256) mod 256))).

Definition std_hrd (h : Z) : fmt :=
  UE (k_cpb_cnt h) 31 32 ;;
  U 4 8 (k_bit_rate_scale h) ;; U 4 8 (k_cpb_size_scale h) ;;
  Repeat (fun a => get a (k_cpb_cnt h) + 1) (fun i =>
    Assert (fun _ => i <? 32) ;;       (* SchedSelIdx <= cpb_cnt_minus1 <= 31 *)
    UE (k_bit_rate_value h i) UE_MAX 32 ;; UE (k_cpb_size_value h i) UE_MAX 32 ;; Flag (k_cbr h i)) ;;
  U 5 8 (k_initial_cpb_len h) ;; U 5 8 (k_cpb_removal_len h) ;;
  U 5 8 (k_dpb_output_len h) ;; U 5 8 (k_time_offset_len h).

Definition std_vui : fmt :=
  Flag k_aspect_present ;;
  When (is k_aspect_present 1)
    (U 8 8 k_aspect_idc ;;
     When (is k_aspect_idc 255) (U 16 16 k_sar_w ;; U 16 16 k_sar_h)) ;;
  Flag k_overscan_present ;;
  When (is k_overscan_present 1) (Flag k_overscan_appropriate) ;;
  Flag k_video_signal_present ;;
  When (is k_video_signal_present 1)
    (U 3 8 k_video_format ;; Flag k_full_range ;; Flag k_colour_desc_present ;;
     When (is k_colour_desc_present 1)
       (U 8 8 k_colour_primaries ;; U 8 8 k_transfer ;; U 8 8 k_matrix)) ;;
  Flag k_chroma_loc_present ;;
  When (is k_chroma_loc_present 1) (UE k_chroma_loc_top 5 32 ;; UE k_chroma_loc_bottom 5 32) ;;
  Flag k_timing_present ;;
  When (is k_timing_present 1)
    (U 32 32 k_num_units_in_tick ;; U 32 32 k_time_scale ;; Flag k_fixed_frame_rate) ;;
  Flag k_nal_hrd_present ;;
  When (is k_nal_hrd_present 1) (std_hrd 0) ;;
  Flag k_vcl_hrd_present ;;
  When (is k_vcl_hrd_present 1) (std_hrd 1) ;;
  When (fun a => is k_nal_hrd_present 1 a || is k_vcl_hrd_present 1 a) (Flag k_low_delay_hrd) ;;
  Flag k_pic_struct_present ;;
  Flag k_bitstream_restriction ;;
  When (is k_bitstream_restriction 1)
    (Flag k_mv_over_pic_boundaries ;;
     UE k_max_bytes_per_pic_denom 16 32 ;; UE k_max_bits_per_mb_denom 16 32 ;;
     UE k_log2_max_mv_h 16 32 ;; UE k_log2_max_mv_v 16 32 ;;
     UE k_max_num_reorder 16 32 ;; UE k_max_dec_frame_buffering 16 32).

(* derived variables of 7.4.2.1.1 *)
Definition chroma_array_type (a : env) : Z :=
  if get a k_sep_plane =? 1 then 0 else get a k_chroma.
Definition sub_width_c (a : env) : Z :=
  let c := get a k_chroma in if (c =? 1) || (c =? 2) then 2 else 1.
Definition sub_height_c (a : env) : Z :=
  if get a k_chroma =? 1 then 2 else 1.
Definition crop_unit_x (a : env) : Z :=
  if chroma_array_type a =? 0 then 1 else sub_width_c a.
Definition crop_unit_y (a : env) : Z :=
  if chroma_array_type a =? 0 then 2 - get a k_frame_mbs_only
  else sub_height_c a * (2 - get a k_frame_mbs_only).
Definition pic_width_samples (a : env) : Z := (get a k_width_mbs + 1) * 16.
Definition frame_height_samples (a : env) : Z :=
  (2 - get a k_frame_mbs_only) * (get a k_height_map_units + 1) * 16.

(* 7.4.2.1.1: the cropping rectangle is not empty *)
Definition crop_ok (a : env) : bool :=
  (crop_unit_x a * (get a k_crop_left + get a k_crop_right) <? pic_width_samples a) &&
  (crop_unit_y a * (get a k_crop_top + get a k_crop_bottom) <? frame_height_samples a).

Definition std_h264_sps : fmt :=
  Flag k_forbidden ;; Assert (is k_forbidden 0) ;;
  U 2 8 k_nal_ref_idc ;; U 5 8 k_nal_type ;; Assert (is k_nal_type 7) ;;
  U 8 8 k_profile ;;
  Flag (k_cs 0) ;; Flag (k_cs 1) ;; Flag (k_cs 2) ;; Flag (k_cs 3) ;; Flag (k_cs 4) ;; Flag (k_cs 5) ;;
  U 2 8 k_reserved2 ;;
  U 8 8 k_level ;;
  UE k_sps_id 31 32 ;;
  (Assert supported_profile ;;
   If std_high_profile
     (UE k_chroma 3 32 ;;
      When (is k_chroma 3) (Flag k_sep_plane) ;;
      UE k_bd_luma 6 32 ;; UE k_bd_chroma 6 32 ;;
      Flag k_qpprime ;;
      Flag k_scaling_matrix ;;
      When (is k_scaling_matrix 1)
        (Repeat (fun a => if isnt k_chroma 3 a then 8 else 12) (fun i =>
           Flag (k_scaling_list_present i) ;;
           When (is (k_scaling_list_present i) 1)
             (If (fun _ => i <? 6) (std_scaling_list i 16) (std_scaling_list i 64)))))
     (Set_ k_chroma (fun _ => 1))) ;;
  UE k_log2_max_frame_num 12 32 ;;
  UE k_poc_type 2 32 ;;
  If (is k_poc_type 0)
    (UE k_log2_max_poc_lsb 12 32)
    (When (is k_poc_type 1)
       (Flag k_delta_pic_order_always_zero ;;
        SE k_offset_non_ref (- S31) S31 32 ;;
        SE k_offset_top_bottom (- S31) S31 32 ;;
        UE k_num_ref_in_cycle 255 32 ;;
        Repeat (fun a => get a k_num_ref_in_cycle) (fun i =>
          SE (k_offset_ref_frame i) (- S31) S31 32))) ;;
  UE k_max_num_ref_frames 16 32 ;;
  Flag k_gaps ;;
  UE k_width_mbs 1054 32 ;;          (* Table A-1: PicWidthInMbs <= Sqrt(8 * 139264) *)
  UE k_height_map_units 1054 32 ;;
  Flag k_frame_mbs_only ;;
  When (is k_frame_mbs_only 0) (Flag k_mbaff) ;;
  Flag k_direct8x8 ;;
  Flag k_cropping ;;
  When (is k_cropping 1)
    (UE k_crop_left 16880 32 ;; UE k_crop_right 16880 32 ;;
     UE k_crop_top 16880 32 ;; UE k_crop_bottom 16880 32) ;;
  Assert crop_ok ;;
  Flag k_vui_present ;;
  When (is k_vui_present 1) std_vui.

(* the standard's derived values *)
Definition spec_width (a : env) : Z :=
  pic_width_samples a - crop_unit_x a * (get a k_crop_left + get a k_crop_right).
Definition spec_height (a : env) : Z :=
  frame_height_samples a - crop_unit_y a * (get a k_crop_top + get a k_crop_bottom).
(* E.2.1: with fixed_frame_rate_flag the frame period is 2 * num_units_in_tick / time_scale;
   (0,1) = no timing information *)
Definition spec_fps (a : env) : Z * Z :=
  if (get a k_timing_present =? 1) && (0 <? get a k_num_units_in_tick)
  then (get a k_time_scale, 2 * get a k_num_units_in_tick) else (0, 1).
Definition spec_fixed (a : env) : bool := get a k_fixed_frame_rate =? 1.

(* ------------------------------------------------------------ the Go decoder *)
Definition go_high_profile (a : env) : bool :=
  let p := get a k_profile in
  (p =? 100) || (p =? 110) || (p =? 122) || (p =? 244) || (p =? 44) || (p =? 83) ||
  (p =? 86) || (p =? 118).

(* scanList: scale = (scale + delta + 256) % 256; break when scale == 0 *)
Definition go_scan_list (i size : Z) : fmt :=
  Set_ k_next_scale (fun _ => 8) ;;
  Repeat (fun _ => size) (fun j =>
    When (isnt k_next_scale 0)
      (SE (k_delta_scale i j) (- S31) S31 8 ;;
       Set_ k_next_scale (fun a => (get a k_next_scale + get a (k_delta_scale i j) + 256) mod 256))).

(* RawHRD.decode; the arrays have MaxCpbCnt = 32 entries: a larger count ends in
   an index-out-of-range panic that Decode turns into an error *)
Definition go_hrd (h : Z) : fmt :=
  UE (k_cpb_cnt h) UE_MAX 8 ;;
  U 4 8 (k_bit_rate_scale h) ;; U 4 8 (k_cpb_size_scale h) ;;
  Repeat (fun a => get a (k_cpb_cnt h) + 1) (fun i =>
    Assert (fun _ => i <? 32) ;;
    UE (k_bit_rate_value h i) UE_MAX 32 ;; UE (k_cpb_size_value h i) UE_MAX 32 ;; Flag (k_cbr h i)) ;;
  U 5 8 (k_initial_cpb_len h) ;; U 5 8 (k_cpb_removal_len h) ;;
  U 5 8 (k_dpb_output_len h) ;; U 5 8 (k_time_offset_len h).

Definition go_vui : fmt :=
  Flag k_aspect_present ;;
  When (is k_aspect_present 1)
    (U 8 8 k_aspect_idc ;;
     When (is k_aspect_idc 255) (U 16 16 k_sar_w ;; U 16 16 k_sar_h)) ;;
  Flag k_overscan_present ;;
  When (is k_overscan_present 1) (Flag k_overscan_appropriate) ;;
  Flag k_video_signal_present ;;
  When (is k_video_signal_present 1)
    (U 3 8 k_video_format ;; Flag k_full_range ;; Flag k_colour_desc_present ;;
     When (is k_colour_desc_present 1)
       (U 8 8 k_colour_primaries ;; U 8 8 k_transfer ;; U 8 8 k_matrix)) ;;
  Flag k_chroma_loc_present ;;
  When (is k_chroma_loc_present 1) (UE k_chroma_loc_top UE_MAX 8 ;; UE k_chroma_loc_bottom UE_MAX 8) ;;
  Flag k_timing_present ;;
  When (is k_timing_present 1)
    (U 32 32 k_num_units_in_tick ;; U 32 32 k_time_scale ;; Flag k_fixed_frame_rate) ;;
  Flag k_nal_hrd_present ;;
  When (is k_nal_hrd_present 1) (go_hrd 0) ;;
  Flag k_vcl_hrd_present ;;
  When (is k_vcl_hrd_present 1) (go_hrd 1) ;;
  When (fun a => is k_nal_hrd_present 1 a || is k_vcl_hrd_present 1 a) (Flag k_low_delay_hrd) ;;
  Flag k_pic_struct_present ;;
  Flag k_bitstream_restriction ;;
  When (is k_bitstream_restriction 1)
    (Flag k_mv_over_pic_boundaries ;;
     UE k_max_bytes_per_pic_denom UE_MAX 8 ;; UE k_max_bits_per_mb_denom UE_MAX 8 ;;
     UE k_log2_max_mv_h UE_MAX 8 ;; UE k_log2_max_mv_v UE_MAX 8 ;;
     UE k_max_num_reorder UE_MAX 8 ;; UE k_max_dec_frame_buffering UE_MAX 8).

Definition go_h264_sps : fmt :=
  Flag k_forbidden ;;
  U 2 8 k_nal_ref_idc ;; U 5 8 k_nal_type ;; Assert (is k_nal_type 7) ;;
  U 8 8 k_profile ;;
  Flag (k_cs 0) ;; Flag (k_cs 1) ;; Flag (k_cs 2) ;; Flag (k_cs 3) ;; Flag (k_cs 4) ;; Flag (k_cs 5) ;;
  U 2 8 k_reserved2 ;;
  U 8 8 k_level ;;
  UE k_sps_id UE_MAX 8 ;;
  If go_high_profile
    (UE k_chroma UE_MAX 8 ;;
     When (is k_chroma 3) (Flag k_sep_plane) ;;
     UE k_bd_luma UE_MAX 8 ;; UE k_bd_chroma UE_MAX 8 ;;
     Flag k_qpprime ;;
     Flag k_scaling_matrix ;;
     When (is k_scaling_matrix 1)
       (Repeat (fun a => if is k_chroma 3 a then 12 else 8) (fun i =>
          Flag (k_scaling_list_present i) ;;
          When (is (k_scaling_list_present i) 1)
            (If (fun _ => i <? 6) (go_scan_list i 16) (go_scan_list i 64)))))
    (Set_ k_chroma (fun a => if is k_profile 183 a then 0 else 1)) ;;
  UE k_log2_max_frame_num UE_MAX 8 ;;
  UE k_poc_type UE_MAX 8 ;;
  If (is k_poc_type 0)
    (UE k_log2_max_poc_lsb UE_MAX 8)
    (When (is k_poc_type 1)
       (Flag k_delta_pic_order_always_zero ;;
        SE k_offset_non_ref (- S31) S31 32 ;;
        SE k_offset_top_bottom (- S31) S31 32 ;;
        UE k_num_ref_in_cycle UE_MAX 8 ;;
        Repeat (fun a => get a k_num_ref_in_cycle) (fun i =>
          SE (k_offset_ref_frame i) (- S31) S31 32))) ;;
  UE k_max_num_ref_frames UE_MAX 8 ;;
  Flag k_gaps ;;
  UE k_width_mbs UE_MAX 16 ;;
  UE k_height_map_units UE_MAX 16 ;;
  Flag k_frame_mbs_only ;;
  When (is k_frame_mbs_only 0) (Flag k_mbaff) ;;
  Flag k_direct8x8 ;;
  Flag k_cropping ;;
  When (is k_cropping 1)
    (UE k_crop_left UE_MAX 16 ;; UE k_crop_right UE_MAX 16 ;;
     UE k_crop_top UE_MAX 16 ;; UE k_crop_bottom UE_MAX 16) ;;
  Flag k_vui_present ;;
  When (is k_vui_present 1) go_vui.

(* RawSPS.Width / Height as repaired (D28): int arithmetic, crop units from
   chroma_format_idc, separate_colour_plane_flag and frame_mbs_only_flag *)
Definition go_crop_unit_x (a : env) : Z :=
  if (get a k_sep_plane =? 0) && ((get a k_chroma =? 1) || (get a k_chroma =? 2)) then 2 else 1.
Definition go_crop_unit_y (a : env) : Z :=
  (if (get a k_sep_plane =? 0) && (get a k_chroma =? 1) then 2 else 1) * (2 - get a k_frame_mbs_only).
Definition go_width (a : env) : Z :=
  (get a k_width_mbs + 1) * 16 - go_crop_unit_x a * (get a k_crop_left + get a k_crop_right).
Definition go_height (a : env) : Z :=
  (2 - get a k_frame_mbs_only) * (get a k_height_map_units + 1) * 16
  - go_crop_unit_y a * (get a k_crop_top + get a k_crop_bottom).
(* before the repair: uint16 arithmetic, crop unit 2 *)
Definition go_width_d28 (a : env) : Z :=
  ((get a k_width_mbs + 1) * 16 - get a k_crop_left * 2 - get a k_crop_right * 2) mod 65536.
Definition go_height_d28 (a : env) : Z :=
  ((2 - get a k_frame_mbs_only) * (get a k_height_map_units + 1) * 16
   - get a k_crop_top * 2 - get a k_crop_bottom * 2) mod 65536.

(* FrameRate: float64(TimeScale) / float64(NumUnitsInTick*2), the product in uint32;
   0.0 when NumUnitsInTick == 0.  Returned as the pair fed to the float division. *)
Definition go_fps (a : env) : Z * Z :=
  if get a k_num_units_in_tick =? 0 then (0, 1)
  else (get a k_time_scale, (get a k_num_units_in_tick * 2) mod 2 ^ 32).
Definition go_fixed (a : env) : bool := get a k_fixed_frame_rate =? 1.

(* observable result of a decoder: None = error *)
Definition dims := (Z * Z * (Z * Z) * bool)%type.

Definition nal_bits (data : list Z) : option bits :=
  let web := unescape_go data in
  if Z.of_nat (length web) <? 4 then None else Some (bytes_to_bits web).

Definition go_h264_decode_with (rse : bits -> option (Z * bits)) (wd ht : env -> Z) (data : list Z)
  : option dims :=
  match nal_bits data with
  | None => None
  | Some bs =>
    match parse_with rse go_h264_sps env0 bs with
    | Some (a, _) => Some (wd a, ht a, go_fps a, go_fixed a)
    | None => None
    end
  end.
Definition go_h264_decode := go_h264_decode_with read_se go_width go_height.

(* rbsp_trailing_bits and byte packing, then emulation prevention: the NAL unit *)
Definition nal_of_bits (b : bits) : list Z := escape (bits_to_bytes (b ++ [true])).

(* ------------------------------------------------------------ observation and oracle *)
Definition F64_INF : Z := 2047 * 2 ^ 52.
Definition F64_NAN : Z := 2047 * 2 ^ 52 + 2 ^ 51.     (* the harness canonicalises NaN *)
Definition fps_bits (p : Z * Z) : Z :=
  let '(n, d) := p in
  if d =? 0 then (if n =? 0 then F64_NAN else F64_INF) else f64_div_bits n d.

(* width, height, IEEE-754 bits of the frame rate, fixed-rate flag; None = error *)
Definition vobs := option (Z * Z * Z * bool).
Definition vobs_of (d : option dims) : vobs :=
  match d with Some (w, h, f, x) => Some (w, h, fps_bits f, x) | None => None end.
Definition vobs_eqb (x y : vobs) : bool :=
  match x, y with
  | None, None => true
  | Some (w, h, f, b), Some (w', h', f', b') => (w =? w') && (h =? h') && (f =? f') && Bool.eqb b b'
  | _, _ => false
  end.

Definition go_h264_obs (data : list Z) : vobs := vobs_of (go_h264_decode data).
Definition spec_h264_obs (a : env) : vobs :=
  Some (spec_width a, spec_height a, fps_bits (spec_fps a), spec_fixed a).

(* semantic constraints that are not ranges of a single descriptor (E.2.1): with timing
   information num_units_in_tick > 0 (the decoder doubles it in 32 bits, hence < 2^31);
   and two facts about the normalised record that the oracle re-checks on every case:
   a field that is not coded is 0, a flag is 0 or 1 *)
Definition h264_ranges (a : env) : bool :=
  (if get a k_timing_present =? 1
   then (0 <? get a k_num_units_in_tick) && (get a k_num_units_in_tick <? 2 ^ 31)
   else get a k_num_units_in_tick =? 0) &&
  ((get a k_sep_plane =? 0) || (get a k_sep_plane =? 1)).

Fixpoint zlist_eqb (x y : list Z) : bool :=
  match x, y with
  | [], [] => true
  | a :: x', b :: y' => (a =? b) && zlist_eqb x' y'
  | _, _ => false
  end.

(* a NAL unit as the decoder expects it: at least 4 bytes, no start-code prefix *)
Definition nal_shape_ok (nal : list Z) : bool :=
  match nal with b :: _ => negb (b =? 0) && (4 <=? Z.of_nat (length (unescape_go nal))) | [] => false end.

(* the oracle applied to the implementation: [rec] is the syntax record, [nal] the bytes
   handed to RawSPS.Decode, [o] what it reported *)
Definition ok_h264 (rec : env) (nal : list Z) (o : vobs) : bool :=
  match emit std_h264_sps rec env0 with
  | Some (b, a) =>
    if h264_ranges a && zlist_eqb nal (nal_of_bits b) && nal_shape_ok nal
    then vobs_eqb o (spec_h264_obs a) else true
  | None => true
  end.
