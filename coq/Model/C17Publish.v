(* C17, second half: media/global.go GetOrCreate — "the pulled stream is
   published under the requested path".

   State: the registry of live streams (media.streams: key -> stream), the
   route table of Route.v, a counter naming the streams in the order they are
   created.  One request:

     Get fast path on CanonicalPath(request)            -> the live stream
     path = CanonicalPath(request); r = route.Match(path)  (Match canonicalises
       its argument once more)                          -> nothing when no route
     first factory of psFactories whose Can(r.URL) holds -> nothing when none
     Create(r.Pattern, r.URL); the loop ends after that factory whatever Create
       answered; on success the idle-close task is started unless r.KeepAlive.

   What a factory does with its arguments is the interface contract [honest]: it
   publishes under the canonical form of localPath.  The registry key a factory
   really uses is its field [f_key]; the keys of the two factories of this
   development (NewStream-based, service/rtsp NewPullClient) are modelled below
   and proved honest in Proofs/.  Whether Create succeeds (camera reachable, ...)
   is external: the field [f_ok].  No proofs in this file. *)
From Coq Require Import ZArith List Bool.
From V Require Import Bytes StrGo Route.
Import ListNotations.
Open Scope Z_scope.

(* ---- registry: media.streams ---- *)
Definition registry := list (bytes * Z).            (* key as stored, stream id *)
Definition reg_key (k : bytes) (e : bytes * Z) : bool := bytes_eqb (fst e) k.
Definition reg_get (g : registry) (k : bytes) : option Z :=
  match find (reg_key k) g with Some e => Some (snd e) | None => None end.
Definition reg_del (g : registry) (k : bytes) : registry :=
  filter (fun e => negb (reg_key k e)) g.
(* media.Regist: Swap under s.path; the replaced stream is closed and gone *)
Definition reg_put (g : registry) (k : bytes) (id : Z) : registry := (k, id) :: reg_del g k.

(* media.Get *)
Definition media_get (g : registry) (p : bytes) : option Z := reg_get g (canonical_path p).
(* NewStream(path) + Regist: the key is the canonical form of the path handed over *)
Definition publish (g : registry) (p : bytes) (id : Z) : registry := reg_put g (canonical_path p) id.

(* ---- pull factories ---- *)
Record factory := {
  f_can : bytes -> bool;              (* Can(remoteURL) *)
  f_ok : bytes -> bytes -> bool;      (* Create(localPath, remoteURL) succeeds — external *)
  f_real : bool;                      (* a network factory: a camera sees the URL it is asked for *)
  f_key : bytes -> bytes -> bytes     (* the registry key under which Create(localPath, remoteURL) publishes *)
}.

(* the contract of the interface: a factory publishes under its localPath argument
   (in the registry's canonical form) and nothing else *)
Definition honest (f : factory) : Prop := forall lp url, f_key f lp url = canonical_path lp.

(* the keys the two kinds of factory of this development publish under:
   - a factory that hands localPath to media.NewStream (NewStream canonicalises, Regist stores under s.path);
   - service/rtsp NewPullClient: path := CanonicalPath(localPath); if path == "" { path = CanonicalPath(url.Path) }
     else only validated (url.Parse("rtsp://localhost"+path), result dropped); NewStream(path). [url_path] is
     url.Parse(remoteURL).Path, external. *)
Definition newstream_key (lp url : bytes) : bytes := canonical_path lp.
Definition pull_client_path (url_path : bytes -> bytes) (lp url : bytes) : bytes :=
  match canonical_path lp with
  | [] => canonical_path (url_path url)
  | path => path
  end.
Definition rtsp_key (url_path : bytes -> bytes) (lp url : bytes) : bytes :=
  canonical_path (pull_client_path url_path lp url).

Fixpoint first_can (fs : list factory) (url : bytes) (i : nat) : option (nat * factory) :=
  match fs with
  | [] => None
  | f :: fs' => if f_can f url then Some (i, f) else first_can fs' url (S i)
  end.

Inductive goc :=
| GExisting (sid : Z)                                         (* fast path: the live stream *)
| GCreated (lp url : bytes) (fi : nat) (keep : bool)          (* Create(lp, url) by factory fi succeeded *)
| GFailed (lp url : bytes) (fi : nat)                         (* Create(lp, url) by factory fi failed: nil *)
| GNone                                                       (* no route / no factory: nil *)
| GPanic.                                                     (* route with empty URL *)

(* the code as it is *)
Definition get_or_create (g : registry) (t : table) (fs : list factory) (p : bytes) : goc :=
  match media_get g p with
  | Some sid => GExisting sid
  | None =>
      let path := canonical_path p in
      match match_go t path with
      | Panic => GPanic
      | NotFound => GNone
      | Found r =>
          match first_can fs (r_url r) 0 with
          | None => GNone
          | Some (i, f) =>
              if f_ok f (r_pat r) (r_url r)
              then GCreated (r_pat r) (r_url r) i (r_keep r)
              else GFailed (r_pat r) (r_url r) i
          end
      end
  end.

(* ---- specification, from the property text ----
   a live stream under the canonical path wins; otherwise the route table's
   answer (spec_match: exact, else longest directory, one-slash join) decides
   the URL, the stream is published under the canonical requested path, and the
   first factory that accepts the URL pulls it. *)
Definition spec_goc (g : registry) (t : table) (fs : list factory) (p : bytes) : goc :=
  let cp := canonical_path p in
  match reg_get g cp with
  | Some sid => GExisting sid
  | None =>
      match spec_match t p with
      | Panic => GPanic
      | NotFound => GNone
      | Found r =>
          match first_can fs (r_url r) 0 with
          | None => GNone
          | Some (i, f) =>
              if f_ok f cp (r_url r) then GCreated cp (r_url r) i (r_keep r) else GFailed cp (r_url r) i
          end
      end
  end.

(* GetOrCreate canonicalises for the registry once and for the route twice
   (Match canonicalises its argument again).  The two keys agree because
   CanonicalPath is idempotent — it was not before /repo fix 1c2de2b
   ("/a /b/.." -> "/a " -> "/a"); Proofs: req_stable_all, from
   CanonProofs.canonical_path_idem. *)
Definition req_stable (p : bytes) : bool :=
  bytes_eqb (canonical_path (canonical_path p)) (canonical_path p).

(* ---- histories ---- *)
Record pstate := { ps_reg : registry; ps_tbl : table; ps_next : Z }.

Inductive pop :=
| PSave (r : route) | PDel (pat : bytes)          (* route table *)
| PPublish (p : bytes)                            (* a publisher: Regist(NewStream(p)) *)
| PClose (p : bytes)                              (* Unregist(Get(p)) *)
| PReq (p : bytes)                                (* GetOrCreate(p) *)
| PGet (p : bytes)                                (* Get(p) *)
| PAll.                                           (* route.All() *)

Inductive pout :=
| POUnit
| POId (id : Z)
| POOpt (o : option Z)
| POReq (o : goc) (sid : option Z) (seen : list bytes) (reg : registry)
    (* outcome, the stream returned, URLs a camera was asked for, the whole registry afterwards *)
| POAll (t : table).

(* the stream a request returns, and what the camera saw *)
Definition goc_sid (next : Z) (o : goc) : option Z :=
  match o with GExisting s => Some s | GCreated _ _ _ _ => Some next | _ => None end.
Definition goc_seen (fs : list factory) (o : goc) : list bytes :=
  match o with
  | GCreated _ url fi _ =>
      match nth_error fs fi with Some f => if f_real f then [url] else [] | None => [] end
  | _ => []
  end.

(* effect of a request on the registry: the factory that created the stream publishes it.
   [keyfn]: under which key — the code: the factory's own [f_key]; the specification: the
   canonical form of the localPath it was handed, i.e. the canonical requested path *)
Definition key_code (fs : list factory) (fi : nat) (lp url : bytes) : bytes :=
  match nth_error fs fi with Some f => f_key f lp url | None => canonical_path lp end.
Definition key_spec (fs : list factory) (fi : nat) (lp url : bytes) : bytes := canonical_path lp.

Definition after_req (keyfn : list factory -> nat -> bytes -> bytes -> bytes) (fs : list factory)
    (st : pstate) (o : goc) : pstate :=
  match o with
  | GCreated lp url fi _ =>
      {| ps_reg := reg_put (ps_reg st) (keyfn fs fi lp url) (ps_next st); ps_tbl := ps_tbl st; ps_next := ps_next st + 1 |}
  | _ => st
  end.

Definition pstep_with (goc_fn : registry -> table -> list factory -> bytes -> goc)
    (keyfn : list factory -> nat -> bytes -> bytes -> bytes)
    (url_ok : bytes -> bool) (fs : list factory) (st : pstate) (o : pop) : pstate * pout :=
  match o with
  | PSave r => ({| ps_reg := ps_reg st; ps_tbl := save url_ok (ps_tbl st) r; ps_next := ps_next st |}, POUnit)
  | PDel p => ({| ps_reg := ps_reg st; ps_tbl := del (ps_tbl st) p; ps_next := ps_next st |}, POUnit)
  | PPublish p =>
      ({| ps_reg := publish (ps_reg st) p (ps_next st); ps_tbl := ps_tbl st; ps_next := ps_next st + 1 |},
       POId (ps_next st))
  | PClose p =>
      ({| ps_reg := reg_del (ps_reg st) (canonical_path p); ps_tbl := ps_tbl st; ps_next := ps_next st |},
       POOpt (media_get (ps_reg st) p))
  | PReq p =>
      let o := goc_fn (ps_reg st) (ps_tbl st) fs p in
      let st1 := after_req keyfn fs st o in
      (st1, POReq o (goc_sid (ps_next st) o) (goc_seen fs o) (ps_reg st1))
  | PGet p => (st, POOpt (media_get (ps_reg st) p))
  | PAll => (st, POAll (ps_tbl st))
  end.

Definition pstep := pstep_with get_or_create key_code.    (* the code, with the factories as they are *)
Definition pstep_spec := pstep_with spec_goc key_spec.    (* the specification *)

Fixpoint prun_with (step : pstate -> pop -> pstate * pout) (st : pstate) (ops : list pop) : pstate * list pout :=
  match ops with
  | [] => (st, [])
  | o :: ops' =>
      let '(st1, out) := step st o in
      let '(st2, outs) := prun_with step st1 ops' in
      (st2, out :: outs)
  end.
Definition prun url_ok fs := prun_with (pstep url_ok fs).

(* the route operations of a history, lookups and registry traffic erased *)
Fixpoint route_ops (ops : list pop) : list rop :=
  match ops with
  | [] => []
  | PSave r :: ops' => RSave r :: route_ops ops'
  | PDel p :: ops' => RDel p :: route_ops ops'
  | _ :: ops' => route_ops ops'
  end.

(* ---- boolean oracle applied to the implementation's answers ---- *)
Definition goc_eqb (a b : goc) : bool :=
  match a, b with
  | GExisting x, GExisting y => x =? y
  | GCreated l u i k, GCreated l' u' i' k' =>
      bytes_eqb l l' && bytes_eqb u u' && Nat.eqb i i' && Bool.eqb k k'
  | GFailed l u i, GFailed l' u' i' => bytes_eqb l l' && bytes_eqb u u' && Nat.eqb i i'
  | GNone, GNone => true
  | GPanic, GPanic => true
  | _, _ => false
  end.
Definition optz_eqb (a b : option Z) : bool :=
  match a, b with Some x, Some y => x =? y | None, None => true | _, _ => false end.
Fixpoint lbytes_eqb (a b : list bytes) : bool :=
  match a, b with
  | [], [] => true
  | x :: a', y :: b' => bytes_eqb x y && lbytes_eqb a' b'
  | _, _ => false
  end.
Fixpoint reg_eqb (a b : registry) : bool :=
  match a, b with
  | [], [] => true
  | (k, i) :: a', (k', i') :: b' => bytes_eqb k k' && (i =? i') && reg_eqb a' b'
  | _, _ => false
  end.
Definition pout_eqb (a b : pout) : bool :=
  match a, b with
  | POUnit, POUnit => true
  | POId x, POId y => x =? y
  | POOpt x, POOpt y => optz_eqb x y
  | POReq o s n g, POReq o' s' n' g' => goc_eqb o o' && optz_eqb s s' && lbytes_eqb n n' && reg_eqb g g'
  | POAll t, POAll t' => list_eqb_route t t'
  | _, _ => false
  end.

(* every answer of the history equals what the specification-level step says,
   the state being advanced by the specification *)
Fixpoint ok_phist (url_ok : bytes -> bool) (fs : list factory) (st : pstate)
    (ops : list pop) (outs : list pout) : bool :=
  match ops, outs with
  | [], [] => true
  | o :: ops', out :: outs' =>
      let '(st1, want) := pstep_spec url_ok fs st o in
      pout_eqb out want && ok_phist url_ok fs st1 ops' outs'
  | _, _ => false
  end.

Definition pop_wf (url_ok : bytes -> bool) (o : pop) : bool :=
  match o with
  | PSave r => match r_url r with [] => negb (url_ok []) | _ => true end
  | _ => true
  end.

Definition pinv (st : pstate) : bool := uniq_keys (ps_tbl st) && urls_nonempty (ps_tbl st).
Definition pinit : pstate := {| ps_reg := []; ps_tbl := []; ps_next := 0 |}.
