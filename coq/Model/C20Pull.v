(* C20: the on-demand pull (service/rtsp/pull_client.go, pull_stream_factory.go, media/global.go
   GetOrCreate) against a camera that answers from a script.  Executable model + the boolean
   specification the check applies to the implementation.  NO proofs here.

   A script is a list of reply kinds.  Item 0 answers the connect (anything but [ROk] = refused),
   item n+1 answers the n-th request the camera reads.  After an accepted PLAY the remaining items
   are play events ([ROk] = an interleaved RTP packet, a 401/4xx/5xx kind = an unsolicited RTSP
   response, which the client ignores; every other kind ends the connection).  An exhausted script
   means the camera closes the connection ([REof]), so every prefix of a script is a script. *)
From Coq Require Import ZArith List Bool.
Import ListNotations.
Open Scope Z_scope.

Inductive reply :=
| ROk | RBasic | RDigest | RErr4 | RErr5 | RMalformed | RSilence | RReset | REof | RAuthOther.
Definition script := list reply.

Inductive meth := MOptions | MDescribe | MSetup | MPlay.
(* Authorization header of a request: none, Basic or Digest; the flag = the password used is the
   hex MD5 of the route URL's password instead of the password itself *)
Inductive authk := ANone | ABasic (md5 : bool) | ADigest (md5 : bool).
Record req := { q_meth : meth; q_auth : authk; q_sess : bool }.

(* what the route and the camera's SDP look like *)
Record cfg := {
  c_user : bool;      (* the route URL carries user:password *)
  c_video : bool;     (* SDP has a video media with a control attribute *)
  c_audio : bool;     (* SDP has an audio media with a control attribute *)
  c_sdp_bad : bool;   (* the DESCRIBE body is not usable (unparsable, or a media line without RTP formats) *)
  c_routed : bool     (* the requested path has a route *)
}.

Definition is_ok (r : reply) : bool := match r with ROk => true | _ => false end.
(* no RTSP response can be read: garbage, nothing until the time-out, RST, FIN *)
Definition transport_fail (r : reply) : bool :=
  match r with RMalformed | RSilence | RReset | REof => true | _ => false end.
Definition is401 (r : reply) : bool :=
  match r with RBasic | RDigest | RAuthOther => true | _ => false end.

Definition pop (s : script) : reply * script :=
  match s with [] => (REof, []) | r :: s' => (r, s') end.

(* ---------- PullClient fields that steer the requests ---------- *)
Record cst := {
  a_realm : bool;   (* c.realm != "" *)
  a_nonce : bool;   (* c.nonce != "" *)
  a_md5 : bool;     (* c.md5password != "" *)
  a_sess : bool     (* c.rsession = the camera's session id *)
}.
Definition cst0 : cst := {| a_realm := false; a_nonce := false; a_md5 := false; a_sess := false |}.

(* newRequest *)
Definition cur_auth (st : cst) : authk :=
  if a_realm st then (if a_nonce st then ADigest (a_md5 st) else ABasic (a_md5 st)) else ANone.

(* the scripted camera puts a Session header exactly into its 200 replies to SETUP and PLAY *)
Definition sess_after (m : meth) (r : reply) : bool :=
  match m with MSetup | MPlay => is_ok r | _ => false end.
Definition set_sess (st : cst) (b : bool) : cst :=
  {| a_realm := a_realm st; a_nonce := a_nonce st; a_md5 := a_md5 st; a_sess := b |}.
Definition set_md5 (st : cst) : cst :=
  {| a_realm := a_realm st; a_nonce := a_nonce st; a_md5 := true; a_sess := a_sess st |}.

(* a 401: Digest stores realm and nonce, Basic stores the realm (and keeps a nonce seen earlier);
   the repeated request carries the challenged scheme; anything else gives up *)
Definition challenge (st : cst) (r : reply) (md5 : bool) : option (cst * authk) :=
  match r with
  | RDigest => Some ({| a_realm := true; a_nonce := true; a_md5 := a_md5 st; a_sess := a_sess st |}, ADigest md5)
  | RBasic => Some ({| a_realm := true; a_nonce := a_nonce st; a_md5 := a_md5 st; a_sess := a_sess st |}, ABasic md5)
  | _ => None
  end.

Definition mkreq (m : meth) (a : authk) (s : bool) : req := {| q_meth := m; q_auth := a; q_sess := s |}.

(* requestWithResponse: the request; on a 401 the same request again with the password; on a second
   401 once more with the MD5 of the password (the code is this recursion unrolled: [fuel] = retries
   left, 2 at the start).  Result: (accepted?, fields, requests sent, script left) *)
Fixpoint attempt (fuel : nat) (user : bool) (m : meth) (st : cst) (a : authk) (se : bool) (s : script)
  : bool * cst * list req * script :=
  let q := mkreq m a se in
  let '(r, s1) := pop s in
  if transport_fail r then (false, st, [q], s1) else
  let st1 := set_sess st (sess_after m r) in
  match fuel with
  | S f =>
      if is401 r then
        if negb user then (false, st1, [q], s1) else       (* "require username and password" *)
        let md5 := (f =? 0)%nat in
        let st2 := if md5 then set_md5 st1 else st1 in
        match challenge st2 r md5 with
        | None => (false, st2, [q], s1)
        | Some (st3, a2) =>
            let '(ok, st4, qs, s2) := attempt f user m st3 a2 se s1 in (ok, st4, q :: qs, s2)
        end
      else (is_ok r, st1, [q], s1)
  | O => (is_ok r, st1, [q], s1)                            (* status must be 200..300 *)
  end.
Definition rwr (user : bool) (m : meth) (st : cst) (s : script) : bool * cst * list req * script :=
  attempt 2 user m st (cur_auth st) (a_sess st) s.

(* Open after the connect: the requests in order, stopping at the first failure *)
Fixpoint run_plan (user : bool) (ms : list meth) (st : cst) (s : script) : bool * cst * list req * script :=
  match ms with
  | [] => (true, st, [], s)
  | m :: ms' =>
      let '(ok, st1, q, s1) := rwr user m st s in
      if ok then
        let '(ok2, st2, q2, s2) := run_plan user ms' st1 s1 in (ok2, st2, q ++ q2, s2)
      else (false, st1, q, s1)
  end.

Definition setups (c : cfg) : list meth :=
  (if c_video c then [MSetup] else []) ++ (if c_audio c then [MSetup] else []).
Definition plan (c : cfg) : list meth :=
  MOptions :: MDescribe :: (if c_sdp_bad c then [] else setups c ++ [MPlay]).

(* ---------- resources ---------- *)
Record world := {
  w_reg : bool;      (* a stream is registered under the path *)
  w_cnt : Z;         (* stats.RtspConns active *)
  w_conns : Z;       (* open connections to the camera *)
  w_readers : Z      (* goroutines of pull clients *)
}.
Definition w0 : world := {| w_reg := false; w_cnt := 0; w_conns := 0; w_readers := 0 |}.
Definition world_eqb (a b : world) : bool :=
  Bool.eqb (w_reg a) (w_reg b) && (w_cnt a =? w_cnt b) && (w_conns a =? w_conns b) && (w_readers a =? w_readers b).

Inductive outcome := Failed | Playing.

(* playStream started: registered, counted, reading *)
Definition started (w : world) : world :=
  {| w_reg := true; w_cnt := w_cnt w + 1; w_conns := w_conns w + 1; w_readers := w_readers w + 1 |}.
(* playStream ended: counter released, unregistered and closed, disconnected *)
Definition ended (w : world) : world :=
  {| w_reg := false; w_cnt := w_cnt w - 1; w_conns := w_conns w - 1; w_readers := w_readers w - 1 |}.

(* media.GetOrCreate(path): (answer, requests the camera read, world, script left, a pull client runs) *)
Definition request (c : cfg) (w : world) (s : script) : outcome * list req * world * script * bool :=
  if negb (c_routed c) then (Failed, [], w, s, false) else
  if w_reg w then (Playing, [], w, s, false) else
  let '(r0, s0) := pop s in
  if negb (is_ok r0) then (Failed, [], w, s0, false) else
  let '(ok, _, q, s1) := run_plan (c_user c) (plan c) cst0 s0 in
  if ok && negb (c_sdp_bad c) then (Playing, q, started w, s1, true)
  else (Failed, q, w, s1, false).

(* the play loop: packets relayed before the connection ends *)
Fixpoint play (s : script) : Z :=
  match s with
  | [] => 0
  | ROk :: s' => 1 + play s'
  | RBasic :: s' | RDigest :: s' | RAuthOther :: s' | RErr4 :: s' | RErr5 :: s' => play s'
  | _ => 0
  end.

Record robs := {
  o_out : outcome;
  o_reqs : list req;
  o_mid : world;          (* when the requester has its answer *)
  o_again : bool;         (* a second request while playing got the same stream without a pull *)
  o_delivered : Z;
  o_final : world;        (* after the script has ended *)
  o_closed : bool         (* the consumer attached while playing was closed *)
}.

Definition round (c : cfg) (w : world) (s : script) : robs * world :=
  let '(out, q, w1, s1, runs) := request c w s in
  let again := match request c w1 [] with
               | (Playing, [], w2, _, false) => world_eqb w2 w1
               | _ => false
               end in
  let w2 := if runs then ended w1 else w1 in
  ({| o_out := out; o_reqs := q; o_mid := w1;
      o_again := match out with Playing => again | Failed => true end;
      o_delivered := if runs then play s1 else 0;
      o_final := w2; o_closed := true |}, w2).

Fixpoint rounds (c : cfg) (w : world) (ss : list script) : list robs :=
  match ss with
  | [] => []
  | s :: ss' => let '(o, w') := round c w s in o :: rounds c w' ss'
  end.

(* ---------- the specification, from the property text (independent of rwr) ---------- *)
Definition meth_rank (m : meth) : nat :=
  match m with MOptions => 0 | MDescribe => 1 | MSetup => 2 | MPlay => 3 end.
Definition meth_eqb (a b : meth) : bool := Nat.eqb (meth_rank a) (meth_rank b).

(* protocol order: OPTIONS first, then never backwards *)
Fixpoint nondecreasing (l : list meth) : bool :=
  match l with
  | a :: ((b :: _) as t) => (meth_rank a <=? meth_rank b)%nat && nondecreasing t
  | _ => true
  end.
Definition order_ok (l : list meth) : bool :=
  match l with MOptions :: _ => nondecreasing l | _ => false end.

Definition count_meth (m : meth) (l : list meth) : nat := length (filter (meth_eqb m) l).

(* the requests paired with the replies the camera gave them ([s] = the script after the connect item) *)
Fixpoint replies (s : script) (qs : list req) : list (req * reply) :=
  match qs with
  | [] => []
  | q :: qs' => let '(r, s') := pop s in (q, r) :: replies s' qs'
  end.

Definition auth_none (a : authk) : bool := match a with ANone => true | _ => false end.
Definition auth_basic (a : authk) : bool := match a with ABasic _ => true | _ => false end.
Definition auth_digest (a : authk) : bool := match a with ADigest _ => true | _ => false end.
Definition auth_md5 (a : authk) : bool := match a with ABasic b | ADigest b => b | ANone => false end.
Definition is_challenge (r : reply) : bool := match r with RBasic | RDigest => true | _ => false end.

(* credentials used as challenged: walking the requests with the replies they received,
   [k_seen] = a Basic or Digest challenge has been received so far, [k_prev] = the previous request's
   method and reply, [k_chal] = challenges so far;
   - no Authorization before the first challenge,
   - the request after a Basic (Digest) challenge is the same method with Basic (Digest) credentials,
   - the MD5 variant of the password only after two challenges *)
Record cstate := { k_seen : bool; k_prev : option (meth * reply); k_chal : nat }.
Definition k0 : cstate := {| k_seen := false; k_prev := None; k_chal := 0 |}.
Definition prev_check (p : option (meth * reply)) (q : req) : bool :=
  match p with
  | Some (m, RBasic) => auth_basic (q_auth q) && meth_eqb m (q_meth q)
  | Some (m, RDigest) => auth_digest (q_auth q) && meth_eqb m (q_meth q)
  | _ => true
  end.
Definition cred_step (k : cstate) (p : req * reply) : option cstate :=
  let a := q_auth (fst p) in
  if (k_seen k || auth_none a) && prev_check (k_prev k) (fst p) &&
     (negb (auth_md5 a) || (2 <=? k_chal k)%nat)
  then Some {| k_seen := k_seen k || is_challenge (snd p); k_prev := Some (q_meth (fst p), snd p);
               k_chal := if is_challenge (snd p) then S (k_chal k) else k_chal k |}
  else None.
Fixpoint cred_run (k : cstate) (ps : list (req * reply)) : option cstate :=
  match ps with
  | [] => Some k
  | p :: ps' => match cred_step k p with Some k' => cred_run k' ps' | None => None end
  end.
Definition creds_ok (s : script) (qs : list req) : bool :=
  match cred_run k0 (replies s qs) with Some _ => true | None => false end.

(* the camera accepted PLAY: the last request is PLAY and its reply is 200 *)
Definition last_req_accepted (s : script) (qs : list req) : bool :=
  match rev (replies s qs) with
  | (q, r) :: _ => meth_eqb (q_meth q) MPlay && is_ok r
  | [] => false
  end.

Definition playing_world (w : world) : world := started w.

(* what the property demands of one round that starts with nothing registered in world [w] *)
Definition ok_round (c : cfg) (w : world) (s : script) (o : robs) : bool :=
  let ms := map q_meth (o_reqs o) in
  (* the final state: nothing registered, no connection, counter restored, no goroutine, consumers closed *)
  world_eqb (o_final o) w && o_closed o &&
  (* credentials *)
  creds_ok (tl s) (o_reqs o) &&
  (c_user c || forallb (fun q => auth_none (q_auth q)) (o_reqs o)) &&
  match o_out o with
  | Playing =>
      c_routed c && negb (c_sdp_bad c) &&
      world_eqb (o_mid o) (playing_world w) && o_again o &&
      order_ok ms && last_req_accepted (tl s) (o_reqs o) &&
      (* DESCRIBE, SETUP per track, PLAY were performed *)
      (1 <=? count_meth MDescribe ms)%nat &&
      ((if c_video c then 1 else 0) + (if c_audio c then 1 else 0) <=? count_meth MSetup ms)%nat &&
      (* PLAY carries the camera's session when there was a SETUP *)
      (match rev (o_reqs o) with q :: _ => q_sess q || negb (c_video c || c_audio c) | [] => false end) &&
      (o_delivered o =? play (skipn (length (o_reqs o)) (tl s)))
  | Failed =>
      world_eqb (o_mid o) w && (o_delivered o =? 0) &&
      (* not-found is the answer only when the camera did not accept PLAY *)
      negb (last_req_accepted (tl s) (o_reqs o)) &&
      (match o_reqs o with [] => true | _ => order_ok ms end)
  end.

(* every round starts from what the previous one left; the property demands that this is [w0] again *)
Fixpoint ok_rounds (c : cfg) (ss : list script) (os : list robs) : bool :=
  match ss, os with
  | [], [] => true
  | s :: ss', o :: os' => ok_round c w0 s o && ok_rounds c ss' os'
  | _, _ => false
  end.

(* ---------- n simultaneous first requests (all find nothing registered, all pull) ---------- *)
(* observed once every replaced pull client has noticed (its stream refuses the next packet), and
   after the cameras have closed *)
Record cobs := {
  co_answers : bool;    (* every requester got a stream with the requested path *)
  co_live : Z;          (* 0 / 1 / 2 = none, exactly one, several of the returned streams are live *)
  co_registered : Z;    (* media.Count streams *)
  co_member : bool;     (* the registered stream is one of the returned ones *)
  co_world : world;     (* connections, counter, goroutines while the winner plays *)
  co_final : world
}.
(* a pull client whose stream was replaced ends: its Unregist leaves the successor registered *)
Definition ended_replaced (w : world) : world :=
  {| w_reg := w_reg w; w_cnt := w_cnt w - 1; w_conns := w_conns w - 1; w_readers := w_readers w - 1 |}.
(* what the property demands: one registered live stream, one pull client, nothing left at the end *)
Definition ok_conc (o : cobs) : bool :=
  co_answers o && (co_live o =? 1) && (co_registered o =? 1) && co_member o &&
  world_eqb (co_world o) (started w0) && world_eqb (co_final o) w0.
(* the model: the race leaves one winner (Properties/C20 pull_concurrent_one_registered); the
   losers end as in [ended]; the winner plays on *)
Definition conc_model (n : nat) : cobs :=
  {| co_answers := true; co_live := 1; co_registered := 1; co_member := true;
     co_world := Nat.iter (n - 1) ended_replaced (Nat.iter n started w0);
     co_final := w0 |}.
