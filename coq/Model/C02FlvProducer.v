(* C02 — the producer of the FLV key-frame flag composed with its consumer: the FLV video / audio
   packetizers and the muxer's configuration tags (model of C08, Model/C08Flv.v: [mux], [packetize],
   [is_key]) feed the FLV cache (Model/C02Classify.v: [flv_classify], [fc_add], [fc_push]).
   FlvCache restarts its GOP at a tag whose frame-type nibble says "key frame"; that nibble is
   written by the packetizer from the NAL unit type.  No proofs here
   (Proofs/C02FlvProducerProofs.v). *)
From Coq Require Import ZArith List Bool.
From V Require Import Bytes StreamLts Cache C08Flv C02Classify.
Import ListNotations.
Open Scope Z_scope.

(* kind (Model/Cache.v numbering) the FLV cache gives a tag of the muxer *)
Definition tag_kind (t : C08Flv.tag) : Z := flv_classify (C08Flv.t_type t) (C08Flv.t_data t).

(* what the frames of a stream turn into, kind by kind, after the configuration tags: a video
   frame is ONE tag, key start iff its NAL unit is an IDR (H.264 type 5) / IRAP (H.265 types
   16..21) picture; an audio frame is one plain tag when the stream has AAC; a video frame with an
   empty payload ends the muxer goroutine *)
Fixpoint frame_kinds (c : cfg) (fs : list frame) : list Z :=
  match fs with
  | [] => []
  | f :: r =>
      if f_kind f =? 0 then
        match f_data f with
        | [] => []
        | b :: _ => (if C08Flv.is_key (c_hevc c) b then 2 else 1) :: frame_kinds c r
        end
      else if f_kind f =? 1 then (if c_aac c then [1] else []) ++ frame_kinds c r
      else frame_kinds c r
  end.

(* metadata, video sequence header, audio sequence header *)
Definition config_kinds (c : cfg) : list Z := 5 :: 3 :: (if c_aac c then [4] else []).

(* a configuration with known parameter sets, for the correspondence check: the kinds and
   timestamps of the tags depend only on the codec, on whether there is AAC audio and on the
   frames ([mux_kinds], [mux_tss]), so any such configuration predicts them *)
Definition prod_cfg (hevc aac : bool) : cfg :=
  mkCfg hevc
        (if hevc then [66; 1] else [103; 66; 0; 30]) (if hevc then [68; 1] else [104; 206])
        (if hevc then [64; 1] else [])
        (if hevc then repeat 0 21 else [])
        0 0 0 0 aac (if aac then [18; 16] else []) 44100 16 2 0 [].

Definition prod_tags (hevc aac : bool) (fs : list frame) : list C08Flv.tag := mux (prod_cfg hevc aac) fs.
Definition prod_kinds (hevc aac : bool) (fs : list frame) : list Z := map tag_kind (prod_tags hevc aac fs).
Definition prod_tss (hevc aac : bool) (fs : list frame) : list Z := map C08Flv.t_ts (prod_tags hevc aac fs).

(* oracle on the observation (kinds pushed origs) of the real muxer feeding a real FlvCache with
   cache_gop on: the tags are classified as the composition predicts, they carry the predicted
   timestamps, and PushTo replays the SPECIFICATION [spec_snap] of the observed kinds with the
   timestamps of [fc_push] *)
Definition prod_ok (hevc aac : bool) (fs : list frame)
           (okinds : list Z) (opushed : list (Z * Z)) (oorigs : list Z) : bool :=
  zlist_eqb okinds (prod_kinds hevc aac fs) &&
  zlist_eqb oorigs (prod_tss hevc aac fs) &&
  zlist_eqb (map fst opushed) (map p_id (spec_snap true (map ftag_pkt (ftags_from 0 okinds oorigs)))) &&
  zlist_eqb (map snd opushed) (map C02Classify.t_ts (flv_pushed true okinds oorigs)).
