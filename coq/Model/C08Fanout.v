(* C08 — several FLV clients of one stream.  media.Stream.WriteFlvTag stores the very same *flv.Tag
   in the GOP cache (media/cache/flvcache.go) and pushes it to the queue of every attached client; each
   client's routine drains its queue into its own flv.Writer whenever it gets to run.  The tags are a
   shared store, clients hold references; a client attaching later is served from the cache (copies of
   the configuration tags restamped with the time of the cached GOP's first tag, then the GOP's tags by
   reference).  No proofs here. *)
From Coq Require Import ZArith List Bool.
From V Require Import Bytes C08Amf0 C08Flv.
Import ListNotations.
Open Scope Z_scope.

Inductive qitem : Type := QRef (i : nat) | QVal (t : tag).

Definition dummy_tag : tag := mkTag 0 0 [].
Definition resolve (store : list tag) (x : qitem) : tag :=
  match x with QRef i => nth i store dummy_tag | QVal t => t end.

(* ---- FlvCache (cacheGop = true) ---- *)
Record fcache := mkFC { fc_meta : option nat; fc_vseq : option nat; fc_aseq : option nat; fc_gop : list nat }.
Definition fc_empty : fcache := mkFC None None None [].

(* Tag.IsH2645KeyFrame *)
Definition is_keyframe (t : tag) : bool :=
  (2 <=? zlen (t_data t)) && (t_type t =? 9) &&
  let b := nth_byte (t_data t) 0 in
  ((b mod 16 =? 7) || (b mod 16 =? 12)) && (b / 16 mod 16 =? 1).

Definition cache_pack (store : list tag) (fc : fcache) (i : nat) : fcache :=
  let t := nth i store dummy_tag in
  if is_metadata t then mkFC (Some i) (fc_vseq fc) (fc_aseq fc) (fc_gop fc)
  else if is_vseq t then mkFC (fc_meta fc) (Some i) (fc_aseq fc) (fc_gop fc)
  else if is_aseq t then mkFC (fc_meta fc) (fc_vseq fc) (Some i) (fc_gop fc)
  else if is_keyframe t then mkFC (fc_meta fc) (fc_vseq fc) (fc_aseq fc) [i]
  else match fc_gop fc with
       | [] => fc
       | _ => mkFC (fc_meta fc) (fc_vseq fc) (fc_aseq fc) (fc_gop fc ++ [i])
       end.

Definition opt_copy (store : list tag) (t0 : Z) (o : option nat) : list qitem :=
  match o with Some i => [QVal (restamp t0 (nth i store dummy_tag))] | None => [] end.

(* FlvCache.PushTo: reads the first cached tag's Timestamp through the shared reference *)
Definition push_to (store : list tag) (fc : fcache) : list qitem :=
  let t0 := match fc_gop fc with i :: _ => t_ts (nth i store dummy_tag) | [] => 0 end in
  opt_copy store t0 (fc_meta fc) ++ opt_copy store t0 (fc_vseq fc) ++ opt_copy store t0 (fc_aseq fc) ++
  map QRef (fc_gop fc).

(* ---- clients ---- *)
Record fclient := mkCl { cq : list qitem; cst : wstate; cout : bytes }.

(* one WriteFlvTag of a client's routine.  The tag is read through the reference; writing does not
   change the store (returned explicitly: this is the statement the implementation must meet) *)
Definition client_write (store : list tag) (cl : fclient) : list tag * fclient :=
  match cq cl with
  | [] => (store, cl)
  | x :: q' =>
      let t := resolve store x in
      let '(st', ts) := rebase (cst cl) t in
      (store, mkCl q' st' (cout cl ++ tag_bytes t ts))
  end.

Fixpoint client_write_n (n : nat) (store : list tag) (cl : fclient) : list tag * fclient :=
  match n with
  | O => (store, cl)
  | S n' => let '(store', cl') := client_write store cl in client_write_n n' store' cl'
  end.

Inductive fev : Type :=
| EDeliver (i : nat)          (* the stream hands tag i to the cache and to every attached client *)
| EAttach                     (* a new client: served from the cache, then attached *)
| EConsume (j m : nat).       (* client j's routine runs and writes up to m queued tags *)

Record fworld := mkFW { f_store : list tag; f_cache : fcache; f_clients : list fclient }.

Fixpoint upd_client (j : nat) (n : nat) (store : list tag) (cls : list fclient) : list tag * list fclient :=
  match cls with
  | [] => (store, [])
  | c :: r =>
      match j with
      | O => let '(store', c') := client_write_n n store c in (store', c' :: r)
      | S j' => let '(store', r') := upd_client j' n store r in (store', c :: r')
      end
  end.

Definition fstep (w : fworld) (e : fev) : fworld :=
  match e with
  | EDeliver i =>
      mkFW (f_store w) (cache_pack (f_store w) (f_cache w) i)
           (map (fun c => mkCl (cq c ++ [QRef i]) (cst c) (cout c)) (f_clients w))
  | EAttach =>
      mkFW (f_store w) (f_cache w)
           (f_clients w ++ [mkCl (push_to (f_store w) (f_cache w)) w_init []])
  | EConsume j m =>
      let '(store', cls') := upd_client j m (f_store w) (f_clients w) in
      mkFW store' (f_cache w) cls'
  end.

(* at the end every routine drains its queue *)
Fixpoint drain_all (store : list tag) (cls : list fclient) : list tag * list fclient :=
  match cls with
  | [] => (store, [])
  | c :: r =>
      let '(store', c') := client_write_n (length (cq c)) store c in
      let '(store'', r') := drain_all store' r in
      (store'', c' :: r')
  end.

Definition fan_run (store : list tag) (sched : list fev) : list tag * list bytes :=
  let w := fold_left fstep sched (mkFW store fc_empty []) in
  let '(store', cls) := drain_all (f_store w) (f_clients w) in
  (store', map cout cls).

(* ---- what each client is handed, regardless of when the routines run ---- *)
Definition hstep (store : list tag) (s : fcache * list (list qitem)) (e : fev) : fcache * list (list qitem) :=
  match e with
  | EDeliver i => (cache_pack store (fst s) i, map (fun h => h ++ [QRef i]) (snd s))
  | EAttach => (fst s, snd s ++ [push_to store (fst s)])
  | EConsume _ _ => s
  end.
Definition fan_hist (store : list tag) (sched : list fev) : list (list qitem) :=
  snd (fold_left (hstep store) sched (fc_empty, [])).

(* the oracle: the tags are unchanged, and every client's body is what ONE writer produces from the
   tags that client was handed (its own time line: rebased on its own first media tag) *)
Fixpoint outs_ok (store : list tag) (hs : list (list qitem)) (os : list bytes) : bool :=
  match hs, os with
  | [], [] => true
  | h :: hs', o :: os' => bytes_eqb o (write_tags w_init (map (resolve store) h)) && outs_ok store hs' os'
  | _, _ => false
  end.
Definition tag_eqb (a b : tag) : bool :=
  (t_type a =? t_type b) && (t_ts a =? t_ts b) && bytes_eqb (t_data a) (t_data b).
Fixpoint tags_eqb (a b : list tag) : bool :=
  match a, b with
  | [], [] => true
  | x :: a', y :: b' => tag_eqb x y && tags_eqb a' b'
  | _, _ => false
  end.
Definition fan_ok (store : list tag) (sched : list fev) (after : list tag) (outs : list bytes) : bool :=
  tags_eqb after store && outs_ok store (fan_hist store sched) outs.

(* applied to what the harness observes: complete client streams (file header included) *)
Definition fan_ok_bytes (flags : Z) (store : list tag) (sched : list fev) (after : list tag) (outs : list bytes) : bool :=
  forallb (fun o => bytes_eqb (firstn 13 o) (file_header flags)) outs &&
  fan_ok store sched after (map (skipn 13) outs).
Definition fan_streams (flags : Z) (store : list tag) (sched : list fev) : list tag * list bytes :=
  let '(store', outs) := fan_run store sched in
  (store', map (fun o => file_header flags ++ o) outs).
