(* C09 — av/format/mpegts/frame.go (prepareAvcHeader, prepareAacHeader),
   h264_packetizer.go, aac_packetizer.go: from a source frame (one NAL unit or
   one raw AAC frame, time stamps in ns) to the mpegts.Frame handed to the
   writer.  Plus the specification of the video elementary stream written from
   the property text, and an independent Annex-B splitter.  No proofs here. *)
From Coq Require Import ZArith List Bool.
From V Require Import Bytes C09Adts.
Import ListNotations.
Open Scope Z_scope.

Record tsframe := {
  f_pid : Z; f_sid : Z; f_dts : Z; f_pts : Z;
  f_hdr : bytes; f_pay : bytes; f_key : bool }.

Definition TS_VIDEO_PID := 256.
Definition TS_AUDIO_PID := 257.
Definition TS_AUDIO_AAC := 0xc0.
Definition TS_VIDEO_AVC := 0xe0.

Definition AUD_NAL : bytes := [0; 0; 0; 1; 0x09; 0xf0].
Definition SC4 : bytes := [0; 0; 0; 1].
Definition SC3 : bytes := [0; 0; 1].

Definition nal_type (pay : bytes) : option Z :=
  match pay with b :: _ => Some (Z.land b 0x1f) | [] => None end.

(* in-band parameter sets and delimiters: SPS 7, PPS 8, AUD 9 *)
Definition is_paramset_type (t : Z) : bool := (7 <=? t) && (t <=? 9).

(* Frame.prepareAvcHeader, frame.Header initially empty; [t] = Payload[0] & 0x1f.
   For t in 7..9 the Go function returns before the start code is appended. *)
Definition prepare_avc_header (sps pps : bytes) (t : Z) : bytes :=
  let h := if (t =? 1) || (t =? 5) || (t =? 6) then AUD_NAL else [] in
  let h := if t =? 5 then
             let h := match sps with [] => h | _ => h ++ SC4 ++ sps end in
             match pps with [] => h | _ => h ++ SC4 ++ pps end
           else h in
  if is_paramset_type t then h
  else match h with
       | [] => h ++ SC4         (* first AnnexB prefix is long *)
       | _ => h ++ SC3
       end.

(* a source frame as pushed into the muxer *)
Record cframe := { c_video : bool; c_dts : Z; c_pts : Z; c_pay : bytes }.

(* frame.Dts * 90000 / int64(time.Second); exact for 0 <= ns*90000 < 2^63 (guard [ns_ok]) *)
Definition to_90k (ns : Z) : Z := Z.quot (ns * 90000) 1000000000.
Definition ns_ok (ns : Z) : bool := (0 <=? ns) && (ns * 90000 <? 2 ^ 63).

(* The video meta (a pointer to codec.VideoMeta) is shared state: the RTP depacketizer stores parameter
   sets it learns in-band into it while the muxer is already running.  An event either
   changes the meta's Sps/Pps or pushes a source frame; [annotate] pairs every frame with
   the parameter sets that are CURRENT when it is packetized. *)
Inductive mevent := EvSet (sps pps : bytes) | EvFrame (c : cframe).
Record aframe := { a_sps : bytes; a_pps : bytes; a_c : cframe }.
Fixpoint annotate (sps pps : bytes) (evs : list mevent) : list aframe :=
  match evs with
  | [] => []
  | EvSet s p :: r => annotate s p r
  | EvFrame c :: r => {| a_sps := sps; a_pps := pps; a_c := c |} :: annotate sps pps r
  end.

Inductive pk_outcome :=
| PkFrame (f : tsframe)     (* WriteMpegtsFrame is called with f *)
| PkSkip                    (* nothing is handed to the writer *)
| PkPanic.                  (* index out of range on an empty video payload *)

(* h264Packetizer.Packetize (after the D18 repair: in-band SPS/PPS/AUD are not forwarded) *)
Definition packetize_h264 (sps pps : bytes) (c : cframe) : pk_outcome :=
  match nal_type (c_pay c) with
  | None => PkPanic
  | Some t =>
      if is_paramset_type t then PkSkip else
      PkFrame {| f_pid := TS_VIDEO_PID; f_sid := TS_VIDEO_AVC;
                 f_dts := to_90k (c_dts c); f_pts := to_90k (c_pts c);
                 f_hdr := prepare_avc_header sps pps t; f_pay := c_pay c;
                 f_key := t =? 5 |}
  end.

(* the same before the repair: the unit is written behind an empty header *)
Definition packetize_h264_prefix (sps pps : bytes) (c : cframe) : pk_outcome :=
  match nal_type (c_pay c) with
  | None => PkPanic
  | Some t =>
      PkFrame {| f_pid := TS_VIDEO_PID; f_sid := TS_VIDEO_AVC;
                 f_dts := to_90k (c_dts c); f_pts := to_90k (c_pts c);
                 f_hdr := prepare_avc_header sps pps t; f_pay := c_pay c;
                 f_key := t =? 5 |}
  end.

(* aacPacketizer.Packetize: Dts = Pts; header = ADTS header for len(Payload) *)
Definition packetize_aac (a : asc) (c : cframe) : pk_outcome :=
  let pts := to_90k (c_pts c) in
  PkFrame {| f_pid := TS_AUDIO_PID; f_sid := TS_AUDIO_AAC; f_dts := pts; f_pts := pts;
             f_hdr := to_adts_header a (zlen (c_pay c)); f_pay := c_pay c; f_key := false |}.

Definition packetize (sps pps : bytes) (a : asc) (c : cframe) : pk_outcome :=
  if c_video c then packetize_h264 sps pps c else packetize_aac a c.

(* ------------------------------------------------------------------ *)
(* specification of the video access data, from the property text:
   the source NAL unit preceded by an access-unit delimiter and, on key frames,
   by the stream's SPS and PPS; every unit behind an Annex-B start code, the
   first one of a PES behind the four-byte form.  The delimiter is demanded for
   the unit types that carry picture data or SEI (1, 5, 6) — the other types
   (end of sequence, filler, ...) are not the start of an access unit. *)
Definition AUD_UNIT : bytes := [0x09; 0xf0].

Definition spec_video_units (sps pps nal : bytes) (t : Z) : list bytes :=
  (if (t =? 1) || (t =? 5) || (t =? 6) then [AUD_UNIT] else []) ++
  (if t =? 5 then (match sps with [] => [] | _ => [sps] end) ++
                  (match pps with [] => [] | _ => [pps] end) else []) ++
  [nal].

(* Annex-B byte stream of a unit list: 4-byte start code before the first unit
   and before parameter sets, 3-byte before a following slice *)
Fixpoint annexb_encode_tail (units : list bytes) : bytes :=
  match units with
  | [] => []
  | [u] => SC3 ++ u
  | u :: rest => SC4 ++ u ++ annexb_encode_tail rest
  end.
Definition annexb_encode (units : list bytes) : bytes :=
  match units with
  | [] => []
  | [u] => SC4 ++ u
  | u :: rest => SC4 ++ u ++ annexb_encode_tail rest
  end.

Definition spec_video_es (sps pps nal : bytes) (t : Z) : bytes :=
  annexb_encode (spec_video_units sps pps nal t).

