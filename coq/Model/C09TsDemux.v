(* C09 — an independent MPEG-TS / PES demultiplexer (ISO/IEC 13818-1), CRC-32/MPEG,
   PAT/PMT section parser and the boolean oracle that is applied both to the
   model's and to the implementation's bytes.  Written in plain arithmetic
   (division, remainder, multiplication) from the standard, not from the Go code.  No proofs here. *)
From Coq Require Import ZArith List Bool.
From V Require Import Bytes C09Adts C09TsFrame.
Import ListNotations.
Open Scope Z_scope.

(* ---------------- transport packets ---------------- *)
Definition N188 : nat := Z.to_nat 188.

(* cut into 188-byte packets; None if the length is not a multiple of 188 *)
Fixpoint chunks188 (fuel : nat) (s : bytes) : option (list bytes) :=
  match s with
  | [] => Some []
  | _ =>
      match fuel with
      | O => None
      | S k =>
          let p := firstn N188 s in
          if Nat.eqb (length p) N188 then
            match chunks188 k (skipn N188 s) with
            | Some l => Some (p :: l)
            | None => None
            end
          else None
      end
  end.

Record tspkt := {
  k_pusi : bool; k_pid : Z; k_cc : Z;
  k_rai : bool;            (* random_access_indicator *)
  k_pcr : option Z;        (* program_clock_reference_base (33 bits); the extension must be 0 *)
  k_aflen : Z;             (* adaptation_field_length, -1 when there is no adaptation field *)
  k_payload : bytes }.

Definition pcr_base (b : bytes) : Z :=
  match b with
  | [b0; b1; b2; b3; b4; b5] => b0 * 33554432 + b1 * 131072 + b2 * 512 + b3 * 2 + b4 / 128
  | _ => 0
  end.
Definition pcr_ext (b : bytes) : Z :=
  match b with
  | [b0; b1; b2; b3; b4; b5] => (b4 mod 2) * 256 + b5
  | _ => 0
  end.

(* the adaptation field and what follows it; [rest] = the 184 bytes after the header.
   Length within the packet and consistent with the flags (only random access /
   PCR are understood; the other flags must be clear). *)
Definition parse_af (pusi : bool) (pid cc : Z) (rest : bytes) : option tspkt :=
  match rest with
  | l :: af =>
      if negb ((0 <=? l) && (l <=? 182)) then None else
      let field := take l af in
      let payload := drop l af in
      match field with
      | [] => Some {| k_pusi := pusi; k_pid := pid; k_cc := cc; k_rai := false; k_pcr := None;
                      k_aflen := l; k_payload := payload |}
      | fl :: body =>
          (* discontinuity 128, random access 64, priority 32, PCR 16, OPCR 8, splice 4, private 2, extension 1 *)
          if negb (fl mod 16 =? 0) then None else
          let rai := (fl / 64) mod 2 =? 1 in
          if (fl / 16) mod 2 =? 1 then
            if l <? 7 then None else
            let pb := firstn 6 body in
            if negb (pcr_ext pb =? 0) then None else
            Some {| k_pusi := pusi; k_pid := pid; k_cc := cc; k_rai := rai;
                    k_pcr := Some (pcr_base pb); k_aflen := l; k_payload := payload |}
          else
            Some {| k_pusi := pusi; k_pid := pid; k_cc := cc; k_rai := rai; k_pcr := None;
                    k_aflen := l; k_payload := payload |}
      end
  | [] => None
  end.

(* one 188-byte packet: sync byte, no transport error, not scrambled, payload present *)
Definition parse_packet (p : bytes) : option tspkt :=
  if negb (Nat.eqb (length p) N188) then None else
  match p with
  | b0 :: b1 :: b2 :: b3 :: rest =>
      if negb ((b0 =? 0x47) && (b1 / 128 =? 0) && (b3 / 64 =? 0)) then None else
      let pusi := (b1 / 64) mod 2 =? 1 in
      let pid := (b1 mod 32) * 256 + b2 in
      let afc := (b3 / 16) mod 4 in
      let cc := b3 mod 16 in
      if afc =? 1 then
        Some {| k_pusi := pusi; k_pid := pid; k_cc := cc; k_rai := false; k_pcr := None;
                k_aflen := -1; k_payload := rest |}
      else if afc =? 3 then parse_af pusi pid cc rest
      else None
  | _ => None
  end.

Fixpoint parse_packets (ps : list bytes) : option (list tspkt) :=
  match ps with
  | [] => Some []
  | p :: ps' =>
      match parse_packet p, parse_packets ps' with
      | Some k, Some l => Some (k :: l)
      | _, _ => None
      end
  end.

Definition ts_parse (s : bytes) : option (list tspkt) :=
  match chunks188 (length s) s with
  | Some ps => parse_packets ps
  | None => None
  end.

(* ---------------- payload units per PID ---------------- *)
Record tsunit := {
  u_pid : Z; u_rai : bool; u_pcr : option Z;
  u_cc : Z;                (* counter of the most recent packet of the unit *)
  u_chunks : list bytes }. (* payloads of its packets, newest first *)
Definition u_data (u : tsunit) : bytes := concat (rev (u_chunks u)).

(* counter of the most recent packet with this PID; [acc] is newest first *)
Fixpoint last_cc (pid : Z) (acc : list tsunit) : option Z :=
  match acc with
  | [] => None
  | u :: acc' => if u_pid u =? pid then Some (u_cc u) else last_cc pid acc'
  end.

Definition cc_follows (prev : option Z) (cc : Z) : bool :=
  match prev with None => true | Some c => cc =? (c + 1) mod 16 end.

(* append a continuation packet to the newest unit of its PID *)
Fixpoint unit_append (k : tspkt) (acc : list tsunit) : option (list tsunit) :=
  match acc with
  | [] => None          (* continuation without a start *)
  | u :: acc' =>
      if u_pid u =? k_pid k then
        Some ({| u_pid := u_pid u; u_rai := u_rai u; u_pcr := u_pcr u; u_cc := k_cc k;
                 u_chunks := k_payload k :: u_chunks u |} :: acc')
      else match unit_append k acc' with
           | Some r => Some (u :: r)
           | None => None
           end
  end.

(* a packet with payload_unit_start_indicator opens a unit; the others extend the
   newest unit of the same PID; per PID the counter must be (previous+1) mod 16 *)
Fixpoint demux_go (pkts : list tspkt) (acc : list tsunit) : option (list tsunit) :=
  match pkts with
  | [] => Some (rev acc)
  | k :: rest =>
      if negb (cc_follows (last_cc (k_pid k) acc) (k_cc k)) then None else
      if k_pusi k then
        demux_go rest ({| u_pid := k_pid k; u_rai := k_rai k; u_pcr := k_pcr k; u_cc := k_cc k;
                          u_chunks := [k_payload k] |} :: acc)
      else
        (* adaptation-field signalling is only meaningful on the first packet of a unit here *)
        match unit_append k acc with
        | Some acc' => demux_go rest acc'
        | None => None
        end
  end.

Definition ts_units (s : bytes) : option (list tsunit) :=
  match ts_parse s with
  | Some pkts => demux_go pkts []
  | None => None
  end.

(* ---------------- PES ---------------- *)
Record pes := { p_sid : Z; p_pts : Z; p_dts : option Z; p_payload : bytes }.

(* 33-bit time stamp in five bytes: 4-bit prefix, 3 bits, marker, 15 bits, marker, 15 bits, marker *)
Definition ts33_decode (prefix : Z) (b : bytes) : option Z :=
  match b with
  | [b0; b1; b2; b3; b4] =>
      if (b0 / 16 =? prefix) && (b0 mod 2 =? 1) && (b2 mod 2 =? 1) && (b4 mod 2 =? 1) then
        Some (((b0 / 2) mod 8) * 1073741824 + ((b1 * 256 + b2) / 2) * 32768 + (b3 * 256 + b4) / 2)
      else None
  | _ => None
  end.

Definition is_video_sid (sid : Z) : bool := (0xe0 <=? sid) && (sid <=? 0xef).

Definition parse_pes (d : bytes) : option pes :=
  match d with
  | c0 :: c1 :: c2 :: sid :: l1 :: l2 :: f1 :: f2 :: hl :: rest =>
      (* packet_start_code_prefix 00 00 01 *)
      if negb ((c0 =? 0) && (c1 =? 0) && (c2 =? 1)) then None else
      let plen := l1 * 256 + l2 in
      let total := zlen d - 6 in
      (* '10', not scrambled; only PTS/DTS flags understood *)
      if negb ((f1 / 64 =? 2) && ((f1 / 16) mod 4 =? 0) && (f2 mod 64 =? 0)) then None else
      if negb ((plen =? total) || ((plen =? 0) && ((65535 <? total) || is_video_sid sid))) then None else
      if negb ((0 <=? hl) && (hl <=? zlen rest)) then None else
      let hd := take hl rest in
      let payload := drop hl rest in
      let pd := f2 / 64 in
      if pd =? 2 then
        if negb (hl =? 5) then None else
        match ts33_decode 2 hd with
        | Some pts => Some {| p_sid := sid; p_pts := pts; p_dts := None; p_payload := payload |}
        | None => None
        end
      else if pd =? 3 then
        if negb (hl =? 10) then None else
        match ts33_decode 3 (firstn 5 hd), ts33_decode 1 (skipn 5 hd) with
        | Some pts, Some dts => Some {| p_sid := sid; p_pts := pts; p_dts := Some dts; p_payload := payload |}
        | _, _ => None
        end
      else None
  | _ => None
  end.

(* ---------------- CRC-32/MPEG-2 and PSI ---------------- *)
Fixpoint crc_bits (n : nat) (crc : Z) : Z :=
  match n with
  | O => crc
  | S k =>
      let c2 := (crc * 2) mod 4294967296 in
      crc_bits k (if crc / 2147483648 =? 1 then Z.lxor c2 0x04C11DB7 else c2)
  end.
Definition crc_byte (crc b : Z) : Z := crc_bits 8 (Z.lxor crc (b * 16777216)).
Definition crc32_mpeg (s : bytes) : Z := fold_left crc_byte s 0xFFFFFFFF.

(* a PSI section from a unit's data: pointer_field, then table_id,
   section_syntax_indicator 1, section_length; CRC over the whole section must be 0;
   returns table_id, table_id_extension and the body between the 8-byte header and the CRC *)
Definition psi_section (d : bytes) : option (Z * Z * bytes) :=
  match d with
  | ptr :: tid :: s1 :: s2 :: rest =>
      if negb ((ptr =? 0) && (s1 / 128 =? 1)) then None else
      let slen := (s1 mod 16) * 256 + s2 in
      if negb ((9 <=? slen) && (slen <=? zlen rest)) then None else
      let sec := tid :: s1 :: s2 :: take slen rest in
      if negb (crc32_mpeg sec =? 0) then None else
      if negb (forallb (Z.eqb 255) (drop slen rest)) then None else
      match take slen rest with
      | e1 :: e2 :: ver :: secn :: lastn :: body =>
          if negb ((ver mod 2 =? 1) && (secn =? 0) && (lastn =? 0)) then None else
          Some (tid, e1 * 256 + e2, take (slen - 9) body)
      | _ => None
      end
  | _ => None
  end.

(* PAT body: (program_number, PID) *)
Fixpoint pat_entries (b : bytes) : option (list (Z * Z)) :=
  match b with
  | [] => Some []
  | n1 :: n2 :: p1 :: p2 :: rest =>
      match pat_entries rest with
      | Some l => Some ((n1 * 256 + n2, (p1 mod 32) * 256 + p2) :: l)
      | None => None
      end
  | _ => None
  end.

(* PMT stream loop: (stream_type, elementary_PID); descriptors are skipped *)
Fixpoint pmt_streams (fuel : nat) (b : bytes) : option (list (Z * Z)) :=
  match b with
  | [] => Some []
  | st :: p1 :: p2 :: i1 :: i2 :: rest =>
      match fuel with
      | O => None
      | S k =>
          let il := (i1 mod 16) * 256 + i2 in
          if il <=? zlen rest then
            match pmt_streams k (drop il rest) with
            | Some l => Some ((st, (p1 mod 32) * 256 + p2) :: l)
            | None => None
            end
          else None
      end
  | _ => None
  end.

(* PMT body: PCR_PID, program_info, streams *)
Definition pmt_body (b : bytes) : option (Z * list (Z * Z)) :=
  match b with
  | c1 :: c2 :: i1 :: i2 :: rest =>
      let il := (i1 mod 16) * 256 + i2 in
      if il <=? zlen rest then
        match pmt_streams (length rest) (drop il rest) with
        | Some l => Some ((c1 mod 32) * 256 + c2, l)
        | None => None
        end
      else None
  | _ => None
  end.

Fixpoint pairs_eqb (a b : list (Z * Z)) : bool :=
  match a, b with
  | [], [] => true
  | x :: a', y :: b' => (fst x =? fst y) && (snd x =? snd y) && pairs_eqb a' b'
  | _, _ => false
  end.

(* the stream begins with a PAT naming one program whose PMT announces
   H.264 (0x1b) on PID 256 and AAC/ADTS (0x0f) on PID 257 *)
Definition psi_ok (pat pmt : tsunit) : bool :=
  (u_pid pat =? 0) &&
  match psi_section (u_data pat) with
  | Some (0, _, body) =>
      match pat_entries body with
      | Some [(prog, pmtpid)] =>
          negb (prog =? 0) && (u_pid pmt =? pmtpid) &&
          match psi_section (u_data pmt) with
          | Some (2, prog', body') =>
              (prog' =? prog) &&
              match pmt_body body' with
              | Some (pcrpid, streams) =>
                  (pcrpid =? TS_VIDEO_PID) &&
                  pairs_eqb streams [(0x1b, TS_VIDEO_PID); (0x0f, TS_AUDIO_PID)]
              | None => false
              end
          | _ => false
          end
      | _ => false
      end
  | _ => false
  end.

(* ---------------- the oracle ---------------- *)
Definition M33 : Z := 8589934592.   (* 2^33 *)

Definition optz_eqb (a b : option Z) : bool :=
  match a, b with
  | None, None => true
  | Some x, Some y => x =? y
  | _, _ => false
  end.

(* transport-level demands on the unit that carries a frame: PID, the
   random-access flag exactly on key frames, on key frames a PCR (= DTS) *)
Definition unit_flags_ok (pid dts : Z) (key : bool) (u : tsunit) : bool :=
  (u_pid u =? pid) && Bool.eqb (u_rai u) key &&
  (if key then optz_eqb (u_pcr u) (Some (dts mod M33)) else true).

(* PES-level demands: stream id, PTS, DTS only when it differs *)
Definition pes_stamps_ok (sid dts pts : Z) (p : pes) : bool :=
  (p_sid p =? sid mod 256) && (p_pts p =? pts mod M33) &&
  optz_eqb (p_dts p) (if dts =? pts then None else Some (dts mod M33)).

(* writer level: the unit carries Header ++ Payload of the frame *)
Definition unit_ok (f : tsframe) (u : tsunit) : bool :=
  unit_flags_ok (f_pid f) (f_dts f) (f_key f) u &&
  match parse_pes (u_data u) with
  | Some p => pes_stamps_ok (f_sid f) (f_dts f) (f_pts f) p &&
              bytes_eqb (p_payload p) (f_hdr f ++ f_pay f)
  | None => false
  end.

Fixpoint units_ok {A} (ok : A -> tsunit -> bool) (fs : list A) (us : list tsunit) : bool :=
  match fs, us with
  | [], [] => true
  | f :: fs', u :: us' => ok f u && units_ok ok fs' us'
  | _, _ => false
  end.

Definition has_payload (f : tsframe) : bool := match f_pay f with [] => false | _ => true end.

(* [out] = the bytes in the buffer after NewWriter and one WriteMpegtsFrame per frame *)
Definition ok_writer (fs : list tsframe) (out : bytes) : bool :=
  match ts_units out with
  | Some (pat :: pmt :: us) => psi_ok pat pmt && units_ok unit_ok (filter has_payload fs) us
  | _ => false
  end.

Definition frame_pid_ok (f : tsframe) : bool := (f_pid f =? TS_VIDEO_PID) || (f_pid f =? TS_AUDIO_PID).
Definition wf_frames (fs : list tsframe) : bool := forallb frame_pid_ok fs.

(* source level (through the packetizers): what the property says about the
   unit that carries source frame [c] *)
Definition src_unit_ok (sps pps : bytes) (a : asc) (c : cframe) (u : tsunit) : bool :=
  if c_video c then
    match nal_type (c_pay c) with
    | Some t =>
        unit_flags_ok TS_VIDEO_PID (to_90k (c_dts c)) (t =? 5) u &&
        match parse_pes (u_data u) with
        | Some p => pes_stamps_ok TS_VIDEO_AVC (to_90k (c_dts c)) (to_90k (c_pts c)) p &&
                    bytes_eqb (p_payload p) (spec_video_es sps pps (c_pay c) t)
        | None => false
        end
    | None => false
    end
  else
    unit_flags_ok TS_AUDIO_PID (to_90k (c_pts c)) false u &&
    match parse_pes (u_data u) with
    | Some p => pes_stamps_ok TS_AUDIO_AAC (to_90k (c_pts c)) (to_90k (c_pts c)) p &&
                match adts_parse (p_payload p) with
                | Some [fr] => adts_frame_eqb fr {| ad_profile := asc_obj a - 1; ad_sidx := asc_sidx a;
                                                    ad_chan := asc_chan a; ad_payload := c_pay c |}
                | _ => false
                end
    | None => false
    end.

(* source frames that must appear in the output: video units except in-band
   SPS/PPS/AUD (the stream's own are inserted), audio frames with data *)
Definition src_carried (c : cframe) : bool :=
  if c_video c then
    match nal_type (c_pay c) with Some t => negb (is_paramset_type t) | None => false end
  else match c_pay c with [] => false | _ => true end.

Definition asrc_unit_ok (a : asc) (af : aframe) (u : tsunit) : bool :=
  src_unit_ok (a_sps af) (a_pps af) a (a_c af) u.
Definition asrc_carried (af : aframe) : bool := src_carried (a_c af).

(* [afs]: the source frames, each with the parameter sets current when it was pushed *)
Definition ok_muxa (a : asc) (afs : list aframe) (out : bytes) : bool :=
  match ts_units out with
  | Some (pat :: pmt :: us) =>
      psi_ok pat pmt && units_ok (asrc_unit_ok a) (filter asrc_carried afs) us
  | _ => false
  end.

Definition ok_mux (sps pps : bytes) (a : asc) (cs : list cframe) (out : bytes) : bool :=
  ok_muxa a (annotate sps pps (map EvFrame cs)) out.

Definition wf_cframe (c : cframe) : bool :=
  ns_ok (c_pts c) &&
  if c_video c then ns_ok (c_dts c) && match c_pay c with [] => false | _ => true end
  else zlen (c_pay c) + 7 <? 8192.
Definition wf_aframes (a : asc) (afs : list aframe) : bool :=
  asc_plain a && forallb (fun af => wf_cframe (a_c af)) afs.
Definition wf_mux_ev (sps0 pps0 : bytes) (a : asc) (evs : list mevent) : bool :=
  wf_aframes a (annotate sps0 pps0 evs).
Definition wf_mux (a : asc) (cs : list cframe) : bool := asc_plain a && forallb wf_cframe cs.
