(* C10 — the disk store outlives the generator.
   In disk mode a segment is the file  <hlspath>/<murmur(path)>_<n>.ts ; the numbers restart at 1 for every new
   generation of a stream (NewSegmentGenerator), so a generation meets whatever an earlier run under the same
   path left in the directory: a generation that was closed leaves nothing, one that was abandoned (process
   killed, stream object dropped) leaves any of its files, a failed Remove leaves a file, ...
   The directory is a map number -> file; the generator acts on it through the store events [fevs] of the
   sequential model (open / write / delete).  [trunc = true] is the code as it is (os.O_TRUNC in open);
   [trunc = false] is the variant that opens without truncating: writes start at offset 0 and overwrite, the
   rest of a longer old file stays. *)
From Coq Require Import ZArith List Bool.
From V Require Import Val Bytes C10Hls.
Import ListNotations.
Open Scope Z_scope.

Inductive dfile :=
| DRaw (b : bytes)                              (* a file this generation has not touched *)
| DGen (written : list wframe) (base : bytes).  (* opened by this generation: frames written so far, over the bytes
                                                   the file had when it was opened ([] after a truncating open) *)
Definition disk := list (Z * dfile).            (* the first entry for a number counts *)

Fixpoint dget (d : disk) (n : Z) : option dfile :=
  match d with
  | [] => None
  | (m, v) :: t => if m =? n then Some v else dget t n
  end.
Definition dset (d : disk) (n : Z) (v : dfile) : disk := (n, v) :: d.
Definition ddel (d : disk) (n : Z) : disk := filter (fun p => negb (fst p =? n)) d.

(* the same stream configured for the (repaired) memory store *)
Definition set_mem (c : cfg) : cfg :=
  {| c_frag := c_frag c; c_rate := c_rate c; c_mem := true; c_copy := true; c_path := c_path c;
     c_sps := c_sps c; c_pps := c_pps c; c_pick := c_pick c |}.

Section Tsw.
  Variable tsw : list wframe -> bytes.          (* mpegts.Writer: header + packets of the frames (C09) *)

  Definition file_bytes (v : dfile) : bytes :=
    match v with DRaw b => b | DGen ws base => overlay (tsw ws) base end.

  Definition apply_fev (trunc : bool) (d : disk) (e : fev) : disk :=
    match e with
    | FOpen n =>
        let base := if trunc then [] else match dget d n with Some v => file_bytes v | None => [] end in
        dset d n (DGen [] base)
    | FWrite n w =>
        match dget d n with
        | Some (DGen ws base) => dset d n (DGen (ws ++ [w]) base)
        | _ => d
        end
    | FDelete n => ddel d n
    end.

  Definition apply_fevs (trunc : bool) (d : disk) (es : list fev) : disk := fold_left (apply_fev trunc) es d.

  (* os.Open + read to the end *)
  Definition disk_read (d : disk) (n : Z) : option bytes := option_map file_bytes (dget d n).
End Tsw.
