(* C06 — av/format/rtp/h264_depacketizer.go as a [codec] descriptor, and the
   RFC 6184 packetiser (single NAL unit, STAP-A, FU-A).  No proofs here. *)
From Coq Require Import ZArith List Bool.
From V Require Import Bytes C06Rtp C06NalDepack.
Import ListNotations.
Open Scope Z_scope.

(* Depacketize: len(payload) < 1 -> ignore; naluType := payload[0] & 0x1f;
   < 24 single, 24 STAP-A, 28 FU-A (needs indicator + FU header), else error *)
Definition k264 (pl : bytes) : kind :=
  match idx pl 0 with
  | None => KIgnore
  | Some h =>
      let t := Z.land h 31 in
      if t <? 24 then KSingle
      else if t =? 24 then KAgg
      else if t =? 28 then (if zlen pl <? 2 then KIgnore else KFu)
      else KBad
  end.

(* frame.Payload[0] = (header & 0x60) | (fuHeader & 0x1F) *)
Definition rebuild264 (pl : bytes) (fuh : Z) : bytes :=
  match idx pl 0 with
  | Some h => [Z.lor (Z.land h 96) (Z.land fuh 31)]
  | None => []
  end.

(* writeFrame: SPS/PPS recorded when missing, filler data dropped, nothing
   passes before the metadata is ready *)
Definition write264 (w : wst) (pl : bytes) : option (wst * bool) :=
  match idx pl 0 with
  | None => None
  | Some h =>
      let t := Z.land h 31 in
      if t =? 12 then Some (w, false)
      else
        let w1 := if t =? 7 then mkW (w_ready w) (w_a w) true (w_c w)
                  else if t =? 8 then mkW (w_ready w) (w_a w) (w_b w) true
                  else w in
        if w_ready w1 then Some (w1, true)
        else if w_b w1 && w_c w1 then Some (mkW true (w_a w1) (w_b w1) (w_c w1), true)
        else Some (w1, false)
  end.

Definition c264 : codec :=
  {| c_kind := k264; c_agg_off := 1; c_fu_off := 2; c_start_returns := false;
     c_rebuild := rebuild264; c_write := write264 |}.

Definition keep264 (u : bytes) : bool :=
  match u with h :: _ => negb (Z.land h 31 =? 12) | [] => true end.

(* ---- packetiser, RFC 6184 ---- *)
Definition hd0 (u : bytes) : Z := match u with h :: _ => h | [] => 0 end.

(* STAP-A NAL header: F = 0, NRI = maximum NRI of the aggregated units, type 24 *)
Definition stap_hdr (us : list bytes) : bytes :=
  [Z.lor (fold_right (fun u acc => Z.max (Z.land (hd0 u) 96) acc) 0 us) 24].

Definition b2z (b : bool) : Z := if b then 1 else 0.

(* FU indicator F|NRI|28, FU header S|E|R=0|type *)
Definition fu264_hdr (u : bytes) (s e : bool) : bytes :=
  [Z.lor (Z.land (hd0 u) 224) 28; 128 * b2z s + 64 * b2z e + Z.land (hd0 u) 31].

(* single NAL unit packet: F = 0, type 1..23 (0 is accepted by the code as well) *)
Definition single264_ok (u : bytes) : bool :=
  match u with h :: _ => (h <? 128) && (Z.land h 31 <? 24) | [] => false end.
(* fragmented: forbidden_zero_bit = 0 *)
Definition frag264_ok (u : bytes) : bool :=
  match u with h :: _ => h <? 128 | [] => false end.

Definition z264 : pkz :=
  {| z_agg_hdr := stap_hdr; z_fu_hdr := fu264_hdr; z_fu_body := @tl Z;
     z_single_ok := single264_ok; z_frag_ok := frag264_ok |}.

Definition packetize264 (seq0 : Z) (items : list item) : list packet := packetize z264 seq0 0 items.
Definition depack264 (st : gst) (ps : list packet) := grun c264 st ps.
Definition st264_init : gst := mkG [] (mkW true true true true).
