(* C07 — viewers on real transports: which packets a transport can carry and what a
   packet it cannot carry does to the viewer.  The wire formats and client-side
   readers are C01's (Model/C01Wire.v, read-only); this file adds the size limits
   (service/rtsp/session_roles.go udpConsumer / multicast_proxy.go: one datagram per
   packet; tcpConsumer, ws-rtsp, WSP: interleaved frame with a 16-bit length) and the
   consumer's reaction to a failed send.  No proofs here. *)
From Coq Require Import ZArith List Bool.
From V Require Import Val Bytes C01Wire.
Import ListNotations.
Open Scope Z_scope.

Definition UDP_MAX : Z := 65507.          (* 65535 - 20 (IPv4) - 8 (UDP): sendto fails with EMSGSIZE beyond *)
Definition FRAME_MAX : Z := 65535.        (* what an interleaved frame, hence any publisher, can deliver *)

(* carry: what reaches the viewer for one packet handed to its consumer;
   None = the transport cannot carry it (the write fails) *)
Definition carry (kind : Z) (p : pkt) : option pkt :=
  if is_datagram_kind kind
  then (if zlen (snd p) <=? UDP_MAX then Some p else None)
  else (if zlen (snd p) <=? FRAME_MAX then Some p else None).
Definition carriable (kind : Z) (p : pkt) : bool := match carry kind p with Some _ => true | None => false end.

(* the consumer: registered on the stream (open) and what it has passed on so far *)
Record viewer := mkV { v_open : bool; v_got : list pkt }.
Definition v0 : viewer := mkV true [].

(* udpConsumer.Consume / multicastProxy.Consume: a failed write is logged, nothing else *)
Definition consume (kind : Z) (v : viewer) (p : pkt) : viewer :=
  if v_open v then
    match carry kind p with
    | Some q => mkV true (v_got v ++ [q])
    | None => v
    end
  else v.

(* the variant that closes the consumer on a failed write (what tcpConsumer does for a dead
   socket; wrong for a packet that merely does not fit the transport) *)
Definition consume_close (kind : Z) (v : viewer) (p : pkt) : viewer :=
  if v_open v then
    match carry kind p with
    | Some q => mkV true (v_got v ++ [q])
    | None => mkV false (v_got v)
    end
  else v.

Definition vrun (kind : Z) (v : viewer) (ps : list pkt) : viewer := fold_left (consume kind) ps v.
Definition vrun_close (kind : Z) (v : viewer) (ps : list pkt) : viewer := fold_left (consume_close kind) ps v.

(* what the viewer is owed: every packet its transport can carry, in order *)
Definition owed (kind : Z) (ps : list pkt) : list pkt := filter (carriable kind) ps.

(* oracle for a real viewer of an RTP transport: its session is still open and it received,
   through C01's independent reader, exactly the owed packets of its subscription *)
Definition tr_client_ok (kind : Z) (chmap : Z -> Z) (pkts observed : list pkt) (ended : bool) : bool :=
  negb ended && ok_wire kind chmap (owed kind pkts) observed.
