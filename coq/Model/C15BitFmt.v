(* C15 — bit-stream format DSL.
   A format [fmt] describes a syntax table over an environment of named integer
   fields.  [parse] is the decoder (total: structural recursion; running out of
   bits or a failed [Assert] is [None] = the Go decoder's error, including the
   index-out-of-range panics that RawSPS.Decode recovers into an error).  [emit]
   is the independent encoder: it reads the field values from a source record
   [e], checks every value against the range of its descriptor and returns the
   bits together with the *normalised record* (the fields actually coded, plus
   the inferred values the [Set_] nodes assign to absent fields).
   Exp-Golomb decoding follows utils/bits/reader.go bit for bit: at most 32
   leading zeros are counted, the value wraps at 32 bits, ReadUe8/ReadUe16 and
   ReadSe8/ReadSe16 truncate.  No proofs here. *)
From Coq Require Import ZArith List Bool FMapPositive.
Import ListNotations.
Open Scope Z_scope.

(* ------------------------------------------------------------ environment *)
Definition env := PositiveMap.t Z.
Definition kp (k : Z) : positive := Z.to_pos (k + 1).
Definition get (a : env) (k : Z) : Z :=
  match PositiveMap.find (kp k) a with Some v => v | None => 0 end.
Definition set (a : env) (k v : Z) : env := PositiveMap.add (kp k) v a.
Definition env0 : env := PositiveMap.empty Z.
(* field [id], element [i].  The stride exceeds every element index a decoder can reach on
   arbitrary input (loop counts are at most 16-bit values times small constants), so keys of
   different fields never collide *)
Definition K (id i : Z) : Z := id * 4294967296 + i.

(* ------------------------------------------------------------ bits *)
Definition bits := list bool.

Fixpoint byte_bits (n : nat) (b : Z) : bits :=
  match n with
  | O => []
  | S n' => Z.testbit b (Z.of_nat n') :: byte_bits n' b
  end.
Fixpoint bytes_to_bits (s : list Z) : bits :=
  match s with [] => [] | b :: s' => byte_bits 8 b ++ bytes_to_bits s' end.

Fixpoint bits_val (bs : bits) (acc : Z) : Z :=
  match bs with [] => acc | b :: r => bits_val r (2 * acc + (if b then 1 else 0)) end.
(* pack MSB first, zero padded to a whole number of bytes *)
Definition pad8 (bs : bits) : bits :=
  bs ++ repeat false (Z.to_nat ((- Z.of_nat (length bs)) mod 8)).
Fixpoint pack (n : nat) (bs : bits) : list Z :=
  match n with
  | O => []
  | S n' => bits_val (firstn 8 bs) 0 :: pack n' (skipn 8 bs)
  end.
Definition bits_to_bytes (bs : bits) : list Z :=
  pack (Nat.div (length (pad8 bs)) 8) (pad8 bs).

(* ------------------------------------------------------------ the Go bit reader *)
(* n bits, most significant first; None = index out of range *)
Fixpoint read_u (n : nat) (bs : bits) : option (Z * bits) :=
  match n with
  | O => Some (0, bs)
  | S n' =>
    match bs with
    | [] => None
    | b :: r =>
      match read_u n' r with
      | Some (v, r') => Some ((if b then 2 ^ Z.of_nat n' else 0) + v, r')
      | None => None
      end
    end
  end.

(* readUint64(n, max): n <= 0 or n > max returns 0 and consumes nothing *)
Definition go_read (n max : Z) (bs : bits) : option (Z * bits) :=
  if (n <=? 0) || (max <? n) then Some (0, bs) else read_u (Z.to_nat n) bs.

Fixpoint drop_bits (n : nat) (bs : bits) : option bits :=
  match n with
  | O => Some bs
  | S n' => match bs with [] => None | _ :: r => drop_bits n' r end
  end.
(* Skip(n) *)
Definition go_skip (n : Z) (bs : bits) : option bits :=
  if n <=? 0 then Some bs else drop_bits (Z.to_nat n) bs.
(* Peek(n) (max 64): does not advance *)
Definition go_peek (n : Z) (bs : bits) : option Z :=
  match go_read n 64 bs with Some (v, _) => Some v | None => None end.
Definition bits_left (bs : bits) : Z := Z.of_nat (length bs).

(* ReadUe: count leading zeros while i < 32; the bit that ends the loop is consumed *)
Fixpoint ue_prefix (bs : bits) (i : Z) : option (Z * bits) :=
  match bs with
  | [] => None
  | b :: r => if negb b && (i <? 32) then ue_prefix r (i + 1) else Some (i, r)
  end.
Definition read_ue (bs : bits) : option (Z * bits) :=
  match ue_prefix bs 0 with
  | None => None
  | Some (i, r) =>
    match read_u (Z.to_nat i) r with
    | None => None
    | Some (v, r') => Some ((v + 2 ^ i - 1) mod 2 ^ 32, r')
    end
  end.

Definition se_of_ue (k : Z) : Z :=
  if Z.odd k then ((k + 1) mod 2 ^ 32) / 2 else - (k / 2).
(* ReadSe as repaired (D27) *)
Definition read_se (bs : bits) : option (Z * bits) :=
  match read_ue bs with Some (k, r) => Some (se_of_ue k, r) | None => None end.
(* ReadSe before the repair: computed from the zero-initialised result *)
Definition read_se_d27 (bs : bits) : option (Z * bits) :=
  match read_ue bs with Some (_, r) => Some (0, r) | None => None end.

(* Go integer conversions *)
Definition wrapu (w v : Z) : Z := v mod 2 ^ w.
Definition wraps (w v : Z) : Z := (v + 2 ^ (w - 1)) mod 2 ^ w - 2 ^ (w - 1).

(* ------------------------------------------------------------ the encoder's primitives *)
Fixpoint ubits (n : nat) (v : Z) : bits :=
  match n with
  | O => []
  | S n' => let p := 2 ^ Z.of_nat n' in
            if p <=? v then true :: ubits n' (v - p) else false :: ubits n' v
  end.
(* ue(v), 9.1 of H.264 / H.265: codeNum = 2^n - 1 + suffix *)
Definition ue_bits (v : Z) : bits :=
  let n := Z.log2 (v + 1) in
  repeat false (Z.to_nat n) ++ true :: ubits (Z.to_nat n) (v + 1 - 2 ^ n).
(* se(v): k > 0 -> 2k-1, k <= 0 -> -2k *)
Definition ue_of_se (v : Z) : Z := if 0 <? v then 2 * v - 1 else - 2 * v.
Definition se_bits (v : Z) : bits := ue_bits (ue_of_se v).

Definition UE_MAX : Z := 2 ^ 32 - 2.

(* ------------------------------------------------------------ formats *)
Inductive fmt : Type :=
| Nop
| U (n max k : Z)                      (* u(n) read with readUint64(n,max) into field k *)
| UV (n : env -> Z) (max k : Z)        (* u(v), width computed from earlier fields *)
| UE (k hi w : Z)                      (* ue(v); legal range 0..hi; decoder keeps w bits *)
| SE (k lo hi w : Z)                   (* se(v); legal range lo..hi; decoder keeps w bits (signed) *)
| Skip (n v : Z)                       (* n reserved bits of value v, skipped unchecked by the decoder *)
| Seq (f g : fmt)
| If (c : env -> bool) (f g : fmt)
| Repeat (cnt : env -> Z) (body : Z -> fmt)   (* for i = 0 .. cnt-1 *)
| Set_ (k : Z) (v : env -> Z)          (* inferred / derived value *)
| Compute (t : env -> env)
| Assert (c : env -> bool).            (* decoder error / constraint of the standard *)

Infix ";;" := Seq (at level 61, right associativity).
Definition Flag (k : Z) : fmt := U 1 8 k.
Definition When (c : env -> bool) (f : fmt) : fmt := If c f Nop.

Section Parse.
  (* the se(v) reader is a parameter so that the pre-repair decoder can be stated *)
  Variable rse : bits -> option (Z * bits).

  Fixpoint parse_with (f : fmt) (a : env) (bs : bits) {struct f} : option (env * bits) :=
    match f with
    | Nop => Some (a, bs)
    | U n max k =>
      match go_read n max bs with Some (v, r) => Some (set a k v, r) | None => None end
    | UV n max k =>
      match go_read (n a) max bs with Some (v, r) => Some (set a k v, r) | None => None end
    | UE k _ w =>
      match read_ue bs with Some (v, r) => Some (set a k (wrapu w v), r) | None => None end
    | SE k _ _ w =>
      match rse bs with Some (v, r) => Some (set a k (wraps w v), r) | None => None end
    | Skip n _ =>
      match go_skip n bs with Some r => Some (a, r) | None => None end
    | Seq f g =>
      match parse_with f a bs with
      | Some (a', r) => parse_with g a' r
      | None => None
      end
    | If c f g => if c a then parse_with f a bs else parse_with g a bs
    | Repeat cnt body =>
      (fix loop (n : nat) (i : Z) (a : env) (bs : bits) {struct n} : option (env * bits) :=
         match n with
         | O => Some (a, bs)
         | S n' =>
           match parse_with (body i) a bs with
           | Some (a', r) => loop n' (i + 1) a' r
           | None => None
           end
         end) (Z.to_nat (cnt a)) 0 a bs
    | Set_ k v => Some (set a k (v a), bs)
    | Compute t => Some (t a, bs)
    | Assert c => if c a then Some (a, bs) else None
    end.
End Parse.

Definition parse := parse_with read_se.
Definition parse_d27 := parse_with read_se_d27.

Definition in_range (lo v hi : Z) : bool := (lo <=? v) && (v <=? hi).

(* the independent encoder: values from [e], control flow from the record built so far *)
Fixpoint emit (f : fmt) (e a : env) {struct f} : option (bits * env) :=
  match f with
  | Nop => Some ([], a)
  | U n max k =>
    let v := get e k in
    if (0 <? n) && (n <=? max) && (0 <=? v) && (v <? 2 ^ n)
    then Some (ubits (Z.to_nat n) v, set a k v) else None
  | UV n max k =>
    let v := get e k in
    if (0 <? n a) && (n a <=? max) && (0 <=? v) && (v <? 2 ^ (n a))
    then Some (ubits (Z.to_nat (n a)) v, set a k v) else None
  | UE k hi w =>
    let v := get e k in
    if (0 <=? v) && (v <=? hi) && (v <? 2 ^ w) && (v <=? UE_MAX) && (0 <? w) && (w <=? 32)
    then Some (ue_bits v, set a k v) else None
  | SE k lo hi w =>
    let v := get e k in
    if (lo <=? v) && (v <=? hi) && (- 2 ^ (w - 1) <=? v) && (v <? 2 ^ (w - 1))
       && (- (2 ^ 31 - 1) <=? v) && (v <=? 2 ^ 31 - 1) && (0 <? w) && (w <=? 32)
    then Some (se_bits v, set a k v) else None
  | Skip n v =>
    if (0 <? n) && (0 <=? v) && (v <? 2 ^ n) then Some (ubits (Z.to_nat n) v, a) else None
  | Seq f g =>
    match emit f e a with
    | Some (b1, a') =>
      match emit g e a' with Some (b2, a'') => Some (b1 ++ b2, a'') | None => None end
    | None => None
    end
  | If c f g => if c a then emit f e a else emit g e a
  | Repeat cnt body =>
    (fix loop (n : nat) (i : Z) (a : env) {struct n} : option (bits * env) :=
       match n with
       | O => Some ([], a)
       | S n' =>
         match emit (body i) e a with
         | Some (b1, a') =>
           match loop n' (i + 1) a' with Some (b2, a'') => Some (b1 ++ b2, a'') | None => None end
         | None => None
         end
       end) (Z.to_nat (cnt a)) 0 a
  | Set_ k v => Some ([], set a k (v a))
  | Compute t => Some ([], t a)
  | Assert c => if c a then Some ([], a) else None
  end.

(* refinement between two descriptions of the same syntax: whatever the first
   can encode, the second encodes identically (ranges of the second are wider,
   its truncating casts are harmless on the first's ranges) *)
Definition refines (s g : fmt) : Prop :=
  forall e a b a', emit s e a = Some (b, a') -> emit g e a = Some (b, a').

(* ------------------------------------------------------------ exact binary64 quotient *)
(* float64(n)/float64(d) for 0 <= n < 2^53, 0 < d < 2^53 (both conversions exact):
   the IEEE-754 bit pattern of the correctly rounded (nearest-even) quotient. *)
Definition f64_div_bits (n d : Z) : Z :=
  if n =? 0 then 0 else
  (* choose s with 2^52 <= floor(n*2^s/d) < 2^53 *)
  let e0 := Z.log2 n - Z.log2 d in                (* n/d in (2^(e0-1), 2^(e0+1)) *)
  let s0 := 52 - e0 in
  let scale (s : Z) := if 0 <=? s then (n * 2 ^ s, d) else (n, d * 2 ^ (- s)) in
  let q0 := let '(x, y) := scale s0 in x / y in
  let s := if q0 <? 2 ^ 52 then s0 + 1 else s0 in
  let '(x, y) := scale s in
  let q := x / y in
  let r := x - q * y in
  let q' := if (y <? 2 * r) || ((2 * r =? y) && Z.odd q) then q + 1 else q in
  (* value = q' * 2^-s ; q' in [2^52, 2^53] *)
  let '(m, ex) := if q' =? 2 ^ 53 then (2 ^ 52, 52 - s + 1) else (q', 52 - s) in
  (ex + 1023) * 2 ^ 52 + (m - 2 ^ 52).
