(* C06 — the part common to av/format/rtp/h264_depacketizer.go and
   h265_depacketizer.go: Depacketize dispatch, the aggregation loop
   (depacketizeStapa / depacketizeStap), the fragment buffer (depacketizeFuA /
   depacketizeFu) and the call into writeFrame.  What differs between the two
   files is a [codec] descriptor, filled in by C06H264Depack.v and
   C06H265Depack.v.  The model is the code *after* the fix: commits listed in
   known_findings/C06.json; the pre-fix behaviour is kept as gstep_prefix-style
   witnesses in the proofs.  Every index / slice of the Go code is a checked
   access here; a failing one is the outcome RPanic.

   Second half: the independent packetiser (plan -> packets), written from
   RFC 6184 / RFC 7798, not from the depacketiser.  No proofs here. *)
From Coq Require Import ZArith List Bool.
From V Require Import Bytes C06Rtp.
Import ListNotations.
Open Scope Z_scope.

(* ---- depacketiser ---- *)

(* writeFrame's own state: metaReady and which parameter sets the metadata has
   (a = VPS (H.265 only), b = SPS, c = PPS).  Width is taken as known, so
   MetadataIsReady is "all parameter sets present". *)
Record wst := mkW { w_ready : bool; w_a : bool; w_b : bool; w_c : bool }.

Inductive kind := KIgnore | KSingle | KAgg | KFu | KBad.

Record codec := mkC {
  c_kind : bytes -> kind;              (* Depacketize's switch incl. the minimal-length checks *)
  c_agg_off : Z;                       (* first size field of an aggregation packet *)
  c_fu_off : Z;                        (* FU data offset; the FU header is the byte before it *)
  c_start_returns : bool;              (* H.265: a start fragment is buffered and the function returns *)
  c_rebuild : bytes -> Z -> bytes;     (* NAL header of the reassembled unit, from the last fragment *)
  c_write : wst -> bytes -> option (wst * bool)   (* writeFrame: None = panic, bool = frame written *)
}.

(* fragment buffer: (SequenceNumber, Payload()) of the buffered packets, oldest first *)
Record gst := mkG { g_frags : list (Z * bytes); g_w : wst }.

Definition gwrite (c : codec) (w : wst) (ts : Z) (pl : bytes) : wst * res :=
  match c_write c w pl with
  | None => (w, RPanic)
  | Some (w', true) => (w', ROk [mkU ts pl])
  | Some (w', false) => (w', ROk [])
  end.

(* the for-loop of depacketizeStapa / depacketizeStap; rest = payload[off:].
   fuel = an upper bound of the iteration count (each round consumes >= 3 bytes) *)
Fixpoint agg_loop (c : codec) (fuel : nat) (w : wst) (ts : Z) (rest : bytes) : wst * res :=
  match fuel with
  | O => (w, RPanic)
  | S fuel' =>
    match rest with
    | hi :: lo :: rest1 =>                       (* off+2 <= len(payload) *)
      let n := hi * 256 + lo in                  (* uint16(payload[off])<<8 | uint16(payload[off+1]) *)
      if n <? 1 then (w, ROk [])
      else if zlen rest1 <? n then (w, RErr [])  (* off+nalSize > len(payload) *)
      else
        match gwrite c w ts (take n rest1) with
        | (w1, ROk fs) =>
            match drop n rest1 with
            | [] => (w1, ROk fs)                 (* off >= len(payload): break *)
            | rest2 => let '(w2, r) := agg_loop c fuel' w1 ts rest2 in (w2, res_cons fs r)
            end
        | (w1, r) => (w1, r)
        end
    | _ => (w, RErr [])                          (* truncated size field *)
    end
  end.

Definition last_seq (fr : list (Z * bytes)) : option Z :=
  match rev fr with [] => None | (s, _) :: _ => Some s end.

(* concatenation of fragment.Payload()[off:] over the buffer; None = slice out of range *)
Fixpoint fu_data (off : Z) (fr : list (Z * bytes)) : option bytes :=
  match fr with
  | [] => Some []
  | (_, pl) :: r =>
      if zlen pl <? off then None
      else match fu_data off r with Some d => Some (drop off pl ++ d) | None => None end
  end.

Definition fu_step (c : codec) (st : gst) (p : packet) : gst * res :=
  let pl := p_pl p in
  let w := g_w st in
  match idx pl (c_fu_off c - 1) with
  | None => (st, RPanic)
  | Some fuh =>
    let start := Z.land (Z.shiftr fuh 7) 1 =? 1 in
    let fin := Z.land (Z.shiftr fuh 6) 1 =? 1 in
    if start && c_start_returns c then (mkG [(p_seq p, pl)] w, ROk [])
    else
      let frags0 := if start then [] else g_frags st in
      let chained := match last_seq frags0 with
                     | None => start                 (* empty buffer: only a start fragment may enter *)
                     | Some ls => ls =? seq_prev (p_seq p)
                     end in
      if negb chained then (mkG [] w, ROk [])        (* packet loss: drop the unit *)
      else
        let frags1 := frags0 ++ [(p_seq p, pl)] in
        if negb fin then (mkG frags1 w, ROk [])
        else match fu_data (c_fu_off c) frags1 with
             | None => (mkG [] w, RPanic)
             | Some d =>
                 let '(w', r) := gwrite c w (p_ts p) (c_rebuild c pl fuh ++ d) in (mkG [] w', r)
             end
  end.

Definition gstep (c : codec) (st : gst) (p : packet) : gst * res :=
  let pl := p_pl p in
  match c_kind c pl with
  | KIgnore => (st, ROk [])
  | KBad => (st, RErr [])
  | KSingle => let '(w', r) := gwrite c (g_w st) (p_ts p) pl in (mkG (g_frags st) w', r)
  | KAgg =>
      let '(w', r) := agg_loop c (S (length pl)) (g_w st) (p_ts p) (drop (c_agg_off c) pl) in
      (mkG (g_frags st) w', r)
  | KFu => fu_step c st p
  end.

(* a packet sequence; a panic ends the demuxer goroutine: nothing after it is converted *)
Fixpoint grun (c : codec) (st : gst) (ps : list packet) : gst * list uframe * bool :=
  match ps with
  | [] => (st, [], false)
  | p :: r =>
      match gstep c st p with
      | (st', RPanic) => (st', [], true)
      | (st', rr) => let '(st'', fs, pn) := grun c st' r in (st'', res_frames rr ++ fs, pn)
      end
  end.

(* every buffered fragment is long enough for Payload()[off:] *)
Definition gst_wf (c : codec) (st : gst) : bool :=
  forallb (fun f => c_fu_off c <=? zlen (snd f)) (g_frags st).

(* ---- independent packetiser ---- *)

Inductive item :=
| ISingle (ts : Z) (mk : bool) (u : bytes)                      (* single NAL unit packet *)
| IAgg (ts : Z) (mk : bool) (us : list bytes)                   (* STAP-A / AP *)
| IFrag (ts : Z) (mk : bool) (u : bytes) (sizes : list Z).      (* FU-A / FU: chunk sizes, the rest goes last *)

Record pkz := mkZ {
  z_agg_hdr : list bytes -> bytes;            (* STAP-A NAL header / AP PayloadHdr *)
  z_fu_hdr : bytes -> bool -> bool -> bytes;  (* FU indicator (PayloadHdr) + FU header for (unit, S, E) *)
  z_fu_body : bytes -> bytes;                 (* the unit without its NAL header *)
  z_single_ok : bytes -> bool;                (* may travel as a single NAL unit packet *)
  z_frag_ok : bytes -> bool                   (* may be fragmented *)
}.

Definition agg_body (us : list bytes) : bytes := flat_map (fun u => be16 (zlen u) ++ u) us.

Fixpoint fu_pkts (z : pkz) (seq0 k ts : Z) (mk : bool) (u : bytes) (first : bool) (chunks : list bytes)
  : list packet :=
  match chunks with
  | [] => []
  | ch :: r =>
      match r with
      | [] => [mkP (seq_at seq0 k) ts mk (z_fu_hdr z u first true ++ ch)]
      | _ => mkP (seq_at seq0 k) ts false (z_fu_hdr z u first false ++ ch)
             :: fu_pkts z seq0 (k + 1) ts mk u false r
      end
  end.

Definition item_pkts (z : pkz) (seq0 k : Z) (it : item) : list packet :=
  match it with
  | ISingle ts mk u => [mkP (seq_at seq0 k) (ts32 ts) mk u]
  | IAgg ts mk us => [mkP (seq_at seq0 k) (ts32 ts) mk (z_agg_hdr z us ++ agg_body us)]
  | IFrag ts mk u sizes => fu_pkts z seq0 k (ts32 ts) mk u true (chunk_by sizes (z_fu_body z u))
  end.

Definition npk (it : item) : nat :=
  match it with IFrag _ _ _ sizes => S (length sizes) | _ => 1%nat end.

(* packet k of the stream carries sequence number (seq0 + k) mod 2^16 *)
Fixpoint packetize (z : pkz) (seq0 k : Z) (items : list item) : list packet :=
  match items with
  | [] => []
  | it :: r => item_pkts z seq0 k it ++ packetize z seq0 (k + Z.of_nat (npk it)) r
  end.

Definition item_ts (it : item) : Z :=
  match it with ISingle ts _ _ => ts | IAgg ts _ _ => ts | IFrag ts _ _ _ => ts end.
Definition item_units (it : item) : list bytes :=
  match it with ISingle _ _ u => [u] | IAgg _ _ us => us | IFrag _ _ u _ => [u] end.
Definition item_frames (it : item) : list uframe := map (mkU (ts32 (item_ts it))) (item_units it).

Definition agg_unit_ok (u : bytes) : bool := (1 <=? zlen u) && (zlen u <=? 65535) && all_bytes u.

Definition item_ok (z : pkz) (it : item) : bool :=
  match it with
  | ISingle _ _ u => z_single_ok z u && all_bytes u
  | IAgg _ _ us => negb (Nat.eqb (length us) 0) && forallb agg_unit_ok us
  | IFrag _ _ u sizes => z_frag_ok z u && all_bytes u && negb (Nat.eqb (length sizes) 0)
  end.

(* specification: what must come out under a loss pattern — exactly the units
   all of whose packets survive, in order ([keep] = writeFrame's deliberate
   filter: H.264 filler data) *)
Fixpoint spec_loss (keep : bytes -> bool) (items : list item) (mask : list bool) : list uframe :=
  match items with
  | [] => []
  | it :: r =>
      (if all_true (firstn (npk it) mask)
       then filter (fun f => keep (u_pl f)) (item_frames it) else [])
      ++ spec_loss keep r (skipn (npk it) mask)
  end.

Definition total_pk (items : list item) : nat := fold_right (fun it n => (npk it + n)%nat) 0%nat items.
