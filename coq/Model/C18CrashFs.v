(* C18: a file system under process death, and the two ways utils.EncodeJSONFile
   has written a JSON file.  A state maps a path to the content a reader would
   see ([None] = no such file).  Process death, not power loss: what has been
   written is visible whether or not it was synced.  No proofs in this file. *)
From Coq Require Import ZArith List Bool.
From V Require Import Bytes.
Import ListNotations.
Open Scope Z_scope.

Definition path := Z.
Definition fs := path -> option bytes.

Definition fupd (s : fs) (p : path) (c : option bytes) : fs :=
  fun q => if Z.eqb p q then c else s q.

Inductive fsop :=
| OpenTrunc (p : path)             (* os.OpenFile(p, O_CREATE|O_TRUNC|O_WRONLY) *)
| CreateTmp (p : path)             (* ioutil.TempFile: a new empty file *)
| Write (p : path) (d : bytes)     (* f.Write(d): appends; a crash inside leaves any prefix *)
| Sync (p : path)                  (* f.Chmod + f.Sync: content unchanged *)
| Close (p : path)
| Rename (a b : path)              (* os.Rename(a, b): b atomically gets a's content, a disappears *)
| Remove (p : path)
| OpenKeep (p : path)              (* os.OpenFile(p, O_CREATE|O_WRONLY) without O_TRUNC: an existing file keeps its content *)
| Overwrite (p : path) (d : bytes). (* f.Write(d) at offset 0 of a file opened that way: what lies beyond d stays *)

Definition apply (s : fs) (o : fsop) : fs :=
  match o with
  | OpenTrunc p => fupd s p (Some [])
  | CreateTmp p => fupd s p (Some [])
  | Write p d => match s p with Some c => fupd s p (Some (c ++ d)) | None => s end
  | Sync _ => s
  | Close _ => s
  | Rename a b => match s a with Some c => fupd (fupd s b (Some c)) a None | None => s end
  | Remove p => fupd s p None
  | OpenKeep p => match s p with Some _ => s | None => fupd s p (Some []) end
  | Overwrite p d => match s p with Some c => fupd s p (Some (d ++ skipn (length d) c)) | None => s end
  end.

Definition run (s : fs) (ops : list fsop) : fs := fold_left apply ops s.

(* the states strictly inside one operation: only a write can be torn *)
Definition partials (i : nat) (s : fs) (o : fsop) : list (nat * nat * fs) :=
  match o with
  | Write p d =>
      match s p with
      | Some c => map (fun k => (i, k, fupd s p (Some (c ++ firstn k d)))) (seq 1 (length d - 1))
      | None => []
      end
  | Overwrite p d =>
      match s p with
      | Some c => map (fun k => (i, k, fupd s p (Some (firstn k d ++ skipn k c)))) (seq 1 (length d - 1))
      | None => []
      end
  | _ => []
  end.

(* every state the disk can be in if the process dies while executing [ops]:
   (i, k, s) = i operations completed and k bytes of the next one written *)
Fixpoint crash_from (i : nat) (s : fs) (ops : list fsop) : list (nat * nat * fs) :=
  match ops with
  | [] => [(i, O, s)]
  | o :: r => (i, O, s) :: partials i s o ++ crash_from (S i) (apply s o) r
  end.
Definition crash_states (s : fs) (ops : list fsop) : list (nat * nat * fs) := crash_from O s ops.

(* utils.EncodeJSONFile after the D32 repair *)
Definition safe_flush (tgt tmp : path) (data : bytes) : list fsop :=
  [CreateTmp tmp; Write tmp data; Sync tmp; Close tmp; Rename tmp tgt].
(* ... and before it *)
Definition unsafe_flush (tgt : path) (data : bytes) : list fsop :=
  [OpenTrunc tgt; Write tgt data; Sync tgt; Close tgt].
(* a variant often written for portability: remove the target, then rename *)
Definition remove_rename_flush (tgt tmp : path) (data : bytes) : list fsop :=
  [CreateTmp tmp; Write tmp data; Sync tmp; Close tmp; Remove tgt; Rename tmp tgt].

(* a single well-known temporary name, opened without truncation and reused by the next flush *)
Definition reuse_flush (tgt tmp : path) (data : bytes) : list fsop :=
  [OpenKeep tmp; Overwrite tmp data; Sync tmp; Close tmp; Rename tmp tgt].

(* several flushes in a row, each one interrupted somewhere (or not: the last crash state of a flush is
   its completion), the server restarting in between: the state a crash leaves behind — stray temporary
   files with partial content included — is the start state of the next flush *)
Fixpoint crash_runs (s : fs) (flushes : list (list fsop)) : list fs :=
  match flushes with
  | [] => [s]
  | ops :: r => flat_map (fun x => crash_runs (snd x) r) (crash_states s ops)
  end.

(* the crash state with a given label (the start state if there is none) *)
Definition crash_pick (s : fs) (ops : list fsop) (i k : nat) : fs :=
  match find (fun x => Nat.eqb (fst (fst x)) i && Nat.eqb (snd (fst x)) k) (crash_states s ops) with
  | Some x => snd x
  | None => s
  end.

(* the names under which the hook points of utils/io.go report the steps *)
Definition op_name (o : fsop) : bytes :=
  match o with
  | OpenTrunc _ => [111;112;101;110]                    (* open *)
  | CreateTmp _ => [99;114;101;97;116;101]              (* create *)
  | Write _ _ => [119;114;105;116;101]                  (* write *)
  | Sync _ => [115;121;110;99]                          (* sync *)
  | Close _ => [99;108;111;115;101]                     (* close *)
  | Rename _ _ => [114;101;110;97;109;101]              (* rename *)
  | Remove _ => [114;101;109;111;118;101]               (* remove *)
  | OpenKeep _ => [99;114;101;97;116;101]               (* create *)
  | Overwrite _ _ => [119;114;105;116;101]              (* write *)
  end.

(* JSON is an oracle: [encode]/[decode] with the laws stated in the proofs file *)
Section Codec.
  Context {T : Type}.
  Variable decode : bytes -> option T.
  Variable dflt : T.                     (* LoadAll when the file does not exist *)
  Variable tgt : path.

  (* jsonProvider.LoadAll on a restart: None = error, the server panics at start *)
  Definition fload (s : fs) : option T :=
    match s tgt with None => Some dflt | Some b => decode b end.

  (* the oracle on what a restarted server loaded after a crash *)
  Variable teqb : T -> T -> bool.
  Definition loaded_ok (told tnew : T) (got : option T) : bool :=
    match got with Some t => teqb t told || teqb t tnew | None => false end.
  Definition crash_ok (told tnew : T) (loads : list (option T)) : bool :=
    forallb (loaded_ok told tnew) loads.
  (* one round of (flush, crash, restart): a completed flush must give exactly the new table,
     whatever earlier crashes left in the directory *)
  Definition round_ok (told tnew : T) (complete : bool) (got : option T) : bool :=
    if complete then match got with Some t => teqb t tnew | None => false end
    else loaded_ok told tnew got.
End Codec.
