(* C18: a file system under process death, and the two ways utils.EncodeJSONFile
   has written a JSON file.  A state maps a path to the content a reader would
   see ([None] = no such file).  Process death, not power loss: what has been
   written is visible whether or not it was synced.  No proofs in this file. *)
From Coq Require Import ZArith List Bool.
From V Require Import Bytes.
Import ListNotations.
Open Scope Z_scope.

Definition path := Z.
Definition fs := path -> option bytes.

Definition fupd (s : fs) (p : path) (c : option bytes) : fs :=
  fun q => if Z.eqb p q then c else s q.

Inductive fsop :=
| OpenTrunc (p : path)             (* os.OpenFile(p, O_CREATE|O_TRUNC|O_WRONLY) *)
| CreateTmp (p : path)             (* ioutil.TempFile: a new empty file *)
| Write (p : path) (d : bytes)     (* f.Write(d): appends; a crash inside leaves any prefix *)
| Sync (p : path)                  (* f.Chmod + f.Sync: content unchanged *)
| Close (p : path)
| Rename (a b : path)              (* os.Rename(a, b): b atomically gets a's content, a disappears *)
| Remove (p : path).

Definition apply (s : fs) (o : fsop) : fs :=
  match o with
  | OpenTrunc p => fupd s p (Some [])
  | CreateTmp p => fupd s p (Some [])
  | Write p d => match s p with Some c => fupd s p (Some (c ++ d)) | None => s end
  | Sync _ => s
  | Close _ => s
  | Rename a b => match s a with Some c => fupd (fupd s b (Some c)) a None | None => s end
  | Remove p => fupd s p None
  end.

Definition run (s : fs) (ops : list fsop) : fs := fold_left apply ops s.

(* the states strictly inside one operation: only a write can be torn *)
Definition partials (i : nat) (s : fs) (o : fsop) : list (nat * nat * fs) :=
  match o with
  | Write p d =>
      match s p with
      | Some c => map (fun k => (i, k, fupd s p (Some (c ++ firstn k d)))) (seq 1 (length d - 1))
      | None => []
      end
  | _ => []
  end.

(* every state the disk can be in if the process dies while executing [ops]:
   (i, k, s) = i operations completed and k bytes of the next one written *)
Fixpoint crash_from (i : nat) (s : fs) (ops : list fsop) : list (nat * nat * fs) :=
  match ops with
  | [] => [(i, O, s)]
  | o :: r => (i, O, s) :: partials i s o ++ crash_from (S i) (apply s o) r
  end.
Definition crash_states (s : fs) (ops : list fsop) : list (nat * nat * fs) := crash_from O s ops.

(* utils.EncodeJSONFile after the D32 repair *)
Definition safe_flush (tgt tmp : path) (data : bytes) : list fsop :=
  [CreateTmp tmp; Write tmp data; Sync tmp; Close tmp; Rename tmp tgt].
(* ... and before it *)
Definition unsafe_flush (tgt : path) (data : bytes) : list fsop :=
  [OpenTrunc tgt; Write tgt data; Sync tgt; Close tgt].
(* a variant often written for portability: remove the target, then rename *)
Definition remove_rename_flush (tgt tmp : path) (data : bytes) : list fsop :=
  [CreateTmp tmp; Write tmp data; Sync tmp; Close tmp; Remove tgt; Rename tmp tgt].

(* the names under which the hook points of utils/io.go report the steps *)
Definition op_name (o : fsop) : bytes :=
  match o with
  | OpenTrunc _ => [111;112;101;110]                    (* open *)
  | CreateTmp _ => [99;114;101;97;116;101]              (* create *)
  | Write _ _ => [119;114;105;116;101]                  (* write *)
  | Sync _ => [115;121;110;99]                          (* sync *)
  | Close _ => [99;108;111;115;101]                     (* close *)
  | Rename _ _ => [114;101;110;97;109;101]              (* rename *)
  | Remove _ => [114;101;109;111;118;101]               (* remove *)
  end.

(* JSON is an oracle: [encode]/[decode] with the laws stated in the proofs file *)
Section Codec.
  Context {T : Type}.
  Variable decode : bytes -> option T.
  Variable dflt : T.                     (* LoadAll when the file does not exist *)
  Variable tgt : path.

  (* jsonProvider.LoadAll on a restart: None = error, the server panics at start *)
  Definition fload (s : fs) : option T :=
    match s tgt with None => Some dflt | Some b => decode b end.

  (* the oracle on what a restarted server loaded after a crash *)
  Variable teqb : T -> T -> bool.
  Definition loaded_ok (told tnew : T) (got : option T) : bool :=
    match got with Some t => teqb t told || teqb t tnew | None => false end.
  Definition crash_ok (told tnew : T) (loads : list (option T)) : bool :=
    forallb (loaded_ok told tnew) loads.
End Codec.
