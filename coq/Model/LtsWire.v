(* wire encoding of schedule cases for the stream LTS, shared by C01–C04 *)
From Coq Require Import ZArith List Bool.
From V Require Import Val StreamLts Cache.
Import ListNotations.
Open Scope Z_scope.

Definition dec_pkt (v : val) : pkt := {| p_id := as_int (nthv 0 v); p_kind := as_int (nthv 1 v) |}.
Definition dec_tid (v : val) : tid :=
  let c := as_nat (nthv 1 v) in
  match as_int (nthv 0 v) with
  | 0 => TPub | 1 => TClose | 2 => TAtt c | 3 => TStop c | _ => TCons c
  end.
Definition dec_variant (v : val) : variant :=
  {| v_lock := as_bool (nthv 0 v); v_recheck := as_bool (nthv 1 v);
     v_push := as_bool (nthv 2 v); v_atomic := as_bool (nthv 3 v) |}.

(* case = (variant ncons maxq gopon pkts stoppers sched panic_at) *)
Record lcase := {
  l_var : variant; l_n : nat; l_maxq : nat; l_gop : bool;
  l_pkts : list pkt; l_stop : list bool; l_sched : list tid; l_panic : list nat }.
Definition dec_lcase (v : val) : lcase :=
  {| l_var := dec_variant (nthv 0 v); l_n := as_nat (nthv 1 v); l_maxq := as_nat (nthv 2 v);
     l_gop := as_bool (nthv 3 v); l_pkts := map dec_pkt (as_list (nthv 4 v));
     l_stop := map as_bool (as_list (nthv 5 v)); l_sched := map dec_tid (as_list (nthv 6 v));
     l_panic := map as_nat (as_list (nthv 7 v)) |}.

Definition lstate := st rcache.
Definition lrun (c : lcase) : lstate :=
  run (l_var c) (l_maxq c) rcache (rc_empty (l_gop c)) rc_add rc_snap (l_n c) (fun i => nth i (l_panic c) O) (l_sched c)
      (init rcache (rc_empty (l_gop c)) (l_pkts c) (fun i => nth i (l_stop c) false)).

Definition cpc_code (p : cpc) : Z :=
  match p with CNone => 0 | CPop => 1 | CGot _ => 2 | CWait => 3 | CExitLoaded => 4 | CDone => 5 end.
Definition ppc_code (p : ppc) : Z := match p with P0 => 0 | P1 => 1 | P1W => 3 | P2 => 2 end.
Definition apc_code (p : apc) : Z := match p with A0 => 0 | A0W => 3 | A1 => 1 | A2 => 2 | ADone => 5 end.
Definition spc_code (p : spc) : Z := match p with S0 => 0 | S1 => 1 | SDone => 5 end.
Definition kpc_code (p : kpc) : Z := match p with K0 => 0 | K1 => 1 | K2 => 2 | KDone => 5 end.

(* projected observables: per consumer (delivered ids, Close calls, goroutine position, registered,
   queue length and discarding when registered, attacher position, stopper position); then the
   counter, the status, the publisher position and how many packets remain, the closer position *)
Definition enc_cons (s : lstate) (c : nat) : val :=
  let k := s_cs _ s c in
  VL [ vlist (fun p => VI (p_id p)) (c_out k); vnat (c_closes k); VI (cpc_code (c_pc k));
       vbool (c_reg k);
       (if c_reg k then VI (Z.of_nat (length (c_q k))) else VI (-1));
       (if c_reg k then vbool (c_disc k) else VI 0);
       VI (apc_code (s_att _ s c)); VI (spc_code (s_stp _ s c));
       VI 1 (* every delivered packet is byte-identical to the published one: packets are never rebuilt *) ].

Definition enc_state (n : nat) (s : lstate) : val :=
  VL [ vlist (enc_cons s) (seq 0 n); VI (s_count _ s); vbool (s_ok _ s);
       VI (ppc_code (s_pp _ s)); vnat (length (s_todo _ s)); VI (kpc_code (s_kp _ s)) ].

Definition lts_run (v : val) : val :=
  let c := dec_lcase v in enc_state (l_n c) (lrun c).
