(* C09 — av/codec/aac/adtsheader.go NewADTSHeader, asc.go ToAdtsHeader and the
   part of AudioSpecificConfig.Decode exercised by a plain two-byte
   configuration; plus an independent ADTS frame parser used as the oracle for
   the audio elementary stream.  No proofs here. *)
From Coq Require Import ZArith List Bool.
From V Require Import Bytes.
Import ListNotations.
Open Scope Z_scope.

(* Go uint8 arithmetic *)
Definition a_u8 (z : Z) : Z := Z.land z 255.

(* NewADTSHeader(profile, sampleRateIdx, channelConfig uint8, payloadSize int) *)
Definition adts_header (profile sidx chan payloadSize : Z) : bytes :=
  let frameLen := payloadSize + 7 in
  let b2 := Z.land (a_u8 (Z.shiftl profile 6)) 0xc0 in
  let b2 := Z.lor b2 (Z.land (a_u8 (Z.shiftl sidx 2)) 0x3c) in
  let b2 := Z.lor b2 (Z.land (Z.shiftr chan 2) 0x01) in
  let b3 := Z.land (a_u8 (Z.shiftl chan 6)) 0xc0 in
  let b3 := Z.lor b3 (a_u8 (Z.land (Z.shiftr frameLen 11) 0x03)) in
  let b4 := a_u8 (Z.land (Z.shiftr frameLen 3) 0xff) in
  let b5 := a_u8 (Z.land (Z.shiftl frameLen 5) 0xe0) in
  let b5 := Z.lor b5 0x1f in
  [0xff; 0xf1; b2; b3; b4; b5; 0xfc].

(* the fields of an AudioSpecificConfig that ToAdtsHeader reads *)
Record asc := { asc_obj : Z; asc_sidx : Z; asc_chan : Z }.

(* AudioSpecificConfig.Decode on a two-byte configuration: 5 bits object
   type, 4 bits sampling index, 4 bits channel configuration, 3 bits left.
   [asc_plain] is the guard under which none of the SBR/PS/ALS/escape/explicit
   rate branches is entered and no extension is scanned (BitsLeft = 3 <= 15). *)
Definition asc_decode2 (c : bytes) : option asc :=
  match c with
  | [b0; b1] =>
      Some {| asc_obj := Z.shiftr b0 3;
              asc_sidx := Z.lor (Z.shiftl (Z.land b0 7) 1) (Z.shiftr b1 7);
              asc_chan := Z.land (Z.shiftr b1 3) 15 |}
  | _ => None
  end.

Definition asc_plain (a : asc) : bool :=
  (1 <=? asc_obj a) && (asc_obj a <=? 4) &&
  (0 <=? asc_sidx a) && (asc_sidx a <=? 12) &&
  (0 <=? asc_chan a) && (asc_chan a <=? 7).

(* asc.ToAdtsHeader: ExtSampleRate = 0 for a plain configuration *)
Definition to_adts_header (a : asc) (payloadSize : Z) : bytes :=
  adts_header (a_u8 (asc_obj a - 1)) (asc_sidx a) (asc_chan a) payloadSize.

(* ------------------------------------------------------------------ *)
(* independent parser (ISO 13818-7 6.2), arithmetic only *)

Record adts_frame := { ad_profile : Z; ad_sidx : Z; ad_chan : Z; ad_payload : bytes }.

(* one frame from the front of [s]; the rest is returned *)
Definition adts_parse1 (s : bytes) : option (adts_frame * bytes) :=
  match s with
  | h0 :: h1 :: h2 :: h3 :: h4 :: h5 :: h6 :: rest =>
      (* syncword 0xfff, ID (either MPEG version), layer 00, protection_absent 1 *)
      if (h0 =? 255) && (h1 / 16 =? 15) && ((h1 / 2) mod 4 =? 0) && (h1 mod 2 =? 1) then
        let flen := (h3 mod 4) * 2048 + h4 * 8 + h5 / 32 in
        let blocks := h6 mod 4 in
        if (7 <=? flen) && (flen - 7 <=? zlen rest) && (blocks =? 0) then
          Some ({| ad_profile := h2 / 64;
                   ad_sidx := (h2 / 4) mod 16;
                   ad_chan := (h2 mod 2) * 4 + h3 / 64;
                   ad_payload := take (flen - 7) rest |},
                drop (flen - 7) rest)
        else None
      else None
  | _ => None
  end.

(* a whole elementary stream: frames whose lengths chain exactly to the end *)
Fixpoint adts_parse_fuel (fuel : nat) (s : bytes) : option (list adts_frame) :=
  match s with
  | [] => Some []
  | _ =>
      match fuel with
      | O => None
      | S k =>
          match adts_parse1 s with
          | Some (f, rest) =>
              match adts_parse_fuel k rest with
              | Some l => Some (f :: l)
              | None => None
              end
          | None => None
          end
      end
  end.
Definition adts_parse (s : bytes) : option (list adts_frame) := adts_parse_fuel (length s) s.

Definition adts_frame_eqb (a b : adts_frame) : bool :=
  (ad_profile a =? ad_profile b) && (ad_sidx a =? ad_sidx b) && (ad_chan a =? ad_chan b) &&
  bytes_eqb (ad_payload a) (ad_payload b).

(* one ADTS frame as the packetizer emits it, and what the parser must return for it *)
Definition adts_frame_bytes (a : asc) (pay : bytes) : bytes := to_adts_header a (zlen pay) ++ pay.
Definition adts_expect (a : asc) (pay : bytes) : adts_frame :=
  {| ad_profile := asc_obj a - 1; ad_sidx := asc_sidx a; ad_chan := asc_chan a; ad_payload := pay |}.
