(* C06 — av/format/rtp/aac_depacketizer.go (depacketizeFor2ByteAUHeader,
   sizeLength 13 / indexLength 3), after the bounds-check fix, and the
   RFC 3640 AAC-hbr packetiser (one or several complete AUs per packet).
   The depacketiser is stateless.  No proofs here. *)
From Coq Require Import ZArith List Bool.
From V Require Import Bytes C06Rtp C06NalDepack.
Import ListNotations.
Open Scope Z_scope.

(* the for-loop: i < auHeadersCount; hdrs = auHeaders, data = framesPayload *)
Fixpoint aac_loop (n : nat) (ts : Z) (hdrs data : bytes) : res :=
  match n with
  | O => ROk []
  | S n' =>
      match hdrs with
      | h0 :: h1 :: hdrs' =>
          let size := Z.shiftr (h0 * 256 + h1) 3 in        (* auHeader >> indexLength *)
          if zlen data <? size then RErr []                (* AU size exceeds the payload *)
          else res_cons [mkU ts (take size data)]
                 (aac_loop n' (ts32 (ts + 1024)) hdrs' (drop size data))
      | _ => RPanic                                        (* auHeaders[0], auHeaders[1] *)
      end
  end.

Definition aac_step (p : packet) : res :=
  let pl := p_pl p in
  match pl with
  | b0 :: b1 :: _ =>
      let count := Z.shiftr (b0 * 256 + b1) 4 in           (* auHeadersLength >> 4 *)
      let off := 2 + 2 * count in                          (* 2 + int(auHeadersCount)<<1 *)
      if zlen pl <? off then RErr []
      else match slice pl 2 off with
           | None => RPanic
           | Some hdrs => aac_loop (Z.to_nat count) (p_ts p) hdrs (drop off pl)
           end
  | _ => RErr []                                           (* len(payload) < 2 *)
  end.

Fixpoint aac_run (ps : list packet) : list uframe * bool :=
  match ps with
  | [] => ([], false)
  | p :: r =>
      match aac_step p with
      | RPanic => ([], true)
      | rr => let '(fs, pn) := aac_run r in (res_frames rr ++ fs, pn)
      end
  end.

(* ---- packetiser, RFC 3640 AAC-hbr ---- *)
Definition aac_payload (aus : list bytes) : bytes :=
  be16 (16 * Z.of_nat (length aus))                           (* AU-headers-length in bits *)
  ++ flat_map (fun au => be16 (8 * zlen au)) aus              (* 13-bit size, 3-bit index = 0 *)
  ++ concat aus.

Definition aac_units (it : item) : list bytes := item_units it.

(* one packet per item: ISingle = one AU, IAgg = several AUs; (IFrag is not a
   legal AAC-hbr plan here and is sent like a single AU) *)
Definition aac_item_pkt (seq0 k : Z) (it : item) : packet :=
  mkP (seq_at seq0 k) (ts32 (item_ts it))
      (match it with ISingle _ mk _ => mk | IAgg _ mk _ => mk | IFrag _ mk _ _ => mk end)
      (aac_payload (aac_units it)).

Fixpoint packetize_aac (seq0 k : Z) (items : list item) : list packet :=
  match items with
  | [] => []
  | it :: r => aac_item_pkt seq0 k it :: packetize_aac seq0 (k + 1) r
  end.

(* AU i of a packet is stamped ts + 1024*i (uint32) *)
Fixpoint aac_frames_from (ts : Z) (aus : list bytes) : list uframe :=
  match aus with
  | [] => []
  | au :: r => mkU ts au :: aac_frames_from (ts32 (ts + 1024)) r
  end.
Definition aac_item_frames (it : item) : list uframe :=
  aac_frames_from (ts32 (item_ts it)) (aac_units it).

Definition au_ok (au : bytes) : bool := (zlen au <=? 8191) && all_bytes au.
Definition aac_item_ok (it : item) : bool :=
  (1 <=? Z.of_nat (length (aac_units it))) && (Z.of_nat (length (aac_units it)) <=? 4095)
  && forallb au_ok (aac_units it).

Fixpoint aac_spec_loss (items : list item) (mask : list bool) : list uframe :=
  match items with
  | [] => []
  | it :: r =>
      (match mask with true :: _ => aac_item_frames it | _ => [] end)
      ++ aac_spec_loss r (tl mask)
  end.
