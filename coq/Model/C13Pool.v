(* C13, WebSocket half: "frames (and responses) are first assembled in a pooled buffer and written
   as one WebSocket message".  The staging buffers are a resource shared by every goroutine of the
   package (service/wsp: Session.Consume, Session.process, both handshakes; service/rtsp:
   tcpConsumer.Consume wsconn branch, Session.response wsconn branch):

       buf := buffers.Get() [a bytes.Buffer pointer]; buf.Reset(); defer buffers.Put(buf)
       ... buf.Write(chunk) ...            (several steps)
       conn.Write(buf.Bytes())             (one WebSocket message, under the write lock)

   Model: the pool is a multiset of buffer identities; a goroutine is a straight-line program over
   local pointer variables; the content of a buffer is shared state indexed by identity.  The step
   function models the code AS WRITTEN, also for programs that break the discipline (second Put,
   use after Put, no Reset, a package-level buffer): then two goroutines can hold the same identity.
   No proofs here (Proofs/C13PoolProofs.v). *)
From Coq Require Import ZArith List Bool Arith.
From V Require Import Bytes.
Import ListNotations.

Definition bid := nat.      (* identity of a *bytes.Buffer *)
Definition pvar := nat.     (* local variable of a goroutine that holds such a pointer *)
Definition wconn := nat.    (* a WebSocket connection *)

Inductive instr :=
| IGet (v : pvar) (reset : bool)   (* v = buffers.Get(); if reset then v.Reset() *)
| IAlias (v : pvar) (b : bid)      (* v = a package-level buffer (no pool); v.Reset() *)
| IWrite (v : pvar) (c : bytes)    (* v.Write(c) *)
| ISend (v : pvar) (k : wconn)     (* k.Write(v.Bytes()): one WebSocket message on k *)
| IPut (v : pvar).                 (* buffers.Put(v) *)

Definition upd {A} (f : nat -> A) (k : nat) (x : A) : nat -> A :=
  fun k' => if Nat.eqb k' k then x else f k'.

Record pthread := {
  p_prog : list instr;
  p_env : pvar -> option bid;             (* the pointer stays in the variable after Put *)
  (* ghost *)
  p_held : list (pvar * bid);             (* got from the pool and not yet put back *)
  p_want : pvar -> bytes                  (* what the goroutine has composed in v since its Get *)
}.

Record pstate := {
  ps_pool : list bid;
  ps_next : bid;                          (* next fresh identity (sync.Pool.New) *)
  ps_mem : bid -> bytes;                  (* content of every buffer *)
  ps_thr : nat -> pthread;
  ps_out : list (wconn * nat * bytes);    (* messages sent: connection, sender, bytes *)
  (* ghost *)
  ps_int : list (wconn * nat * bytes)     (* the same with what the sender had composed *)
}.

Definition pthread0 (prog : list instr) : pthread :=
  {| p_prog := prog; p_env := fun _ => None; p_held := []; p_want := fun _ => [] |}.

Definition pinit (progs : list (list instr)) : pstate :=
  {| ps_pool := []; ps_next := O; ps_mem := fun _ => []; ps_thr := fun t => pthread0 (nth t progs []);
     ps_out := []; ps_int := [] |}.

Fixpoint remove_nth {A} (i : nat) (l : list A) : list A :=
  match l, i with
  | [], _ => []
  | _ :: r, O => r
  | x :: r, S j => x :: remove_nth j r
  end.

Definition drop_var (v : pvar) (h : list (pvar * bid)) : list (pvar * bid) :=
  filter (fun e => negb (Nat.eqb (fst e) v)) h.

Definition set_thr (s : pstate) (t : nat) (th : pthread) : nat -> pthread := upd (ps_thr s) t th.

(* one step of goroutine t.  [choice] resolves sync.Pool's freedom: Get hands out the choice-th pooled
   buffer, or allocates a fresh one when there is none at that position. *)
Definition pstep (s : pstate) (t : nat) (choice : nat) : option pstate :=
  let th := ps_thr s t in
  match p_prog th with
  | [] => None
  | IGet v reset :: rest =>
      let '(b, pool', next') :=
        match nth_error (ps_pool s) choice with
        | Some b => (b, remove_nth choice (ps_pool s), ps_next s)
        | None => (ps_next s, ps_pool s, S (ps_next s))
        end in
      (* a fresh buffer is empty; without Reset a pooled one keeps what its last user left *)
      let mem' := if reset then upd (ps_mem s) b [] else ps_mem s in
      Some {| ps_pool := pool'; ps_next := next'; ps_mem := mem';
              ps_thr := set_thr s t {| p_prog := rest; p_env := upd (p_env th) v (Some b);
                                       p_held := (v, b) :: p_held th; p_want := upd (p_want th) v [] |};
              ps_out := ps_out s; ps_int := ps_int s |}
  | IAlias v b :: rest =>
      Some {| ps_pool := ps_pool s; ps_next := ps_next s; ps_mem := upd (ps_mem s) b [];
              ps_thr := set_thr s t {| p_prog := rest; p_env := upd (p_env th) v (Some b);
                                       p_held := p_held th; p_want := upd (p_want th) v [] |};
              ps_out := ps_out s; ps_int := ps_int s |}
  | IWrite v c :: rest =>
      let th' := {| p_prog := rest; p_env := p_env th; p_held := p_held th;
                    p_want := upd (p_want th) v (p_want th v ++ c) |} in
      match p_env th v with
      | Some b =>
          Some {| ps_pool := ps_pool s; ps_next := ps_next s; ps_mem := upd (ps_mem s) b (ps_mem s b ++ c);
                  ps_thr := set_thr s t th'; ps_out := ps_out s; ps_int := ps_int s |}
      | None =>
          Some {| ps_pool := ps_pool s; ps_next := ps_next s; ps_mem := ps_mem s;
                  ps_thr := set_thr s t th'; ps_out := ps_out s; ps_int := ps_int s |}
      end
  | ISend v k :: rest =>
      let th' := {| p_prog := rest; p_env := p_env th; p_held := p_held th; p_want := p_want th |} in
      let sent := match p_env th v with Some b => ps_mem s b | None => [] end in
      Some {| ps_pool := ps_pool s; ps_next := ps_next s; ps_mem := ps_mem s; ps_thr := set_thr s t th';
              ps_out := ps_out s ++ [(k, t, sent)]; ps_int := ps_int s ++ [(k, t, p_want th v)] |}
  | IPut v :: rest =>
      let th' := {| p_prog := rest; p_env := p_env th; p_held := drop_var v (p_held th); p_want := p_want th |} in
      match p_env th v with
      | Some b =>
          Some {| ps_pool := b :: ps_pool s; ps_next := ps_next s; ps_mem := ps_mem s; ps_thr := set_thr s t th';
                  ps_out := ps_out s; ps_int := ps_int s |}
      | None =>
          Some {| ps_pool := ps_pool s; ps_next := ps_next s; ps_mem := ps_mem s; ps_thr := set_thr s t th';
                  ps_out := ps_out s; ps_int := ps_int s |}
      end
  end.

(* a schedule: which goroutine runs next and what the pool does when it is asked *)
Fixpoint prun (sched : list (nat * nat)) (s : pstate) : pstate :=
  match sched with
  | [] => s
  | (t, ch) :: r => prun r (match pstep s t ch with Some s' => s' | None => s end)
  end.

(* ---------- the discipline: a static predicate on a goroutine's program ----------
   every Get is a Get+Reset into a variable that holds nothing, every use and the one Put of a
   variable happen while it holds a buffer (so: exactly one Put per Get, after the last use) *)
Definition has_var (v : pvar) (held : list pvar) : bool := existsb (Nat.eqb v) held.
Definition drop_v (v : pvar) (held : list pvar) : list pvar := filter (fun x => negb (Nat.eqb x v)) held.

Fixpoint disc (held : list pvar) (prog : list instr) : bool :=
  match prog with
  | [] => true
  | IGet v reset :: r => reset && negb (has_var v held) && disc (v :: held) r
  | IAlias _ _ :: _ => false
  | IWrite v _ :: r => has_var v held && disc held r
  | ISend v _ :: r => has_var v held && disc held r
  | IPut v :: r => has_var v held && disc (drop_v v held) r
  end.

Definition disciplined (progs : list (list instr)) : bool := forallb (disc []) progs.

(* ---------- what a program says it sends: a function of the program text alone ---------- *)
Fixpoint prog_msgs (k : wconn) (want : pvar -> bytes) (prog : list instr) : list bytes :=
  match prog with
  | [] => []
  | IGet v _ :: r => prog_msgs k (upd want v []) r
  | IAlias v _ :: r => prog_msgs k (upd want v []) r
  | IWrite v c :: r => prog_msgs k (upd want v (want v ++ c)) r
  | ISend v k' :: r => (if Nat.eqb k' k then [want v] else []) ++ prog_msgs k want r
  | IPut _ :: r => prog_msgs k want r
  end.

Definition intended (k : wconn) (prog : list instr) : list bytes := prog_msgs k (fun _ => []) prog.

(* messages of sender t on connection k, in order *)
Definition sent_by (k : wconn) (t : nat) (l : list (wconn * nat * bytes)) : list bytes :=
  map snd (filter (fun e => Nat.eqb (fst (fst e)) k && Nat.eqb (snd (fst e)) t) l).
Definition on_conn (k : wconn) (l : list (wconn * nat * bytes)) : list (nat * bytes) :=
  map (fun e => (snd (fst e), snd e)) (filter (fun e => Nat.eqb (fst (fst e)) k) l).

Definition pfinished (n : nat) (s : pstate) : bool :=
  forallb (fun t => match p_prog (ps_thr s t) with [] => true | _ => false end) (seq 0 n).

(* ---------- oracle applied to the implementation ---------- *)
Fixpoint set_nth {A} (i : nat) (x : A) (l : list A) : list A :=
  match l, i with
  | [], _ => []
  | _ :: r, O => x :: r
  | y :: r, S j => y :: set_nth j x r
  end.

(* the observed WebSocket messages of one connection are, message by message, an order-preserving
   interleaving of the senders' intended message lists: every message IS one intended message *)
Fixpoint ok_inter (ls : list (list bytes)) (obs : list bytes) : bool :=
  match obs with
  | [] => forallb (fun l => match l with [] => true | _ => false end) ls
  | m :: r =>
      existsb (fun i => match nth i ls [] with
                        | h :: tl => bytes_eqb h m && ok_inter (set_nth i tl ls) r
                        | [] => false
                        end) (seq 0 (length ls))
  end.

Fixpoint nodupb (l : list nat) : bool :=
  match l with
  | [] => true
  | x :: r => negb (existsb (Nat.eqb x) r) && nodupb r
  end.

(* observation: per connection the messages a client read, and the pool drained after the history *)
Definition ok_pool (progs : list (list instr)) (obs : list (wconn * list bytes)) (drained : list bid) : bool :=
  forallb (fun e => ok_inter (map (intended (fst e)) progs) (snd e)) obs && nodupb drained.

Definition pobserve (conns : list wconn) (s : pstate) : list (wconn * list bytes) :=
  map (fun k => (k, map snd (on_conn k (ps_out s)))) conns.

(* the ownership probe taken while goroutines are parked: nothing held is in the pool or held twice *)
Definition all_held (n : nat) (s : pstate) : list bid :=
  flat_map (fun t => map snd (p_held (ps_thr s t))) (seq 0 n).
