(* C09 — the transport stream as it is written for HLS: mpegts packetizers ->
   hls.SegmentGenerator -> one mpegts.Writer per segment.  The segment generator
   (C10's subject) decides where segments are cut and which consecutive AAC
   frames are flushed together; whatever it decides, every segment is a Writer
   stream whose frames are
     - the video frames as packetized, and
     - per audio group ONE frame: Header = ADTS header of the first AAC frame,
       Payload = first AU ++ (ADTS header ++ AU) of the following ones, PTS = the
       jitter-corrected time of the first (within 100 ms of it).
   [hplan] is an arbitrary such decision; the oracle [ok_hls] does not see it.
   No proofs here. *)
From Coq Require Import ZArith List Bool.
From V Require Import Bytes C09Adts C09TsFrame C09TsWriter C09TsDemux.
Import ListNotations.
Open Scope Z_scope.

Inductive hitem :=
| HVideo (af : aframe)                    (* a forwarded NAL unit with the parameter sets current at its time *)
| HAudio (pts : Z) (g : list cframe).     (* an audio group flushed as one PES at [pts] (90 kHz) *)

Definition hplan := list (list hitem).    (* segments, each a list of items in writing order *)

(* SegmentGenerator: headerFrame := *frame (keeps frame.Header), afCacheBuff = Payload of the first,
   then Header ++ Payload of every following frame; flushAudioCache writes it as one frame *)
Definition group_frame (a : asc) (pts : Z) (g : list cframe) : tsframe :=
  match g with
  | [] => {| f_pid := TS_AUDIO_PID; f_sid := TS_AUDIO_AAC; f_dts := pts; f_pts := pts;
             f_hdr := []; f_pay := []; f_key := false |}
  | c0 :: rest =>
      {| f_pid := TS_AUDIO_PID; f_sid := TS_AUDIO_AAC; f_dts := pts; f_pts := pts;
         f_hdr := to_adts_header a (zlen (c_pay c0));
         f_pay := c_pay c0 ++ concat (map (fun c => adts_frame_bytes a (c_pay c)) rest);
         f_key := false |}
  end.

Definition video_frame (sps pps : bytes) (c : cframe) (t : Z) : tsframe :=
  {| f_pid := TS_VIDEO_PID; f_sid := TS_VIDEO_AVC;
     f_dts := to_90k (c_dts c); f_pts := to_90k (c_pts c);
     f_hdr := prepare_avc_header sps pps t; f_pay := c_pay c; f_key := t =? 5 |}.

Definition item_frame (a : asc) (it : hitem) : tsframe :=
  match it with
  | HVideo af => video_frame (a_sps af) (a_pps af) (a_c af)
                   (match nal_type (c_pay (a_c af)) with Some t => t | None => 0 end)
  | HAudio pts g => group_frame a pts g
  end.

Definition hls_model (a : asc) (plan : hplan) : list bytes :=
  map (fun seg => ts_write_all (map (item_frame a) seg)) plan.

(* the source frames a plan carries, per medium, in order *)
Definition item_videos (it : hitem) : list aframe := match it with HVideo af => [af] | HAudio _ _ => [] end.
Definition item_audios (it : hitem) : list cframe := match it with HVideo _ => [] | HAudio _ g => g end.
Definition plan_videos (plan : hplan) : list aframe := flat_map item_videos (concat plan).
Definition plan_audios (plan : hplan) : list cframe := flat_map item_audios (concat plan).

(* ---------------- oracle ---------------- *)
(* every segment is a transport stream of its own: PAT, PMT, units (continuity per PID inside) *)
Fixpoint collect_units (segs : list bytes) : option (list tsunit) :=
  match segs with
  | [] => Some []
  | s :: segs' =>
      match ts_units s with
      | Some (pat :: pmt :: us) =>
          if psi_ok pat pmt then
            match collect_units segs' with
            | Some more => Some (us ++ more)
            | None => None
            end
          else None
      | _ => None
      end
  end.

Fixpoint frames_match (a : asc) (frs : list adts_frame) (cs : list cframe) : bool :=
  match frs, cs with
  | [], [] => true
  | fr :: frs', c :: cs' => adts_frame_eqb fr (adts_expect a (c_pay c)) && frames_match a frs' cs'
  | _, _ => false
  end.

Definition HLS_AAC_DELAY_90K : Z := 9000.   (* 100 ms: reach of the audio time correction *)

(* an audio unit: ADTS frames whose lengths chain and whose payloads are the next
   source AAC frames in order; returns the source frames still to come *)
Definition audio_unit_take (a : asc) (u : tsunit) (auds : list cframe) : option (list cframe) :=
  if negb (unit_flags_ok TS_AUDIO_PID 0 false u) then None else
  match parse_pes (u_data u) with
  | Some p =>
      if negb ((p_sid p =? TS_AUDIO_AAC) && optz_eqb (p_dts p) None) then None else
      match adts_parse (p_payload p) with
      | Some (fr :: frs) =>
          let n := length (fr :: frs) in
          match auds with
          | c0 :: _ =>
              if frames_match a (fr :: frs) (firstn n auds) &&
                 (Z.abs (p_pts p - to_90k (c_pts c0)) <=? HLS_AAC_DELAY_90K)
              then Some (skipn n auds) else None
          | [] => None
          end
      | _ => None
      end
  | None => None
  end.

Definition hls_video_unit_ok (a : asc) (af : aframe) (u : tsunit) : bool :=
  c_video (a_c af) && asrc_unit_ok a af u.

Fixpoint hls_walk (a : asc) (us : list tsunit) (vids : list aframe) (auds : list cframe) : bool :=
  match us with
  | [] => match vids, auds with [], [] => true | _, _ => false end
  | u :: us' =>
      if u_pid u =? TS_VIDEO_PID then
        match vids with
        | af :: vids' => hls_video_unit_ok a af u && hls_walk a us' vids' auds
        | [] => false
        end
      else if u_pid u =? TS_AUDIO_PID then
        match audio_unit_take a u auds with
        | Some auds' => hls_walk a us' vids auds'
        | None => false
        end
      else false
  end.

(* [vids]: the source NAL units that are carried, each with the SPS/PPS current when it was pushed, [auds]: the source AAC frames with data,
   both in source order; [segs]: the bytes of the segments in order *)
Definition ok_hls (a : asc) (vids : list aframe) (auds : list cframe) (segs : list bytes) : bool :=
  match collect_units segs with
  | Some us => hls_walk a us vids auds
  | None => false
  end.

(* guards on a plan *)
Definition wf_hvideo (c : cframe) : bool :=
  c_video c && ns_ok (c_pts c) && ns_ok (c_dts c) &&
  match nal_type (c_pay c) with Some t => negb (is_paramset_type t) | None => false end.
Definition wf_haudio (c : cframe) : bool :=
  match c_pay c with [] => false | _ => zlen (c_pay c) + 7 <? 8192 end.
Definition wf_hitem (it : hitem) : bool :=
  match it with
  | HVideo af => wf_hvideo (a_c af)
  | HAudio pts g =>
      match g with
      | [] => false
      | c0 :: _ => forallb wf_haudio g && (0 <=? pts) && (pts <? M33) &&
                   (Z.abs (pts - to_90k (c_pts c0)) <=? HLS_AAC_DELAY_90K)
      end
  end.
Definition wf_hplan (a : asc) (plan : hplan) : bool :=
  asc_plain a && forallb (forallb wf_hitem) plan.

(* ---- elementary-stream-only variant for the end-to-end stream (media.NewStream fed with
   RTP): time stamps come from the wall clock there, so only structure is demanded: every
   unit is video, RAI (and a PCR) exactly on key frames, PES payload = AUD, the in-band
   SPS/PPS current at that time on key frames, start code, the source NAL unit *)
Definition es_video_unit_ok (af : aframe) (u : tsunit) : bool :=
  match nal_type (c_pay (a_c af)) with
  | Some t =>
      (u_pid u =? TS_VIDEO_PID) && Bool.eqb (u_rai u) (t =? 5) &&
      (if t =? 5 then match u_pcr u with Some _ => true | None => false end else true) &&
      match parse_pes (u_data u) with
      | Some p => (p_sid p =? TS_VIDEO_AVC) &&
                  bytes_eqb (p_payload p) (spec_video_es (a_sps af) (a_pps af) (c_pay (a_c af)) t)
      | None => false
      end
  | None => false
  end.

Definition ok_hls_es (vids : list aframe) (segs : list bytes) : bool :=
  match collect_units segs with
  | Some us => units_ok es_video_unit_ok vids us
  | None => false
  end.
